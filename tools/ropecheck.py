"""shared driver of the rope-group checks C09 (rope histories) and C10 (slot-array histories)"""
import os, sys, random, json
sys.path.insert(0, os.path.dirname(os.path.abspath(__file__)))
from vlib import *
import gen_rope, wbsync

def gen_cases(prop, seed, tier, budget=1.0):
    rng = random.Random(seed)
    nv = gen_rope.V()
    cases, dist = [], {}
    cdir = os.path.join(V, 'corpus', prop)
    if os.path.isdir(cdir):
        for f in sorted(os.listdir(cdir)):
            cases += [l.strip() for l in open(os.path.join(cdir, f)) if l.strip() and not l.startswith('#')]
    dist['corpus_cases'] = len(cases)
    if prop == 'C09':
        n, nops = (120, 70) if tier == 'quick' else (3000, 150)
        n = int(n * budget)
        for i in range(n):
            ops = gen_rope.rope_history(rng, rng.choice([10, nops, nops, 2 * nops]), nv, dist)
            cases.append(f"r{i} ROPE " + ';'.join(ops))
        big = 2 if tier == 'quick' else 8
        for i in range(big):   # long histories: carries through many chunks, big ropes
            ops = gen_rope.rope_history(rng, 1500 if tier == 'quick' else 4000, nv, dist, maxinit=[300, 700, 40, 1200][i % 4] if tier != 'quick' else [300, 700][i % 2], reads=False)
            cases.append(f"R{i} ROPE " + ';'.join(ops + ['len', 'into']))
    else:
        n, nops = (500, 40) if tier == 'quick' else (12000, 60)
        n = int(n * budget)
        for i in range(n):
            cap = rng.choice([1, 2, 3, 4, 4, 5, 8, 16, 16, 16])
            cases.append(f"s{i} SLOTS {cap} " + ';'.join(gen_rope.slots_history(rng, cap, nops, nv, dist)))
    return cases, dist

def case_ops(line):
    parts = line.split(' ', 2)
    if parts[1] == 'SLOTS':
        cap, rest = parts[2].split(' ', 1)
        return parts[0], 'SLOTS ' + cap, [o.strip() for o in rest.split(';') if o.strip()]
    return parts[0], 'ROPE', [o.strip() for o in parts[2].split(';') if o.strip()]

def impl_run(res, wb, cases, tag):
    f = os.path.join(WORK, f'cases_{res.prop}_{tag}.txt')
    open(f, 'w').write('\n'.join(cases) + '\n')
    rc, lines = run_lines([wb, f], timeout=3000)
    if rc != 0:
        res.add_broken('correspondence', 'wb run', f"rc={rc} {' '.join(lines[-2:])}")
    invalid = [l for l in lines if l.startswith('INVALID-CASE')]
    lines = [l for l in lines if not l.startswith('INVALID-CASE')]
    obs, fails = split_oracle(lines)
    recs = []
    res.invalid_cases = len(invalid)
    by_id = {c.split(' ', 1)[0]: c for c in cases}
    for fl in fails:
        cid = fl.split()[1].split('.')[0]
        recs.append({'group': 'rope', 'case': by_id.get(cid, cid), 'what': fl, 'signature': fl})
    if res.prop == 'C10':
        # the slot oracle lives here: a plain list under the same operations
        byc = {}
        for l in obs:
            byc.setdefault(l.split('.', 1)[0], []).append(l)
        for c in cases:
            cid, kind, ops = case_ops(c)
            if not kind.startswith('SLOTS'): continue
            for msg in gen_rope.slots_oracle(int(kind.split()[1]), ops, byc.get(cid, [])):
                if msg.startswith('INVALID-CASE'):
                    res.invalid_cases += 1; continue
                recs.append({'group': 'slots', 'case': c, 'what': 'ORACLE-FAIL ' + msg, 'signature': msg})
    return f, obs, recs

def shrink_case(res, wb, case):
    """remove ops (keeping the construction) while some oracle failure persists"""
    cid, kind, ops = case_ops(case)
    def fails(ops):
        c = f"x {kind} " + ';'.join(ops)
        tmp = Result(res.prop, 'quick', 0)
        _, _, recs = impl_run(tmp, wb, [c], f'shrink{os.getpid()}')
        if tmp.invalid_cases: return None
        return recs[0]['what'] if recs else None
    what = fails(ops)
    if not what: return case, None
    chunk = max(1, (len(ops) - 1) // 2)
    while chunk >= 1:
        i = 1
        while i < len(ops):
            cand = ops[:i] + ops[i + chunk:]
            w = fails(cand) if len(cand) >= 1 else None
            if w: ops, what = cand, w
            else: i += chunk
        chunk //= 2
    return f"shrunk {kind} " + ';'.join(ops), what

def apply_shrink(res, wb, recs):
    c, w = shrink_case(res, wb, recs[0]['case'])
    recs[0]['case'] = c
    if w:
        recs[0]['original_failure'] = recs[0]['what']; recs[0]['what'] = w; recs[0]['signature'] = w

def main(prop, rule):
    a = std_args()
    res = Result(prop, a.tier, a.seed)
    wbsync.sync()
    wb = cargo_build(res, os.path.join(V, 'harness', 'wb'), 'wb')
    if a.replay:
        r = json.load(open(a.replay))
        print(json.dumps(r, indent=1))
        if r.get('kind') != 'failing-input' or not wb: return 1
        _, obs, recs = impl_run(res, wb, [r['case']], 'replay')
        print('\n'.join(obs)); print('\n'.join(x['what'] for x in recs))
        return 1 if recs else 0
    consts = step_translate(res, ['rope', 'arith_rope', 'arith_slots'] if prop == 'C09' else ['rope', 'slots_iter', 'arith_slots'])
    step_proofs(res, prop, [f'props/{prop}.vo'])
    if a.tier == 'thorough':
        coqchk(res, [f'Props.{prop}'])
    cases, dist = gen_cases(prop, a.seed, a.tier)
    obs = []
    if wb:
        casefile, obs, recs = impl_run(res, wb, cases, a.tier)
        res.oracle_fail = recs
        if recs:
            apply_shrink(res, wb, recs)
    drv = build_ocaml(res, 'rope', 'Rope') if not any(k == 'translator' for k, _, _ in res.broken) else None
    if drv and wb:
        rc, model = run_lines([drv, casefile], timeout=3000)
        if rc != 0:
            res.add_broken('correspondence', 'model driver run', ' '.join(model[-2:]))
        dis = compare(model, obs)
        if dis:
            i, m, im = dis[0]
            res.add_broken('correspondence', 'layout/observation of the model differs from the implementation',
                           f"model: {m[:300]} | impl: {im[:300]} ({len(dis)}+ differing lines)")
        res.coverage['traces_validated_against_impl'] = len(obs) - len(dis)
    res.evaluations = len(obs)
    for c in cases:
        res.nontrivial.add(sha(c.split(' ', 1)[1]))
    # measured boundary hits from the implementation's own layouts
    for l in obs:
        if '|' in l:
            if ' / ' in l: dist['obs_multi_chunk'] = dist.get('obs_multi_chunk', 0) + 1
            if l.count(' / ') >= 3: dist['obs_4plus_chunks'] = dist.get('obs_4plus_chunks', 0) + 1
        if l.endswith('PANIC'): dist['obs_panic_reads'] = dist.get('obs_panic_reads', 0) + 1
    res.coverage['input_distribution'] = dist
    res.coverage['histories'] = len(cases)
    res.rule = rule
    res.samples = [cases[0][:400], cases[len(cases) // 2][:400]] + obs[:2]
    def search():
        if not wb: return []
        cs, _ = gen_cases(prop, a.seed + 7919, 'thorough', budget=0.5)
        tmp = Result(prop, a.tier, a.seed)
        _, ob2, recs = impl_run(tmp, wb, cs, 'search')
        res.coverage['search'] = {'histories': len(cs), 'observations': len(ob2), 'oracle_failures': len(recs)}
        if recs:
            apply_shrink(res, wb, recs)
        return recs
    return finish(res, search)
