"""The derive-level properties as stated, evaluated on the implementation's observations (python values from gen_derive).
R / Eqv transcribe R_s / Eq_s of coq/derive/DProofs4.v (the relations the theorems are about)."""
import gen_derive as G

def get(m, k):
    for a, b in m:
        if a == k: return b
    return None

def R(top, sh, a, b, r, path='', out=None):
    """r is an acceptable result of patching a towards b; appends human-readable reasons to out"""
    out = [] if out is None else out
    if sh.kind == 'E':
        if r != b: out.append(f"{path}: enum value is {G.vtext(r)}, expected the new value {G.vtext(b)}")
        return out
    if r[0] != 't' or len(r[1]) != len(sh.fields):
        out.append(f"{path}: not a struct of this shape"); return out
    for i, f in enumerate(sh.fields):
        Rf(top, f, a[1][i], b[1][i], r[1][i], f"{path}.f{i}", out)
    return out

def Rf(top, f, x, y, r, path, out):
    s = f.strat
    if s in ('Pi', 'Po', 'Pe', 'L', 'M'):
        if r != y: out.append(f"{path} ({s}): {G.vtext(r)} but the new value is {G.vtext(y)}")
    elif s == 'K':
        if top:
            if r != x: out.append(f"{path} (skip, top level): changed from {G.vtext(x)} to {G.vtext(r)}")
        elif r != x and r != y: out.append(f"{path} (skip, nested): {G.vtext(r)} is neither the old {G.vtext(x)} nor the new {G.vtext(y)}")
    elif s == 'R':
        R(False, f.sub, x, y, r, path, out)
    elif s == 'Q':
        if y[0] == 'n':
            if r[0] != 'n': out.append(f"{path} (recurse+Option): expected None")
        elif x[0] == 's':
            if r[0] != 's': out.append(f"{path} (recurse+Option): expected Some")
            else: R(False, f.sub, x[1], y[1], r[1], path, out)
        elif r != y: out.append(f"{path} (recurse+Option None->Some): {G.vtext(r)} but the new value is {G.vtext(y)}")
    elif s == 'U':
        if sorted(r[1]) != sorted(y[1]): out.append(f"{path} (unordered): {sorted(r[1])} is not the new multiset {sorted(y[1])}")
    elif s == 'N':
        if [k for k, _ in r[1]] != sorted(k for k, _ in y[1]) and sorted(k for k, _ in r[1]) != sorted(k for k, _ in y[1]):
            out.append(f"{path} (recursive map): keys {[k for k, _ in r[1]]} are not the new keys {[k for k, _ in y[1]]}"); return
        if len(set(k for k, _ in r[1])) != len(r[1]): out.append(f"{path} (recursive map): a key occurs twice")
        for k, vy in y[1]:
            vr, vx = get(r[1], k), get(x[1], k)
            if vr is None: continue
            if vx is None:
                if vr != vy: out.append(f"{path}[{k}] (new key): {G.vtext(vr)} but the new value is {G.vtext(vy)}")
            elif f.ko:
                if vr != vx and vr != vy: out.append(f"{path}[{k}] (key-only, retained): neither the old nor the new value")
            else:
                R(False, f.sub, vx, vy, vr, f"{path}[{k}]", out)

def Eqv(sh, x, y):
    if sh.kind == 'E': return x == y
    return all(Eqf(f, a, b) for f, a, b in zip(sh.fields, x[1], y[1]))

def Eqf(f, x, y):
    s = f.strat
    if s in ('Pi', 'Po', 'Pe', 'L', 'M'): return x == y
    if s == 'K': return True
    if s == 'R': return Eqv(f.sub, x, y)
    if s == 'Q': return (x[0] == 'n' and y[0] == 'n') or (x[0] == 's' and y[0] == 's' and Eqv(f.sub, x[1], y[1]))
    if s == 'U': return sorted(x[1]) == sorted(y[1])
    if s == 'N':
        if sorted(k for k, _ in x[1]) != sorted(k for k, _ in y[1]): return False
        return True if f.ko else all(Eqv(f.sub, v, get(y[1], k)) for k, v in x[1])
    raise ValueError(s)

def skipped_kept(sh, x, r):
    """top-level skipped fields of r are exactly x's"""
    if sh.kind == 'E': return []
    return [f"f{i} (skip) changed from {G.vtext(x[1][i])} to {G.vtext(r[1][i])}" for i, f in enumerate(sh.fields) if f.strat == 'K' and r[1][i] != x[1][i]]

def differs(f, x, y):
    """does field f differ between x and y in the sense of its strategy (C04)"""
    s = f.strat
    if s == 'K': return False
    if s == 'U': return sorted(x[1]) != sorted(y[1])
    if s == 'N' and f.ko: return sorted(k for k, _ in x[1]) != sorted(k for k, _ in y[1])
    return x != y        # plain, Option, nested (all fields, skipped included: derived PartialEq), ordered, maps

def split_entries(text):
    """top-level entries of a canonical entry list '[e e e]'"""
    assert text[0] == '[' and text[-1] == ']', text
    import re
    start = re.compile(r'(?:[PRQFLUMN]\d+[=\[{SN]|E=)')
    body, out, depth, cur = text[1:-1], [], 0, ''
    for j, ch in enumerate(body):
        if ch in '[({<': depth += 1
        elif ch in '])}>': depth -= 1
        if ch == ' ' and depth == 0 and start.match(body, j + 1):     # plain Option values ("P4=s 100") contain spaces
            if cur: out.append(cur); cur = ''
        else: cur += ch
    if cur: out.append(cur)
    return out

def entry_field(e):
    """index of the field an entry names (None for an enum replacement)"""
    if e.startswith('E='): return None
    j = 1
    while j < len(e) and e[j].isdigit(): j += 1
    return int(e[1:j])

def check_pair(prop, sh, a, b, x, sub, o):
    """o: dict tag -> observation text (canonical); returns failure strings for property prop"""
    f = []
    P = lambda t: G.parse_vtext(o[t]) if t in o and o[t] != 'PANIC' else None
    REL = {'C01': ('D', 'A'), 'C02': ('D', 'X'), 'C03': ('D', 'S', 'A', 'X'), 'C04': ('D', 'DR'), 'C05': ('D', 'DR', 'XR', 'ARR', 'A', 'X'),
           'C06': ('D', 'A', 'AR', 'AM', 'AS', 'A2', 'AR2', 'AM2', 'AS2'), 'C13': ('D', 'A', 'X')}[prop]
    if any(o.get(t) == 'PANIC' for t in REL):
        return [f"panic in {[t for t in REL if o.get(t) == 'PANIC']}"]
    if any(v.startswith('?') for t, v in o.items() if t in ('D', 'DR')):
        return [f"unparsable diff rendering: {o.get('D', '')[:120]}"]
    ents = split_entries(o['D']) if 'D' in o else []
    idx = [entry_field(e) for e in ents]
    ca, cb, cx = G.canon_val(sh, a), G.canon_val(sh, b), G.canon_val(sh, x)
    if prop in ('C01', 'C13'):
        r = P('A')
        if r is not None: f += R(True, sh, ca, cb, r, 'apply(a, diff(a,b))')
    if prop in ('C02', 'C13'):
        r = P('X')
        if r is not None:
            if not Eqv(sh, r, cb): f.append(f"follower base equivalent to a, after applying diff(a,b): {G.vtext(r)} is not equivalent to b = {G.vtext(cb)}")
            f += ['follower: ' + m for m in skipped_kept(sh, cx, r)]
    if prop == 'C03':
        if sh.kind == 'S':
            for i in idx:
                if sh.fields[i].strat == 'K': f.append(f"an entry was produced for the skipped field f{i}")
            r = P('S')
            if r is not None and ents:
                seen, picked = set(), set()
                for s_ in sub:
                    k = s_ % len(ents)
                    if k not in seen: seen.add(k); picked.add(idx[k])
                for i, fd in enumerate(sh.fields):
                    if i in picked:
                        out = []; Rf(True, fd, ca[1][i], cb[1][i], r[1][i], f"subset-applied f{i}", out); f += out
                    elif r[1][i] != ca[1][i]:
                        f.append(f"field f{i} not named by any applied entry changed from {G.vtext(ca[1][i])} to {G.vtext(r[1][i])}")
            for t in ('A', 'X', 'S'):
                r = P(t)
                if r is not None: f += [f"{t}: " + m for m in skipped_kept(sh, cx if t == 'X' else ca, r)]
    if prop in ('C04', 'C13'):
        if sh.kind == 'E':
            want = [] if a == b else [f"E={G.vtext(b)}"]
            if ents != want: f.append(f"enum diff is {ents}, expected {want}")
        else:
            want = [i for i, fd in enumerate(sh.fields) if differs(fd, a[1][i], b[1][i])]
            if idx != want: f.append(f"diff names fields {idx}, but exactly the fields {want} differ (declaration order)")
            dr = [entry_field(e) for e in split_entries(o['DR'])] if 'DR' in o else None
            if dr is not None and dr != want: f.append(f"diff_ref names fields {dr}, but exactly the fields {want} differ")
    if prop == 'C05':
        dr = split_entries(o['DR']) if 'DR' in o else []
        if len(dr) != len(ents): f.append(f"diff_ref yields {len(dr)} entries, diff yields {len(ents)}")
        elif [entry_field(e) for e in dr] != idx: f.append(f"diff_ref names fields {[entry_field(e) for e in dr]}, diff names {idx}")
        if o.get('ARR') != o.get('A'): f.append(f"diff_ref->into applied to a gives {o.get('ARR')}, diff gives {o.get('A')}")
        if o.get('XR') != o.get('X'): f.append(f"diff_ref->into applied to an equivalent base gives {o.get('XR')}, diff gives {o.get('X')}")
    if prop == 'C06':
        vals = {t: o.get(t) for t in ('A', 'AR', 'AM', 'AS')}
        if len(set(vals.values())) != 1: f.append(f"apply / apply_ref / apply_mut / apply_single disagree: {vals}")
        vals = {t: o.get(t) for t in ('A2', 'AR2', 'AM2', 'AS2')}
        if len(set(vals.values())) != 1: f.append(f"on the concatenation of diff(a,b) and diff(b,c) apply / apply_ref / apply_mut / apply_single disagree: {vals}")
    return f

def check_hist(prop, sh, states, f0, o):
    f = []
    if prop == 'C06':
        vals = {t: o.get(t) for t in ('HA', 'HAR', 'HAM', 'HAS')}
        if 'HA' in o and len(set(vals.values())) != 1: f.append(f"on the concatenation of the {o.get('HN', '?')} entries of {len(states) - 1} successive diffs apply / apply_ref / apply_mut / apply_single disagree: {vals}")
        return f
    if prop not in ('C02',): return f
    c0 = G.canon_val(sh, f0)
    for k in range(1, len(states)):
        t = f"H{k}"
        if t not in o: f.append(f"no follower state after step {k}"); break
        if o[t] == 'PANIC': f.append(f"panic at step {k}"); break
        r = G.parse_vtext(o[t])
        if not Eqv(sh, r, G.canon_val(sh, states[k])): f.append(f"after step {k} the follower {o[t]} is not equivalent to the leader {G.vtext(G.canon_val(sh, states[k]))}"); break
        sk = skipped_kept(sh, c0, r)
        if sk: f.append(f"after step {k}: follower's own " + sk[0]); break
    return f

def check_setters(sh, x, ops, o):
    """C15 on the implementation's observations: o maps E<k>/V<k>/REPLAY to canonical text"""
    f = []
    if any(v == 'PANIC' for v in o.values()): return [f"panic in {[t for t, v in o.items() if v == 'PANIC']}"]
    cur = G.canon_val(sh, x)
    raw = list(x[1])          # the field values as given (element order of Vec-typed unordered fields matters for ==)
    for k, (fi, v) in enumerate(ops):
        fd = sh.fields[fi]
        e, after = o.get(f"E{k}"), o.get(f"V{k}")
        if e is None or after is None: f.append(f"no observation for setter call {k}"); break
        if e == 'NOSETTER': f.append(f"field f{fi} should have a generated setter"); break
        if e.startswith('?'): f.append(f"unparsable entry {e[:100]}"); break
        newv = G.canon_val(G.Sh('S', [fd]), ('t', [v]))[1][0]
        want_entry = differs(fd, raw[fi], v)
        if (e != '-') != want_entry:
            f.append(f"setter call {k} on f{fi} ({fd.strat}): returned {'an entry' if e != '-' else 'nothing'} but the strategy sees {'a change' if want_entry else 'no change'} from {G.vtext(raw[fi])} to {G.vtext(v)}")
        raw[fi] = v
        if e != '-' and entry_field(e) != fi: f.append(f"setter call {k} on f{fi} returned an entry for field {entry_field(e)}")
        av = G.parse_vtext(after)
        for j in range(len(sh.fields)):
            if j == fi:
                if av[1][j] != newv: f.append(f"setter call {k}: field f{fi} holds {G.vtext(av[1][j])}, not the given value {G.vtext(newv)}")
            elif av[1][j] != cur[1][j]: f.append(f"setter call {k} on f{fi} changed field f{j}")
        cur = av
    if 'REPLAY' in o and not f:
        r = G.parse_vtext(o['REPLAY'])
        if not Eqv(sh, r, cur): f.append(f"replaying the returned entries on a copy of the initial value gives {o['REPLAY']}, not equivalent to the final value {G.vtext(cur)}")
        f += ['replay: ' + m for m in skipped_kept(sh, G.canon_val(sh, x), r)]
    return f
