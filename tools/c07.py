#!/usr/bin/env python3
"""C07: ordered list diff round trip (both public algorithms)."""
import os, sys, random, json
sys.path.insert(0, os.path.dirname(os.path.abspath(__file__)))
from vlib import *
import gen_ord

PROP = 'C07'

def gen_cases(seed, n, maxlen, cutoff, tier='quick'):
    rng = random.Random(seed)
    cases, dist = [], {}
    # corpus first
    cdir = os.path.join(V, 'corpus', PROP)
    if os.path.isdir(cdir):
        for f in sorted(os.listdir(cdir)):
            for l in open(os.path.join(cdir, f)):
                l = l.strip()
                if l and not l.startswith('#'):
                    cases.append(l)
    k = len(cases)
    for i in range(n):
        cls, t, s = gen_ord.gen_case(rng, maxlen, cutoff)
        gen_ord.classify(cls, t, s, cutoff, dist)
        cases.append(gen_ord.line(i, t, s))
    # lopsided / long-run pairs around 256 (and further in the thorough tier): narrow-integer arithmetic only shows there
    for j, (cls, t, s) in enumerate(gen_ord.gen_wide(random.Random(seed + 3), tier)):
        gen_ord.classify(cls, t, s, cutoff, dist)
        cases.append(gen_ord.line(f"w{j}", t, s))
    dist['corpus_cases'] = k
    return cases, dist

def run_impl(res, bb, casefile, shards=0):
    # the long oracle-only cases take minutes each in a debug build: one process per couple of cases
    rc, lines = run_lines_sharded([bb, 'ord'], casefile, shards=shards, min_per_shard=1) if shards else run_lines([bb, 'ord', casefile])
    if rc != 0:
        res.add_broken('correspondence', 'bb ord run', f"rc={rc} {' '.join(lines[-3:])}")
    return split_oracle(lines)

def oracle_fail_records(fails, cases_by_id):
    out = []
    for f in fails:
        parts = f.split()
        cid = parts[1]
        out.append({'group': 'ord', 'case': cases_by_id.get(cid, cid), 'what': f, 'signature': f})
    return out

def shrink(bb, case_line):
    """delta-debug the two lists while the oracle still fails"""
    toks = case_line.split()
    n = int(toks[2]); t = toks[3:3 + n]; m = int(toks[4 + n]); s = toks[5 + n:5 + n + m]
    tmp = os.path.join(WORK, f'shrink_{PROP}_{os.getpid()}.txt')
    def fails(t, s):
        open(tmp, 'w').write(f"x T {len(t)} {' '.join(t)} S {len(s)} {' '.join(s)}\n")
        rc, lines = run_lines([bb, 'ord', tmp], timeout=60)
        return any(l.startswith('ORACLE-FAIL') for l in lines)
    if not fails(t, s):
        return case_line
    changed = True
    while changed:
        changed = False
        for which in (0, 1):
            cur = [t, s][which]
            chunk = max(1, len(cur) // 2)
            while chunk >= 1:
                i = 0
                while i < len(cur):
                    cand = cur[:i] + cur[i + chunk:]
                    tt, ss = (cand, s) if which == 0 else (t, cand)
                    if fails(tt, ss):
                        cur = cand; t, s = tt, ss; changed = True
                    else:
                        i += chunk
                chunk //= 2
    try: os.remove(tmp)
    except OSError: pass
    return f"shrunk T {len(t)} {' '.join(t)} S {len(s)} {' '.join(s)}"

def main():
    a = std_args()
    res = Result(PROP, a.tier, a.seed)
    if a.replay:
        return replay(a.replay)
    consts = step_translate(res, ['ordered', 'arith_ordered'])
    step_proofs(res, PROP, ['props/C07.vo'])
    if a.tier == 'thorough':
        coqchk(res, ['Props.C07'])
    cutoff = min(consts.get('LEVENSHTEIN_CUTOFF', 8), 64)
    n, maxlen = (2500, 90) if a.tier == 'quick' else (12000, 200)
    cases, dist = gen_cases(a.seed, n, maxlen, cutoff, a.tier)
    long_cases = []
    if a.tier == 'thorough':   # long lists (rope rebalancing while patching): oracle on the implementation only (the Peano-nat model is O(n*m*cost))
        rng = random.Random(a.seed + 1)
        for i in range(24):
            L = rng.choice([600, 1000, 2500, 5000])
            t = [rng.randrange(6) for _ in range(L)]; s = gen_ord.mutate(rng, t, rng.randint(1, 40), 6)
            long_cases.append(gen_ord.line(f"L{i}", t, s)); dist['long_oracle_only'] = dist.get('long_oracle_only', 0) + 1
        for i, L in enumerate([65535, 65536, 65537, 70000]):      # past the width of u16: one side tiny, the other huge
            t = [rng.randrange(6) for _ in range(L)]; few = [rng.randrange(6) for _ in range(rng.randint(0, 5))]
            long_cases.append(gen_ord.line(f"X{i}a", t, few)); long_cases.append(gen_ord.line(f"X{i}b", few, t)); dist['huge_lopsided_oracle_only'] = dist.get('huge_lopsided_oracle_only', 0) + 2
    casefile = os.path.join(WORK, f'cases_{PROP}_{a.tier}.txt')
    os.makedirs(WORK, exist_ok=True)
    open(casefile, 'w').write('\n'.join(cases) + '\n')
    by_id = {c.split()[0]: c for c in cases}
    bb = cargo_build(res, os.path.join(V, 'harness', 'bb'), 'bb')
    drv = build_ocaml(res, 'ordered', 'Ordered') if not any(k == 'translator' for k, _, _ in res.broken) else None
    impl_obs, fails = ([], [])
    if bb:
        impl_obs, fails = run_impl(res, bb, casefile)
        res.oracle_fail = oracle_fail_records(fails, by_id)
        if long_cases:
            f3 = os.path.join(WORK, f'cases_{PROP}_long.txt'); open(f3, 'w').write('\n'.join(long_cases) + '\n')
            _, lf = run_impl(res, bb, f3, shards=16)
            res.oracle_fail += oracle_fail_records(lf, {c.split()[0]: c for c in long_cases})
        if res.oracle_fail:
            res.oracle_fail[0]['case'] = shrink(bb, res.oracle_fail[0]['case'])
    if drv and bb:
        rc, model = run_lines_sharded([drv], casefile)
        if rc != 0:
            res.add_broken('correspondence', 'model driver run', ' '.join(model[-3:]))
        selff = [l for l in model if l.startswith('MODEL-SELF-FAIL')]
        model = [l for l in model if not l.startswith('MODEL-SELF-FAIL')]
        if selff:
            res.add_broken('correspondence', 'model self-check', selff[0])
        dis = compare(model, impl_obs)
        if dis:
            i, m, im = dis[0]
            cid = (m if m != '<missing>' else im).split()[0]
            res.add_broken('correspondence', 'script of the model differs from the script of the implementation',
                           f"case {by_id.get(cid, cid)[:300]} model: {m[:200]} impl: {im[:200]} ({len(dis)}+ differing lines)")
        res.coverage['traces_validated_against_impl'] = len(impl_obs) - len(dis)
    res.evaluations = len(cases)
    for l in impl_obs:
        p = l.split(' ', 2)
        if len(p) == 3 and p[1] == 'H' and p[2] not in ('-', 'PANIC'):
            res.nontrivial.add(sha(by_id.get(p[0], p[0]).split(' ', 1)[1]))
            for k, tag in (('D(', 'script_has_delete'), ('I(', 'script_has_insert'), ('R(', 'script_has_replace')):
                if k in p[2]: dist[tag] = dist.get(tag, 0) + 1
            if any(x.startswith('D(') and not x.endswith(',-)') for x in p[2].split(';')):
                dist['script_has_ranged_delete'] = dist.get('script_has_ranged_delete', 0) + 1
        elif len(p) == 3 and p[1] == 'H':
            dist['script_absent'] = dist.get('script_absent', 0) + 1
    res.coverage['input_distribution'] = dist
    res.rule = ("seeded pairs of integer lists in the classes of gen_ord.py (both sides <=/> cutoff, empty sides, equal, near-identical, "
                "repetitive alphabets, disjoint, shifted, lengths around the cutoff); each is run through hirschberg and levenshtein of /repo "
                "and of the extracted model; scripts compared verbatim; oracle = apply(diff(t,s), s) == t into Vec/LinkedList/VecDeque and "
                "absent iff equal. non-trivial = distinct (t,s) with a non-empty hirschberg script")
    res.samples = cases[-3:] + impl_obs[-2:]
    def search():
        if not bb:
            return []
        cs, _ = gen_cases(a.seed + 7919, 30000, 300, cutoff)
        f2 = os.path.join(WORK, f'cases_{PROP}_search.txt')
        open(f2, 'w').write('\n'.join(cs) + '\n')
        _, fl = run_impl(Result(PROP, a.tier, a.seed), bb, f2)
        res.coverage['search'] = {'cases': len(cs), 'oracle_failures': len(fl)}
        recs = oracle_fail_records(fl, {c.split()[0]: c for c in cs})
        if recs:
            recs[0]['case'] = shrink(bb, recs[0]['case'])
        return recs
    return finish(res, search)

def replay(path):
    r = json.load(open(path))
    res = Result(PROP, 'quick', 0)
    bb = cargo_build(res, os.path.join(V, 'harness', 'bb'), 'bb')
    if r.get('kind') != 'failing-input' or not bb:
        print(json.dumps(r, indent=1)); return 1 if not bb else 0
    tmp = os.path.join(WORK, 'replay_case.txt')
    open(tmp, 'w').write(r['case'] + '\n')
    rc, lines = run_lines([bb, 'ord', tmp])
    print('\n'.join(lines))
    return 1 if any(l.startswith('ORACLE-FAIL') for l in lines) else 0

if __name__ == '__main__':
    sys.exit(main())
