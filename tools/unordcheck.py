"""shared driver of the unordered-collection checks C11 (array round trip), C12 (flat map round trip),
C19 (total patching of any base), C20 (minimal change lists)."""
import os, sys, random, json
sys.path.insert(0, os.path.dirname(os.path.abspath(__file__)))
from vlib import *
import gen_unord as G

GROUPS = {'C11': ['ua'], 'C12': ['mf'], 'C19': ['ua', 'mf'], 'C20': ['ua', 'mf']}

def gen_cases(prop, seed, n):
    rng = random.Random(seed)
    dist = {}
    out = {}
    cdir = os.path.join(V, 'corpus', prop)
    corpus = []
    if os.path.isdir(cdir):
        for f in sorted(os.listdir(cdir)):
            corpus += [l.strip() for l in open(os.path.join(cdir, f)) if l.strip() and not l.startswith('#')]
    for g in GROUPS[prop]:
        cases = [c for c in corpus if (c[0] == 'u') == (g == 'ua')]
        meta = {}
        for i in range(n):
            if g == 'ua':
                p, c, b = G.gen_ua(rng, dist); line = G.ua_line(i, p, c, b); meta[f"u{i}"] = (p, c, b)
            else:
                ko, p, c, b, dup = G.gen_mf(rng, dist); line = G.mf_line(i, ko, p, c, b, dup); meta[line.split()[0]] = (ko, p, c, b, dup)
            cases.append(line)
        out[g] = (cases, meta)
    dist['corpus_cases'] = len(corpus)
    return out, dist

def parse_case(g, line):
    t = line.split()
    def sec(at):
        n = int(t[at + 1]); return [int(x) for x in t[at + 2:at + 2 + n]], at + 2 + n
    if g == 'ua':
        p, at = sec(1); c, at = sec(at); b, _ = sec(at); return (p, c, b)
    ko = t[2] == '1'
    p, at = sec(3); c, at = sec(at); b, _ = sec(at)
    pr = lambda l: list(zip(l[0::2], l[1::2]))
    return (ko, pr(p), pr(c), pr(b), t[0].startswith('x'))

def run_group(res, prop, g, bb, drv, cases, tag, want_model=True):
    f = os.path.join(WORK, f'cases_{prop}_{g}_{tag}.txt')
    open(f, 'w').write('\n'.join(cases) + '\n')
    rc, lines = run_lines([bb, g, f], timeout=1800)
    if rc != 0:
        res.add_broken('correspondence', f'bb {g} run', f"rc={rc} {' '.join(lines[-2:])}")
    canon = G.canon_ua if g == 'ua' else G.canon_mf
    obs, byid = [], {}
    for l in lines:
        p = l.split(' ', 2)
        if len(p) < 2: continue
        val = p[2] if len(p) > 2 else ''
        if p[1] in ('D', 'D2'): val = canon(val)
        byid.setdefault(p[0], {})[p[1]] = val
        if p[1] != 'D2': obs.append(f"{p[0]} {p[1]} {val}")
    fails = []
    for c in cases:
        cid = c.split()[0]
        o = byid.get(cid, {})
        D, A, B = o.get('D', 'PANIC'), o.get('A', 'PANIC' if o.get('D') == 'PANIC' else '-'), o.get('B', 'PANIC' if o.get('D') == 'PANIC' else '-')
        pc = parse_case(g, c)
        if g == 'ua':
            msgs = G.oracle_ua(prop, pc[0], pc[1], pc[2], D, A, B)
            if 'D2' in o and o['D2'] != D and not ((D.startswith('Replace') or D.startswith('Modify')) and o['D2'] == D):
                msgs.append(f"the same multisets held in a LinkedList give a different diff: {o['D2'][:80]} vs {D[:80]}")
        else:
            msgs = [] if pc[4] else G.oracle_mf(prop, pc[0], pc[1], pc[2], pc[3], D, A, B)
        for m in msgs:
            fails.append({'group': g, 'case': c, 'what': f"ORACLE-FAIL {cid} {m}", 'signature': m})
    dis = []
    if want_model and drv:
        rc, model = run_lines([drv, g, f], timeout=1800)
        if rc != 0:
            res.add_broken('correspondence', f'model driver run ({g})', ' '.join(model[-2:]))
        dis = compare(model, obs)
        if dis:
            i, m, im = dis[0]
            cid = (m if m != '<missing>' else im).split()[0]
            case = next((c for c in cases if c.split()[0] == cid), cid)
            res.add_broken('correspondence', f'{g}: diff / patched result of the model differs from the implementation',
                           f"case {case[:240]} | model: {m[:200]} | impl: {im[:200]} ({len(dis)}+ differing lines)")
    return obs, fails, dis, byid

def main(prop, rule):
    a = std_args()
    res = Result(prop, a.tier, a.seed)
    bb = cargo_build(res, os.path.join(V, 'harness', 'bb'), 'bb')
    if a.replay:
        r = json.load(open(a.replay)); print(json.dumps(r, indent=1))
        if r.get('kind') != 'failing-input' or not bb: return 1
        obs, fails, _, _ = run_group(res, prop, r['group'], bb, None, [r['case']], 'replay', want_model=False)
        print('\n'.join(obs)); print('\n'.join(f['what'] for f in fails))
        return 1 if fails else 0
    step_translate(res, ['arith_unord_map'] if prop == 'C12' else ['arith_unord_array', 'arith_unord_map'] if prop in ('C19', 'C20') else ['arith_unord_array'])
    step_proofs(res, prop, [f'props/{prop}.vo'])
    if a.tier == 'thorough':
        coqchk(res, [f'Props.{prop}'])
    drv = build_ocaml(res, 'unord', 'Unord')
    n = 4000 if a.tier == 'quick' else 60000
    groups, dist = gen_cases(prop, a.seed, n)
    samples = []
    validated = 0
    for g, (cases, meta) in groups.items():
        if not bb: break
        obs, fails, dis, byid = run_group(res, prop, g, bb, drv, cases, a.tier)
        res.oracle_fail += fails
        res.evaluations += len(cases)
        validated += len(obs) - len(dis)
        for c in cases:
            d = byid.get(c.split()[0], {}).get('D', '-')
            if d != '-':
                res.nontrivial.add(sha(c.split(' ', 1)[1]))
            k = g + '_diff_' + ('absent' if d == '-' else 'replace' if d.startswith('Replace') else 'modify' if d.startswith('Modify') else 'other')
            dist[k] = dist.get(k, 0) + 1
            if '+M(' in d or '-M(' in d: dist[g + '_has_Many'] = dist.get(g + '_has_Many', 0) + 1
            if '+F(' in d or '-F(' in d: dist[g + '_has_Few'] = dist.get(g + '_has_Few', 0) + 1
        samples += [cases[-1][:300]] + obs[-3:]
    res.coverage['traces_validated_against_impl'] = validated
    res.coverage['input_distribution'] = dist
    res.rule = rule
    res.samples = samples
    def search():
        if not bb: return []
        gs, _ = gen_cases(prop, a.seed + 7919, 40000)
        out = []
        tmp = Result(prop, a.tier, a.seed)
        for g, (cases, meta) in gs.items():
            _, fails, _, _ = run_group(tmp, prop, g, bb, None, cases, 'search', want_model=False)
            out += fails
        res.coverage['search'] = {'cases': sum(len(c) for c, _ in gs.values()), 'oracle_failures': len(out)}
        return out
    return finish(res, search)
