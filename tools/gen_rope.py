"""seeded generators of rope histories (C09, C08) and slot-array histories (C10), one case per line,
and the Python-side oracle for slot-array observations (a plain list under the same operations)."""
import random

class V:
    def __init__(self): self.n = 100
    def __call__(self):
        self.n += 1; return self.n

def near_boundary(rng, L, extra=0):
    """index in [0, L+extra) biased to multiples of 8 / 16 and the ends"""
    hi = L + extra
    if hi <= 0: return 0
    c = rng.random()
    if c < 0.35: return rng.randrange(hi)
    if c < 0.5: return min(hi - 1, max(0, rng.choice([8, 16, 24, 32, 40, 48, 64]) + rng.randint(-1, 1)))
    if c < 0.65: return hi - 1
    if c < 0.75: return 0
    return min(hi - 1, max(0, (rng.randrange(hi) // 8) * 8 + rng.randint(-1, 1)))

def fill_plan(rng, L):
    """[(index, count)]: grow several CONSECUTIVE 8-element chunks to 13..15 elements each (from the right to the left, so that the
    positions of the chunks further left do not move), then overflow the chunk in front of them: the carry of the overflow has to
    pass through all the over-full chunks (and accumulates their excess)."""
    nch = L // 8
    if nch < 3: return []
    m = min(nch - 1, rng.choice([2, 3, 3, 4, 5]))
    c0 = rng.randrange(0, nch - m)
    plan = [(8 * (c0 + j) + rng.choice([0, 0, 3, 7]), rng.choice([5, 6, 7, 7])) for j in range(m, 0, -1)]
    plan.append((8 * c0 + rng.choice([0, 2, 7]), rng.choice([8, 8, 9, 16])))
    return plan

def rope_history(rng, nops, nv, dist, maxinit=40, reads=True):
    def hit(k): dist[k] = dist.get(k, 0) + 1
    n0 = rng.choice([0, 0, 1, 5, 7, 8, 9, 15, 16, 17, 24, 30, maxinit]) if maxinit <= 40 else maxinit
    ops = []
    if n0 == 0 and rng.random() < 0.5:
        ops.append('new'); L = 0; hit('build_new')
    else:
        ops.append('from ' + ' '.join(str(nv()) for _ in range(n0))); L = n0; hit('build_from')
    ops[0] = ops[0].strip()
    bias = rng.choice(['grow', 'grow', 'shrink', 'mix', 'mix', 'append', 'front'])
    hit('bias_' + bias)
    th = {'grow': (0.6, 0.7, 0.8, 0.9), 'shrink': (0.25, 0.55, 0.8, 0.9), 'mix': (0.4, 0.6, 0.75, 0.9),
          'append': (0.8, 0.85, 0.9, 0.95), 'front': (0.7, 0.8, 0.9, 0.95)}[bias]
    for _ in range(nops):
        if L >= 24 and rng.random() < 0.03:
            for (i, cnt) in fill_plan(rng, L):
                for _ in range(cnt):
                    ops.append(f"ins {min(i, L)} {nv()}"); L += 1
            hit('op_fill_consecutive_chunks')
            if reads: ops.append("iter")
            continue
        k = rng.random()
        if k < th[0] or L == 0:
            if bias == 'append': i = L
            elif bias == 'front': i = rng.choice([0, 0, 1 if L else 0])
            else: i = rng.choice([near_boundary(rng, L, 1), L, 0])
            ops.append(f"ins {i} {nv()}"); L += 1; hit('op_ins')
        elif k < th[1]:
            i = near_boundary(rng, L); ops.append(f"rem {i}"); L -= 1; hit('op_rem')
        elif k < th[2]:
            l = near_boundary(rng, L); r = min(L - 1, l + rng.choice([0, 1, 2, 5, 7, 8, 9, 17, 30, 50]))
            ops.append(f"drain {l} {r}"); L -= (r - l + 1); hit('op_drain')
            if r - l >= 16: hit('drain_spans_chunks')
        elif k < th[3]:
            a, b = near_boundary(rng, L), near_boundary(rng, L); ops.append(f"swap {a} {b}"); hit('op_swap')
        else:
            ops.append(f"set {near_boundary(rng, L)} {nv()}"); hit('op_set')
        if reads and rng.random() < 0.25:
            c = rng.random()
            if c < 0.3 and L: ops.append(f"get {near_boundary(rng, L)}"); hit('read_get')
            elif c < 0.45: ops.append(f"get {L + rng.choice([0, 0, 1, 7])}"); hit('read_past_len')
            elif c < 0.6: ops.append("len"); hit('read_len')
            elif c < 0.8: ops.append("iter"); hit('read_iter')
            else: ops.append("into"); hit('read_into')
    if reads:
        ops += ["len", "iter", "into", f"get {L}"]
    dist['max_len'] = max(dist.get('max_len', 0), L)
    return ops

def slots_history(rng, cap, nops, nv, dist):
    def hit(k): dist[k] = dist.get(k, 0) + 1
    n0 = rng.randint(0, cap)
    ops = ['new'] if (n0 == 0 and rng.random() < 0.5) else [('from ' + ' '.join(str(nv()) for _ in range(n0))).strip()]
    L = n0
    hit(f'cap_{cap}')
    for _ in range(nops):
        k = rng.random()
        if k < 0.25 and L < cap:
            ops.append(f"ins {rng.randint(0, L)} {nv()}"); L += 1; hit('s_ins')
            if L == cap: hit('s_filled_to_capacity')
        elif k < 0.42 and L > 0:
            ops.append(f"rem {rng.randrange(L)}"); L -= 1; hit('s_rem')
            if L == 0: hit('s_emptied')
        elif k < 0.5 and L > 0:
            ops.append(f"swap {rng.randrange(L)} {rng.randrange(L)}"); hit('s_swap')
        elif k < 0.62:
            lo = rng.randint(0, L)
            if rng.random() < 0.3: ops.append(f"drain {lo} -"); L = lo; hit('s_drain_open')
            else:
                hi = rng.randint(lo, L); ops.append(f"drain {lo} {hi}"); L -= (hi - lo); hit('s_drain'); 
                if hi == lo: hit('s_drain_empty_range')
        elif k < 0.72:
            free = cap - L
            n = rng.randint(0, free) if rng.random() < 0.92 else free + rng.randint(1, 2)
            if n > free: hit('s_ext_surplus_dropped')
            ops.append(('ext ' + ' '.join(str(nv()) for _ in range(n))).strip()); L = min(cap, L + n); hit('s_ext')
        elif k < 0.78 and L > 0:
            ops.append(f"set {rng.randrange(L)} {nv()}"); hit('s_set')
        elif k < 0.84:
            ops.append(f"get {rng.randint(0, L + 1)}"); hit('s_get')
        elif k < 0.88:
            ops.append("len"); hit('s_len')
        elif k < 0.92:
            ops.append("fwd"); hit('s_fwd')
        else:
            n = rng.choice([L, L + 1, L + 2, max(1, L // 2)])
            mode = rng.random()
            calls = ['b'] * n if mode < 0.3 else (['f'] * n if mode < 0.4 else [rng.choice('fb') for _ in range(n)])
            ops.append('it ' + ' '.join(calls)); hit('s_iter_all_back' if mode < 0.3 else 's_iter_mixed')
    return ops

def slots_oracle(cap, ops, obs):
    """plain-list semantics of every op vs the implementation's observation lines; returns list of failure texts"""
    fails = []
    l = []
    def logical(layout):
        cnt, rest = layout.split('|', 1)
        pairs = [tuple(map(int, s.split(':'))) for s in rest.split() if s != '_']
        pairs.sort()
        return int(cnt), [i for i, _ in pairs], [v for _, v in pairs]
    for op, ob in zip(ops, obs):
        t = op.split(); name = t[0]
        parts = ob.split(' ', 2)
        got = parts[2] if len(parts) > 2 else ''
        exp_ret = None
        def bad(msg): fails.append(f"{parts[0]} `{op}`: {msg} (observed `{got}`)")
        if got == 'PANIC' and name != 'get':
            bad("panicked on an operation within capacity/range"); return fails
        if got == 'PANIC':
            legit_panic = (name == 'get' and int(t[1]) >= len(l))
            if not legit_panic: bad("panicked on an operation within capacity/range"); return fails
            continue
        n1 = int(t[1]) if len(t) > 1 and t[1].lstrip('-').isdigit() else 0
        invalid = ((name == 'from' and len(t) - 1 > cap) or (name == 'ins' and (n1 > len(l) or len(l) >= cap)) or (name in ('rem', 'set') and n1 >= len(l))
                   or (name == 'swap' and (n1 >= len(l) or int(t[2]) >= len(l)))
                   or (name == 'drain' and (n1 > len(l) or (t[2] != '-' and not (n1 <= int(t[2]) <= len(l))))))
        if invalid:
            return ['INVALID-CASE ' + op]
        if name == 'new': l = []
        elif name == 'from': l = list(map(int, t[1:]))
        elif name == 'ins': l.insert(int(t[1]), int(t[2]))
        elif name == 'rem': exp_ret = str(l.pop(int(t[1])))
        elif name == 'swap': a, b = int(t[1]), int(t[2]); l[a], l[b] = l[b], l[a]
        elif name == 'drain':
            lo = int(t[1]); hi = len(l) if t[2] == '-' else int(t[2])
            exp_ret = ','.join(map(str, l[lo:hi])); del l[lo:hi]
        elif name == 'ext': l += list(map(int, t[1:]))[:cap - len(l)]
        elif name == 'set': l[int(t[1])] = int(t[2])
        if name in ('new', 'from', 'ins', 'rem', 'swap', 'drain', 'ext', 'set'):
            lay = got.split(' -> ')[0]
            ret = got.split(' -> ')[1] if ' -> ' in got else (None if name not in ('rem', 'drain') else '')
            cnt, idxs, vals = logical(lay)
            if cnt != len(l): bad(f"len {cnt}, a plain sequence has {len(l)}")
            elif idxs != list(range(len(l))): bad(f"logical positions {idxs} are not 0..{len(l) - 1}")
            elif vals != l: bad(f"content {vals}, a plain sequence has {l}")
            if exp_ret is not None and (ret or '') != exp_ret: bad(f"returned `{ret}`, a plain sequence returns `{exp_ret}`")
        elif name == 'get':
            i = int(t[1])
            if i >= len(l): bad("read out of range did not panic")
            elif got != str(l[i]): bad(f"a plain sequence has {l[i]}")
        elif name == 'len':
            if got != f"{len(l)} {'true' if not l else 'false'}": bad(f"a plain sequence has len {len(l)}")
        elif name == 'fwd':
            if got != ','.join(map(str, l)): bad(f"forward iteration of a plain sequence yields {l}")
        elif name == 'it':
            f = b = 0; exp = []
            for c in t[1:]:
                if f + b < len(l):
                    if c == 'f': exp.append(str(l[f])); f += 1
                    else: exp.append(str(l[len(l) - 1 - b])); b += 1
                else: exp.append('-')
            if got != ','.join(exp): bad(f"a double-ended sequence yields {','.join(exp)}")
    return fails
