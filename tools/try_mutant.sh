#!/bin/bash
# try_mutant.sh <patch.diff> <prop> [<prop>...] : apply a seeded change to /repo, run the quick checks, undo it.
patch=$1; shift
cd /repo && git apply "$patch" || { echo "patch does not apply"; exit 2; }
trap 'git -C /repo checkout -- . ; git -C /repo clean -fdq -- src derive tests 2>/dev/null' EXIT
cd /verif
for p in "$@"; do
  out=$(./check $p --tier ${TIER:-quick} 2>&1)
  echo "$out" | grep -E "VIOLATION|KNOWN-FINDING|OK tier|BROKEN" | cut -c1-400
done
