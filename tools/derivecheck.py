"""shared driver of the derive-level checks (C01-C06, C13): random type shapes compiled against /repo's derive macro,
observations compared with the extracted derive model, and the oracles of each property on the implementation's output."""
import os, sys, random, json, shutil, re
sys.path.insert(0, os.path.dirname(os.path.abspath(__file__)))
from vlib import *
import gen_derive as G

DG = os.path.join(V, 'harness', 'dg')

def bulk_more(sh, v, k):
    """v with k more copies of one item in its first Vec / LinkedList field under the unordered strategy (searched through nested structs and
    present Options); None when the shape has no such field"""
    if sh.kind != 'S': return None
    fs = list(v[1])
    for i, f in enumerate(sh.fields):
        if f.strat == 'U' and f.c < 2:
            base = list(fs[i][1]); item = base[0] if base else 3
            fs[i] = ('q', base + [item] * k); return ('t', fs)
        if f.strat == 'R' and f.sub.kind == 'S':
            r = bulk_more(f.sub, fs[i], k)
            if r is not None: fs[i] = r; return ('t', fs)
        if f.strat == 'Q' and fs[i][0] == 's' and f.sub.kind == 'S':
            r = bulk_more(f.sub, fs[i][1], k)
            if r is not None: fs[i] = ('s', r); return ('t', fs)
    return None

def gen_workload(seed, nshapes, npairs, nhist, depth=2, codec_safe=False):
    rng = random.Random(seed)
    shapes, lines, meta, dist = [], [], {}, {}
    def hit(k): dist[k] = dist.get(k, 0) + 1
    fixed = G.fixed_shapes(codec_safe)
    for i in range(nshapes + len(fixed)):
        # the fixed combination shapes come first (every nesting of recursive strategies, every pair of neighbouring field kinds)
        sh = fixed[i] if i < len(fixed) else G.gen_shape(rng, rng.choice([0, 1, 2, 2, depth]), codec_safe=codec_safe)
        if i < len(fixed): hit('fixed_combination_shape')
        ko = rng.randrange(2) if i >= len(fixed) else i % 2
        sid = str(i)
        shapes.append((sid, ko, sh))
        lines.append(f"SHAPE {sid} {ko} {sh.text()}")
        for s in ('Pi', 'Po', 'Pe', 'K', 'R', 'Q', 'L', 'U', 'M', 'N0', 'N1', 'E'):
            if (s == 'E' and 'E' in sh.text()) or (s != 'E' and s in sh.text()): hit('shape_has_' + s)
        for j in range(npairs):
            a = G.gen_val(rng, sh)
            mode = rng.choice(['any', 'any', 'any', 'any', 'skiponly', 'orderonly', 'same', 'indep'])
            hit('pair_' + mode)
            if mode == 'same': b = a
            elif mode == 'indep': b = G.gen_val(rng, sh)
            else: b = G.mutate_val(rng, sh, a, mode)
            # stratified, whatever the seed: the first six pairs of a shape with a Vec / LinkedList field under the unordered strategy
            # gain or lose exactly 255 / 256 / 257 copies of one item in that field (the bulk-entry boundary of the unordered diff)
            if sh.kind == 'S' and j < 6:
                k = (255, 256, 257)[j % 3]
                more = bulk_more(sh, a, k)
                if more is not None:
                    a, b = (a, more) if j < 3 else (more, a); hit('pair_bulk_boundary_%d' % k)
            x = G.perturb_equiv(rng, sh, a) if rng.random() < 0.8 else a
            sub = [rng.randrange(8) for _ in range(rng.randint(0, 6))]
            c = G.mutate_val(rng, sh, b, 'any') if rng.random() < 0.8 else G.gen_val(rng, sh)
            cid = f"p{sid}_{j}"
            meta[cid] = (sid, a, b, x, sub)
            lines.append(f"PAIR {cid} {sid} A {G.vtext(a)} B {G.vtext(b)} X {G.vtext(x)} C {G.vtext(c)} SUB {' '.join(map(str, sub))}".rstrip())
        for j in range(nhist):
            st = [G.gen_val(rng, sh)]
            for _ in range(rng.choice([3, 6, 12, 12, 30])):          # long ones: the concatenated diff has far more entries than fields
                st.append(G.mutate_val(rng, sh, st[-1], rng.choice(['any', 'any', 'any', 'skiponly', 'orderonly'])))
            f0 = G.perturb_equiv(rng, sh, st[0])
            cid = f"h{sid}_{j}"
            meta[cid] = (sid, st, f0)
            lines.append(f"HIST {cid} {sid} F {G.vtext(f0)} " + ' '.join('ST ' + G.vtext(s) for s in st))
    return shapes, lines, meta, dist

def gen_setter_workload(seed, nshapes, ncases):
    rng = random.Random(seed)
    shapes, lines, meta, dist = [], [], {}, {}
    def hit(k): dist[k] = dist.get(k, 0) + 1
    i = 0
    fixed = G.fixed_shapes()
    while len(shapes) < nshapes + len(fixed):
        sh = fixed[i] if i < len(fixed) else G.gen_shape(rng, rng.choice([0, 1, 2, 2]), allow_enum=False)
        sid = str(i); i += 1
        mode, plan = G.setter_plan(sid, sh)
        if not plan: continue
        ko = rng.randrange(2)
        shapes.append((sid, ko, sh)); lines.append(f"SHAPE {sid} {ko} {sh.text()}")
        hit('setters_' + mode)
        for name in plan.values(): hit('custom_name' if name.startswith('cust_') else 'default_name')
        for j in plan: hit(('custom_named_setter_on_' if plan[j].startswith('cust_') else 'default_named_setter_on_') + sh.fields[j].strat)
        for j in range(ncases):
            x = G.gen_val(rng, sh); cur = list(x[1]); ops = []
            for _ in range(rng.choice([1, 3, 6, 10])):
                fi = rng.choice(sorted(plan)); f = sh.fields[fi]
                c = rng.random()
                if c < 0.2: v = cur[fi]; hit('op_same_value')
                elif c < 0.35: v = G.mutate_field(rng, f, cur[fi], 'skiponly'); hit('op_skiponly_change')
                elif c < 0.45: v = G.mutate_field(rng, f, cur[fi], 'orderonly'); hit('op_orderonly_change')
                else: v = G.mutate_field(rng, f, cur[fi], 'any'); hit('op_change')
                ops.append((fi, v)); cur[fi] = v
            cid = f"t{sid}_{j}"
            meta[cid] = (sid, x, ops)
            lines.append(f"SET {cid} {sid} X {G.vtext(x)} OPS " + ' '.join(f"{fi} {G.vtext(v)}" for fi, v in ops))
    return shapes, lines, meta, dist

def build_dg(res, shapes, features=('debug_diffs',), tag='dg', setters=False, target_dir=None):
    """write gen.rs for these shapes into a private copy of the harness crate and build it against /repo"""
    crate = os.path.join(WORK, tag)
    os.makedirs(os.path.join(crate, 'src'), exist_ok=True)
    def put(path, content):
        try:
            if open(path).read() == content: return
        except OSError: pass
        open(path, 'w').write(content)
    for f in ('main.rs', 'support.rs'):
        put(os.path.join(crate, 'src', f), open(os.path.join(DG, 'src', f)).read())
    put(os.path.join(crate, 'src', 'gen.rs'), G.rust_module(shapes, setters=setters))
    # a package name of its own per crate: cargo mixes up the freshness of equally named packages that share a target directory
    pkg = re.sub(r'[^a-z0-9_]', '_', tag.lower())
    put(os.path.join(crate, 'Cargo.toml'), open(os.path.join(DG, 'Cargo.toml')).read().replace('name = "dg"', f'name = "{pkg}"'))
    FMAP = {'debug_diffs': 'dbg', 'nanoserde': 'ns', 'serde': 'sd', 'generated_setters': 'gs', 'rustc_hash': 'rh', 'debug_asserts': 'da'}
    return cargo_build(res, crate, pkg, features=[FMAP[x] for x in features], target_dir=target_dir)

def canon_impl_lines(lines, shapes_by_id, meta):
    """implementation output -> canonical observation lines (diff Debug text parsed and canonicalised by shape)"""
    out = []
    for l in lines:
        p = l.split(' ', 2)
        if len(p) == 3 and p[1].startswith('E') and p[1][1:].isdigit() and p[2] not in ('PANIC', '-', 'NOSETTER'):
            try:
                out.append(f"{p[0]} {p[1]} {G.canon_entry(shapes_by_id[meta[p[0]][0]][1], G.debug_parse(p[2]))}")
            except Exception as e:
                out.append(f"{p[0]} {p[1]} ?unparsable({e!r}) {p[2][:200]}")
            continue
        if len(p) < 3 or p[1] not in ('D', 'DR', 'DWN', 'DWB') or p[2] in ('PANIC', 'UNDECODABLE'):
            out.append(l); continue
        sid = meta[p[0]][0]
        try:
            out.append(f"{p[0]} {p[1]} {G.canon_entries(shapes_by_id[sid][1], G.debug_parse(p[2]))}")
        except Exception as e:
            out.append(f"{p[0]} {p[1]} ?unparsable({e!r}) {p[2][:200]}")
    return out

import derive_oracles as O
TAGS = {'C01': ('D', 'A'), 'C02': ('D', 'X', 'H'), 'C03': ('D', 'S'), 'C04': ('D', 'DR'), 'C05': ('D', 'DR', 'XR', 'ARR', 'A', 'X'),
        'C06': ('A', 'AR', 'AM', 'AS', 'A2', 'AR2', 'AM2', 'AS2', 'HA', 'HAR', 'HAM', 'HAS', 'HN'), 'C13': ('D', 'A', 'X')}

def workload_params(prop, tier):
    # (nshapes, npairs, nhist); C13 uses a workload of shapes that all contain a recursive map
    if tier == 'quick': return (48, 40, 4)
    return (400, 120, 10)

def run_workload(res, prop, seed, tier, tag):
    """build + run implementation and model on the seeded workload; cached by (repo sources, harness, seed, tier, family)"""
    family = 'rmap' if prop == 'C13' else 'all'
    ns, npairs, nh = workload_params(prop, tier)
    shapes, lines, meta, dist = gen_workload(seed, ns, npairs, nh)
    if family == 'rmap':
        keep = {sid for sid, ko, sh in shapes if 'N' in sh.text()}
        rng = random.Random(seed + 5)
        extra = []
        # not enough recursive-map shapes in the general draw: add dedicated ones
        k = len(shapes)
        while len(keep) + len(extra) < ns // 2:
            sh = G.gen_shape(rng, 2)
            if 'N' not in sh.text(): continue
            extra.append((str(k), rng.randrange(2), sh)); k += 1
        shapes = [s for s in shapes if s[0] in keep]
        lines = [l for l in lines if l.split()[2 if l.startswith(('PAIR', 'HIST')) else 1] in keep]
        meta = {c: m for c, m in meta.items() if m[0] in keep}
        for sid, ko, sh in extra:
            lines.append(f"SHAPE {sid} {ko} {sh.text()}")
            for j in range(npairs):
                a = G.gen_val(rng, sh); mode = rng.choice(['any', 'any', 'any', 'skiponly', 'same', 'indep'])
                b = a if mode == 'same' else G.gen_val(rng, sh) if mode == 'indep' else G.mutate_val(rng, sh, a, mode)
                x = G.perturb_equiv(rng, sh, a); sub = [rng.randrange(8) for _ in range(rng.randint(0, 6))]
                c = G.mutate_val(rng, sh, b, 'any')
                cid = f"p{sid}_{j}"; meta[cid] = (sid, a, b, x, sub)
                lines.append(f"PAIR {cid} {sid} A {G.vtext(a)} B {G.vtext(b)} X {G.vtext(x)} C {G.vtext(c)} SUB {' '.join(map(str, sub))}".rstrip())
        shapes += extra
    key = sha('|'.join([repo_hash(), sha(open(os.path.join(DG, 'src', 'support.rs')).read() + open(os.path.join(DG, 'src', 'main.rs')).read()
                                         + open(os.path.join(V, 'tools', 'gen_derive.py')).read() + open(os.path.abspath(__file__)).read()), str(seed), tier, family]))
    cdir = os.path.join(WORK, 'derive_cache', key)
    casefile = os.path.join(cdir, 'cases.txt')
    with lock('derive_' + family):
        if not os.path.exists(os.path.join(cdir, 'impl.txt')):
            os.makedirs(cdir, exist_ok=True)
            open(casefile, 'w').write('\n'.join(lines) + '\n')
            dg = build_dg(res, shapes, tag='dg_' + family, setters=True)     # setter attributes are legal without the feature and must not change diff/apply
            if not dg:
                return None
            rc, impl, crashed = run_cases(dg, casefile, timeout=3000)
            if rc != 0 and not crashed:
                res.add_broken('correspondence', 'generated harness run', f"rc={rc} {' '.join(impl[-2:])[:300]}")
                return None
            # a case the PROCESS died on (abort / stack overflow): no observation exists for it; every derive-level property fails on it
            impl += [f"ORACLE-FAIL {cl.split()[1]} the process aborts while diff/apply run on this case: {err[:200]}" for cl, err in crashed]
            open(os.path.join(cdir, 'impl.txt'), 'w').write('\n'.join(impl) + '\n')
            # keep only the three most recent cache entries
            ents = sorted((os.path.getmtime(os.path.join(WORK, 'derive_cache', d)), d) for d in os.listdir(os.path.join(WORK, 'derive_cache')))
            for _, d in ents[:-6]: shutil.rmtree(os.path.join(WORK, 'derive_cache', d), ignore_errors=True)
        impl = open(os.path.join(cdir, 'impl.txt')).read().splitlines()
    by = {sid: (ko, sh) for sid, ko, sh in shapes}
    obs, hfails = split_oracle(impl)
    obs = canon_impl_lines(obs, by, meta)
    return dict(shapes=shapes, by=by, lines=lines, meta=meta, dist=dist, obs=obs, hfails=hfails, casefile=casefile)

def evaluate(res, prop, w, with_model=True):
    """oracle of `prop` on the implementation's observations + comparison with the model on the tags relevant to prop"""
    by, meta = w['by'], w['meta']
    percase = {}
    for l in w['obs']:
        p = l.split(' ', 2)
        if len(p) == 3: percase.setdefault(p[0], {})[p[1]] = p[2]
        elif len(p) == 2: percase.setdefault(p[0], {})[p[1]] = ''
    fails = []
    case_line = {l.split()[1]: l for l in w['lines'] if l.startswith(('PAIR', 'HIST'))}
    shape_line = {l.split()[1]: l for l in w['lines'] if l.startswith('SHAPE')}
    for cid, m in meta.items():
        o = percase.get(cid, {})
        sh = by[m[0]][1]
        try:
            msgs = O.check_pair(prop, sh, m[1], m[2], m[3], m[4], o) if cid.startswith('p') else O.check_hist(prop, sh, m[1], m[2], o)
        except Exception as e:
            msgs = [f"oracle could not read the observations ({e!r})"]
        for msg in msgs:
            fails.append({'group': 'derive', 'case': shape_line[m[0]] + '\n' + case_line[cid], 'what': f"ORACLE-FAIL {cid} {msg}", 'signature': msg})
    for h in w['hfails']:
        if 'the process aborts' in h:
            cid = h.split()[1]
            fails.append({'group': 'derive', 'case': shape_line[meta[cid][0]] + '\n' + case_line[cid], 'what': h, 'signature': 'process abort'})
    if prop == 'C06':
        for h in w['hfails']:
            if 'the process aborts' in h: continue
            cid = h.split()[1]
            fails.append({'group': 'derive', 'case': shape_line[meta[cid][0]] + '\n' + case_line[cid], 'what': h, 'signature': h})
    dis = []
    if with_model:
        drv = build_ocaml(res, 'derive', 'Derive')
        if drv:
            # the model's observations are cached beside the implementation's (key: the driver's own hash): six properties share one workload
            try: dh = open(os.path.join(os.path.dirname(drv), '.hash')).read().strip()
            except OSError: dh = 'nohash'
            mfile = os.path.join(os.path.dirname(w['casefile']), f"model_{dh}_{sha(open(w['casefile']).read())}.txt")      # keyed by the driver AND the cases
            with lock('derive_model_' + sha(mfile)):
                if os.path.exists(mfile):
                    rc, model = 0, open(mfile).read().splitlines()
                else:
                    rc, model = run_lines([drv, w['casefile']], timeout=3000)
                    if rc == 0: open(mfile, 'w').write('\n'.join(model) + '\n')
            if rc != 0:
                res.add_broken('correspondence', 'derive model driver run', ' '.join(model[-2:])[:300])
            tags = TAGS[prop]
            keep = lambda l: (lambda t: any(t == x or (x == 'H' and t.startswith('H')) for x in tags))(l.split(' ', 2)[1] if ' ' in l else '')
            m2, o2 = [l for l in model if keep(l)], [l for l in w['obs'] if keep(l)]
            dis = compare(m2, o2)
            if dis:
                i, mm, im = dis[0]
                cid = (mm if mm != '<missing>' else im).split()[0]
                res.add_broken('correspondence', 'derive model differs from the generated implementation',
                               f"{shape_line.get(meta.get(cid, ('?',))[0], '')} | {case_line.get(cid, cid)[:300]} | model: {mm[:240]} | impl: {im[:240]} ({len(dis)}+ differing lines)")
            res.coverage['traces_validated_against_impl'] = len(o2) - len(dis)
    return fails

def parse_case_line(line):
    """PAIR/HIST line of a workload -> (case id, shape id, meta tuple as gen_workload records it)"""
    t = line.split()
    cid, sid = t[1], t[2]
    def between(a, b):
        i = t.index(a, 3); j = t.index(b, i + 1) if b else len(t)
        return ' '.join(t[i + 1:j])
    if t[0] == 'PAIR':
        sub = [int(x) for x in t[t.index('SUB', 3) + 1:]]
        return cid, sid, (sid, G.parse_vtext(between('A', 'B')), G.parse_vtext(between('B', 'X')), G.parse_vtext(between('X', 'C')), sub)
    if t[0] == 'HIST':
        body = ' '.join(t[3:])
        parts = body.split(' ST ')
        f0 = G.parse_vtext(parts[0].split(' ', 1)[1])
        return cid, sid, (sid, [G.parse_vtext(x) for x in parts[1:]], f0)
    raise ValueError(line[:80])

def replay(res, prop, path):
    """rebuild the generated type of the recorded case against /repo's current tree, run it and re-apply the oracle:
    exit 1 (and the messages) while the recorded input still violates the property, exit 0 once it no longer does"""
    r = json.load(open(path))
    if r.get('kind') != 'failing-input':
        print(json.dumps(r, indent=1)[:3000]); print('no failing input recorded in this replay file (broken proof obligation or correspondence): re-run the check itself')
        return 1
    lines = [l for l in r['case'].split('\n') if l.strip()]
    shl = lines[0].split()
    shapes = [(shl[1], int(shl[2]), G.parse_shape(shl[3]))]
    if lines[1].startswith('SET'):
        print('setter case: replay with ./check C15 --replay'); return 1
    cid, sid, m = parse_case_line(lines[1])
    dg = build_dg(res, shapes, tag='dg_replay', setters=True)
    if not dg:
        print('the generated crate does not build:', res.broken[:1]); return 1
    f = os.path.join(WORK, f'replay_derive_{os.getpid()}.txt'); open(f, 'w').write('\n'.join(lines[:2]) + '\n')
    rc, impl = run_lines([dg, f]); os.unlink(f)
    obs, hfails = split_oracle(impl)
    by = {shapes[0][0]: (shapes[0][1], shapes[0][2])}
    obs = canon_impl_lines(obs, by, {cid: m})
    print('\n'.join(lines[:2])); print('\n'.join(obs))
    o = {}
    for l in obs:
        p = l.split(' ', 2)
        if len(p) >= 2 and p[0] == cid: o[p[1]] = p[2] if len(p) == 3 else ''
    sh = shapes[0][2]
    msgs = O.check_pair(prop, sh, m[1], m[2], m[3], m[4], o) if cid.startswith('p') else O.check_hist(prop, sh, m[1], m[2], o)
    if prop == 'C06': msgs += hfails
    for x in msgs: print(f"REPLAY-FAIL property={prop} {x}")
    if msgs:
        print(f"VIOLATION property={prop} replay={path}"); return 1
    print(f"replay: the recorded input no longer violates {prop}")
    return 0

def main(prop, rule, targets):
    a = std_args()
    res = Result(prop, a.tier, a.seed)
    if a.replay:
        return replay(res, prop, a.replay)
    step_translate(res, ['ordered', 'arith_ordered', 'arith_unord_array', 'arith_unord_map', 'arith_rec_map'])
    step_proofs(res, prop, targets)
    if a.tier == 'thorough':
        coqchk(res, [f'Props.{prop}'])
    w = run_workload(res, prop, a.seed, a.tier, 'main')
    if w:
        res.oracle_fail = evaluate(res, prop, w)
        res.evaluations = len(w['meta'])
        for cid, m in w['meta'].items():
            if cid.startswith('h') or m[1] != m[2]: res.nontrivial.add(sha(w['by'][m[0]][1].text() + repr(m[1:3])))
        res.coverage['shapes'] = len(w['shapes'])
        res.coverage['input_distribution'] = w['dist']
        res.samples = [l[:400] for l in w['lines'][:2]] + w['obs'][:3]
    res.rule = rule
    def search():
        out = []
        for k in range(3):
            tmp = Result(prop, a.tier, a.seed)
            w2 = run_workload(tmp, prop, a.seed + 7919 + k, 'quick', 'search')
            if not w2: break
            out = evaluate(tmp, prop, w2, with_model=False)
            res.coverage['search'] = {'workloads': k + 1, 'cases': len(w2['meta']), 'oracle_failures': len(out)}
            if out: break
        return out
    return finish(res, search)


def find_unbuildable_shape(res, shapes, features, setters, tag='dg_bisect'):
    """the generated crate does not build: bisect for one shape whose declaration alone is rejected, then drop fields while it still fails.
    returns (shape tuple, rust source, compiler errors) or None"""
    def builds(shs):
        tmp = Result(res.prop, res.tier, res.seed)
        ok = build_dg(tmp, shs, features=features, tag=tag, setters=setters) is not None
        return ok, (tmp.broken[0][2] if tmp.broken else '')
    cur = list(shapes)
    ok, err = builds(cur)
    if ok: return None
    while len(cur) > 1:
        half = cur[:len(cur) // 2]
        ok, e = builds(half)
        if not ok: cur, err = half, e
        else:
            rest = cur[len(cur) // 2:]
            ok2, e2 = builds(rest)
            if ok2: break            # only the combination fails: keep what we have
            cur, err = rest, e2
    sid, ko, sh = cur[0]
    if len(cur) == 1 and sh.kind == 'S':
        changed = True
        while changed and len(sh.fields) > 1:
            changed = False
            for i in range(len(sh.fields)):
                cand = G.Sh('S', sh.fields[:i] + sh.fields[i + 1:])
                if all(f.strat == 'K' for f in cand.fields): continue
                ok, e = builds([(sid, ko, cand)])
                if not ok:
                    sh, err, changed = cand, e, True; break
    return (sid, ko, sh), G.rust_module([(sid, ko, sh)], setters=setters), err
