#!/bin/bash
# setup: build the whole framework offline from files on disk. Idempotent.
set -e
cd /verif
export CARGO_NET_OFFLINE=true
mkdir -p .work evidence replays
python3 tools/translate.py
cd coq
coq_makefile -f _CoqProject -o Makefile > /dev/null 2>&1
timeout 3000 make -j16 > ../.work/coq_build.log 2>&1 || { tail -30 ../.work/coq_build.log; echo "SETUP: coq build failed"; exit 1; }
cd ..
python3 tools/prebuild.py
echo "SETUP OK"
