#!/usr/bin/env python3
import sys, os
sys.path.insert(0, os.path.dirname(os.path.abspath(__file__)))
import derivecheck
RULE = ("random type SHAPES (depth <= 2, up to 6 fields, every strategy: plain i64 / Option / enum, skip, recurse, recurse+Option, ordered (Vec, LinkedList, VecDeque), "
        "unordered array (Vec, LinkedList, HashSet, BTreeSet), flat map (HashMap, BTreeMap; key_only / key_and_value), recursive map in both modes, enum types) are emitted as Rust "
        "declarations with #[derive(Difference)], compiled against /repo, and run on seeded values: pairs (arbitrary mutations, single-field, only skipped fields, only element order, "
        "identical, independent), a follower base equivalent to a, entry sub-multisets in random order, leader histories of 3..12 steps. Every observation (diff and diff_ref entries, "
        "results of apply / apply_ref / apply_mut / apply_single, follower states) is compared with the extracted Coq model of the derive; the oracle evaluates the property's own relation "
        "(R_s / Eq_s / per-strategy 'differs') on the implementation's output. non-trivial = distinct cases with a != b or histories")
sys.exit(derivecheck.main('C13', RULE, ['props/C13.vo']))
