#!/usr/bin/env python3
"""C16: feature selection never changes diff/apply semantics."""
import os, sys, random, json, itertools, re
from concurrent.futures import ThreadPoolExecutor
sys.path.insert(0, os.path.dirname(os.path.abspath(__file__)))
from derivecheck import *
PROP = 'C16'
FEATS = ['nanoserde', 'serde', 'debug_diffs', 'generated_setters', 'rustc_hash', 'debug_asserts']

def feature_sites(repo=REPO):
    """every cfg(... feature ...) occurrence in the library and the macro with the kind of item it guards"""
    sites = []
    for rel in ['src/lib.rs'] + sorted('src/collections/' + f for f in os.listdir(os.path.join(repo, 'src/collections')) if f.endswith('.rs')) + \
               ['src/collections/rope/mod.rs', 'src/collections/rope/slots.rs'] + sorted('derive/src/' + f for f in os.listdir(os.path.join(repo, 'derive/src'))):
        lines = open(os.path.join(repo, rel)).read().split('\n')
        for i, l in enumerate(lines):
            if 'feature' not in l or not re.search(r'cfg(_attr)?\s*\(', l): continue
            cond = ' '.join(l.split())
            # the guarded item: rest of this line after the attribute, or the next non-attribute, non-comment line
            rest = re.sub(r'^\s*#!?\[cfg(_attr)?\(.*?\)\]\s*', '', l) if l.strip().endswith(']') is False else ''
            j = i
            while not rest.strip() or rest.strip().startswith(('#[', '//')):
                j += 1
                if j >= len(lines): break
                rest = lines[j]
            item = rest.strip()
            kind = ('use' if item.startswith('use ') else 'type-alias' if item.startswith('type ') else 'mod' if re.match(r'(pub(\([a-z]+\))? )?mod ', item)
                    else 'generic-bound' if re.match(r"[A-Z]\w*\s*:", item) else 'derive-list' if 'derive(' in l
                    else 'assertion' if item.startswith(('debug_assert', 'panic!("Sorting failure")')) else 'trait-or-impl' if re.match(r'(pub )?(trait|impl)', item)
                    else 'macro-codegen' if rel.startswith('derive/') else 'OTHER:' + item[:60])
            m = re.search(r'cfg(_attr)?\(.*', cond)
            if kind == 'assertion': kind += ':' + ' '.join(item.split())[:80]      # what an extra assertion asserts is part of the pinned site
            sites.append(rel + '|' + (m.group(0) if m else cond)[:120] + '|' + kind)
    return sites

def main():
    a = std_args()
    res = Result(PROP, a.tier, a.seed)
    if a.replay:
        print(open(a.replay).read()); return 1
    consts = step_translate(res, ['features', 'ordered'])
    step_proofs(res, PROP, ['props/C16.vo'])
    if a.tier == 'thorough': coqchk(res, ['Props.C16'])
    # (b) structural: the set of feature-guarded sites is pinned; a new or changed site is a broken tie
    pinned = json.load(open(os.path.join(V, 'tools', 'feature_sites.json')))
    now = feature_sites()
    from collections import Counter
    diff = (Counter(now) - Counter(pinned)) + (Counter(pinned) - Counter(now))
    if diff:
        res.add_broken('correspondence', 'feature-guarded sites changed', ' ; '.join(list(diff)[:4]))
    table = consts.get('FEATURES', {})
    feats = sorted(k for k in table if k != 'default')
    if sorted(feats) != sorted(FEATS):
        res.add_broken('translator', 'feature table', f"Cargo.toml declares {feats}, the harness knows {FEATS}")
    # (c) configurations
    if a.tier == 'quick':
        sets = [(), ('debug_diffs',), tuple(FEATS), ('rustc_hash', 'debug_asserts'), ('nanoserde', 'serde'), ('generated_setters', 'debug_diffs')]
    else:
        sets = [tuple(f for f, b in zip(FEATS, bits) if b) for bits in itertools.product([0, 1], repeat=len(FEATS))]
    ns, npairs, nh = (14, 24, 2) if a.tier == 'quick' else (24, 40, 3)
    shapes, lines, meta, dist = gen_workload(a.seed, ns, npairs, nh, codec_safe=True)
    casefile = os.path.join(WORK, f'cases_{PROP}_{a.tier}.txt'); open(casefile, 'w').write('\n'.join(lines) + '\n')
    pool = 6 if a.tier == 'quick' else 8
    outputs, errors = {}, {}
    def work(k):
        for idx in range(k, len(sets), pool):
            fs = sets[idx]
            tmp = Result(PROP, a.tier, a.seed)
            dg = build_dg(tmp, shapes, features=fs, tag=f'dg_feat{k}', setters=True, target_dir=os.path.join(WORK, f'target_feat{k}'))
            if not dg:
                errors[fs] = tmp.broken[0][2] if tmp.broken else 'build failed'; continue
            rc, out = run_lines([dg, casefile], timeout=3000)
            if rc != 0: errors[fs] = f"run rc={rc} {' '.join(out[-2:])[:200]}"; continue
            outputs[fs] = out
    with ThreadPoolExecutor(max_workers=pool) as ex:
        list(ex.map(work, range(pool)))
    for fs, e in errors.items():
        res.oracle_fail.append({'group': 'features', 'case': f"feature set {list(fs)}", 'what': f"ORACLE-FAIL the workload does not build/run under features {list(fs)}: {e[:300]}", 'signature': f"build under {list(fs)}"})
    by = {sid: (ko, sh) for sid, ko, sh in shapes}
    def normalise(out, fs):
        obs, hf = split_oracle(out)
        norm = []
        if 'debug_diffs' in fs: obs = canon_impl_lines(obs, by, meta)
        for l in obs:
            p = l.split(' ', 2)
            if len(p) >= 2 and p[1] in ('NSB', 'NSRB', 'BCB', 'BCRB', 'DWN', 'DWB', 'AWN', 'AWB', 'XWN', 'XWB', 'DON', 'DOB', 'AON', 'AOB', 'XON', 'XOB'): continue     # wire observations exist only with both codecs (C14)
            if len(p) == 3 and p[1] in ('D', 'DR'):
                n = p[2][2:] if p[2].startswith('N=') else ('PANIC' if p[2] == 'PANIC' else str(len(O.split_entries(p[2]))))
                norm.append(f"{p[0]} {p[1]} N={n}")
            else: norm.append(l)
        return norm, hf, obs
    ref_fs = ('debug_diffs',) if ('debug_diffs',) in outputs else (sets[0] if sets[0] in outputs else None)
    case_line = {l.split()[1]: l for l in lines if l.startswith(('PAIR', 'HIST'))}
    shape_line = {l.split()[1]: l for l in lines if l.startswith('SHAPE')}
    if ref_fs is not None:
        ref_norm, ref_hf, ref_obs = normalise(outputs[ref_fs], ref_fs)
        # the reference configuration satisfies the properties themselves
        w = dict(shapes=shapes, by=by, lines=lines, meta=meta, dist=dist, obs=ref_obs, hfails=ref_hf, casefile=casefile)
        for prop in ('C01', 'C03', 'C04', 'C13'):
            for f in evaluate(Result(prop, a.tier, a.seed), prop, w, with_model=False)[:3]:
                f['what'] = f"[under features {list(ref_fs)}; {prop}] " + f['what']; res.oracle_fail.append(f)
        # model once (values are feature independent by construction of the model)
        tmp = Result('C01', a.tier, a.seed)
        evaluate(tmp, 'C01', w, with_model=True)
        for b in tmp.broken: res.add_broken(*b)
        for fs, out in outputs.items():
            norm, hf, _ = normalise(out, fs)
            dis = compare(ref_norm, norm, limit=3)
            for i, r, o in dis[:1]:
                cid = (r if r != '<missing>' else o).split()[0]
                res.oracle_fail.append({'group': 'features', 'case': f"features {list(fs)} vs {list(ref_fs)}\n{shape_line.get(meta.get(cid, ('?',))[0], '')}\n{case_line.get(cid, cid)}",
                                        'what': f"ORACLE-FAIL under features {list(fs)} the observation `{o[:200]}` differs from `{r[:200]}` under {list(ref_fs)}", 'signature': f"differs under {list(fs)}"})
            for h in hf[:1]:
                res.oracle_fail.append({'group': 'features', 'case': f"features {list(fs)}", 'what': f"[under {list(fs)}] {h}", 'signature': h})
    res.evaluations = len(outputs) * len(meta)
    for fs in outputs: res.nontrivial.add(fs)
    res.coverage['feature_sets_run'] = [list(fs) for fs in sorted(outputs)]
    res.coverage['feature_sets_total'] = 2 ** len(FEATS)
    res.coverage['exhaustive'] = (len(outputs) == 2 ** len(FEATS))
    res.coverage['feature_sites'] = len(now)
    res.coverage['cases_per_set'] = len(meta)
    res.coverage['input_distribution'] = dist
    res.samples = [lines[0][:300], {'sets': [list(s) for s in sets[:6]]}]
    res.rule = ("the same seeded derive-level workload (codec-safe type shapes with setter attributes; pairs, follower bases, entry subsets, histories) is compiled and run under feature sets of the library "
                "(quick: default, debug_diffs, all six, rustc_hash+debug_asserts, both codecs, setters+debug_diffs; thorough: all 64); every observation (results of the four apply entry points, follower "
                "states, entry counts) must be identical in all sets; the debug_diffs set must satisfy the oracles of C01/C03/C04/C13 and agree with the model. evaluations = sets x cases; non-trivial = distinct sets run")
    return finish(res, None)

if __name__ == '__main__':
    if len(sys.argv) > 1 and sys.argv[1] == '--pin':
        json.dump(feature_sites(), open(os.path.join(V, 'tools', 'feature_sites.json'), 'w'), indent=0); print('pinned', len(feature_sites())); sys.exit(0)
    sys.exit(main())
