"""seeded generator of ordered-diff cases (pairs of integer lists) with the classes C07 names"""
import random

def mutate(rng, base, k, alpha):
    l = list(base)
    for _ in range(k):
        op = rng.randrange(4)
        if op == 0 and l:
            l[rng.randrange(len(l))] = rng.randrange(alpha)
        elif op == 1:
            l.insert(rng.randint(0, len(l)), rng.randrange(alpha))
        elif op == 2 and l:
            del l[rng.randrange(len(l))]
        elif op == 3 and len(l) > 2:       # delete a run / move a block
            a = rng.randrange(len(l)); b = min(len(l), a + rng.randint(1, 6))
            blk = l[a:b]; del l[a:b]
            if rng.random() < 0.5:
                p = rng.randint(0, len(l)); l[p:p] = blk
    return l

def gen_case(rng, maxlen, cutoff):
    cls = rng.choice(['small', 'small', 'one_short', 'one_short', 'both_long', 'both_long', 'near', 'near', 'near',
                      'equal', 'empty_t', 'empty_s', 'repet', 'repet', 'disjoint', 'shift', 'around_cutoff', 'around_cutoff'])
    alpha = rng.choice([1, 2, 3, 4, 8, 26, 1000])
    rl = lambda n: [rng.randrange(alpha) for _ in range(n)]
    hi = max(cutoff + 2, maxlen)
    if cls == 'small':
        t, s = rl(rng.randint(0, cutoff)), rl(rng.randint(0, cutoff))
    elif cls == 'one_short':
        a, b = rl(rng.randint(0, cutoff)), rl(rng.randint(cutoff + 1, hi))
        t, s = (a, b) if rng.random() < 0.5 else (b, a)
    elif cls == 'both_long':
        t, s = rl(rng.randint(cutoff + 1, hi)), rl(rng.randint(cutoff + 1, hi))
    elif cls == 'near':
        t = rl(rng.randint(cutoff + 1, hi)); s = mutate(rng, t, rng.randint(1, 6), alpha)
        if rng.random() < 0.5: t, s = s, t
    elif cls == 'equal':
        t = rl(rng.randint(0, hi)); s = list(t)
    elif cls == 'empty_t':
        t, s = [], rl(rng.randint(0, hi))
    elif cls == 'empty_s':
        t, s = rl(rng.randint(0, hi)), []
    elif cls == 'repet':
        alpha = rng.choice([1, 2]); t, s = rl(rng.randint(0, hi)), rl(rng.randint(0, hi))
    elif cls == 'disjoint':
        t = [rng.randrange(50) for _ in range(rng.randint(1, hi))]; s = [100 + rng.randrange(50) for _ in range(rng.randint(1, hi))]
    elif cls == 'shift':
        t = rl(rng.randint(cutoff + 1, hi)); k = rng.randint(1, min(5, len(t))); s = t[k:] + t[:k]
    else:  # around_cutoff: lengths within +-2 of the cutoff / twice the cutoff (recursion bottoming out)
        pick = lambda: max(0, rng.choice([cutoff, 2 * cutoff, 2 * cutoff + 1, 4 * cutoff]) + rng.randint(-2, 2))
        t, s = rl(pick()), rl(pick())
    return cls, t, s

def line(i, t, s):
    return f"o{i} T {len(t)} {' '.join(map(str, t))} S {len(s)} {' '.join(map(str, s))}".replace('  ', ' ')

def classify(cls, t, s, cutoff, dist):
    def hit(k): dist[k] = dist.get(k, 0) + 1
    hit('class_' + cls)
    if len(t) <= cutoff and len(s) <= cutoff: hit('both<=cutoff')
    elif min(len(t), len(s)) <= cutoff: hit('min<=cutoff<max')
    else: hit('both>cutoff')
    if not t: hit('empty_target')
    if not s: hit('empty_source')
    if t == s: hit('equal')
    hit('maxlen_bucket_%d' % (10 ** len(str(max(len(t), len(s), 1))) ))


def gen_wide(rng, tier):
    """lopsided and long pairs around the widths of narrow integers (index / length arithmetic done in u8 or u16 shows only above
    255 / 65535): one side empty or a handful of elements, the other a few hundred; long runs inserted or deleted inside a
    pair of otherwise similar lists. Returns [(class, t, s)]. The model handles these quickly (one side is short or the edit is one run)."""
    out = []
    lens = [255, 256, 257, 258, 300, 511, 513, 600] if tier == 'quick' else [255, 256, 257, 258, 300, 511, 512, 513, 600, 767, 1023, 1025, 1500]
    for L in lens:
        alpha = rng.choice([2, 6, 1000])
        t = [rng.randrange(alpha) for _ in range(L)]
        few = [rng.randrange(alpha) for _ in range(rng.randint(1, 9))]
        out += [('wide_empty_source', t, []), ('wide_empty_target', [], t), ('wide_short_source', t, few), ('wide_short_target', few, t)]
        # a long run inserted into / deleted from a short list, at the front, in the middle, at the end
        base = [rng.randrange(alpha) for _ in range(rng.randint(9, 20))]
        p = rng.choice([0, len(base) // 2, len(base)])
        grown = base[:p] + [1000 + x for x in range(L)] + base[p:]
        out += [('wide_run_inserted', grown, base), ('wide_run_deleted', base, grown)]
    return out
