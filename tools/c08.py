#!/usr/bin/env python3
"""C08: ordered patch scripts received over the wire execute with exact list semantics; re-encoding reproduces the bytes."""
import os, sys, random, json
sys.path.insert(0, os.path.dirname(os.path.abspath(__file__)))
from vlib import *
import gen_rope
PROP = 'C08'

def gen_script(rng, l0, n, dist, far=False):
    """a well-formed script against a simulated list: any index order, swaps, ranged deletes (a peer may send what this library never emits);
    far: half of the positions are taken within 40 of the END of the list (high indices)"""
    def hit(k): dist[k] = dist.get(k, 0) + 1
    l = list(l0); sc = []
    def pos(hi):          # a position in [0, hi)
        if far and hi > 80 and rng.random() < 0.5: return hi - 1 - rng.randrange(40)
        return rng.randrange(hi)
    for _ in range(n):
        if rng.random() < 0.04:          # a burst: many inserts at one place (or walking forward), many single deletes at one index
            cnt = rng.choice([9, 17, 40, 100]); i = pos(len(l) + 1); kind = rng.choice(['same', 'walk', 'del'])
            for j in range(cnt):
                if kind == 'del':
                    if i >= len(l): break
                    del l[i]; sc.append(f"D {i} -")
                else:
                    v = rng.randrange(-50, 1000); q = i if kind == 'same' else i + j; l.insert(q, v); sc.append(f"I {v} {q}")
            hit('burst_' + kind); continue
        if len(l) >= 24 and rng.random() < 0.03:      # several consecutive rope chunks grown to 13..15 elements, then the chunk before them overflows
            for (i, cnt) in gen_rope.fill_plan(rng, len(l)):
                for _ in range(cnt):
                    v = rng.randrange(-50, 1000); q = min(i, len(l)); l.insert(q, v); sc.append(f"I {v} {q}")
            hit('fill_consecutive_chunks'); continue
        k = rng.random()
        if k < 0.25 and l:
            i = pos(len(l)); v = rng.randrange(-50, 1000); l[i] = v; sc.append(f"R {v} {i}"); hit('replace')
        elif k < 0.55 or not l:
            i = rng.choice([pos(len(l) + 1), len(l), 0]); v = rng.randrange(-50, 1000); l.insert(i, v); sc.append(f"I {v} {i}"); hit('insert')
        elif k < 0.7:
            i = pos(len(l)); del l[i]; sc.append(f"D {i} -"); hit('delete')
        elif k < 0.85:
            a = pos(len(l)); b = min(len(l) - 1, a + rng.choice([0, 1, 3, 9, 20, 40])); del l[a:b + 1]; sc.append(f"D {a} {b}"); hit('delete_range')
            if b - a >= 16: hit('delete_range_spans_chunks')
        else:
            a, b = pos(len(l)), rng.randrange(len(l)); l[a], l[b] = l[b], l[a]; sc.append(f"S {a} {b}"); hit('swap')
            if abs(a - b) > 64: hit('swap_far_apart')
    return sc, l

def main():
    a = std_args()
    res = Result(PROP, a.tier, a.seed)
    bb = cargo_build(res, os.path.join(V, 'harness', 'bb'), 'bb')
    if a.replay:
        r = json.load(open(a.replay)); print(json.dumps(r, indent=1)); return 1
    step_translate(res, ['ordered_wire', 'rope', 'arith_ordered', 'arith_rope'])
    step_proofs(res, PROP, ['props/C08.vo'])
    if a.tier == 'thorough':
        coqchk(res, ['Props.C08'])
    # if the translator cannot read the discriminants any more, the model keeps the constants of the last readable tree:
    # the correspondence then serves the search for a failing input
    drv = build_ocaml(res, 'wire', 'Wire')
    rng = random.Random(a.seed)
    n = 600 if a.tier == 'quick' else 8000
    dist, cases, expect = {}, [], {}
    for i in range(n):
        l0 = [rng.randrange(100) for _ in range(rng.choice([0, 1, 5, 8, 9, 17, 40, 70]))]
        sc, lf = gen_script(rng, l0, rng.choice([0, 1, 3, 8, 20, 50]), dist)
        cases.append((f"w{i}", l0, sc)); expect[f"w{i}"] = (lf, sc)
    # long lists and long scripts: indices above 255 (above 65535 in the thorough tier), scripts of several hundred entries
    wide = [(300, 6), (300, 150), (1000, 12), (1000, 400)] + ([(70000, 6), (70000, 6), (3000, 300)] if a.tier == 'thorough' else [])
    for j, (L, nops) in enumerate(wide):
        l0 = [rng.randrange(100) for _ in range(L)]
        sc, lf = gen_script(rng, l0, nops, dist, far=True)
        cases.append((f"W{j}", l0, sc)); expect[f"W{j}"] = (lf, sc); dist['wide_case'] = dist.get('wide_case', 0) + 1
    f1 = os.path.join(WORK, f'cases_{PROP}_model.txt')
    open(f1, 'w').write('\n'.join(f"{cid} L {len(l0)} {' '.join(map(str, l0))} SC {' '.join(sc)}".replace('  ', ' ') for cid, l0, sc in cases) + '\n')
    model = {}
    if drv:
        rc, lines = run_lines([drv, f1], timeout=1800)
        if rc != 0: res.add_broken('correspondence', 'wire model driver', ' '.join(lines[-2:])[:300])
        for l in lines:
            if l.startswith('MODEL-SELF-FAIL'): res.add_broken('correspondence', 'model self check', l); continue
            p = l.split(' ', 2); model.setdefault(p[0], {})[p[1]] = p[2] if len(p) > 2 else ''
    # arbitrary / malformed byte streams derived from valid encodings
    bytes_cases = []
    for k, (cid, l0, sc) in enumerate(cases[: n // 2]):
        for codec, tag in (('ns', 'NS'), ('bc', 'BC')):
            h = model.get(cid, {}).get(tag)
            if not h or len(h) < 18: continue
            b = bytearray.fromhex(h); m = rng.randrange(5)
            if m == 0: b = b[:rng.randrange(len(b))]; dist['bytes_truncated'] = dist.get('bytes_truncated', 0) + 1
            elif m == 1: b[8] = rng.choice([4, 5, 7, 255]); dist['bytes_bad_variant_tag'] = dist.get('bytes_bad_variant_tag', 0) + 1
            elif m == 2:
                j = rng.randrange(8, len(b)); b[j] = rng.randrange(256)   # not the length prefix: a huge length makes the DEPENDENCY abort on allocation; dist['bytes_random_flip'] = dist.get('bytes_random_flip', 0) + 1
            elif m == 3: b[0] = (b[0] + 1) % 256; dist['bytes_wrong_length'] = dist.get('bytes_wrong_length', 0) + 1
            else: dist['bytes_valid'] = dist.get('bytes_valid', 0) + 1
            bytes_cases.append(f"b{k}{codec} BYTES {codec} {bytes(b).hex() or '-'}")
    f2 = os.path.join(WORK, f'cases_{PROP}_bytes.txt'); open(f2, 'w').write('\n'.join(bytes_cases) + '\n')
    mdec = {}
    if drv:
        rc, lines = run_lines([drv, f2], timeout=1800)
        for l in lines:
            p = l.split(' ', 2); mdec[p[0]] = p[2] if len(p) > 2 else ''
    # implementation: decode the model's bytes, apply, re-encode; decode the arbitrary streams
    f3 = os.path.join(WORK, f'cases_{PROP}_impl.txt')
    with open(f3, 'w') as fh:
        for cid, l0, sc in cases:
            m = model.get(cid, {})
            if 'NS' in m and 'BC' in m:
                fh.write(f"{cid} L {len(l0)} {' '.join(map(str, l0))} NS {m['NS']} BC {m['BC']}\n".replace('  ', ' '))
        fh.write('\n'.join(bytes_cases) + '\n')
    dis, nobs = [], 0
    if bb and drv:
        rc, lines = run_lines([bb, 'wire', f3], timeout=1800)
        if rc != 0: res.add_broken('correspondence', 'bb wire run', ' '.join(lines[-2:])[:300])
        impl = {}
        for l in lines:
            p = l.split(' ', 2); impl.setdefault(p[0], {})[p[1]] = p[2] if len(p) > 2 else ''
        nobs = len(lines)
        canon = lambda sc: ';'.join({'R': lambda t: f"R({t[1]},{t[2]})", 'I': lambda t: f"I({t[1]},{t[2]})", 'D': lambda t: f"D({t[1]},{t[2]})", 'S': lambda t: f"S({t[1]},{t[2]})"}[t[0]](t)
                                    for t in [sc[i].split() for i in range(len(sc))])
        for cid, l0, sc in cases:
            m, im = model.get(cid, {}), impl.get(cid, {})
            lf = ','.join(map(str, expect[cid][0]))
            want = canon(sc)
            for tag in ('NS', 'BC'):
                if im.get(tag) == 'UNDECODABLE' or 'DEC' + tag not in im:
                    res.oracle_fail.append({'group': 'wire', 'case': f"{cid} list {l0} script {sc}", 'what': f"ORACLE-FAIL {cid} bytes of a well-formed script are not decodable ({tag})", 'signature': 'undecodable'}); continue
                if im['DEC' + tag] != want:
                    dis.append((cid, f"{tag} decoded script", want, im['DEC' + tag]))
                if im.get('RES' + tag) != lf:
                    res.oracle_fail.append({'group': 'wire', 'case': f"{cid} list {l0} script {sc}", 'what': f"ORACLE-FAIL {cid} executing the decoded script gives [{im.get('RES' + tag)}] but a plain growable array gives [{lf}] ({tag})", 'signature': 'exec'})
                if im.get(tag) != m.get(tag):
                    res.oracle_fail.append({'group': 'wire', 'case': f"{cid} list {l0} script {sc}", 'what': f"ORACLE-FAIL {cid} re-encoding the decoded script does not reproduce the received bytes ({tag}): {im.get(tag, '')[:80]}... vs {m.get(tag, '')[:80]}...", 'signature': 'reencode'})
            if m.get('RES') != lf: dis.append((cid, 'model list semantics vs python list', lf, m.get('RES')))
            if m.get('NSR') != m.get('NS'): dis.append((cid, 'model: ref encoder differs from owned encoder', m.get('NS'), m.get('NSR')))
        for bc in bytes_cases:
            cid = bc.split()[0]
            if mdec.get(cid) != impl.get(cid, {}).get('DEC'):
                dis.append((cid, 'decoding of an arbitrary byte stream', mdec.get(cid), impl.get(cid, {}).get('DEC')))
        if dis:
            cid, what, mm, im = dis[0]
            res.add_broken('correspondence', f'wire model differs from the implementation: {what}', f"case {cid}: model/expected {str(mm)[:200]} | impl {str(im)[:200]} ({len(dis)} differences)")
    # implementation-only oracle on real diffs (borrowed and owned form through both codecs); also what the search uses
    import gen_ord
    def real_diffs(seed, count):
        r2 = random.Random(seed); lines = []
        for i in range(count):
            cls, t, s_ = gen_ord.gen_case(r2, 60, 8)
            lines.append(f"rt{i} RT T {len(t)} {' '.join(map(str, t))} S {len(s_)} {' '.join(map(str, s_))}".replace('  ', ' '))
        f4 = os.path.join(WORK, f'cases_{PROP}_rt.txt'); open(f4, 'w').write('\n'.join(lines) + '\n')
        rc, out = run_lines([bb, 'wire', f4], timeout=1800)
        by = {l.split()[0]: l for l in lines}
        return len(lines), [{'group': 'wire', 'case': by.get(o.split()[1], ''), 'what': o, 'signature': o} for o in out if o.startswith('ORACLE-FAIL')]
    nrt = 0
    if bb:
        nrt, fl = real_diffs(a.seed, 400 if a.tier == 'quick' else 5000)
        res.oracle_fail += fl
    res.coverage['real_diff_roundtrips'] = nrt
    res.evaluations = len(cases) + len(bytes_cases) + nrt
    for cid, l0, sc in cases:
        if sc: res.nontrivial.add(sha(repr((l0, sc))))
    res.coverage['traces_validated_against_impl'] = nobs
    res.coverage['input_distribution'] = dist
    res.rule = ("seeded well-formed scripts (replace / insert-before / single delete / inclusive ranged delete / swap, any index order, generated against a simulated list of 0..70 elements) "
                "are ENCODED BY THE MODEL in both formats (nanoserde with the translated discriminants, bincode); /repo decodes the bytes, executes the script through its rope, and re-encodes; "
                "decoded script, result and re-encoded bytes are compared with the model and with a plain Python list; plus truncated / corrupted byte streams decoded by both sides. "
                "non-trivial = distinct non-empty scripts")
    res.samples = [open(f1).readline().strip()[:300]] + bytes_cases[:2]
    def search():
        if not bb: return []
        n2, fl = real_diffs(a.seed + 7919, 20000)
        res.coverage['search'] = {'real_diff_roundtrips': n2, 'oracle_failures': len(fl)}
        return fl
    return finish(res, search)

if __name__ == '__main__':
    sys.exit(main())
