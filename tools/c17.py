#!/usr/bin/env python3
"""C17 (partial): the derive accepts every supported declaration and the result obeys C01."""
import os, sys, random, json, re, shutil
from concurrent.futures import ThreadPoolExecutor
sys.path.insert(0, os.path.dirname(os.path.abspath(__file__)))
from vlib import *
from vlib import sh as sh_
import gen_decl as D
PROP = 'C17'

def put(path, content):
    try:
        if open(path).read() == content: return
    except OSError: pass
    os.makedirs(os.path.dirname(path), exist_ok=True); open(path, 'w').write(content)

def build_decls(res, decls, tag, target_dir=None, quiet=False, features=None):
    crate = os.path.join(WORK, tag)
    # a package name of its own per crate: cargo mixes up the freshness of equally named packages that share a target directory
    pkg = re.sub(r'[^a-z0-9_]', '_', tag.lower())
    put(os.path.join(crate, 'Cargo.toml'), open(os.path.join(V, 'harness', 'dc', 'Cargo.toml')).read().replace('name = "dc"', f'name = "{pkg}"'))
    put(os.path.join(crate, 'src', 'support.rs'), D.SUPPORT)
    put(os.path.join(crate, 'src', 'main.rs'), D.crate_source(decls))
    return cargo_build(res, crate, pkg, target_dir=target_dir, quiet=quiet, features=features)

def find_bad_decl(res, decls, tag='dc_bisect', features=None):
    """bisect for one declaration that does not compile on its own"""
    def builds(ds):
        tmp = Result(PROP, res.tier, res.seed)
        ok = build_decls(tmp, ds, tag, quiet=True, features=features) is not None
        return ok, (tmp.broken[0][2] if tmp.broken else '')
    cur = list(decls); ok, err = builds(cur)
    if ok: return None
    while len(cur) > 1:
        half = cur[:len(cur) // 2]; ok, e = builds(half)
        if not ok: cur, err = half, e
        else:
            rest = cur[len(cur) // 2:]; ok2, e2 = builds(rest)
            if ok2: break
            cur, err = rest, e2
    return cur[0], err

_INT_SUFFIXES = ('usize', 'u128', 'u64', 'u32', 'u16', 'u8', 'isize', 'i128', 'i64', 'i32', 'i16', 'i8')
def int_lits_by_value(tokens):
    """`L <integer literal>` tokens replaced by the literal's value: 0x10, 16usize and 1_6 are the same token to rustc's type checker"""
    def val(m):
        t = m.group(1).replace('_', '')
        for suf in _INT_SUFFIXES:
            if t.endswith(suf) and t[:-len(suf)]: t = t[:-len(suf)]; break
        try: return 'L %d' % int(t, 0) if not (len(t) > 1 and t[0] == '0' and t[1].isdigit()) else 'L %d' % int(t)
        except ValueError: return m.group(0)
    tokens = re.sub(r'L (\d[0-9A-Za-z_]*)', val, tokens)
    # a const generic argument is kept by the macro as a NAME whose text is the literal: the model prints it as an identifier token
    tokens = re.sub(r"I -(\d\w*)", r"P - L \1", tokens)
    tokens = re.sub(r"I (\d\w*|'[^' ]+')", r"L \1", tokens)
    return tokens

def parser_tie(res, seed, n, dist):
    """pd dump of /repo's parser vs the extracted Coq model of next_type, on generated field types"""
    rng = random.Random(seed)
    types = []
    for i in range(n):
        t, ok = D.gen_parse_type(rng, rng.choice([1, 2, 3]))
        types.append((f"P{i}", t, ok)); dist['parse_in_grammar' if ok else 'parse_outside_grammar'] = dist.get('parse_in_grammar' if ok else 'parse_outside_grammar', 0) + 1
    crate = os.path.join(WORK, 'pdtest')
    put(os.path.join(crate, 'Cargo.toml'), '[package]\nname = "pdtest"\nversion = "0.0.0"\nedition = "2021"\n[workspace]\n[dependencies]\npd = { path = "/verif/harness/pd" }\n')
    # whole items: attributes, visibility, generic parameter lists with bounds / defaults / where clauses, named / tuple / unit bodies
    rng2 = random.Random(seed + 77)
    items = []
    for i in range(max(40, n // 2)):
        isrc, iok = D.gen_item(rng2, i)
        items.append((f"I{i}", isrc, iok)); k = 'item_in_grammar' if iok else 'item_outside_grammar'; dist[k] = dist.get(k, 0) + 1
    for i in range(max(20, n // 4)):
        isrc, iok = D.gen_enum_item(rng2, i)
        items.append((f"N{i}", isrc, iok)); k = 'enum_item_in_grammar' if iok else 'enum_item_outside_grammar'; dist[k] = dist.get(k, 0) + 1
    src = ("#![allow(dead_code)]\nuse pd::DumpParse;\n" + ''.join(f"#[derive(DumpParse)]\npub struct {n_}<'a, T, U, const N: usize> {{ f: {t} }}\n" for n_, t, _ in types)
           + ''.join(f"#[derive(DumpParse)]\n{isrc}\n" for _, isrc, _ in items))
    put(os.path.join(crate, 'src', 'lib.rs'), src)
    dump = os.path.join(WORK, 'pd.dump')
    if os.path.exists(dump): os.remove(dump)
    # force re-expansion: the dump is a side effect of macro expansion
    os.utime(os.path.join(crate, 'src', 'lib.rs'))
    env = dict(ENV, PD_DUMP=dump)
    with lock('cargo_' + sha(TARGET)):
        rc, out = sh(['cargo', 'check', '--offline', '--quiet'], cwd=crate, env=env, timeout=900)
    if not os.path.exists(dump):
        res.add_broken('correspondence', 'pd (parser dump) no longer builds against /repo/derive/src/parse.rs', ' | '.join(l for l in out.splitlines() if l.startswith('error'))[:400])
        return
    drv = build_ocaml(res, 'parse', 'Parse')
    impl, impl_print, src_tokens = {}, {}, {}
    for l in open(dump):
        m = re.match(r'FIELD (\S+)\.f TYPE (.*)', l.strip())
        if m: impl[m.group(1)] = 'UNSUP' if 'UnsupCat' in m.group(2) or 'as)' in m.group(2) else m.group(2)
        m = re.match(r'FIELD (\S+)\.f PRINT (.*)', l.strip())
        if m: impl_print[m.group(1)] = m.group(2).strip()
        m = re.match(r'FIELD (\S+)\.f TOKENS (.*)', l.strip())
        if m: src_tokens[m.group(1)] = m.group(2).strip()
    model, model_print = {}, {}
    if drv:
        rc, lines = run_lines([drv, dump], timeout=600)
        for l in lines:
            m = re.match(r'FIELD (\S+)\.f TYPE (.*)', l)
            if m: model[m.group(1)] = m.group(2)
            m = re.match(r'FIELD (\S+)\.f PRINT (.*)', l)
            if m: model_print[m.group(1)] = m.group(2).strip()
    nd = 0
    for name, t, ok in types:
        i, mo = impl.get(name), model.get(name)
        if i is None: continue
        if ok and i == 'PANIC':
            res.oracle_fail.append({'group': 'parse', 'case': f"struct S<'a, T, U, const N: usize> {{ f: {t} }}", 'what': f"ORACLE-FAIL the declaration parser panics on the supported field type `{t}`", 'signature': f"parser panic on {t}"})
        if (not ok) and i == 'PANIC' and re.search(r"&\s*('\w+\s+)?&", t):
            res.oracle_fail.append({'group': 'parse', 'case': f"struct S<'a> {{ f: {t} }}", 'what': f"ORACLE-FAIL the declaration parser panics on a reference to a reference: `{t}`", 'signature': 'known-bad D10 reference to a reference'})
        # next_type may leave tokens behind (outside the grammar): its caller either panics on them or skips to the next comma
        if mo is not None and mo.startswith('LEFTOVER'): mo = 'PANIC' if i == 'PANIC' else mo[len('LEFTOVER '):]
        if drv and mo is not None and mo != i and not (mo in ('UNSUP', 'PANIC') and i in ('UNSUP', 'PANIC') and not ok):
            nd += 1
            if nd == 1:
                res.add_broken('correspondence', 'Coq model of next_type differs from derive/src/parse.rs', f"type `{t}`: model {mo[:200]} | impl {i[:200]}")
    # the printer: (a) oracle on the implementation alone: a supported type is printed back as the tokens that were written;
    #              (b) the extracted model of Type::full against the real one, wherever the model parses the type completely
    npr = 0
    for name, t, ok in types:
        ip, mp, st = impl_print.get(name), model_print.get(name), src_tokens.get(name)
        if ip is None or st is None: continue
        if ok and impl.get(name) not in ('PANIC', 'UNSUP', None) and int_lits_by_value(ip) != int_lits_by_value(st):
            # not by itself a violation of C17 (a different spelling may still compile): reported as a broken tie of print_parse_roundtrip;
            # whether a declaration stops compiling is decided by the compile-and-run part below
            nd += 1
            if nd == 1:
                res.add_broken('correspondence', 'Type::full() no longer prints a supported field type back as the tokens written (print_parse_roundtrip no longer describes the code)', f"type `{t}`: printed {ip[:200]}")
        if drv and mp not in (None, '-') and impl.get(name) not in ('PANIC', None):
            npr += 1
            if int_lits_by_value(mp) != int_lits_by_value(ip):
                nd += 1
                if nd == 1:
                    res.add_broken('correspondence', 'Coq model of the type printer (Type::full) differs from derive/src/parse.rs', f"type `{t}`: model {mp[:200]} | impl {ip[:200]}")
    # whole items: parse_data of /repo vs the extracted model of coq/parse/ParseDecl.v; a supported item must not make the parser panic
    impl_item, model_item = {}, {}
    for l in open(dump):
        m = re.match(r'ITEM (\S+) PARSED (.*)', l.strip())
        if m: impl_item[m.group(1)] = m.group(2).strip()
    if drv:
        for l in lines:
            m = re.match(r'ITEM (\S+) PARSED (.*)', l)
            if m: model_item[m.group(1)] = m.group(2).strip()
    okflag = {n_: ok for n_, _, ok in types}; okflag.update({n_: ok for n_, _, ok in items})
    srcof = {n_: f"struct {n_}<'a, T, U, const N: usize> {{ f: {t} }}" for n_, t, _ in types}; srcof.update({n_: isrc for n_, isrc, _ in items})
    nit = 0
    for name, ii in impl_item.items():
        if name not in okflag: continue
        ok = okflag[name]
        if ok and ii == 'PANIC':
            sig = 'parser panic on a supported item'
            if name.startswith('P'): continue          # reported by the field-type oracle above
            res.oracle_fail.append({'group': 'item', 'case': srcof[name], 'what': f"ORACLE-FAIL the declaration parser panics on a supported declaration: {srcof[name][:300]}", 'signature': sig})
        mi = model_item.get(name)
        if not drv or mi is None: continue
        nit += 1
        iu = 'UNSUP' if ('UnsupCat' in ii or ' as)' in ii) else ii
        if mi != iu and not (mi in ('UNSUP', 'PANIC') and iu in ('UNSUP', 'PANIC') and not ok):
            nd += 1
            if nd == 1:
                k = next((j for j in range(min(len(mi), len(iu))) if mi[j] != iu[j]), 0)
                res.add_broken('correspondence', 'Coq model of the declaration parser (parse_data) differs from derive/src/parse.rs',
                               f"item `{srcof[name][:300]}`: model ...{mi[max(0, k - 60):k + 120]} | impl ...{iu[max(0, k - 60):k + 120]}")
    # attribute interpretation (derive/src/shared.rs vs coq/parse/ParseInterp.v): struct level and per field
    impl_int, model_int = {}, {}
    for l in open(dump):
        m = re.match(r'ITEM (\S+) (F?INTERP\d*|FUSED\d+) (.*)', l.strip())
        if m: impl_int.setdefault(m.group(1), {})[m.group(2)] = m.group(3).strip()
    if drv:
        for l in lines:
            m = re.match(r'ITEM (\S+) (F?INTERP\d*|FUSED\d+) (.*)', l)
            if m: model_int.setdefault(m.group(1), {})[m.group(2)] = m.group(3).strip()
    nint = 0
    for name, d in impl_int.items():
        if name not in okflag or not drv or impl_item.get(name) != model_item.get(name): continue
        md = model_int.get(name, {})
        for tag, v in d.items():
            nint += 1
            if int_lits_by_value(md.get(tag) or '') != int_lits_by_value(v):
                nd += 1
                if nd == 1:
                    res.add_broken('correspondence', 'Coq model of the attribute interpretation (derive/src/shared.rs) / of the used-parameter helpers (derive/src/difference.rs) differs from the implementation',
                                   f"item `{srcof[name][:300]}` {tag}: model {md.get(tag)} | impl {v}")
    res.coverage['attribute_interpretations_compared'] = nint
    res.coverage['items_compared'] = nit
    res.coverage['printer_types_compared'] = npr
    res.coverage['parser_types_compared'] = len([1 for n_, _, _ in types if n_ in impl and n_ in model])
    return len(types) + len(items)

def derive_items(src):
    """the items of a declaration source that carry #[derive(.. Difference)]: from the derive line to the line before the next impl / test fn"""
    items, cur = [], None
    for l in src.split('\n'):
        if l.startswith('#[derive(') and 'Difference' in l:
            if cur is not None: items.append('\n'.join(cur))
            cur = [l]
        elif cur is not None and (l.startswith(('impl', 'pub fn test', '#[cfg(feature = "ns")] #[allow')) or (l.startswith('#[') and 'Difference' not in l and not l.startswith(('#[difference', '#[cfg_attr')))):
            items.append('\n'.join(cur)); cur = None
        elif cur is not None: cur.append(l)
    if cur is not None: items.append('\n'.join(cur))
    return items

def canon_header(text):
    """canonical form of an item header: bound lists come out of a HashSet in the implementation, and rustc gives no meaning to the order of attributes, of derive paths, of where predicates or of the bounds inside one: all sorted on both sides (enum BODIES are compared exactly: the order of variants is their wire index)"""
    toks = int_lits_by_value(text).split()
    # token units: 'I x' / 'P c' / 'L v' are two words, group brackets one
    units, i = [], 0
    while i < len(toks):
        if toks[i] in ('I', 'P', 'L') and i + 1 < len(toks): units.append((toks[i], toks[i + 1])); i += 2
        else: units.append((toks[i],)); i += 1
    def split(us, sep):
        parts, cur, depth, angle = [], [], 0, 0
        for k, u in enumerate(us):
            if len(u) == 1: depth += 1 if u[0].startswith('G') else -1
            elif u == ('P', '<'): angle += 1
            elif u == ('P', '>'): angle -= 1
            if u == sep and depth == 0 and angle == 0: parts.append(cur); cur = []
            else: cur.append(u)
        parts.append(cur)
        return parts
    # leading attributes: their order, and the order of the paths inside #[derive(..)], mean nothing to rustc
    attrs, k = [], 0
    while k + 1 < len(units) and units[k] == ('P', '#') and units[k + 1] == ('G[',):
        depth, j = 0, k + 1
        while j < len(units):
            if len(units[j]) == 1: depth += 1 if units[j][0].startswith('G') else -1
            if depth == 0: break
            j += 1
        a = units[k:j + 1]
        if len(a) > 4 and a[2] == ('I', 'derive') and a[3] == ('G(',):
            inner = a[4:-2]
            parts = sorted(split(inner, ('P', ',')))
            flat = []
            for n, b in enumerate(parts): flat += ([('P', ',')] if n else []) + b
            a = a[:4] + flat + a[-2:]
        attrs.append(a); k = j + 1
    units = [u for a in sorted(attrs) for u in a] + units[k:]
    w = next((k for k, u in enumerate(units) if u == ('I', 'where')), None)
    if w is None: return ' '.join(' '.join(u) for u in units)
    head, clause = units[:w + 1], units[w + 1:]
    preds = []
    for pr in split(clause, ('P', ',')):
        c = next((k for k, u in enumerate(pr) if u == ('P', ':') and (k == 0 or pr[k - 1] != ('P', ':')) and (k + 1 >= len(pr) or pr[k + 1] != ('P', ':'))), None)
        if c is None: preds.append(pr); continue
        bounds = sorted(split(pr[c + 1:], ('P', '+')))
        flat = []
        for n, b in enumerate(bounds): flat += ([('P', '+')] if n else []) + b
        preds.append(pr[:c + 1] + flat)
    out = list(head)
    preds = sorted(p_ for p_ in preds if p_)         # the order of the predicates means nothing either (nor does a trailing comma)
    for n, pr in enumerate(preds): out += ([('P', ',')] if n else []) + pr
    return ' '.join(' '.join(u) for u in out)

HEADER_CFGS = [('gs', ['generated_setters']), ('all', ['generated_setters', 'debug_diffs', 'nanoserde', 'serde']), ('dbg', ['generated_setters', 'debug_diffs']),
               ('ns', ['generated_setters', 'nanoserde']), ('sd', ['generated_setters', 'serde'])]

def header_tie(res, decls, cfgs, dist):
    """the item headers of the REAL expansion (pd runs derive_struct_diff_struct / derive_struct_diff_enum of /repo on every supported
    declaration and cuts the headers out of the token stream) against the extracted Coq model coq/parse/ParseHeader.v, per feature set"""
    items = []                # (declaration, its derive items together: they refer to one another)
    for n, src, _ in decls:
        its = derive_items(src)
        if its: items.append((n, '\n'.join(its), len(its)))
    nitems = sum(k for _, _, k in items)
    drv = build_ocaml(res, 'parse', 'Parse')
    ncmp = 0
    for tag, feats in cfgs:
        crate = os.path.join(WORK, 'pdhdr_' + tag)
        put(os.path.join(crate, 'Cargo.toml'), f'[package]\nname = "pdhdr_{tag}"\nversion = "0.0.0"\nedition = "2021"\n[workspace]\n[dependencies]\npd = {{ path = "/verif/harness/pd", default-features = false, features = {json.dumps(feats)} }}\n')
        put(os.path.join(crate, 'src', 'support.rs'), D.SUPPORT)
        # one module per item: the items of one declaration source may share names with those of another
        mods = ''.join(f"#[allow(dead_code, unused_imports, non_camel_case_types, non_snake_case, unexpected_cfgs)]\npub mod h{n} {{\n    use crate::support::*;\n    use pd::DumpParse as Difference;\n"
                       + '\n'.join('    ' + l if l else '' for l in it.split('\n')) + "\n}\n" for n, it, _ in items)
        put(os.path.join(crate, 'src', 'lib.rs'), "#![allow(unexpected_cfgs)]\npub mod support;\n" + mods)
        dump = os.path.join(WORK, f'pdhdr_{tag}.dump')
        if os.path.exists(dump): os.remove(dump)
        os.utime(os.path.join(crate, 'src', 'lib.rs'))
        env = dict(ENV, PD_DUMP=dump, PD_HEADERS='1')
        with lock('cargo_' + sha(TARGET)):
            rc, out = sh(['cargo', 'check', '--offline', '--quiet'], cwd=crate, env=env, timeout=900)
        if not os.path.exists(dump) or rc != 0:
            res.add_broken('correspondence', f'header harness (pd with features {feats}) no longer builds against /repo/derive/src', ' | '.join(l for l in out.splitlines() if l.startswith('error'))[:400])
            continue
        if not drv: continue
        impl = {}
        for l in open(dump):
            m = re.match(r'ITEM (\S+) (HDR\w*) ?(.*)', l.strip())
            if m: impl.setdefault(m.group(1), {})[m.group(2)] = m.group(3).strip()
        rc, lines = run_lines([drv, dump], timeout=600)
        model = {}
        for l in lines:
            m = re.match(r'ITEM (\S+) (HDR\w*) ?(.*)', l)
            if m: model.setdefault(m.group(1), {})[m.group(2)] = m.group(3).strip()
        if len(impl) < nitems * 9 // 10:
            res.add_broken('correspondence', f'header harness: only {len(impl)} of {nitems} derive items were expanded by pd (features {feats})', '')
        nd = 0
        for name, hs in impl.items():
            ms = model.get(name)
            if ms is None: continue
            for k in sorted(set(hs) | set(ms)):
                ncmp += 1
                a, b = hs.get(k), ms.get(k)
                if (a is None or b is None or canon_header(a) != canon_header(b)) and nd == 0:
                    nd += 1
                    ca, cb = canon_header(a or ''), canon_header(b or '')
                    j = next((q for q in range(min(len(ca), len(cb))) if ca[q] != cb[q]), 0)
                    res.add_broken('correspondence', 'Coq model of the item headers of the expansion (coq/parse/ParseHeader.v: used_generics, Generic::full_with_const, the generics / where-clause templates) differs from derive/src/difference.rs',
                                   f"features {feats}, item {name} {k}: model ...{cb[max(0, j - 80):j + 160]} | impl ...{ca[max(0, j - 80):j + 160]}")
        dist['headers_compared_' + tag] = sum(len(v) for v in impl.values())
    res.coverage['item_headers_compared'] = ncmp
    return ncmp

def coq_shape_text(sh):
    """the shape as coq/derive/DModel3.v has it: no container codes, plain fields of every type alike"""
    if sh.kind == 'E': return 'E'
    out = []
    for f in sh.fields:
        st = f.strat
        if st in ('Pi', 'Po', 'Pe'): out.append('P')
        elif st == 'K': out.append('K')
        elif st in ('R', 'Q'): out.append(st + coq_shape_text(f.sub))
        elif st in ('L', 'U', 'M'): out.append(st)
        else: out.append(f"N{f.ko}" + coq_shape_text(f.sub))
    return 'S(' + ','.join(out) + ')'

def shape_tie(res, seed, n, dist):
    """C17 x C01: the declarations the derive-level workload generator (tools/gen_derive.py: the same rust_types that C01 - C06, C13 - C16 compile)
    emits for random shapes are parsed by /repo's parser (pd) and by the model; the shape the model's front end assigns
    (coq/glue/DeclShape.v::shape_of) must be the shape the declaration was generated from"""
    import gen_derive as GD
    rng = random.Random(seed + 5)
    shapes = [(str(i), rng.randrange(2), GD.gen_shape(rng, rng.choice([1, 2, 2, 3]))) for i in range(n)]
    chunks = []
    for sid, ko, sh in shapes:
        out = []
        if sh.kind == 'S': GD.rust_types(sh, f"T{sid}", out, "Debug, Clone, PartialEq, Difference")
        chunks.append('\n'.join(out).replace('MAPEQ', 'key_only' if ko else 'key_and_value'))
    items = [it for ch in chunks for it in derive_items(ch)]
    crate = os.path.join(WORK, 'pdshape')
    put(os.path.join(crate, 'Cargo.toml'), '[package]\nname = "pdshape"\nversion = "0.0.0"\nedition = "2021"\n[workspace]\n[dependencies]\npd = { path = "/verif/harness/pd" }\n')
    src = ("#![allow(dead_code, unused_imports, non_camel_case_types, unexpected_cfgs)]\nuse std::collections::*;\nuse pd::DumpParse as Difference;\n"
           "#[derive(Debug, Clone, PartialEq, Difference)]\npub enum En { A, B(i64), C { x: i64, y: i64 } }\n" + '\n'.join(items) + '\n')
    put(os.path.join(crate, 'src', 'lib.rs'), src)
    dump = os.path.join(WORK, 'pdshape.dump')
    if os.path.exists(dump): os.remove(dump)
    os.utime(os.path.join(crate, 'src', 'lib.rs'))
    env = dict(ENV, PD_DUMP=dump)
    with lock('cargo_' + sha(TARGET)):
        rc, out = sh_(['cargo', 'check', '--offline', '--quiet'], cwd=crate, env=env, timeout=900)
    if not os.path.exists(dump) or rc != 0:
        res.add_broken('correspondence', 'shape harness (pd on the declarations of the derive-level workload) no longer builds against /repo/derive/src', ' | '.join(l for l in out.splitlines() if l.startswith('error'))[:400])
        return 0
    drv = build_ocaml(res, 'parse', 'Parse')
    if not drv: return 0
    with open(dump, 'a') as f:
        for sid, ko, sh in shapes: f.write(f"SHAPEOF {'T' + sid if sh.kind == 'S' else 'En'}\n")
    rc, lines = run_lines([drv, dump], timeout=600)
    # the same declarations, /repo's parser and attribute readers against the model's (so that shape_of reads what the macro reads)
    pat = re.compile(r'ITEM (\S+) (PARSED|F?INTERP\d*|FUSED\d+) (.*)')
    impl_l, model_l = {}, {}
    for l in open(dump):
        m = pat.match(l.strip())
        if m: impl_l[(m.group(1), m.group(2))] = ('UNSUP' if ('UnsupCat' in m.group(3) or ' as)' in m.group(3)) else m.group(3).strip())
    for l in lines:
        m = pat.match(l)
        if m: model_l[(m.group(1), m.group(2))] = m.group(3).strip()
    bad = [(k, v, model_l.get(k)) for k, v in impl_l.items() if model_l.get(k) != v]
    if bad:
        (nm, tag), v, mv = bad[0]
        res.add_broken('correspondence', "Coq model of the declaration parser / attribute readers differs from derive/src on a declaration of the derive-level workload", f"item {nm} {tag}: model {str(mv)[:200]} | impl {v[:200]}")
    res.coverage['workload_declaration_readings_compared'] = len(impl_l)
    got = [l.split(' ', 2) for l in lines if l.startswith('SHAPEOF ')]
    want = [('T' + sid if sh.kind == 'S' else 'En', coq_shape_text(sh)) for sid, ko, sh in shapes]
    nd = 0
    for (name, w), g in zip(want, got + [None] * len(want)):
        if g is None or g[1] != name or g[2] != w:
            nd += 1
            if nd == 1:
                res.add_broken('correspondence', "the shape the model's front end assigns to a declaration of the derive-level workload (DeclShape.shape_of) is not the shape the declaration was generated from",
                               f"type {name}: generated from {w}, shape_of says {g[2] if g else 'nothing'}")
    res.coverage['workload_declarations_shape_checked'] = len(want) - nd
    dist['shape_tie_declarations'] = len(items)
    return len(want)

def main():
    a = std_args()
    res = Result(PROP, a.tier, a.seed)
    if a.replay:
        print(open(a.replay).read()); return 1
    step_proofs(res, PROP, ['props/C17.vo'])
    if a.tier == 'thorough': coqchk(res, ['Props.C17'])
    dist = {}
    ntypes = parser_tie(res, a.seed, 400 if a.tier == 'quick' else 4000, dist) or 0
    # declarations: compile + round trip + frame
    rng = random.Random(a.seed + 1)
    nd = 108 if a.tier == 'quick' else 720
    decls = [D.gen_enum(rng, i) if rng.random() < 0.15 else D.gen_struct(rng, i) for i in range(nd)]
    for _, _, fs in decls:
        for f in fs: dist['decl_' + f] = dist.get('decl_' + f, 0) + 1
    chunks = [decls[i:i + 100] for i in range(0, len(decls), 100)]
    results = {}
    # every chunk twice: with the crate's default features, and with every feature that does not need a codec for the field types
    # (generated setters, Debug on the diff types, the other hasher, the extra assertions): the cfg-dependent bounds and templates
    # must accept the same declarations (C16 x C17)
    configs = [(None, 'dc_main', 'default features'), (['dbg', 'gs', 'rh', 'da'], 'dc_feat', 'features debug_diffs + generated_setters + rustc_hash + debug_asserts'),
               (['sd', 'dbg'], 'dc_serde', 'features serde + debug_diffs')]
    for k, ch0 in enumerate(chunks):
      for cfeat, ctag, cname in configs:
        # serde: references cannot be deserialized, and serde has no impl for arrays of a const-generic length
        # (a lifetime that only Cow<'a, str> uses is fine: the declaration text is searched for `&`)
        ch = [d_ for d_ in ch0 if 'const_generic' not in d_[2] and not any('&' in it for it in derive_items(d_[1]))] if (cfeat and 'sd' in cfeat) else ch0
        if not ch: continue
        tmp = Result(PROP, a.tier, a.seed)
        exe = build_decls(tmp, ch, ctag, features=cfeat, target_dir=os.path.join(WORK, 'target_' + ctag) if cfeat else None)
        if not exe:
            found = find_bad_decl(res, ch, tag='dc_bisect' + ('_feat' if cfeat else ''), features=cfeat)
            if found:
                (name, src, feats), err = found
                res.oracle_fail.append({'group': 'declaration', 'case': src, 'what': f"ORACLE-FAIL the expansion of #[derive(Difference)] does not compile ({cname}) for declaration {name} (features {feats}): {err[:300]}", 'signature': f"does not compile: {feats}"})
            else:
                res.add_broken('correspondence', f'declaration harness does not build ({cname})', tmp.broken[0][2][:300] if tmp.broken else '')
            continue
        rc, lines = run_lines([exe], timeout=900)
        srcs = {n: s for n, s, _ in ch}
        for l in lines:
            p = l.split(' ', 2)
            if cfeat is None: results[p[0]] = p[1]
            dk = 'declarations_run_' + ('default' if not cfeat else 'serde' if 'sd' in cfeat else 'with_features'); dist[dk] = dist.get(dk, 0) + 1
            if p[1] != 'OK':
                res.oracle_fail.append({'group': 'declaration', 'case': srcs.get(p[0], p[0]), 'what': f"ORACLE-FAIL declaration {p[0]} ({cname}): {p[1]} {p[2][:300] if len(p) > 2 else ''}", 'signature': f"round trip / frame fails: {p[1]}"})
    # generic declarations over codec-encodable field types, under every feature at once and under the codecs alone
    cd = D.codec_decls()
    for cfeat, ctag, cname in ((['dbg', 'gs', 'rh', 'da', 'ns', 'sd'], 'dc_codec_all', 'all features'), (['ns', 'sd'], 'dc_codec', 'features nanoserde + serde'), (['ns'], 'dc_codec_ns', 'feature nanoserde'), (['sd', 'gs'], 'dc_codec_sd', 'features serde + generated_setters'), (None, 'dc_codec_none', 'default features')):
        tmp = Result(PROP, a.tier, a.seed)
        exe = build_decls(tmp, cd, ctag, features=cfeat, target_dir=os.path.join(WORK, 'target_dc_feat'))
        if not exe:
            found = find_bad_decl(res, cd, tag='dc_bisect_codec', features=cfeat)
            if found:
                (name, src, feats), err = found
                res.oracle_fail.append({'group': 'declaration', 'case': src, 'what': f"ORACLE-FAIL the expansion of #[derive(Difference)] does not compile ({cname}) for the generic declaration {name}: {err[:300]}", 'signature': f"does not compile: {feats}"})
            else:
                res.add_broken('correspondence', f'codec declaration harness does not build ({cname})', tmp.broken[0][2][:300] if tmp.broken else '')
            continue
        rc, lines = run_lines([exe], timeout=900)
        for l in lines:
            p = l.split(' ', 2)
            dist['codec_generic_declarations_run'] = dist.get('codec_generic_declarations_run', 0) + 1
            if p[1] != 'OK':
                res.oracle_fail.append({'group': 'declaration', 'case': dict((n, s_) for n, s_, _ in cd).get(p[0], p[0]), 'what': f"ORACLE-FAIL generic declaration {p[0]} ({cname}): {p[1]} {p[2][:300] if len(p) > 2 else ''}", 'signature': f"round trip / frame fails: {p[1]}"})
    # the item headers of the expansion of every declaration above, per feature set of the derive crate
    k = (a.seed or 0) % 3
    header_tie(res, decls + cd, HEADER_CFGS if a.tier == 'thorough' else [HEADER_CFGS[0], HEADER_CFGS[1], HEADER_CFGS[2 + k]], dist)
    shape_tie(res, a.seed, 60 if a.tier == 'quick' else 400, dist)
    # known-bad constructs, each on its own
    def try_known(item):
        kid, (desc, src) = item
        tmp = Result(PROP, a.tier, a.seed)
        test = "pub fn test() -> Result<(), String> { Ok(()) }\n"
        kfeat = ['ns'] if '[features: ns]' in desc else None       # a known-bad construct may need a feature of the crate to show
        exe = build_decls(tmp, [(kid, src + test, [])], f'dc_known_{kid}', target_dir=os.path.join(WORK, 'target_known'), quiet=True, features=kfeat)
        return kid, desc, src, exe is not None, (tmp.broken[0][2] if tmp.broken else '')
    known_results = list(map(try_known, D.KNOWN_BAD.items()))
    for kid, desc, src, ok, err in known_results:
        dist['known_bad_' + kid + ('_now_compiles' if ok else '_still_fails')] = 1
        if not ok:
            res.oracle_fail.append({'group': 'declaration', 'case': src, 'what': f"ORACLE-FAIL legal declaration rejected: {desc}: {err[:200]}", 'signature': f"known-bad {kid} {desc}"})
    res.evaluations = ntypes + len(decls) + len(D.KNOWN_BAD)
    for n, s, f in decls: res.nontrivial.add(sha(s))
    res.coverage['declarations'] = len(decls); res.coverage['declarations_ok'] = sum(1 for v in results.values() if v == 'OK')
    res.coverage['input_distribution'] = dist
    res.samples = [decls[0][1][:600], decls[1][1][:400]]
    res.rule = ("(1) generated field types (paths, nested generics, references with and without lifetimes, tuples incl. unit and 1-tuples, arrays with literal / named length, never, lifetime arguments, raw identifiers, "
                "and out-of-fragment forms dyn / fn / <T as X>::Y / && ) are parsed AND printed back (Type::full, re-lexed) by /repo's own code (proc-macro `pd` including derive/src/parse.rs by path) and by the extracted Coq model; results compared; a supported type must print back as the tokens written; "
                "(2) generated DECLARATIONS (struct and field visibility, generic type / lifetime / const parameters with inline bounds, where clauses and defaults, doc comments and foreign attributes, raw identifier fields, "
                "every difference attribute in several spellings, expose, enums with unit / tuple / struct variants) are compiled against /repo and each runs a round-trip + frame + diff_ref + self-diff test; "
                "(3) each known-bad construct is compiled on its own; (4) the item headers, enum bodies and type aliases of the REAL expansion of every declaration of (2) (proc-macro pd calls derive_struct_diff_struct / derive_struct_diff_enum of /repo) are compared token by token with the extracted Coq model of the templates, under several feature sets of the derive crate. The compile step is a TEST, not a proof. non-trivial = distinct declarations")
    res.assumptions.append("C17 is partial: the theorems cover the macro's front end (type parser and printer, declaration parser, attribute readers, used-parameter helpers) and the header / type-definition layer of its templates; the function bodies of the expansion as text, and that rustc accepts the whole expansion, are tested on generated declarations, not proved")
    return finish(res, None)

if __name__ == '__main__':
    sys.exit(main())
