#!/usr/bin/env python3
"""C10: the fixed-capacity slot array used as rope chunk behaves like a bounded sequence."""
import sys, os
sys.path.insert(0, os.path.dirname(os.path.abspath(__file__)))
import ropecheck
sys.exit(ropecheck.main('C10',
    "seeded histories on one chunk of capacity 1,2,3,4,5,8,16 (insert, remove, swap, half-open and open-ended drain, append into free slots incl. surplus, "
    "indexed access in and out of range, assignment, len, forward iteration, owning iterator under mixed next/next_back scripts) driven through an accessor "
    "appended to a clone of /repo's slots.rs and on the extracted model; slot-level layouts and results compared verbatim; oracle = a plain Python list / deque "
    "under the same operations. evaluations = observation lines; non-trivial = distinct histories"))
