#!/usr/bin/env python3
"""C09: the rope behaves exactly like a growable array under every operation history."""
import sys, os
sys.path.insert(0, os.path.dirname(os.path.abspath(__file__)))
import ropecheck
sys.exit(ropecheck.main('C09',
    "seeded histories (construction by new()/from_iter of 0..40 elements, then insert/remove/inclusive drain/swap/assignment with indices biased to "
    "chunk boundaries, grow/shrink/append/front biases, interleaved reads) run on a clone of /repo's rope and on the extracted model; the COMPLETE physical "
    "layout after every operation and every read are compared verbatim; oracle = a Vec under the same operations (len, every index, iter(), into_iter(), "
    "panic at/past len) after every mutation. evaluations = observation lines; non-trivial = distinct histories"))
