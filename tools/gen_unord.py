"""seeded generators, canonicalisation of the implementation's Debug output, and the oracles (the properties as stated,
evaluated on the implementation's observations) for the unordered array-like and flat map-like back ends (C11, C12, C19, C20)."""
import random, re
from collections import Counter

MULTS = [1, 1, 1, 2, 2, 3, 5, 254, 255, 256, 257, 600]

def gen_ua(rng, dist):
    def hit(k): dist[k] = dist.get(k, 0) + 1
    cls = rng.choice(['random', 'random', 'reorder', 'subset', 'superset', 'bigmult', 'bigmult', 'shortcut', 'shortcut_edge', 'empty_p', 'empty_c', 'delta1', 'large'])
    if rng.random() < 0.004: cls = 'hugemult'
    hit('ua_' + cls)
    nk = rng.choice([1, 2, 3, 5, 8, 12])
    def ms(keys, big=False):
        l = []
        for k in keys:
            l += [k] * (rng.choice(MULTS) if big else rng.choice([1, 1, 2, 3]))
        rng.shuffle(l); return l
    keys = rng.sample(range(0, 40), nk)
    if cls == 'random':
        p = ms(rng.sample(range(20), rng.randint(0, 8))); c = ms(rng.sample(range(20), rng.randint(0, 8)))
    elif cls == 'reorder':
        p = ms(keys); c = list(p); rng.shuffle(c)
    elif cls == 'subset':
        p = ms(keys); c = [x for x in p if rng.random() < 0.6]
    elif cls == 'superset':
        c = ms(keys); p = [x for x in c if rng.random() < 0.6]
    elif cls == 'bigmult':
        ks = keys[:3]
        p = ms(ks, True); c = ms(ks, True)
    elif cls == 'shortcut':
        p = ms(rng.sample(range(60), rng.randint(5, 14))); c = ms(rng.sample(range(60), rng.randint(0, 3)))
    elif cls == 'shortcut_edge':     # distinct(cur) around distinct(prev)/2
        n = rng.randint(2, 12); p = ms(rng.sample(range(60), n)); c = ms(rng.sample(range(60), max(0, n // 2 + rng.randint(-1, 1))))
    elif cls == 'large':    # many distinct items; c items change count, c appear, c disappear for c around powers of two (thresholds on counts of entries)
        n = rng.choice([20, 33, 40, 70, 130, 300, 300, 700, 1500]); ks = rng.sample(range(4000), n)
        p = ms(ks)
        cnt = Counter(p); c_n = max(1, min(rng.choice([1, 8, 9, 16, 17, 32, 33, 64, 100, 128, 129, 256, 257, 512, 513, 700]), n // 2))
        kinds = rng.choice([('chg',), ('chg', 'ins'), ('chg', 'ins', 'rem'), ('ins', 'rem'), ('rem',), ('ins',), ('chg', 'rem')])
        rng.shuffle(ks)
        if 'rem' in kinds:
            for k in ks[:c_n]: del cnt[k]
        if 'chg' in kinds:
            for k in ks[c_n:2 * c_n]: cnt[k] = max(1, cnt[k] + rng.choice([-1, 1, 2]))  if cnt[k] > 1 else cnt[k] + 1
        if 'ins' in kinds:
            for k in rng.sample(range(4000, 6000), c_n): cnt[k] = rng.choice([1, 1, 2])
        c = [k for k, m in cnt.items() for _ in range(m)]; rng.shuffle(c)
    elif cls == 'hugemult':   # a multiplicity (and a multiplicity DELTA) past the width of u16
        k = keys[0]; hi = rng.choice([65535, 65536, 65537, 70001]); lo = rng.choice([0, 1, 2, 300])
        others = ms(keys[1:3])
        p, c = ([k] * hi + others, [k] * lo + others) if rng.random() < 0.6 else ([k] * lo + others, [k] * hi + others)
    elif cls == 'empty_p':
        p = []; c = ms(keys)
    elif cls == 'empty_c':
        p = ms(keys); c = []
    else:  # delta1: one item's count differs by exactly one around a boundary
        k = keys[0]; m = rng.choice([1, 2, 254, 255, 256, 257]); p = [k] * m; c = [k] * (m + rng.choice([-1, 1]))
    r = rng.random()
    if r < 0.45: b = ms(rng.sample(range(0, 40), rng.randint(0, 6)), big=rng.random() < 0.2)            # unrelated
    elif r < 0.6: b = list(p)
    elif r < 0.65: b = []
    else:            # overlaps the diff's items with FEWER or MORE copies than the diff assumes, plus strangers (one of them possibly > 255 times)
        b = [x for x in p if rng.random() < 0.5] + [x for x in c if rng.random() < 0.2] + [x for x in p if rng.random() < 0.15]
        if rng.random() < 0.3: b += [rng.randrange(5000, 5010)] * rng.choice([1, 2, 255, 256, 300])
        rng.shuffle(b)
    if max(Counter(p + c).values(), default=0) >= 255: hit('ua_mult_ge_255')
    return p, c, b

def ua_line(i, p, c, b):
    return f"u{i} P {len(p)} {' '.join(map(str, p))} C {len(c)} {' '.join(map(str, c))} B {len(b)} {' '.join(map(str, b))}".replace('  ', ' ')

def gen_mf(rng, dist):
    def hit(k): dist[k] = dist.get(k, 0) + 1
    ko = rng.random() < 0.5
    cls = rng.choice(['random', 'random', 'equal', 'value_change', 'value_change', 'add', 'remove', 'shortcut', 'shortcut_edge', 'empty', 'dupkeys', 'large', 'shrink_shared'])
    hit('mf_' + cls); hit('mf_key_only' if ko else 'mf_key_value')
    def mp(keys): return [(k, rng.randrange(5)) for k in keys]
    keys = rng.sample(range(30), rng.randint(1, 8))
    if cls == 'random':
        p = mp(rng.sample(range(15), rng.randint(0, 8))); c = mp(rng.sample(range(15), rng.randint(0, 8)))
    elif cls == 'equal':
        p = mp(keys); c = list(p); rng.shuffle(c)
    elif cls == 'value_change':
        p = mp(keys); c = [(k, v + 100) if rng.random() < 0.4 else (k, v) for k, v in p]; rng.shuffle(c)
    elif cls == 'add':
        p = mp(keys); c = p + mp([k + 100 for k in rng.sample(range(20), rng.randint(1, 4))])
    elif cls == 'remove':
        p = mp(keys); c = [x for x in p if rng.random() < 0.5]
    elif cls == 'shortcut':
        p = mp(rng.sample(range(60), rng.randint(5, 14))); c = mp(rng.sample(range(60), rng.randint(0, 3)))
    elif cls == 'shortcut_edge':
        n = rng.randint(2, 12); p = mp(rng.sample(range(60), n)); c = mp(rng.sample(range(60), max(0, n // 2 + rng.randint(-1, 1))))
    elif cls == 'large':    # many keys; c values change, c keys appear, c disappear (thresholds on counts of entries)
        n = rng.choice([20, 33, 40, 70, 130, 300, 300, 700, 1500]); ks = rng.sample(range(4000), n)
        p = mp(ks); m = dict(p); c_n = max(1, min(rng.choice([1, 8, 9, 16, 17, 32, 33, 64, 100, 128, 129, 256, 257, 512, 513, 700]), n // 2))
        kinds = rng.choice([('chg',), ('chg', 'ins'), ('chg', 'ins', 'rem'), ('ins', 'rem'), ('rem',), ('ins',), ('chg', 'rem'), ('swapvals',)])
        rng.shuffle(ks)
        if 'rem' in kinds:
            for k in ks[:c_n]: del m[k]
        if 'chg' in kinds:
            for k in ks[c_n:2 * c_n]: m[k] = m[k] + 100
        if 'ins' in kinds:
            for k in rng.sample(range(4000, 6000), c_n): m[k] = rng.randrange(5)
        if 'swapvals' in kinds and n >= 2:        # two keys exchange their values; a value another key had comes back
            a_, b_ = ks[0], ks[1]; m[a_], m[b_] = m[b_] + 7, m[a_] + 7; m[a_], m[b_] = m[b_], m[a_]
        c = list(m.items()); rng.shuffle(c)
    elif cls == 'shrink_shared':   # previous more than twice as large as current, sharing keys of which some changed value
        n = rng.randint(6, 40); ks = rng.sample(range(200), n); p = mp(ks)
        keep = ks[:max(1, rng.randint(1, max(1, n // 2 - 1)))]
        c = [(k, v + 100) if rng.random() < 0.5 else (k, v) for k, v in p if k in keep]; rng.shuffle(c)
    elif cls == 'empty':
        p, c = ([], mp(keys)) if rng.random() < 0.5 else (mp(keys), [])
    else:   # duplicate keys (not a map: correspondence only, no oracle)
        p = [(rng.randrange(4), rng.randrange(2)) for _ in range(rng.randint(1, 7))]; c = [(rng.randrange(4), rng.randrange(2)) for _ in range(rng.randint(0, 7))]
    r = rng.random()
    if r < 0.45: b = mp(rng.sample(range(30), rng.randint(0, 6)))
    elif r < 0.6: b = list(p)
    elif r < 0.65: b = []
    else:            # shares some keys with previous / current (with other values), lacks others, has strangers
        seen, b = set(), []
        for k, v in [x for x in p if rng.random() < 0.5] + [x for x in c if rng.random() < 0.3] + mp(rng.sample(range(7000, 7020), rng.randint(0, 3))):
            if k not in seen: seen.add(k); b.append((k, v + rng.choice([0, 0, 50])))
        rng.shuffle(b)
    return ko, p, c, b, cls == 'dupkeys'

def mf_line(i, ko, p, c, b, dup):
    fl = lambda m: ' '.join(f"{k} {v}" for k, v in m)
    return f"{'x' if dup else 'm'}{i} K {1 if ko else 0} P {2 * len(p)} {fl(p)} C {2 * len(c)} {fl(c)} B {2 * len(b)} {fl(b)}".replace('  ', ' ')

# ---------------------------------------------------------------- canonicalisation of Debug output
def canon_ua(dbg):
    if dbg in ('-', 'PANIC'): return dbg
    m = re.fullmatch(r'UnorderedArrayLikeDiff\((Replace|Modify)\(\[(.*)\]\)\)', dbg)
    if not m: return '?' + dbg
    if m.group(1) == 'Replace':
        xs = sorted(int(x) for x in m.group(2).split(', ') if x)
        return 'Replace[' + ','.join(map(str, xs)) + ']'
    ents = []
    for e in re.finditer(r'(Insert|Remove)(Many|Few)\(UnorderedArrayLikeChangeSpec \{ item: (-?\d+), count: (\d+) \}\)|(Insert|Remove)Single\((-?\d+)\)', m.group(2)):
        if e.group(1):
            ents.append(f"{'+' if e.group(1) == 'Insert' else '-'}{e.group(2)[0]}({e.group(3)},{e.group(4)})")
        else:
            ents.append(f"{'+' if e.group(5) == 'Insert' else '-'}S({e.group(6)})")
    rebuilt_n = len(re.findall(r'(?:Insert|Remove)(?:Many|Few|Single)\(', m.group(2)))
    if rebuilt_n != len(ents): return '?' + dbg
    return 'Modify[' + ','.join(sorted(ents)) + ']'

def canon_mf(dbg):
    if dbg in ('-', 'PANIC'): return dbg
    m = re.fullmatch(r'UnorderedMapLikeDiff\((Replace|Modify)\(\[(.*)\]\)\)', dbg)
    if not m: return '?' + dbg
    if m.group(1) == 'Replace':
        xs = sorted((int(a), int(b)) for a, b in re.findall(r'\((-?\d+), (-?\d+)\)', m.group(2)))
        return 'Replace[' + ','.join(f"{a}:{b}" for a, b in xs) + ']'
    ents = []
    for e in re.finditer(r'InsertMany\((-?\d+), (-?\d+), (\d+)\)|RemoveMany\((-?\d+), (\d+)\)|InsertSingle\((-?\d+), (-?\d+)\)|RemoveSingle\((-?\d+)\)', m.group(2)):
        g = e.groups()
        if g[0] is not None: ents.append(f"+M({g[0]}:{g[1]},{g[2]})")
        elif g[3] is not None: ents.append(f"-M({g[3]},{g[4]})")
        elif g[5] is not None: ents.append(f"+S({g[5]}:{g[6]})")
        else: ents.append(f"-S({g[7]})")
    if len(re.findall(r'(?:Insert|Remove)(?:Many|Single)\(', m.group(2))) != len(ents): return '?' + dbg
    return 'Modify[' + ','.join(sorted(ents)) + ']'

def parse_ua_entries(canon):
    """Modify[...] -> list of (dir, form, key, count)"""
    out = []
    body = canon[len('Modify['):-1]
    for e in re.finditer(r'([+-])([SFM])\((-?\d+)(?:,(\d+))?\)', body):
        out.append((e.group(1), e.group(2), int(e.group(3)), int(e.group(4)) if e.group(4) else 1))
    return out

def parse_mf_entries(canon):
    out = []
    body = canon[len('Modify['):-1]
    for e in re.finditer(r'([+-])([SM])\((-?\d+)(?::(-?\d+))?(?:,(\d+))?\)', body):
        out.append((e.group(1), e.group(2), int(e.group(3)), int(e.group(4)) if e.group(4) is not None else None, int(e.group(5)) if e.group(5) else 1))
    return out

def ints(s): return [int(x) for x in s.split(',') if x] if s not in ('-', '') else []
def prs(s): return [tuple(map(int, x.split(':'))) for x in s.split(',') if x] if s not in ('-', '') else []

# ---------------------------------------------------------------- oracles
def oracle_ua(prop, p, c, b, D, A, B):
    """returns list of failure strings for property prop in {C11, C19, C20}"""
    f = []
    cp, cc, cb = Counter(p), Counter(c), Counter(b)
    if 'PANIC' in (D, A, B):
        return [f"panic (diff={D} apply-own={A} apply-base={B})"] if prop in ('C11', 'C19') else []
    if D.startswith('?'): return [f"unparsable diff rendering {D[:80]}"]
    if prop == 'C11':
        if (D == '-') != (cp == cc): f.append(f"diff absent={D == '-'} but equal-as-multisets={cp == cc}")
        if D != '-' and Counter(ints(A)) != cc: f.append(f"apply(previous, diff) = [{A}] is not current as a multiset")
    elif prop == 'C19' and D != '-':
        if D.startswith('Replace'):
            if sorted(ints(B)) != sorted(ints(D[8:-1])): f.append(f"replacement applied to an unrelated base gives [{B}], not the carried collection")
        else:
            ents = parse_ua_entries(D)
            exp = Counter(cb)
            rem, ins = Counter(), Counter()
            for d, _, k, n in ents:
                (ins if d == '+' else rem)[k] += n
            want = Counter({k: max(0, cb[k] - rem[k]) + ins[k] for k in set(cb) | set(ins) | set(rem)})
            want = +want
            if Counter(ints(B)) != want: f.append(f"apply(base, diff) = [{B}] but base - removed (saturating) + inserted = {sorted(want.elements())}")
    elif prop == 'C20' and D != '-':
        dp, dc = len(cp), len(cc)
        if D.startswith('Replace'):
            if Counter(ints(D[8:-1])) != cc: f.append("full replacement does not carry exactly the new collection")
            if dc >= dp: f.append(f"full replacement although current has {dc} >= {dp} distinct items")
        else:
            ents = parse_ua_entries(D)
            seen = set()
            for d, form, k, n in ents:
                if (d, k) in seen: f.append(f"item {k} mentioned twice in direction {d}")
                seen.add((d, k))
                delta = cc[k] - cp[k]
                if n == 0: f.append(f"zero-count entry for {k}")
                if d == '+' and n != delta: f.append(f"insert {k} x{n} but the multiplicity delta is {delta}")
                if d == '-' and n != -delta: f.append(f"remove {k} x{n} but the multiplicity delta is {delta}")
            for k in set(cp) | set(cc):
                if cp[k] != cc[k] and not any(kk == k for _, _, kk, _ in ents): f.append(f"changed item {k} not mentioned")
    return f

def oracle_mf(prop, ko, p, c, b, D, A, B):
    f = []
    mp, mc, mb = dict(p), dict(c), dict(b)
    if 'PANIC' in (D, A, B):
        return [f"panic (diff={D} apply-own={A} apply-base={B})"] if prop in ('C12', 'C19') else []
    if D.startswith('?'): return [f"unparsable diff rendering {D[:80]}"]
    if prop == 'C12':
        if (D == '-') != (mp == mc): f.append(f"diff absent={D == '-'} but maps equal={mp == mc} (key_only={ko})")
        if D != '-':
            got = prs(A)
            if len(set(k for k, _ in got)) != len(got): f.append(f"apply(previous, diff) holds a key twice: [{A}]")
            if dict(got) != mc: f.append(f"apply(previous, diff) = [{A}] is not current")
    elif prop == 'C19' and D != '-':
        got = prs(B)
        if D.startswith('Replace'):
            if sorted(got) != sorted(prs(D[8:-1])): f.append("replacement applied to an unrelated base is not the carried map")
        else:
            allowed = set(mb) | {k for _, _, k, _, _ in parse_mf_entries(D)}
            extra = [k for k, _ in got if k not in allowed]
            if extra: f.append(f"apply(base, diff) has keys {extra} that are neither in the base nor in the diff")
    elif prop == 'C20' and D != '-':
        if D.startswith('Replace'):
            if dict(prs(D[8:-1])) != mc or len(prs(D[8:-1])) != len(mc): f.append("full replacement does not carry exactly the new map")
            if len(mc) >= len(mp): f.append(f"full replacement although current has {len(mc)} >= {len(mp)} keys")
        else:
            ents = parse_mf_entries(D)
            rk = [k for d, _, k, _, _ in ents if d == '-']; ip = [(k, v) for d, _, k, v, _ in ents if d == '+']
            if any(form != 'S' or n != 1 for _, form, _, _, n in ents): f.append("a map diff entry with multiplicity other than one")
            if len(set(rk)) != len(rk): f.append("a key removed twice")
            if len(set(k for k, _ in ip)) != len(ip): f.append("a key inserted twice")
            want_r = {k for k, v in mp.items() if mc.get(k, None) != v or k not in mc}
            want_i = {(k, v) for k, v in mc.items() if not (k in mp and mp[k] == v)}
            if set(rk) != want_r: f.append(f"removed keys {sorted(rk)} but exactly {sorted(want_r)} lost or changed their value")
            if set(ip) != want_i: f.append(f"inserted pairs {sorted(ip)} but exactly {sorted(want_i)} are new or changed")
    return f
