#!/usr/bin/env python3
"""C15: generated setters: the emitted diffs replay to the same state."""
import os, sys, random, json
sys.path.insert(0, os.path.dirname(os.path.abspath(__file__)))
from derivecheck import *
PROP = 'C15'

def run_setters(res, seed, tier, with_model=True):
    ns, nc = (36, 30) if tier == 'quick' else (300, 80)
    shapes, lines, meta, dist = gen_setter_workload(seed, ns, nc)
    key = sha('|'.join([repo_hash(), sha(open(os.path.join(DG, 'src', 'support.rs')).read() + open(os.path.join(V, 'tools', 'gen_derive.py')).read() + open(os.path.join(V, 'tools', 'derivecheck.py')).read()), str(seed), tier, 'setters']))
    cdir = os.path.join(WORK, 'derive_cache', key); casefile = os.path.join(cdir, 'cases.txt')
    with lock('derive_setters'):
        if not os.path.exists(os.path.join(cdir, 'impl.txt')):
            os.makedirs(cdir, exist_ok=True)
            open(casefile, 'w').write('\n'.join(lines) + '\n')
            dg = build_dg(res, shapes, features=('debug_diffs', 'generated_setters'), tag='dg_setters', setters=True)
            if not dg: return None
            rc, impl = run_lines([dg, casefile], timeout=3000)
            if rc != 0:
                res.add_broken('correspondence', 'generated setter harness run', f"rc={rc} {' '.join(impl[-2:])[:300]}"); return None
            open(os.path.join(cdir, 'impl.txt'), 'w').write('\n'.join(impl) + '\n')
        impl = open(os.path.join(cdir, 'impl.txt')).read().splitlines()
    by = {sid: (ko, sh) for sid, ko, sh in shapes}
    obs, hfails = split_oracle(impl)
    obs = canon_impl_lines(obs, by, meta)
    per = {}
    for l in obs:
        p = l.split(' ', 2); per.setdefault(p[0], {})[p[1]] = p[2] if len(p) > 2 else ''
    case_line = {l.split()[1]: l for l in lines if l.startswith('SET')}
    shape_line = {l.split()[1]: l for l in lines if l.startswith('SHAPE')}
    fails = []
    for cid, (sid, x, ops) in meta.items():
        try: msgs = O.check_setters(by[sid][1], x, ops, per.get(cid, {}))
        except Exception as e: msgs = [f"oracle could not read the observations ({e!r})"]
        for m in msgs:
            fails.append({'group': 'setters', 'case': shape_line[sid] + '\n' + case_line[cid], 'what': f"ORACLE-FAIL {cid} {m}", 'signature': m})
    for h in hfails:
        cid = h.split()[1]
        fails.append({'group': 'setters', 'case': shape_line[meta[cid][0]] + '\n' + case_line[cid], 'what': h, 'signature': h})
    if with_model:
        drv = build_ocaml(res, 'derive', 'Derive')
        if drv:
            rc, model = run_lines([drv, casefile], timeout=3000)
            dis = compare(model, obs)
            if dis:
                i, mm, im = dis[0]; cid = (mm if mm != '<missing>' else im).split()[0]
                res.add_broken('correspondence', 'setter model differs from the generated setters',
                               f"{shape_line.get(meta.get(cid, ('?',))[0], '')} | {case_line.get(cid, cid)[:300]} | model: {mm[:240]} | impl: {im[:240]} ({len(dis)}+ differing lines)")
            res.coverage['traces_validated_against_impl'] = len(obs) - len(dis)
    return dict(shapes=shapes, lines=lines, meta=meta, dist=dist, obs=obs, fails=fails)

def replay_setters(res, path):
    """rebuild the generated type of the recorded case with generated_setters against /repo's current tree, run the recorded setter calls, re-apply the oracle"""
    r = json.load(open(path))
    if r.get('kind') != 'failing-input' or r.get('group') != 'setters':
        print(json.dumps(r, indent=1)[:3000]); print('no runnable setter case in this replay file (broken proof obligation / correspondence, or a declaration that does not build: the declaration is in "case"): re-run the check itself')
        return 1
    lines = [l for l in r['case'].split('\n') if l.strip()]
    shl = lines[0].split(); sid = shl[1]; sh = G.parse_shape(shl[3])
    t = lines[1].split(); cid = t[1]
    ix, io = t.index('X', 3), t.index('OPS', 3)
    x = G.parse_vtext(' '.join(t[ix + 1:io]))
    ops, i = [], io + 1
    while i < len(t):
        fi = int(t[i]); v, i = G.parse_vtoks(t, i + 1); ops.append((fi, v))
    dg = build_dg(res, [(sid, int(shl[2]), sh)], features=('debug_diffs', 'generated_setters'), tag='dg_replay_setters', setters=True)
    if not dg:
        print('the generated crate does not build:', res.broken[:1]); print(f"VIOLATION property={PROP} replay={path}"); return 1
    f = os.path.join(WORK, f'replay_setters_{os.getpid()}.txt'); open(f, 'w').write('\n'.join(lines[:2]) + '\n')
    rc, impl = run_lines([dg, f]); os.unlink(f)
    obs, hfails = split_oracle(impl)
    obs = canon_impl_lines(obs, {sid: (int(shl[2]), sh)}, {cid: (sid, x, ops)})
    print('\n'.join(lines[:2])); print('\n'.join(obs))
    per = {}
    for l in obs:
        p = l.split(' ', 2)
        if p[0] == cid: per[p[1]] = p[2] if len(p) > 2 else ''
    msgs = O.check_setters(sh, x, ops, per) + hfails
    for m in msgs: print(f"REPLAY-FAIL property={PROP} {m}")
    if msgs:
        print(f"VIOLATION property={PROP} replay={path}"); return 1
    print(f"replay: the recorded setter calls no longer violate {PROP}"); return 0

def main():
    a = std_args()
    res = Result(PROP, a.tier, a.seed)
    if a.replay:
        return replay_setters(res, a.replay)
    step_translate(res, ['ordered'])
    step_proofs(res, PROP, ['props/C15.vo'])
    if a.tier == 'thorough': coqchk(res, ['Props.C15'])
    w = run_setters(res, a.seed, a.tier)
    if w:
        res.oracle_fail = w['fails']
        res.evaluations = sum(len(m[2]) for m in w['meta'].values())
        for cid, m in w['meta'].items(): res.nontrivial.add(sha(repr(m)))
        res.coverage['shapes'] = len(w['shapes']); res.coverage['input_distribution'] = w['dist']
        res.samples = [l[:400] for l in w['lines'][:2]] + w['obs'][:3]
    res.rule = ("random struct shapes compiled against /repo with the generated_setters feature: struct-level `setters` or per-field `setter` opt-in, `skip_setter`, custom `setter_name`; "
                "random sequences of 1..10 setter calls (new value equal / differing only in skipped or order-insensitive parts / changed); per call the returned entry and the value afterwards, and the replay "
                "of all returned entries on a copy of the initial value, are compared with the model; oracle: exactly the given value stored, no other field touched, nothing returned iff the strategy sees no change, "
                "replay equivalent to the final value. evaluations = setter calls; non-trivial = distinct call sequences")
    def search():
        tmp = Result(PROP, a.tier, a.seed)
        w2 = run_setters(tmp, a.seed + 7919, 'quick', with_model=False)
        if not w2:
            # the harness does not build: look for the shape that breaks the build
            shapes, _, _, _ = gen_setter_workload(a.seed, 36 if a.tier == 'quick' else 300, 1)
            found = find_unbuildable_shape(res, shapes, ('debug_diffs', 'generated_setters'), True)
            res.coverage['search'] = {'note': 'generated setter harness does not build against /repo', 'detail': [b[2][:300] for b in tmp.broken]}
            if found:
                (sid, ko, sh), src, err = found
                decl = src[src.index('#[derive'):src.index('pub fn dispatch')]
                import re as _re
                decl = _re.sub(r'impl (HasOptionMarker|Fconv|SetField) for .*?\n}\n', '', decl, flags=_re.S)
                strats = sorted(set(f.strat + (str(f.ko) if f.strat == 'N' else '') for f in sh.fields))
                sig = f"declaration with generated setters does not compile: field strategies {strats}"
                return [{'group': 'setters-build', 'case': f"SHAPE {sid} {ko} {sh.text()}\n" + decl, 'what': f"ORACLE-FAIL the expansion of #[derive(Difference)] with setters does not compile for shape {sh.text()}: {err[:300]}", 'signature': sig}]
            return []
        res.coverage['search'] = {'cases': len(w2['meta']), 'oracle_failures': len(w2['fails'])}
        return w2['fails']
    return finish(res, search)

if __name__ == '__main__':
    sys.exit(main())
