#!/usr/bin/env python3
"""C18 (partial): the derive's list diff needs memory linear in the list lengths."""
import os, sys, random, json, re
sys.path.insert(0, os.path.dirname(os.path.abspath(__file__)))
from vlib import *
import gen_ord
PROP = 'C18'
CELL = 32       # bytes: upper bound on size_of of a cost cell (16), a borrowed change (32) and a chain box

def contents(rng, kind, n, m):
    if kind == 'random': return [rng.randrange(20) for _ in range(n)], [rng.randrange(20) for _ in range(m)]
    if kind == 'equal': t = [rng.randrange(50) for _ in range(n)]; return t, list(t[:m]) + [0] * max(0, m - n)
    if kind == 'disjoint': return [rng.randrange(50) for _ in range(n)], [100 + rng.randrange(50) for _ in range(m)]
    if kind == 'shifted': t = [rng.randrange(1000) for _ in range(n)]; k = min(7, n); s = (t[k:] + t[:k])[:m]; return t, s + [0] * max(0, m - len(s))
    if kind == 'short': return [rng.randrange(20) for _ in range(n)], [rng.randrange(20) for _ in range(min(m, 5))]
    if kind == 'prefix':      # a long common prefix, then unrelated tails
        k = (min(n, m) * 3) // 4; c = [rng.randrange(1000) for _ in range(k)]
        return c + [rng.randrange(20) for _ in range(n - k)], c + [100 + rng.randrange(20) for _ in range(m - k)]
    if kind == 'suffix':
        k = (min(n, m) * 3) // 4; c = [rng.randrange(1000) for _ in range(k)]
        return [rng.randrange(20) for _ in range(n - k)] + c, [100 + rng.randrange(20) for _ in range(m - k)] + c
    if kind == 'near':        # a handful of edits
        t = [rng.randrange(1000) for _ in range(n)]; s = gen_ord.mutate(rng, t, 8, 1000)
        return t, s
    if kind in ('block_front', 'block_back'):   # one list is the other plus ONE foreign block in front / at the back (a whole block deleted or inserted)
        short = [rng.randrange(1000) for _ in range(min(n, m))]; blk = [5000 + rng.randrange(50) for _ in range(abs(n - m))]
        long_ = blk + short if kind == 'block_front' else short + blk
        return (long_, short) if n >= m else (short, long_)
    if kind == 'periodic':    # many equally good alignments (ties in the split row)
        return [i % 3 for i in range(n)], [(i + 1) % 3 for i in range(m)]
    raise ValueError(kind)

def main():
    a = std_args()
    res = Result(PROP, a.tier, a.seed)
    bb = cargo_build(res, os.path.join(V, 'harness', 'bb'), 'bb')
    if a.replay:
        r = json.load(open(a.replay)); print(json.dumps(r, indent=1))
        if r.get('kind') != 'failing-input' or not bb: return 1
        f = os.path.join(WORK, 'replay_c18.txt'); open(f, 'w').write(r['case'] + '\n')
        rc, lines = run_lines([bb, 'mem', f]); print('\n'.join(lines)); return 0
    consts = step_translate(res, ['ordered', 'derive_ordered_entry', 'arith_ordered'])
    step_proofs(res, PROP, ['props/C18.vo'])
    if a.tier == 'thorough':
        coqchk(res, ['Props.C18'])
    K = consts.get('LEVENSHTEIN_CUTOFF', 8) + consts.get('INSERT_COST', 2) + consts.get('DELETE_COST', 1) + 6
    drv = build_ocaml(res, 'ordered', 'Ordered') if not any(k == 'translator' and n == 'ordered' for k, n, _ in res.broken) else None
    rng = random.Random(a.seed)
    dist = {}
    def mk(cid, kind, n, m):
        t, s = contents(rng, kind, n, m)
        dist['kind_' + kind] = dist.get('kind_' + kind, 0) + 1
        return f"{cid} MEM T {len(t)} {' '.join(map(str, t))} S {len(s)} {' '.join(map(str, s))}".replace('  ', ' '), len(t), len(s)
    # (1) correspondence: model cost semantics vs measured peak, sizes the Peano-nat model can evaluate
    small = []
    for i in range(40 if a.tier == 'quick' else 200):
        n, m = rng.choice([0, 1, 5, 9, 17, 40, 80, 120]), rng.choice([0, 1, 5, 9, 17, 40, 80, 120])
        small.append(mk(f"s{i}", rng.choice(['random', 'equal', 'disjoint', 'shifted', 'short', 'prefix', 'suffix', 'near', 'periodic']), n, m))
    # (2) oracle on the implementation alone: large inputs
    sizes = [(300, 300), (1000, 1000), (3000, 2500), (2000, 10), (10, 2000), (400, 2500), (2500, 400)] if a.tier == 'quick' else [(1000, 1000), (5000, 5000), (20000, 20000), (30000, 50), (50, 30000), (12000, 9000), (2000, 12000), (12000, 2000)]
    big = [mk(f"b{i}_{kind}", kind, n, m) for i, (n, m) in enumerate(sizes) for kind in (['random', 'shifted', 'prefix', 'suffix', 'near', 'periodic'] if a.tier == 'quick' else ['random', 'equal', 'disjoint', 'shifted', 'short', 'prefix', 'suffix', 'near', 'periodic'])]
    blocks = [(4000, 6000), (6000, 4000), (1000, 1500), (3000, 3400)] if a.tier == 'quick' else [(4000, 6000), (6000, 4000), (1000, 1500), (3000, 3400), (16000, 24000), (24000, 16000), (20000, 21000)]
    big += [mk(f"k{i}_{kind}", kind, n, m) for i, (n, m) in enumerate(blocks) for kind in ('block_front', 'block_back')]
    f1 = os.path.join(WORK, f'cases_{PROP}.txt'); open(f1, 'w').write('\n'.join(c for c, _, _ in small + big) + '\n')
    f2 = os.path.join(WORK, f'cases_{PROP}_small.txt'); open(f2, 'w').write('\n'.join(c for c, _, _ in small) + '\n')
    impl, model = {}, {}
    if bb:
        rc, lines = run_lines([bb, 'mem', f1], timeout=3000)
        if rc != 0: res.add_broken('correspondence', 'bb mem run', ' '.join(lines[-2:])[:300])
        for l in lines:
            mm = re.match(r'(\S+) MEM peak_bytes=(\d+) largest_alloc=(\d+)', l)
            if mm: impl[mm.group(1)] = (int(mm.group(2)), int(mm.group(3)))
    if drv:
        rc, lines = run_lines([drv, f2], timeout=3000)
        for l in lines:
            mm = re.match(r'(\S+) MEM peak_cells=(\d+) retained_cells=(\d+) script=(\d+)', l)
            if mm: model[mm.group(1)] = tuple(int(x) for x in mm.groups()[1:])
    table = []
    for c, n, m in small + big:
        cid = c.split()[0]
        if cid not in impl: continue
        peak, largest = impl[cid]
        bound = CELL * K * (n + m + 1) + 8 * (n + m) + 4096      # the theorem's bound in bytes + the two Vec<&T> of the entry point + slack for small fixed allocations
        table.append({'case': cid, 'n': n, 'm': m, 'peak_bytes': peak, 'bound_bytes': bound, 'largest_alloc': largest})
        if peak > bound:
            res.oracle_fail.append({'group': 'mem', 'case': c if n + m < 400 else f"{cid}: n={n} m={m} (regenerate with seed {a.seed})", 'what': f"ORACLE-FAIL {cid} working memory {peak} bytes for n={n}, m={m} exceeds the linear bound {bound} (a table of n*m cells would be {16 * n * m})", 'signature': 'nonlinear'})
        if cid in model:
            p, r, sc = model[cid]
            mb = CELL * (p + r) + 8 * (n + m) + 2048
            if peak > mb:
                res.add_broken('correspondence', 'measured peak exceeds the cost model', f"{cid}: n={n} m={m} measured {peak} B > {mb} B = {CELL}*(peak_cells {p} + retained {r}) + entry-point vectors + slack")
    res.evaluations = len(table)
    for t in table: res.nontrivial.add((t['n'], t['m'], t['case']))
    res.coverage['measurements'] = table[-12:]
    res.coverage['input_distribution'] = dist
    res.coverage['traces_validated_against_impl'] = len([1 for c, _, _ in small if c.split()[0] in model and c.split()[0] in impl])
    res.rule = ("inputs of the kinds random / equal / disjoint / shifted / one side short / long common prefix / long common suffix / a few edits / periodic (ties) / one whole foreign block in front or at the back of either list, with either side the longer one; (1) for sizes the Peano-nat model can evaluate the measured peak of live heap bytes during hirschberg() "
                "(counting global allocator in the harness) must not exceed the model's cost semantics hir_mem (peak + retained cells, 32 B per cell) plus the entry point's two pointer vectors; "
                "(2) for large sizes the measured peak must not exceed the proven linear bound K*(n+m+1) cells. non-trivial = every measured (n, m, kind)")
    res.samples = [small[0][0][:200], {'large': table[-1] if table else None}]
    res.assumptions.append("C18 is partial: hir_mem is a cost MODEL of allocator-visible behaviour on the same recursion as the functional model; it is tied to the code by measurement, not derived from it")
    def search():
        return []
    return finish(res, search)

if __name__ == '__main__':
    sys.exit(main())
