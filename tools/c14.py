#!/usr/bin/env python3
"""C14: diffs survive both wire formats, and a serialized DiffRef decodes as a Diff."""
import os, sys, random, json
sys.path.insert(0, os.path.dirname(os.path.abspath(__file__)))
from derivecheck import *
PROP = 'C14'

def main():
    a = std_args()
    res = Result(PROP, a.tier, a.seed)
    if a.replay:
        print(open(a.replay).read()); return 1
    step_translate(res, ['ordered', 'ordered_wire', 'unord_wire'])
    step_proofs(res, PROP, ['props/C14.vo'])
    if a.tier == 'thorough': coqchk(res, ['Props.C14'])
    ns, npairs = (30, 30) if a.tier == 'quick' else (250, 80)
    shapes, lines, meta, dist = gen_workload(a.seed, ns, npairs, 0, codec_safe=True)
    by = {sid: (ko, sh) for sid, ko, sh in shapes}
    case_line = {l.split()[1]: l for l in lines if l.startswith('PAIR')}
    shape_line = {l.split()[1]: l for l in lines if l.startswith('SHAPE')}
    f1 = os.path.join(WORK, f'cases_{PROP}_{a.tier}.txt'); open(f1, 'w').write('\n'.join(lines) + '\n')
    dg = build_dg(res, shapes, features=('debug_diffs', 'nanoserde', 'serde'), tag='dg_wire')
    drv = build_ocaml(res, 'derive', 'Derive')
    def fail(cid, msg, sig=None):
        res.oracle_fail.append({'group': 'wire', 'case': shape_line[meta[cid][0]] + '\n' + case_line[cid], 'what': f"ORACLE-FAIL {cid} {msg}", 'signature': sig or msg})
    nobs = 0
    if dg:
        rc, impl, crashed = run_cases(dg, f1, timeout=3000)
        for cl, err in crashed:
            cid = cl.split()[1]
            fail(cid, f"the process ABORTS while the diffs of this pair are serialized and decoded again: {err[:200]}", 'abort while encoding/decoding own bytes')
        if rc != 0 and not crashed: res.add_broken('correspondence', 'wire harness run', ' '.join(impl[-2:])[:300])
        crashed_ids = {cl.split()[1] for cl, _ in crashed}
        obs, _ = split_oracle(impl)
        obs = canon_impl_lines(obs, by, meta)
        per = {}
        for l in obs:
            p = l.split(' ', 2); per.setdefault(p[0], {})[p[1]] = p[2] if len(p) > 2 else ''
        nobs = len(obs)
        # (1) the implementation alone: the borrowed form decodes as the owned type and has the effect of the in-memory diff
        for cid, m in meta.items():
            if cid in crashed_ids: continue
            o = per.get(cid, {})
            if cid not in per:
                if rc != 0: continue          # the run ended early: already reported
            for t in ('N', 'B'):
                codec = 'nanoserde' if t == 'N' else 'bincode'
                for form, W in (('DiffRef', 'W'), ('Diff', 'O')):
                    if o.get('A' + W + t) == 'UNDECODABLE' or ('A' + W + t) not in o:
                        fail(cid, f"the serialized {form} does not decode as the owned diff ({codec})", f"undecodable {form} {codec}"); continue
                    if o.get('A' + W + t) != o.get('A'): fail(cid, f"decoded {codec} {form} applied to a gives {o.get('A' + W + t)}, the in-memory diff gives {o.get('A')}", f"effect of {form} differs {codec}")
                    if o.get('X' + W + t) != o.get('X'): fail(cid, f"decoded {codec} {form} applied to an equivalent base gives {o.get('X' + W + t)}, the in-memory diff gives {o.get('X')}", f"effect of {form} on equivalent base differs {codec}")
        # (2) the model decodes the implementation's bytes (owned and borrowed, both formats): same entries as the in-memory diff
        if drv:
            f2 = os.path.join(WORK, f'cases_{PROP}_dec.txt')
            with open(f2, 'w') as fh:
                for l in lines:
                    if l.startswith('SHAPE'): fh.write(l + '\n')
                for cid, m in meta.items():
                    o = per.get(cid, {})
                    for tag, fm in (('NSB', 'ns'), ('NSRB', 'ns'), ('BCB', 'bc'), ('BCRB', 'bc')):
                        if tag in o and o[tag] != 'PANIC': fh.write(f"WDEC {cid} {m[0]} {tag} {fm} {o[tag]}\n")
            rc, mdec = run_lines([drv, f2], timeout=3000)
            md = {}
            for l in mdec:
                p = l.split(' ', 2); md.setdefault(p[0], {})[p[1]] = p[2] if len(p) > 2 else ''
            nd = 0
            for cid, m in meta.items():
                o = per.get(cid, {}); want = o.get('D')
                for tag in ('NSB', 'NSRB', 'BCB', 'BCRB'):
                    got = md.get(cid, {}).get(tag)
                    want_t = want if tag in ('NSB', 'BCB') else o.get('DR')
                    if got != want_t:
                        nd += 1
                        if nd == 1:
                            res.add_broken('correspondence', "the model's decoder reads the implementation's bytes differently", f"{shape_line[m[0]]} | {case_line[cid][:200]} | {tag}: model decodes {str(got)[:200]} | in-memory diff {str(want_t)[:200]}")
            # (3) the implementation decodes the MODEL's bytes
            f3 = os.path.join(WORK, f'cases_{PROP}_enc.txt')
            with open(f3, 'w') as fh:
                for l in lines:
                    if l.startswith('SHAPE'): fh.write(l + '\n')
                for cid, m in meta.items():
                    fh.write(f"WENC {cid} {m[0]} A {G.vtext(m[1])} B {G.vtext(m[2])}\n")
            rc, menc = run_lines([drv, f3], timeout=3000)
            me = {}
            for l in menc:
                if l.startswith('MODEL-SELF-FAIL'):
                    res.add_broken('correspondence', 'model self-check', l); continue
                p = l.split(' ', 2); me.setdefault(p[0], {})[p[1]] = p[2] if len(p) > 2 else '-'
            f4 = os.path.join(WORK, f'cases_{PROP}_back.txt')
            with open(f4, 'w') as fh:
                for l in lines:
                    if l.startswith('SHAPE'): fh.write(l + '\n')
                for cid, m in meta.items():
                    if cid in me: fh.write(f"WIRE {cid} {m[0]} A {G.vtext(m[1])} NS {me[cid].get('NSM') or '-'} BC {me[cid].get('BCM') or '-'}\n")
            rc, back, crashed_b = run_cases(dg, f4, timeout=3000)
            for cl, err in crashed_b[:1]:
                res.add_broken('correspondence', "the implementation ABORTS while decoding the model's bytes", f"{cl[:300]} | {err[:200]}")
            bobs = canon_impl_lines_tags(back, by, meta)
            nb = 0
            for cid, m in meta.items():
                o = per.get(cid, {}); bo = bobs.get(cid, {})
                for t in ('N', 'B'):
                    if cid in {c.split()[1] for c, _ in crashed_b}: continue
                    if bo.get('DM' + t) == 'UNDECODABLE' or ('DM' + t) not in bo:
                        nb += 1
                        if nb == 1: res.add_broken('correspondence', "the implementation cannot decode the model's bytes", f"{shape_line[m[0]]} | {case_line[cid][:200]} | format {t}")
                        continue
                    if bo['DM' + t] != o.get('D') or bo.get('AM' + t) != o.get('A'):
                        nb += 1
                        if nb == 1: res.add_broken('correspondence', "the implementation decodes the model's bytes to a different diff", f"{shape_line[m[0]]} | {case_line[cid][:200]} | {t}: decoded {bo['DM' + t][:200]} | in-memory {o.get('D', '')[:200]}")
            res.coverage['model_decodes_impl_bytes'] = sum(len(v) for v in md.values()); res.coverage['impl_decodes_model_bytes'] = sum(1 for v in bobs.values() for t in v if t.startswith('DM'))
    res.evaluations = len(meta)
    for cid, m in meta.items():
        if m[1] != m[2]: res.nontrivial.add(sha(by[m[0]][1].text() + repr(m[1:3])))
    res.coverage['traces_validated_against_impl'] = nobs
    res.coverage['shapes'] = len(shapes); res.coverage['input_distribution'] = dist
    res.samples = [l[:300] for l in lines[:2]]
    res.rule = ("derive-level workload on shapes whose containers both codecs can encode, built with nanoserde + serde + debug_diffs: for every pair the owned diff and the borrowed diff are serialized with both codecs; "
                "(1) the borrowed AND the owned bytes are decoded as the owned type and applied to a and to an equivalent base (oracle: same result as the in-memory diff; a process abort while decoding own bytes is a failure of that pair); (2) the Coq byte model decodes all four byte strings "
                "and must read the entries of the in-memory diff; (3) the model encodes its own diff and /repo decodes and applies it. non-trivial = distinct pairs with a != b")
    return finish(res, None)

def canon_impl_lines_tags(lines, by, meta):
    out = {}
    for l in lines:
        p = l.split(' ', 2)
        if len(p) < 3: continue
        v = p[2]
        if p[1].startswith('DM') and v not in ('UNDECODABLE', 'PANIC'):
            try: v = G.canon_entries(by[meta[p[0]][0]][1], G.debug_parse(v))
            except Exception as e: v = f"?unparsable({e!r})"
        out.setdefault(p[0], {})[p[1]] = v
    return out

if __name__ == '__main__':
    sys.exit(main())
