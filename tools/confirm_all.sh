#!/bin/bash
# confirm_all.sh <prop> : confirm M1..M3 of /tmp/mut_<prop> (integration-test demos named demo.rs)
p=$1
for k in 1 2 3; do
  md=/tmp/mut_$p/out/M$k
  [ -d $md ] || continue
  echo "== $p M$k"
  /verif/tools/confirm_mutant.sh /tmp/mut_$p $md "--test demo_M$k"
done
