"""C17: generator of type DECLARATIONS over the grammar the derive supports (visibility, generic type / lifetime / const parameters
with bounds, defaults and where clauses, references inside generic arguments, arrays, tuples, paths, nested generics, raw identifiers,
foreign attributes and doc comments, every documented difference attribute in several spellings), each with a round-trip / frame test.
Also: generator of field TYPES for the parser tie (pd dump vs Coq model of next_type), and the list of known-bad constructs."""
import random, re

BASE = ['i64', 'u8', 'bool', 'String']
KEYS = ['i64', 'u8', 'String']

LEN_SPELLINGS = ['1', '3', '4', '3', '4', '4usize', '0x3', '0b11', '0o4', '1_0', '0x0_4', '3_usize']
def gen_type(rng, depth, ctx):
    """a field type whose values the harness can make (trait Mk) and compare; ctx: dict(tparams=[..], lt='a or None, constn=bool)"""
    opts = ['base', 'base']
    if ctx['tparams']: opts += ['tparam', 'tparam']
    if depth > 0:
        opts += ['option', 'vec', 'box', 'tuple2', 'tuple1', 'array', 'hashmap', 'btreemap', 'pathvec', 'pathopt', 'phantom', 'unit', 'tuple3', 'constarg']
        if ctx['lt']: opts += ['optref', 'vecref', 'optreftuple', 'cow', 'cow', 'bareref']
        if ctx['lt'] and ctx['tparams']: opts += ['optref_tparam']
        if ctx.get('lt2'): opts += ['optref2', 'optref2', 'optref2b']
        if ctx['constn']: opts += ['arrayn']
    k = rng.choice(opts)
    sub = lambda: gen_type(rng, depth - 1, ctx)
    if k == 'base': return rng.choice(BASE)
    if k == 'tparam': return _pick(rng, ctx)
    if k == 'option': return f"Option<{sub()}>"
    if k == 'vec': return f"Vec<{sub()}>"
    if k == 'box': return f"Box<{sub()}>"
    if k == 'tuple2': return f"({sub()}, {sub()})"
    if k == 'tuple3': return f"({sub()}, {sub()}, {sub()},)"
    if k == 'tuple1': return f"({sub()},)"
    if k == 'unit': return "()"
    if k == 'optref_tparam':        # a type parameter that occurs only behind a reference inside another type (repair of D8): the harness makes &'static T
        tp = _pick(rng, ctx); ctx.setdefault('need_static', set()).add(tp); ctx['used'].add("'" + ctx['lt'])
        return rng.choice([f"Option<&'{ctx['lt']} {tp}>", f"Vec<(&'{ctx['lt']} {tp}, u8)>", f"Option<&'{ctx['lt']} [{tp}; 2]>"])
    if k == 'bareref':
        ctx['used'].add("'" + ctx['lt']); return rng.choice([f"&'{ctx['lt']} {rng.choice(BASE)}", f"&'{ctx['lt']} ({rng.choice(BASE)}, {rng.choice(BASE)})", f"&'{ctx['lt']} Vec<{rng.choice(BASE)}>"])      # a field that is itself a reference (repair of D9)
    if k == 'constarg': return rng.choice([f"CArr<{rng.choice(BASE)}, {rng.choice(LEN_SPELLINGS)}>", "CNeg<-1>", "CNeg<-0x10>", "CCh<'x'>", f"Option<CArr<{rng.choice(BASE)}, 2>>", "CNeg<7>"])
    if k == 'array': return f"[{sub()}; {rng.choice(LEN_SPELLINGS)}]"        # every spelling of an integer literal: separators, radix prefix, type suffix
    if k == 'arrayn': ctx['used'].add('N'); return f"[{sub()}; N]"
    if k == 'hashmap': return f"std::collections::HashMap<{rng.choice(KEYS)}, {sub()}>"
    if k == 'btreemap': return f"std::collections::BTreeMap<{rng.choice(KEYS)}, {sub()}>"
    if k == 'pathvec': return f"std::vec::Vec<{sub()}>"
    if k == 'pathopt': return f"core::option::Option<{sub()}>"
    if k == 'phantom': return f"std::marker::PhantomData<{sub()}>"
    if k == 'cow':          # a lifetime used as a generic ARGUMENT
        ctx['used'].add("'" + ctx['lt']); return rng.choice([f"std::borrow::Cow<'{ctx['lt']}, str>", f"Option<std::borrow::Cow<'{ctx['lt']}, str>>", f"Vec<std::borrow::Cow<'{ctx['lt']}, str>>"])
    if k == 'vecref':
        ctx['used'].add("'" + ctx['lt']); return f"Vec<&'{ctx['lt']} {rng.choice(BASE)}>"
    if k == 'optreftuple':
        ctx['used'].add("'" + ctx['lt']); return f"Option<&'{ctx['lt']} ({rng.choice(BASE)}, {rng.choice(BASE)})>"
    if k == 'optref2':      # the second lifetime occurs only INSIDE the referent of a reference that carries the first
        ctx['used'].add("'" + ctx['lt']); ctx['used'].add("'" + ctx['lt2']); return f"Option<&'{ctx['lt']} Vec<&'{ctx['lt2']} {rng.choice(BASE)}>>"
    if k == 'optref2b':
        ctx['used'].add("'" + ctx['lt']); ctx['used'].add("'" + ctx['lt2']); return f"(Option<&'{ctx['lt2']} {rng.choice(BASE)}>, Option<&'{ctx['lt']} ({rng.choice(BASE)}, Option<&'{ctx['lt2']} {rng.choice(BASE)}>)>)"
    if k == 'optref':
        ctx['used'].add("'" + ctx['lt'])
        return f"Option<&'{ctx['lt']} {rng.choice(BASE)}>"
    raise ValueError(k)

def _pick(rng, ctx):
    t = rng.choice(ctx['tparams']); ctx['used'].add(t); return t

DOCS = ['/// a documented item\n', '/** block doc */\n', '#[doc = "attribute doc"]\n', '']
FOREIGN = ['#[allow(dead_code)]\n', '#[cfg_attr(not(any()), allow(unused))]\n', '#[allow(clippy::all, unused)]\n', '', '']
RAW_NAMES = ['r#type', 'r#match', 'r#loop']

def stack_attr(rng, attr):
    """the same difference items spread over several stacked #[difference(..)] attributes (every one of them counts, in any order), or a
    harmless second attribute (skip_setter only concerns generated setters) stacked before / after the first"""
    import re as _re
    m = _re.match(r'#\[difference\((.*)\)\](\s*)$', attr, _re.S)
    if not m or rng.random() >= 0.3: return attr
    items = [x.strip() for x in m.group(1).split(',') if x.strip()]
    tail = m.group(2)
    if len(items) >= 2:
        return ''.join(f'#[difference({it})]{tail}' for it in items)
    if not items or 'skip_setter' in items[0]: return attr
    extra = f'#[difference(skip_setter)]{tail}'
    return (extra + attr) if rng.random() < 0.5 else (attr + extra)

def gen_struct(rng, idx, allow_nested=True):
    """returns (name, source text incl. test fn, feature list)"""
    feats = []
    name = f"D{idx}"
    # the header features are stratified over the declaration index so that every combination occurs, whatever the seed
    ntp = [0, 1, 2, 3, 1, 2][idx % 6]
    tparams = ['T', 'U', 'W'][:ntp]
    lt = 'a' if (idx // 6) % 3 >= 1 else None
    lt2 = 'b' if (idx // 6) % 3 == 2 else None
    constn = (idx // 18) % 2 == 1 and (idx % 5 != 0)
    constm = constn and idx % 3 == 0          # a second const parameter
    ctx = dict(tparams=tparams, lt=lt, lt2=lt2, constn=constn, used=set())
    nf = rng.choice([1, 2, 3, 4, 6])
    fields, checks, mks, frame = [], [], [], []
    nested_src = ''
    all_skipped = True
    for i in range(nf):
        kind = rng.choice(['plain', 'plain', 'plain', 'skip', 'recurse', 'ordered', 'unordered', 'map', 'plainopt'])
        if kind == 'recurse' and not allow_nested: kind = 'plain'
        fname = f"f{i}"
        # raw identifiers: more often where the field name is spliced into composed identifiers (aliases and `_full` variants of recurse fields)
        if rng.random() < (0.4 if kind == 'recurse' else 0.12): fname = RAW_NAMES[i % 3]; feats.append('raw_ident_field' + ('_recurse' if kind == 'recurse' else ''))
        if fname in [f[0] for f in fields]: fname = f"f{i}"
        acc = f"{fname}"
        attr = ''
        if kind in ('plain', 'plainopt'):
            ty = gen_type(rng, 2, ctx) if kind == 'plain' else f"Option<{gen_type(rng, 1, ctx)}>"
            # setter attributes are legal on any field (and without the feature) and must not change diff/apply
            attr = rng.choice(['', '', '', '#[difference(skip_setter)]\n    ', '#[difference(setter)]\n    ', f'#[difference(setter_name = "custom_{i}")]\n    ', '#[difference(setter, skip_setter)]\n    '])
            if attr: feats.append('setter_attr_on_plain')
            checks.append(f"        if r.{acc} != b.{acc} {{ return Err(format!(\"plain field {fname}: {{:?}} != {{:?}}\", r.{acc}, b.{acc})); }}")
            all_skipped = False
        elif kind == 'skip':
            ty = gen_type(rng, 1, ctx)
            attr = rng.choice(['#[difference(skip)]', '#[difference(skip)]', '#[difference( skip )]', '#[difference(skip, setter_name = "ignored")]', '#[difference(skip,)]']) + '\n    '
            checks.append(f"        if r.{acc} != a.{acc} {{ return Err(format!(\"skipped field {fname} changed: {{:?}} != {{:?}}\", r.{acc}, a.{acc})); }}")
            feats.append('skip')
        elif kind == 'recurse':
            nname = f"{name}N{i}"
            nested_src += (f"#[derive(Debug, Clone, PartialEq, Difference)]\n#[cfg_attr(feature = \"sd\", derive(serde::Serialize, serde::Deserialize))]\npub struct {nname} {{ pub x: i64, pub y: Option<String>, pub z: Vec<u8> }}\n"
                           f"impl Mk for {nname} {{ fn mk(s: u64) -> Self {{ {nname} {{ x: Mk::mk(s), y: Mk::mk(s + 1), z: Mk::mk(s / 2) }} }} }}\n")
            opt = rng.random() < 0.4
            ty = (rng.choice(["Option", "Option", "std::option::Option", "core::option::Option", "::std::option::Option"]) + f"<{nname}>") if opt else nname      # a path is a path: the qualified spellings too
            attr = rng.choice(['#[difference(recurse)]', '#[difference(recurse)]', '#[difference(recurse, setter)]', '#[difference(recurse,)]']) + '\n    '
            checks.append(f"        if r.{acc} != b.{acc} {{ return Err(format!(\"recurse field {fname}: {{:?}} != {{:?}}\", r.{acc}, b.{acc})); }}")
            feats.append('recurse_option' if opt else 'recurse'); all_skipped = False
        elif kind == 'ordered':
            ty = rng.choice(['Vec<i64>', 'std::collections::LinkedList<u8>', 'std::collections::VecDeque<String>', 'Vec<(i64, bool)>'])
            if tparams and rng.random() < 0.3:        # elements of a type parameter: legal once the parameter is declared 'static (without: known finding D12)
                tp = rng.choice(tparams); ctx['used'].add(tp); ctx.setdefault('need_static', set()).add(tp); ty = f"Vec<{tp}>"; feats.append('ordered_over_type_param')
            attr = rng.choice(['#[difference(collection_strategy = "ordered_array_like")]', '#[difference(collection_strategy="ordered_array_like")]']) + '\n    '
            checks.append(f"        if r.{acc} != b.{acc} {{ return Err(format!(\"ordered field {fname}: {{:?}} != {{:?}}\", r.{acc}, b.{acc})); }}")
            feats.append('ordered'); all_skipped = False
        elif kind == 'unordered':
            ty = rng.choice(['Vec<i64>', 'std::collections::HashSet<u8>', 'std::collections::BTreeSet<String>', 'std::collections::LinkedList<i64>'])
            attr = '#[difference(collection_strategy = "unordered_array_like")]\n    '
            checks.append(f"        if sorted_dbg(&r.{acc}) != sorted_dbg(&b.{acc}) {{ return Err(format!(\"unordered field {fname}: {{:?}} vs {{:?}}\", r.{acc}, b.{acc})); }}")
            feats.append('unordered'); all_skipped = False
        else:
            ty = rng.choice(['std::collections::HashMap<i64, String>', 'std::collections::BTreeMap<u8, i64>', 'std::collections::HashMap<String, (i64, bool)>'])
            attr = rng.choice(['#[difference(collection_strategy = "unordered_map_like")]', '#[difference(collection_strategy = "unordered_map_like", map_equality = "key_and_value")]',
                               '#[difference(map_equality = "key_only", collection_strategy = "unordered_map_like")]']) + '\n    '
            checks.append(f"        if r.{acc} != b.{acc} {{ return Err(format!(\"map field {fname}: {{:?}} != {{:?}}\", r.{acc}, b.{acc})); }}")
            feats.append('map'); all_skipped = False
        if rng.random() < 0.15 and '"' in attr:        # a string literal may be a raw string: r"..", r#".."#
            attr = re.sub(r'"([A-Za-z0-9_ ]*)"', lambda m: rng.choice(['r"%s"', 'r#"%s"#']) % m.group(1), attr); feats.append('raw_string_attribute_value')
        attr2 = stack_attr(rng, attr)
        if attr2 != attr: attr = attr2; feats.append('stacked_difference_attributes')
        vis = rng.choice(['', 'pub ', 'pub(crate) ', 'pub ', 'pub(in crate) ', 'pub(self) ', 'pub(super) '])
        doc = rng.choice(DOCS).replace(chr(10), chr(10) + '    ') if rng.random() < 0.3 else ''
        foreign = rng.choice(FOREIGN).replace(chr(10), chr(10) + '    ') if rng.random() < 0.2 else ''
        pre, post = ((doc + foreign), '') if rng.random() < 0.6 else (foreign, doc) if rng.random() < 0.5 else ('', doc + foreign)      # other attributes before and after the difference one
        fields.append((fname, f"    {pre}{attr}{post}{vis}{fname}: {ty},"))
        mks.append(f"{fname}: Mk::mk(s.wrapping_mul(31).wrapping_add({i}))")
        frame.append(f"(r.{acc} != a.{acc}) as usize")
    if all_skipped: feats.append('all_fields_skipped')
    if all_skipped and rng.random() < 0.4:     # a struct whose every field is skipped compiles since the repair of D5; sometimes one real field is added all the same
        fields.append(('keep', "    pub keep: i64,")); mks.append("keep: Mk::mk(s)"); frame.append("(r.keep != a.keep) as usize")
        checks.append("        if r.keep != b.keep { return Err(format!(\"plain field keep\")); }")
    # every declared parameter must be used by some field (rustc E0392); parameters used only behind a reference are known finding D8
    for t in tparams:
        if t not in ctx['used']:
            fields.append((f"use_{t}", f"    pub use_{t.lower()}: {t},")); mks.append(f"use_{t.lower()}: Mk::mk(s + 3)"); frame.append(f"(r.use_{t.lower()} != a.use_{t.lower()}) as usize")
            checks.append(f"        if r.use_{t.lower()} != b.use_{t.lower()} {{ return Err(format!(\"plain generic field use_{t}\")); }}")
    if lt and ("'" + lt) not in ctx['used']:
        fields.append(('lt_user', f"    pub lt_user: Option<&'{lt} u8>,")); mks.append("lt_user: Mk::mk(s + 5)"); frame.append("(r.lt_user != a.lt_user) as usize")
        checks.append("        if r.lt_user != b.lt_user { return Err(format!(\"plain field lt_user\")); }")
    if lt2 and ("'" + lt2) not in ctx['used']:
        fields.append(('lt2_user', f"    pub lt2_user: Option<&'{lt} Vec<&'{lt2} u8>>,")); mks.append("lt2_user: Mk::mk(s + 6)"); frame.append("(r.lt2_user != a.lt2_user) as usize")
        checks.append("        if r.lt2_user != b.lt2_user { return Err(format!(\"plain field lt2_user\")); }")
    if constm:
        fields.append(('arr_m', "    pub arr_m: [[u8; M]; 2],")); mks.append("arr_m: Mk::mk(s + 9)"); frame.append("(r.arr_m != a.arr_m) as usize")
        checks.append("        if r.arr_m != b.arr_m { return Err(format!(\"plain field arr_m\")); }")
    if constn and 'N' not in ctx['used']:
        fields.append(('arr_n', "    pub arr_n: [u8; N],")); mks.append("arr_n: Mk::mk(s + 7)"); frame.append("(r.arr_n != a.arr_n) as usize")
        checks.append("        if r.arr_n != b.arr_n { return Err(format!(\"plain field arr_n\")); }")
    # generics header in several spellings: inline bounds, where clause, defaults
    bound_style = ['none', 'inline', 'where', 'mixed'][(idx // 2) % 4]
    gl, wl = [], []
    if lt: gl.append("'" + lt)
    if lt2: gl.append("'" + lt2 + (": '" + lt if idx % 4 == 0 else ''))
    for j, t in enumerate(tparams):
        b = rng.choice(['Clone', 'Clone + PartialEq', 'std::fmt::Debug + Clone', 'PartialEq<' + t + '> + Clone'])
        if t in ctx.get('need_static', ()): b = b + " + 'static"
        if bound_style == 'inline' or (bound_style == 'mixed' and j % 2 == 0) or (t in ctx.get('need_static', ()) and bound_style == 'none'): gl.append(f"{t}: {b}")
        else:
            gl.append(t)
            if bound_style in ('where', 'mixed'): wl.append(f"{t}: {b}")
    # where clauses over types that are not bare parameters (a tuple, an array, a generic type), bounded by a trait nothing implies
    if tparams and rng.random() < 0.35:
        t0 = tparams[0]; t1 = tparams[1] if len(tparams) > 1 else tparams[0]
        wl.append(rng.choice([f"({t0}, {t1}): Marker", f"Vec<{t0}>: Marker", f"[{t0}; 2]: Marker", f"({t1},): Marker"])); feats.append('where_on_compound_type')
    if tparams and idx % 3 == 1 and not constn:
        gl[-1] = gl[-1] + " = i64"; feats.append('default_type_param')
    cdef_m = rng.choice([' = 2', ' = 0x2', ' = { 1 + 1 }', ' = 2usize']) if (constm and rng.random() < 0.5) else ''
    cdef_n = rng.choice([' = 3', ' = 0b11', ' = { 4 - 1 }', ' = 3_usize']) if (constn and (cdef_m or not constm) and rng.random() < 0.4) else ''
    # a third const parameter that no field uses, of another type, with a default that is not an integer literal (negative number, char, bool)
    cextra = rng.choice(["const X: i32 = -1", "const Y: char = 'x'", "const Z: bool = true", "const X: i64 = -0x10"]) if (constn and (cdef_n or cdef_m) and (cdef_m or not constm) and cdef_n) else ''
    if constn: gl.append("const N: usize" + cdef_n); feats.append('const_generic')
    if constm: gl.append("const M: usize" + cdef_m); feats.append('two_const_generics')
    if cdef_n or cdef_m: feats.append('const_default')
    if cextra: gl.append(cextra); feats.append('const_default_expression')
    if lt: feats.append('lifetime')
    if lt2: feats.append('two_lifetimes')
    if tparams: feats.append('type_params_' + bound_style)
    gen = f"<{', '.join(gl)}>" if gl else ''
    where = f"\nwhere\n    {', '.join(wl)}," if wl else ''
    args = ', '.join((["'static"] if lt else []) + (["'static"] if lt2 else []) + ['i64' if j % 2 == 0 else 'String' for j, _ in enumerate(tparams)] + (['3'] if constn else []) + (['2'] if constm else []))
    inst = f"{name}<{args}>" if args else name
    impl_gen = re.sub(r"(const \w+: \w+) = (\{[^}]*\}|'.'|[-\w]+)", r'\1', gen.replace(' = i64', ''))
    impl_args = ', '.join((["'" + lt] if lt else []) + (["'" + lt2] if lt2 else []) + tparams + (['N'] if constn else []) + (['M'] if constm else []) + ([cextra.split()[1].rstrip(':')] if cextra else []))
    mk_bounds = ', '.join([f"{t}: Mk" for t in tparams])
    svis = rng.choice(['pub ', '', 'pub '])
    sattr = rng.choice(['', '', '#[difference(setters)]\n', '#[difference(expose)]\n', f'#[difference(expose = "{name}Diff")]\n'])
    if 'expose' in sattr: feats.append('expose')
    exposed_use = ''       # (that the exposed type is nameable under the documented name is NOT part of C17: compiles + round trip + frame only)
    src = (nested_src + rng.choice(DOCS) + rng.choice(FOREIGN) + "#[derive(Debug, Clone, PartialEq, Difference)]\n" + sattr
           + f"{svis}struct {name}{gen}{where}\n{{\n" + '\n'.join(f for _, f in fields) + "\n}\n" + exposed_use
           + f"impl{impl_gen} Mk for {name}{'<' + impl_args + '>' if impl_args else ''}\nwhere {mk_bounds}{', ' if mk_bounds and wl else ''}{', '.join(wl)}\n{{\n    fn mk(s: u64) -> Self {{ {name} {{ " + ', '.join(mks) + " } }\n}\n"
           + f"pub fn test() -> Result<(), String> {{\n    for seed in 0..8u64 {{\n        let a: {inst} = Mk::mk(seed);\n        let b: {inst} = Mk::mk(seed * 7 + 1 + (seed % 3));\n"
           + "        let d = a.diff(&b);\n        let check = |r: &" + inst + "| -> Result<(), String> {\n" + '\n'.join(checks) + "\n            Ok(())\n        };\n"
           + "        check(&a.clone().apply(d.clone()))?;\n"
           + "        let dr: Vec<_> = a.diff_ref(&b).into_iter().map(Into::into).collect();\n        if dr.len() != d.len() { return Err(format!(\"diff_ref yields {} entries, diff {}\", dr.len(), d.len())); }\n        check(&a.clone().apply(dr)).map_err(|m| format!(\"via diff_ref: {}\", m))?;\n"
           + "        if !a.diff(&a).is_empty() { return Err(format!(\"a.diff(&a) is not empty\")); }\n"
           + "        for e in d { let r = a.clone().apply(vec![e]); let changed = 0usize" + ''.join(' + ' + f for f in frame) + "; if changed > 1 { return Err(format!(\"one entry changed {} fields\", changed)); } }\n"
           + "    }\n    Ok(())\n}\n")
    return name, src, sorted(set(feats))

def gen_enum(rng, idx):
    name = f"D{idx}"
    tp = rng.random() < 0.4
    T = 'T' if tp else 'i64'
    variants = ['A', f'B({T})', f'C {{ x: {T}, y: Option<String> }}', 'D(i64, bool)', 'E { }', 'F()', 'K(u8, String, (i64, bool))']
    rng.shuffle(variants); variants = variants[:rng.randint(1, 5)]
    # raw identifiers as variant names (keywords, so that the `r#` cannot be dropped): unit, tuple-like and struct-like
    if idx % 3 == 0: variants.append(rng.choice(['r#type', 'r#match(i64)', f'r#loop {{ x: {T}, y: Option<String> }}']))
    # variants named like the items the expansion itself refers to (the associated types Diff / DiffRef, the variant Replace of the diff enums)
    if idx % 4 == 1: variants.append(rng.choice(['Diff', 'DiffRef(i64)', 'Replace(i64)', 'Diff(i64)']))
    if tp and not any('T' in v[1:] for v in variants): variants.append('B(T)' if not any(v.startswith('B') for v in variants) else 'G(T)')      # a declared parameter must be used (rustc E0392)
    # stratified: a lifetime (reference inside a generic argument, Cow), a const parameter (array length)
    elt = idx % 3 == 1; ecn = idx % 4 == 2
    if elt: variants += [rng.choice(["H(Option<&'a u8>)", "H(std::borrow::Cow<'a, str>, i64)", "H(Vec<&'a u8>)"])] + (["I { r: Option<&'a String>, n: i64 }"] if rng.random() < 0.5 else [])
    if ecn: variants += [rng.choice(["J([u8; N])", "J([[i64; N]; 2])"])]
    rng.shuffle(variants)
    # the bounds of T: none, inline, in a where clause; a where-clause item over a compound type with a trait nothing implies (as for structs)
    estyle = ['none', 'inline', 'where', 'inline'][(idx // 3) % 4] if tp else 'none'
    tdecl = 'T: Clone + PartialEq' if estyle == 'inline' else 'T'
    ewl = (['T: Clone + std::fmt::Debug'] if estyle == 'where' else []) + ([rng.choice(['Vec<T>: Marker', '(T,): Marker', '[T; 2]: Marker', '(T, T): Marker'])] if tp and rng.random() < 0.4 else [])
    ewhere = ('\nwhere ' + ', '.join(ewl) + (',' if rng.random() < 0.5 else '') + '\n') if ewl else ''
    gen = '<' + ', '.join((["'a"] if elt else []) + ([tdecl] if tp else []) + (['const N: usize'] if ecn else [])) + '>' if (tp or elt or ecn) else ''
    gen_args = '<' + ', '.join((["'a"] if elt else []) + (['T'] if tp else []) + (['N'] if ecn else [])) + '>' if (tp or elt or ecn) else ''
    gen_mk = '<' + ', '.join((["'a"] if elt else []) + (['T: Mk' + (' + Clone + PartialEq' if estyle == 'inline' else '')] if tp else []) + (['const N: usize'] if ecn else [])) + '>' if (tp or elt or ecn) else ''
    arms = []
    for k, v in enumerate(variants):
        vn = re.match(r'r#\w+|\w+', v).group(0)
        if v.startswith('K('): e = f"{name}::{vn}(Mk::mk(s), Mk::mk(s + 1), Mk::mk(s + 2))"
        elif v.startswith(('H(', 'J(')): e = f"{name}::{vn}(" + ('Mk::mk(s), Mk::mk(s + 1)' if "str>, i64" in v else 'Mk::mk(s)') + ")"
        elif '(' in v and v.endswith('()'): e = f"{name}::{vn}()"
        elif '(' in v: e = f"{name}::{vn}(" + ', '.join('Mk::mk(s + %d)' % j for j in range(v.count(',') + 1)) + ")"
        elif '{' in v and 'x:' in v: e = f"{name}::{vn} {{ x: Mk::mk(s), y: Mk::mk(s + 1) }}"
        elif '{' in v and 'r:' in v: e = f"{name}::{vn} {{ r: Mk::mk(s), n: Mk::mk(s + 1) }}"
        elif '{' in v: e = f"{name}::{vn} {{ }}"
        else: e = f"{name}::{vn}"
        arms.append(f"            {k} => {e},")
    inst_args = (["'static"] if elt else []) + (['i64'] if tp else []) + (['3'] if ecn else [])
    inst = f"{name}<{', '.join(inst_args)}>" if inst_args else name
    eattr = rng.choice(['', '', '#[difference(expose)]\n', f'#[difference(expose = "{name}Diff")]\n'])
    # the comma after the LAST variant is optional (and absent in one-line enums such as `enum E { A, B }`)
    last_comma = rng.random() < 0.5
    vlines = [(f"    {rng.choice(DOCS).strip()}\n" if rng.random() < 0.2 else '') + f"    {v}" for v in variants]
    enum_body = ',\n'.join(vlines) + (',\n' if last_comma else '\n')
    euse = ''
    src = (rng.choice(DOCS) + "#[derive(Debug, Clone, PartialEq, Difference)]\n#[cfg_attr(feature = \"sd\", derive(serde::Serialize, serde::Deserialize))]\n" + eattr + f"pub enum {name}{gen}{ewhere} {{\n" + enum_body + "}\n"
           + euse + "impl" + gen_mk + f" Mk for {name}" + gen_args + (' where ' + ', '.join(ewl) if ewl else '') + f" {{\n    fn mk(s: u64) -> Self {{\n        match s % {len(variants)} {{\n" + '\n'.join(arms[:-1]) + ('\n' if len(arms) > 1 else '')
           + arms[-1].replace(f"            {len(arms) - 1} =>", "            _ =>") + "\n        }\n    }\n}\n"
           + f"pub fn test() -> Result<(), String> {{\n    for seed in 0..12u64 {{\n        let a: {inst} = Mk::mk(seed);\n        let b: {inst} = Mk::mk(seed / 2 + 1);\n        let d = a.diff(&b);\n"
           + "        if (a == b) != d.is_empty() { return Err(format!(\"enum diff empty={} but equal={}\", d.is_empty(), a == b)); }\n        if d.len() > 1 { return Err(format!(\"enum diff has {} entries\", d.len())); }\n"
           + "        let r = a.clone().apply(d);\n        if r != b { return Err(format!(\"enum round trip: {:?} != {:?}\", r, b)); }\n"
           + "        let dr: Vec<_> = a.diff_ref(&b).into_iter().map(Into::into).collect();\n        if a.clone().apply(dr) != b { return Err(format!(\"enum diff_ref round trip\")); }\n    }\n    Ok(())\n}\n")
    return name, src, ['enum'] + (['enum_generic'] if tp else []) + (['enum_where_clause'] if ewl else []) + (['where_on_compound_type'] if any('Marker' in w for w in ewl) else []) + (['lifetime', 'enum_lifetime'] if elt else []) + (['const_generic', 'enum_const_generic'] if ecn else [])

SUPPORT = r'''
//! support code of the declaration harness (C17): values for arbitrary field types
use std::collections::*;
pub trait Mk { fn mk(s: u64) -> Self; }
impl Mk for i64 { fn mk(s: u64) -> Self { (s % 7) as i64 - 2 } }
impl Mk for u8 { fn mk(s: u64) -> Self { (s % 5) as u8 } }
impl Mk for bool { fn mk(s: u64) -> Self { s % 2 == 0 } }
impl Mk for String { fn mk(s: u64) -> Self { format!("s{}", s % 4) } }
impl Mk for () { fn mk(_: u64) -> Self {} }
impl<T: Mk> Mk for Option<T> { fn mk(s: u64) -> Self { if s % 3 == 0 { None } else { Some(T::mk(s / 3)) } } }
impl<T: Mk> Mk for Vec<T> { fn mk(s: u64) -> Self { (0..(s % 4)).map(|i| T::mk(s + i)).collect() } }
impl<T: Mk> Mk for LinkedList<T> { fn mk(s: u64) -> Self { (0..(s % 4)).map(|i| T::mk(s + i)).collect() } }
impl<T: Mk> Mk for VecDeque<T> { fn mk(s: u64) -> Self { (0..(s % 4)).map(|i| T::mk(s + i)).collect() } }
impl<T: Mk + std::hash::Hash + Eq> Mk for HashSet<T> { fn mk(s: u64) -> Self { (0..(s % 4)).map(|i| T::mk(s + i)).collect() } }
impl<T: Mk + Ord> Mk for BTreeSet<T> { fn mk(s: u64) -> Self { (0..(s % 4)).map(|i| T::mk(s + i)).collect() } }
impl<T: Mk> Mk for Box<T> { fn mk(s: u64) -> Self { Box::new(T::mk(s)) } }
impl<A: Mk, B: Mk> Mk for (A, B) { fn mk(s: u64) -> Self { (A::mk(s), B::mk(s / 2 + 1)) } }
impl<A: Mk, B: Mk, C: Mk> Mk for (A, B, C) { fn mk(s: u64) -> Self { (A::mk(s), B::mk(s / 2 + 1), C::mk(s / 3 + 2)) } }
impl<A: Mk> Mk for (A,) { fn mk(s: u64) -> Self { (A::mk(s),) } }
impl<T: Mk, const N: usize> Mk for [T; N] { fn mk(s: u64) -> Self { std::array::from_fn(|i| T::mk(s + i as u64)) } }
impl<K: Mk + std::hash::Hash + Eq, V: Mk> Mk for HashMap<K, V> { fn mk(s: u64) -> Self { (0..(s % 4)).map(|i| (K::mk(s + i), V::mk(s * 3 + i))).collect() } }
impl<K: Mk + Ord, V: Mk> Mk for BTreeMap<K, V> { fn mk(s: u64) -> Self { (0..(s % 4)).map(|i| (K::mk(s + i), V::mk(s * 3 + i))).collect() } }
impl<T> Mk for std::marker::PhantomData<T> { fn mk(_: u64) -> Self { std::marker::PhantomData } }
impl<'x> Mk for std::borrow::Cow<'x, str> { fn mk(s: u64) -> Self { if s % 2 == 0 { std::borrow::Cow::Borrowed(["p", "q", "r"][(s % 3) as usize]) } else { std::borrow::Cow::Owned(format!("o{}", s % 4)) } } }
impl<T: Mk + 'static> Mk for &'static T { fn mk(s: u64) -> Self { Box::leak(Box::new(T::mk(s))) } }
/// types that take const arguments (heapless::Vec<T, N>-like): literal, negative, char and named const arguments in field types
#[derive(Debug, Clone, PartialEq)] #[cfg_attr(feature = "sd", derive(serde::Serialize, serde::Deserialize))] pub struct CArr<T, const K: usize>(pub Vec<T>);
impl<T: Mk, const K: usize> Mk for CArr<T, K> { fn mk(s: u64) -> Self { CArr((0..K as u64).map(|i| T::mk(s + i)).collect()) } }
#[derive(Debug, Clone, PartialEq)] #[cfg_attr(feature = "sd", derive(serde::Serialize, serde::Deserialize))] pub struct CNeg<const I: i32>(pub i64);
impl<const I: i32> Mk for CNeg<I> { fn mk(s: u64) -> Self { CNeg(Mk::mk(s)) } }
#[derive(Debug, Clone, PartialEq)] #[cfg_attr(feature = "sd", derive(serde::Serialize, serde::Deserialize))] pub struct CCh<const C: char>(pub u8);
impl<const C: char> Mk for CCh<C> { fn mk(s: u64) -> Self { CCh(Mk::mk(s)) } }
/// a trait implemented for a few concrete types only: a where clause over it is NOT implied by anything, so every generated impl has to repeat it
pub trait Marker {}
impl Marker for (i64, String) {} impl Marker for (i64, i64) {} impl Marker for (String, i64) {} impl Marker for (String, String) {}
impl Marker for Vec<i64> {} impl Marker for Vec<String> {} impl Marker for [i64; 2] {} impl Marker for [String; 2] {} impl Marker for (i64,) {} impl Marker for (String,) {}
pub fn sorted_dbg<I: IntoIterator>(c: I) -> Vec<String> where I::Item: std::fmt::Debug { let mut v: Vec<String> = c.into_iter().map(|x| format!("{:?}", x)).collect(); v.sort(); v }
'''

def crate_source(decls):
    """decls: list of (name, src, feats) -> lib/main source running every declaration's test"""
    mods = ''.join(f"#[allow(dead_code, unused_imports, non_camel_case_types, non_snake_case)]\nmod m{n} {{\n    use crate::support::*;\n    use structdiff::{{Difference, StructDiff}};\n"
                   + '\n'.join('    ' + l if l else '' for l in src.split('\n')) + "\n}\n" for n, src, _ in decls)
    runs = '\n'.join(f'    run("{n}", m{n}::test);' for n, _, _ in decls)
    return ("// GENERATED by /verif/tools/gen_decl.py\nmod support;\n" + mods +
            "fn run(name: &str, f: fn() -> Result<(), String>) {\n    match std::panic::catch_unwind(f) {\n        Ok(Ok(())) => println!(\"{} OK\", name),\n        Ok(Err(m)) => println!(\"{} FAIL {}\", name, m),\n"
            "        Err(_) => println!(\"{} PANIC\", name),\n    }\n}\nfn main() {\n    std::panic::set_hook(Box::new(|_| {}));\n" + runs + "\n}\n")

# ---------------------------------------------------------------- known-bad constructs (each compiled on its own)
KNOWN_BAD = {
 'D4': ("raw identifier with `recurse` (alias name `__r#typeStructDiffVec` is not an identifier)",
        "#[derive(Debug, Clone, PartialEq, Difference)]\npub struct Inner { pub x: i64 }\n#[derive(Debug, Clone, PartialEq, Difference)]\npub struct D { #[difference(recurse)] pub r#type: Inner }\n"),
 'D5': ("struct whose every field is skipped (unused lifetime in the generated Ref enum)",
        "#[derive(Debug, Clone, PartialEq, Difference)]\npub struct D { #[difference(skip)] pub f0: i64 }\n"),
 'D5b': ("struct without fields", "#[derive(Debug, Clone, PartialEq, Difference)]\npub struct D { }\n"),
 'D6': ("`recurse` on a field whose type is a generic parameter (type alias emitted without generics)",
        "#[derive(Debug, Clone, PartialEq, Difference)]\npub struct Inner { pub x: i64 }\n#[derive(Debug, Clone, PartialEq, Difference)]\npub struct D<T: StructDiff + Clone + PartialEq + std::fmt::Debug> { #[difference(recurse)] pub a: T }\n"),
 'D6b': ("`recurse` on a field whose type mentions a type parameter of the struct (same root: alias without generics)",
         "#[derive(Debug, Clone, PartialEq, Difference)]\npub struct Inner<T: Clone + PartialEq + std::fmt::Debug> { pub t: T }\n#[derive(Debug, Clone, PartialEq, Difference)]\npub struct D<T: Clone + PartialEq + std::fmt::Debug> { #[difference(recurse)] pub a: Inner<T> }\n"),
 'D6c': ("`recurse` on a field whose type mentions a lifetime of the struct (same root: alias without generics)",
         "#[derive(Debug, Clone, PartialEq, Difference)]\npub struct Inner<'a> { pub s: std::borrow::Cow<'a, str> }\n#[derive(Debug, Clone, PartialEq, Difference)]\npub struct D<'a> { #[difference(recurse)] pub a: Inner<'a> }\n"),
 'D12': ("collection strategy over a type parameter that is not declared 'static (E0310: the generated apply goes through Box<dyn Iterator>)",
         "#[derive(Debug, Clone, PartialEq, Difference)]\npub struct D<T: Clone + PartialEq + std::fmt::Debug> { #[difference(collection_strategy = \"ordered_array_like\")] pub v: Vec<T> }\n"),
 'D12b': ("collection strategy over elements that borrow (E0521: borrowed data escapes outside of method)",
          "#[derive(Debug, Clone, PartialEq, Difference)]\npub struct D<'a> { #[difference(collection_strategy = \"ordered_array_like\")] pub v: Vec<std::borrow::Cow<'a, str>> }\n"),
 'D13': ("a field named `<f>_full` next to an Option `recurse` field `<f>` (the extra variant `<f>_full` of the diff enum collides)",
         "#[derive(Debug, Clone, PartialEq, Difference)]\npub struct Inner { pub x: i64 }\n#[derive(Debug, Clone, PartialEq, Difference)]\npub struct D { #[difference(recurse)] pub a: Option<Inner>, pub a_full: i64 }\n"),
 'D19': ("a bound of a used parameter mentions a parameter that no unskipped field uses (the diff enums copy the bound but do not declare that parameter)",
         "#[derive(Debug, Clone, PartialEq, Difference)]\npub struct D<T: Clone + PartialEq + std::fmt::Debug, U: Into<T> + Clone + PartialEq + std::fmt::Debug> { pub x: U, #[difference(skip)] pub y: std::marker::PhantomData<T> }\n"),
 'D19b': ("a lifetime bound of a used lifetime mentions a lifetime that no unskipped field uses",
          "#[derive(Debug, Clone, PartialEq, Difference)]\npub struct D<'a, 'b: 'a> { pub x: Option<&'b u8>, #[difference(skip)] pub y: std::marker::PhantomData<&'a u8> }\n"),
 'D20': ("a field type that mentions `Self` (inside the generated diff enum `Self` names the enum)",
         "#[derive(Debug, Clone, PartialEq, Difference)]\npub struct D { pub val: i64, pub next: Option<Box<Self>> }\n"),
 'D21': ("a where-clause item over a compound type that a field type needs (the struct's diff enums do not repeat where-clause items)",
         "pub trait Needed {}\nimpl Needed for Vec<i64> {}\n#[derive(Debug, Clone, PartialEq)]\npub struct Needs<T>(pub Vec<T>) where Vec<T>: Needed;\n#[derive(Debug, Clone, PartialEq, Difference)]\npub struct D<T> where Vec<T>: Needed { pub a: Needs<T>, pub b: u8 }\n"),
 'D22': ("two exposed structs in one module whose struct name + recurse field name concatenate to the same text (A + bc, Ab + c): the type aliases of exposed structs are emitted at module level",
         "#[derive(Debug, Clone, PartialEq, Difference)]\npub struct Inner { pub x: i64 }\n#[derive(Debug, Clone, PartialEq, Difference)]\n#[difference(expose)]\npub struct A { #[difference(recurse)] pub bc: Inner, #[difference(recurse)] pub o: Option<Inner> }\n#[derive(Debug, Clone, PartialEq, Difference)]\n#[difference(expose)]\npub struct Ab { #[difference(recurse)] pub c: Inner }\n#[derive(Debug, Clone, PartialEq, Difference)]\n#[difference(expose)]\npub struct Ao { #[difference(recurse)] pub d: Inner }\n"),
 'D23': ("a field of an associated type (item: T::Item) whose Clone bound is stated in the where clause: the conversion from the borrowed to the owned diff clones the value, and its impl did not repeat where-clause items",
         "pub trait Has { type Item; }\n#[derive(Debug, Clone, PartialEq)]\npub struct H;\nimpl Has for H { type Item = u8; }\n#[derive(Debug, Clone, PartialEq, Difference)]\npub struct D<T: Has + Clone + PartialEq + std::fmt::Debug> where T::Item: Clone + PartialEq + std::fmt::Debug { pub x: T, pub item: T::Item, pub n: u8 }\n"),
 'D24': ("an enum with a variant named Diff or DiffRef: inside the generated impl `Self::Diff` is ambiguous between the variant and the associated type",
         "#[derive(Debug, Clone, PartialEq, Difference)]\npub enum D { Diff, Patch(u8), DiffRef { x: u8 } }\n"),
 'D25': ("an array length (or const-parameter default) written as an integer literal with a type suffix, a radix prefix or `_` separators ([u8; 4usize], [u8; 0x10], [u8; 1_0], const N: usize = 0x2): the parser reads plain decimal only and then drops the length",
         "#[derive(Debug, Clone, PartialEq, Difference)]\npub struct D<const N: usize = 0x2> { pub a: [u8; 4usize], pub b: [u8; 0x10], pub c: Option<[i64; 1_0]>, pub d: [u8; N], pub e: [bool; 0b11], pub n: u8 }\n"),
 'D26': ("an attribute value written as a raw string literal (expose = r#\"Name\"#, setter_name = r\"put\"): the quotes of a raw string were not taken off",
         "#[derive(Debug, Clone, PartialEq, Difference)]\n#[difference(expose = r#\"DDelta\"#)]\npub struct D { #[difference(collection_strategy = r\"unordered_array_like\", setter_name = r\"put_v\")] pub v: Vec<u8>, pub n: u8 }\n"),
 'D27': ("a const parameter whose default is an expression other than a plain integer literal or a path (const N: i32 = -1, const C: char = 'x', const M: usize = { 1 + 2 }): the derive panics",
         "#[derive(Debug, Clone, PartialEq, Difference)]\npub struct D<const N: i32 = -1, const C: char = 'x', const M: usize = { 1 + 2 }> { pub a: [u8; M], pub n: u8 }\n"),
 'D28': ("a field type with a literal const generic argument (heapless::Vec<u8, 4>-like: W<u8, 4>, W<u8, 0x4>, Neg<-1>, W<u8, { N }>): the derive panics (Expecting closing generic bracket)",
         "#[derive(Debug, Clone, PartialEq)]\npub struct W<T, const K: usize>(pub [T; K]);\n#[derive(Debug, Clone, PartialEq)]\npub struct Neg<const I: i32>;\n#[derive(Debug, Clone, PartialEq)]\npub struct Ch<const C: char>;\n#[derive(Debug, Clone, PartialEq, Difference)]\npub struct D<const N: usize> { pub w: W<u8, 4>, pub o: Option<W<i64, 0x2>>, pub x: Neg<-1>, pub c: Ch<'x'>, pub b: W<u8, { N }>, pub a: [u8; N], pub n: u8 }\n"),
 'D29': ("an enum without variants (enum Never {}): the generated diff_ref matches on a reference, and a reference to an uninhabited type counts as inhabited (E0004)",
         "#[derive(Debug, Clone, PartialEq, Difference)]\npub enum D {}\n#[derive(Debug, Clone, PartialEq, Difference)]\npub enum E<T: Clone + PartialEq + std::fmt::Debug> { #[allow(dead_code)] Only(T) }\n"),
 'D5n': ("a struct without an unskipped field under the nanoserde feature: nanoserde's own derive does not accept the (variant-less) diff enums [features: ns]",
         "#[cfg(feature = \"ns\")] #[allow(unused_imports)] use nanoserde::{SerBin, DeBin};\n#[derive(Debug, Clone, PartialEq, Difference)]\npub struct D { #[difference(skip)] pub f0: i64 }\n"),
 'D7': ("trailing comma inside a difference attribute", "#[derive(Debug, Clone, PartialEq, Difference)]\npub struct D { #[difference(skip,)] pub f0: i64, pub f1: i64 }\n"),
 'D8': ("generic parameter used only behind a reference inside another type", "#[derive(Debug, Clone, PartialEq, Difference)]\npub struct D<'a, T> { pub o: Option<&'a T> }\n"),
 'D8b': ("generic parameter used only as the head of an associated-type path (same cause as D8: the used-parameter test compares the parameter's name with whole base strings)",
         "pub trait Has { type Item; }\n#[derive(Debug, Clone, PartialEq)]\npub struct H;\nimpl Has for H { type Item = u8; }\n#[derive(Debug, Clone, PartialEq, Difference)]\npub struct D<T: Has + Clone + PartialEq + std::fmt::Debug> where T::Item: Clone + PartialEq + std::fmt::Debug { pub item: T::Item, pub n: u8 }\n"),
 'D9': ("bare reference field", "#[derive(Debug, Clone, PartialEq, Difference)]\npub struct D<'a> { pub o: &'a u8 }\n"),
 'D10': ("reference to a reference inside a generic argument (parser panics)", "#[derive(Debug, Clone, PartialEq, Difference)]\npub struct D<'a> { pub x: Option<&'a &'a u8> }\n"),
}

# ---------------------------------------------------------------- field types for the parser tie
def gen_parse_type(rng, depth):
    """(text, in_supported_grammar): field types incl. forms the templates never see, for pd dump vs Coq model"""
    k = rng.choice(['id', 'id', 'path', 'generic', 'generic2', 'ref', 'reflt', 'tuple', 'tuple1', 'unit', 'array', 'arraylit', 'arrayname', 'constarg', 'never', 'lifetimearg', 'nested', 'dyn', 'fnptr', 'assoc', 'refref'] if depth > 0 else ['id', 'path', 'unit'])
    s = lambda: gen_parse_type(rng, depth - 1)
    ident = lambda: rng.choice(['T', 'U', 'u8', 'i64', 'String', 'Foo', 'r#type', 'Self'])
    if k == 'id': return ident(), True
    if k == 'path': return rng.choice(['std::string::String', 'a::b::C', 'crate::X', 'core::primitive::u8', '::std::string::String', '::a::B']), True
    if k == 'generic': t, ok = s(); return f"{rng.choice(['Option', 'Vec', 'std::vec::Vec', 'Box'])}<{t}>", ok
    if k == 'generic2': (t, o1), (u, o2) = s(), s(); return f"{rng.choice(['HashMap', 'std::collections::BTreeMap', 'Result'])}<{t}, {u}>", o1 and o2
    if k == 'ref':
        t, ok = s(); return f"&{t}", ok and not t.startswith(('&', '!'))      # wf of the grammar: the referent is a path, tuple or array
    if k == 'reflt':
        t, ok = s(); return f"&'a {t}", ok and not t.startswith(('&', '!'))
    if k == 'tuple': (t, o1), (u, o2) = s(), s(); return f"({t}, {u})", o1 and o2
    if k == 'tuple1': t, ok = s(); return f"({t},)", ok
    if k == 'unit': return "()", True
    if k == 'array': t, ok = s(); return f"[{t}]", ok
    if k == 'arraylit': t, ok = s(); return f"[{t}; {rng.choice([0, 4, 16, '4usize', '0x10', '1_6', '0b100', '0o20', '0_usize'])}]", ok
    if k == 'arrayname': t, ok = s(); return f"[{t}; N]", ok
    if k == 'constarg': t, ok = s(); return rng.choice([f"ArrayVec<{t}, 4>", f"heapless::Vec<{t}, 0x10>", "Neg<-1>", "Ch<'x'>", f"W<{t}, N>", "Flag<true>", f"Two<3, {t}, -2>"]), ok
    if k == 'never': return "!", True
    if k == 'lifetimearg': t, ok = s(); return f"Cow<'a, {t}>", ok
    if k == 'nested': t, ok = s(); return f"Option<Vec<(u8, {t})>>", ok
    if k == 'dyn': return "Box<dyn Fn(u8) -> u8>", False
    if k == 'fnptr': return "fn(u8) -> u8", False
    if k == 'assoc': return "<T as Iterator>::Item", False
    if k == 'refref': return rng.choice(["&'a &'a u8", "Option<&'a &'a u8>", "&&u8"]), False
    raise ValueError(k)


# ---------------------------------------------------------------------------------------------------------------------------------
# whole struct ITEMS for the tie of the declaration-parser model (coq/parse/ParseDecl.v): only their SYNTAX matters (the dump is written
# during macro expansion, before name resolution); `ok` = inside what the macro documents as supported, where a parser panic is a failure
ATTR_OK = ['#[difference(skip)]', '#[difference(skip,)]', '#[difference( recurse )]', '#[difference(recurse, setter)]', '#[difference()]',
           '#[difference(collection_strategy = "ordered_array_like")]', '#[difference(collection_strategy="unordered_array_like",)]',
           '#[difference(map_equality = "key_only", collection_strategy = "unordered_map_like")]', '#[difference(setter_name = "a b")]', '#[difference(setter_name = r"raw", collection_strategy = r#"ordered_array_like"#)]',
           '#[difference(skip_setter)]', '#[difference(setter)]\n#[difference(skip)]', '#[difference{skip}]',
           '#[doc = "some text"]', '/// a doc comment', '/** block */', '#[allow(dead_code)]', '#[cfg_attr(all(), allow(unused))]', '#[doc(hidden)]', '#[rustfmt::skip]']
ATTR_ODD = ['#[difference(a = "x" b, c)]', '#[difference(a b)]', '#[difference(a = 1)]', '#[difference(x = "1"; y)]', '#[difference]', '#[difference = "x"]',
            '#[difference(,)]', '#[difference(a,,b)]', '#[difference(a = "x" = "y")]', '#[difference("lit")]', '#[difference(a = b)]', '#[difference(a; "v", b)]']
STRUCT_ATTR_OK = ['#[difference(setters)]', '#[difference(expose)]', '#[difference(expose = "Renamed")]', '#[difference(expose = r#"RawRenamed"#)]', '#[difference(setters, expose)]', '#[doc = "s"]', '#[allow(unused)]', '/// doc']
BOUNDS = ['Clone', 'Default', 'std::fmt::Debug', 'Into<u8>', 'PartialEq<u8>', 'Send', 'core::marker::Sync']

def gen_item(rng, i):
    """(source of one struct item named I<i>, ok)"""
    ok = True
    name = f"I{i}"
    def attrs(pool_ok, k):
        nonlocal ok
        out = []
        for _ in range(k):
            if rng.random() < 0.06: out.append(rng.choice(ATTR_ODD)); ok = False
            else: out.append(rng.choice(pool_ok))
        return out
    sattrs = attrs(STRUCT_ATTR_OK, rng.choice([0, 0, 1, 2]))
    vis = rng.choice(['', '', 'pub ', 'pub ', 'pub ', 'pub ', 'pub ', 'pub ', 'pub ', 'pub(crate) '])
    if vis == 'pub(crate) ': ok = False          # "pub(whatever) is not supported yet": the entry point says so itself
    shape = rng.choice(['named'] * 8 + ['unit', 'tuple'])
    params, used_lt = [], []
    for k, lt in enumerate(['a', 'b', 'c'][:rng.choice([0, 0, 1, 2, 3])]):
        b = [x for x in used_lt if rng.random() < 0.5]
        if b and rng.random() < 0.3: b = b + [b[0]]                       # a repeated bound
        params.append(f"'{lt}" + (': ' + ' + '.join("'" + x for x in b) if b else '')); used_lt.append(lt)
    tnames = ['T', 'U', 'V'][:rng.choice([0, 1, 1, 2, 3])]
    defaults_started = False
    for t in tnames:
        bs = [rng.choice(BOUNDS + (["'" + used_lt[0]] if used_lt else [])) for _ in range(rng.choice([0, 0, 1, 2, 3]))]
        if bs and rng.random() < 0.08: bs.append('?Sized'); ok = False
        s = t + (': ' + ' + '.join(bs) if bs else '')
        if defaults_started or rng.random() < 0.2:
            s += ' = ' + rng.choice(['u8', 'Vec<u8>', '(u8, bool)', '[u8; 2]']); defaults_started = True
        params.append(s)
    if rng.random() < 0.4:
        params.append('const N: usize' + (rng.choice([' = 4', ' = 0', ' = M', ' = 0x10', ' = 4usize', ' = { 1 + 2 }', ' = usize::MAX']) if defaults_started or rng.random() < 0.3 else ''))
    gen = ''
    if params or rng.random() < 0.1:
        gen = '<' + ', '.join(params) + (',' if params and rng.random() < 0.15 else '') + '>'
    where = ''
    if gen and shape == 'named' and rng.random() < 0.5:
        items = []
        for _ in range(rng.choice([0, 1, 1, 2, 3])):
            c = rng.random()
            tn = rng.choice(tnames) if tnames else 'u8'
            bs = ' + '.join(rng.choice(BOUNDS) for _ in range(rng.choice([1, 1, 2])))
            if c < 0.35: items.append(f"{tn}: {bs}")                       # merges into the declared parameter
            elif c < 0.55: items.append(f"Vec<{tn}>: {bs}")
            elif c < 0.7: items.append(f"({tn}, u8): {bs}")
            elif c < 0.8: items.append(f"[{tn}; 2]: {bs}")
            elif c < 0.87 and used_lt: items.append(f"{tn}: '{used_lt[0]}")
            elif c < 0.93: items.append(f"&'static {tn}: {bs}"); ok = False  # a reference as the bounded type: unimplemented!() in next_generic
            elif used_lt: items.append(f"'{used_lt[0]}: 'static"); ok = False
            else: items.append(f"std::vec::Vec<{tn}>: {bs}")
        # the same non-parameter type bounded twice: the first becomes a where bound, the second arrives as a plain generic ("mismatched generic types")
        keys = [x.split(':')[0] for x in items]
        if any(keys.count(k) > 1 and k not in tnames for k in keys): ok = False
        where = ' where ' + ', '.join(items) + (',' if items and rng.random() < 0.3 else '')
    def field(k, named):
        nonlocal ok
        t, tok = gen_parse_type(rng, rng.choice([0, 1, 2]))
        for _ in range(3):
            if tok or rng.random() < 0.15: break
            t, tok = gen_parse_type(rng, rng.choice([0, 1, 2]))
        ok = ok and tok
        fa = attrs(ATTR_OK, rng.choice([0, 0, 1, 2]))
        v = rng.choice(['', 'pub ', 'pub(crate) ', 'pub(in crate) '])
        nm = (rng.choice(['r#type', 'r#match']) if rng.random() < 0.1 else f"f{k}") + ': ' if named else ''
        return '\n'.join(fa) + ('\n' if fa else '') + v + nm + t         # one per line: a `///` comment runs to the end of its line
    nf = rng.choice([0, 1, 2, 3, 4])
    if shape == 'unit':
        body = ';'
    elif shape == 'tuple':
        ok = False          # C17 is about structs with named fields (and `pub (A, B)` in a tuple struct is read as a visibility restriction)
        body = '(' + ', '.join(field(k, False) for k in range(nf)) + (',' if nf and rng.random() < 0.3 else '') + ');'
    else:
        body = ' { ' + ', '.join(field(k, True) for k in range(nf)) + (',' if nf and rng.random() < 0.5 else '') + ' }'
    src = '\n'.join(sattrs) + ('\n' if sattrs else '') + f"{vis}struct {name}{gen}{where}{body}"
    return src, ok


# ---------------------------------------------------------------------------------------------------------------------------------
# generic declarations whose field types both codecs can encode: compiled and run with nanoserde + serde (+ the other features) as well,
# so that the cfg-dependent bounds the macro puts on USED type parameters (DeBin / SerBin / Serialize / DeserializeOwned) are exercised
def codec_decls():
    out = []
    def decl(name, header, inst, body, mk, checks, extra=''):
        # a nested value travels whole inside the `<field>_full` variant of an Option + recurse field: the user's own type must be encodable then
        src = ("#[cfg(feature = \"ns\")] #[allow(unused_imports)] use nanoserde::{SerBin, DeBin};\n#[derive(Debug, Clone, PartialEq, Difference)]\n#[cfg_attr(feature = \"ns\", derive(nanoserde::SerBin, nanoserde::DeBin))]\n#[cfg_attr(feature = \"sd\", derive(serde::Serialize, serde::Deserialize))]\npub struct " + name + "N { pub x: i64, pub y: Option<String>, #[difference(skip)] pub z: u8 }\n"
               f"impl Mk for {name}N {{ fn mk(s: u64) -> Self {{ {name}N {{ x: Mk::mk(s), y: Mk::mk(s + 1), z: Mk::mk(s / 2) }} }} }}\n"
               "#[derive(Debug, Clone, PartialEq, Difference)]\n" + header + " {\n" + body + "}\n" + mk +
               f"pub fn test() -> Result<(), String> {{\n    for seed in 0..8u64 {{\n        let a: {inst} = Mk::mk(seed);\n        let b: {inst} = Mk::mk(seed * 7 + 1 + (seed % 3));\n"
               "        let d = a.diff(&b);\n        let check = |r: &" + inst + "| -> Result<(), String> {\n" + checks + "            Ok(())\n        };\n        check(&a.clone().apply(d.clone()))?;\n"
               "        let dr: Vec<_> = a.diff_ref(&b).into_iter().map(Into::into).collect();\n        check(&a.clone().apply(dr)).map_err(|m| format!(\"via diff_ref: {}\", m))?;\n"
               "        #[cfg(feature = \"ns\")] {\n            let bytes = nanoserde::SerBin::serialize_bin(&a.diff(&b));\n            let back: Vec<<" + inst + " as StructDiff>::Diff> = nanoserde::DeBin::deserialize_bin(&bytes).map_err(|e| format!(\"nanoserde owned: {:?}\", e))?;\n            check(&a.clone().apply(back)).map_err(|m| format!(\"via nanoserde (owned): {}\", m))?;\n"
               "            let bytes = nanoserde::SerBin::serialize_bin(&a.diff_ref(&b));\n            let back: Vec<<" + inst + " as StructDiff>::Diff> = nanoserde::DeBin::deserialize_bin(&bytes).map_err(|e| format!(\"nanoserde borrowed: {:?}\", e))?;\n            check(&a.clone().apply(back)).map_err(|m| format!(\"via nanoserde (borrowed): {}\", m))?;\n        }\n"
               "        #[cfg(feature = \"sd\")] {\n            let bytes = bincode::serialize(&a.diff(&b)).map_err(|e| format!(\"bincode: {:?}\", e))?;\n            let back: Vec<<" + inst + " as StructDiff>::Diff> = bincode::deserialize(&bytes).map_err(|e| format!(\"bincode owned: {:?}\", e))?;\n            check(&a.clone().apply(back)).map_err(|m| format!(\"via bincode (owned): {}\", m))?;\n"
               "            let bytes = bincode::serialize(&a.diff_ref(&b)).map_err(|e| format!(\"bincode: {:?}\", e))?;\n            let back: Vec<<" + inst + " as StructDiff>::Diff> = bincode::deserialize(&bytes).map_err(|e| format!(\"bincode borrowed: {:?}\", e))?;\n            check(&a.clone().apply(back)).map_err(|m| format!(\"via bincode (borrowed): {}\", m))?;\n        }\n"
               "        if !a.diff(&a).is_empty() { return Err(format!(\"a.diff(&a) is not empty\")); }\n" + extra + "    }\n    Ok(())\n}\n")
        out.append((name, src, ['codec_generic']))
    decl('K0', "pub struct K0<T: Clone + PartialEq + std::fmt::Debug, U: Clone + PartialEq + std::fmt::Debug + 'static = i64>", "K0<i64, String>",
         "    pub a: T,\n    pub b: Option<U>,\n    pub c: Vec<T>,\n    #[difference(collection_strategy = \"ordered_array_like\")]\n    pub d: Vec<U>,\n    #[difference(recurse)]\n    pub e: K0N,\n    #[difference(skip)]\n    pub f: T,\n",
         "impl<T: Mk + Clone + PartialEq + std::fmt::Debug, U: Mk + Clone + PartialEq + std::fmt::Debug + 'static> Mk for K0<T, U> { fn mk(s: u64) -> Self { K0 { a: Mk::mk(s), b: Mk::mk(s + 1), c: Mk::mk(s + 2), d: Mk::mk(s + 3), e: Mk::mk(s + 4), f: Mk::mk(s + 5) } } }\n",
         "        if r.a != b.a || r.b != b.b || r.c != b.c || r.d != b.d || r.e.x != b.e.x || r.e.y != b.e.y { return Err(format!(\"round trip: {:?} != {:?}\", r, b)); }\n        if r.f != a.f || r.e.z != a.e.z { return Err(format!(\"skipped field changed\")); }\n")
    decl('K1', "#[difference(setters)]\npub struct K1<T>\nwhere T: Clone + PartialEq + std::fmt::Debug + std::hash::Hash + Eq + 'static", "K1<String>",
         "    #[difference(collection_strategy = \"unordered_array_like\")]\n    pub a: Vec<T>,\n    #[difference(collection_strategy = \"unordered_map_like\", map_equality = \"key_and_value\")]\n    pub b: std::collections::HashMap<T, i64>,\n    #[difference(recurse)]\n    pub c: Option<K1N>,\n    pub d: (T, u8),\n",
         "impl<T: Mk + Clone + PartialEq + std::fmt::Debug + std::hash::Hash + Eq + 'static> Mk for K1<T> { fn mk(s: u64) -> Self { K1 { a: Mk::mk(s), b: Mk::mk(s + 1), c: Mk::mk(s + 2), d: Mk::mk(s + 3) } } }\n",
         "        if sorted_dbg(&r.a) != sorted_dbg(&b.a) || r.b != b.b || r.d != b.d { return Err(format!(\"round trip: {:?} != {:?}\", r, b)); }\n        match (&r.c, &b.c) { (None, None) => (), (Some(x), Some(y)) if x.x == y.x && x.y == y.y => (), _ => return Err(format!(\"recurse option: {:?} != {:?}\", r.c, b.c)) }\n")
    decl('K2', "pub struct K2<T: Clone + PartialEq + std::fmt::Debug + std::hash::Hash + Eq + 'static, const N: usize>", "K2<String, 2>",
         "    #[difference(recurse, collection_strategy = \"unordered_map_like\", map_equality = \"key_and_value\")]\n    pub a: std::collections::HashMap<T, K2N>,\n    #[difference(recurse, collection_strategy = \"unordered_map_like\", map_equality = \"key_only\")]\n    pub b: std::collections::HashMap<T, K2N>,\n    pub c: Option<(T, i64)>,\n    #[difference(skip)]\n    pub d: [u8; N],\n",
         "impl<T: Mk + Clone + PartialEq + std::fmt::Debug + std::hash::Hash + Eq + 'static, const N: usize> Mk for K2<T, N> { fn mk(s: u64) -> Self { K2 { a: Mk::mk(s), b: Mk::mk(s + 1), c: Mk::mk(s + 2), d: Mk::mk(s + 3) } } }\n",
         "        if r.c != b.c || r.d != a.d { return Err(format!(\"round trip: {:?} != {:?}\", r, b)); }\n        let ka: std::collections::BTreeSet<_> = r.a.keys().collect(); let kb: std::collections::BTreeSet<_> = b.a.keys().collect(); if ka != kb { return Err(format!(\"keys of a: {:?} != {:?}\", ka, kb)); }\n        for (k, v) in &r.a { let w = &b.a[k]; if v.x != w.x || v.y != w.y { return Err(format!(\"value of a[{:?}]\", k)); } }\n        let ka: std::collections::BTreeSet<_> = r.b.keys().collect(); let kb: std::collections::BTreeSet<_> = b.b.keys().collect(); if ka != kb { return Err(format!(\"keys of b: {:?} != {:?}\", ka, kb)); }\n")
    decl('K6', "pub struct K6<T: Clone + PartialEq + std::fmt::Debug, U: Clone + PartialEq + std::fmt::Debug>", "K6<i64, String>",
         "    pub a: Option<T>,\n    pub b: Box<U>,\n    pub c: (T, U),\n    pub d: Vec<Option<(U, T)>>,\n    pub e: std::collections::HashMap<String, Vec<T>>,\n",
         "impl<T: Mk + Clone + PartialEq + std::fmt::Debug, U: Mk + Clone + PartialEq + std::fmt::Debug> Mk for K6<T, U> { fn mk(s: u64) -> Self { K6 { a: Mk::mk(s), b: Mk::mk(s + 1), c: Mk::mk(s + 2), d: Mk::mk(s + 3), e: Mk::mk(s + 4) } } }\n",
         "            if r.a != b.a || r.b != b.b || r.c != b.c || r.d != b.d || r.e != b.e { return Err(format!(\"round trip: {:?} != {:?}\", r, b)); }\n")
    decl('K7', "#[difference(setters, expose = \"K7Delta\")]\npub struct K7<T>\nwhere T: Clone + PartialEq + std::fmt::Debug, Vec<T>: Clone", "K7<String>",
         "    pub a: T,\n    #[difference(setter_name = \"put_b\")]\n    pub b: Vec<T>,\n    #[difference(skip_setter)]\n    pub c: Option<T>,\n    #[difference(recurse)]\n    pub d: K7N,\n",
         "impl<T: Mk + Clone + PartialEq + std::fmt::Debug> Mk for K7<T> { fn mk(s: u64) -> Self { K7 { a: Mk::mk(s), b: Mk::mk(s + 1), c: Mk::mk(s + 2), d: Mk::mk(s + 3) } } }\n",
         "            if r.a != b.a || r.b != b.b || r.c != b.c || r.d.x != b.d.x || r.d.y != b.d.y || r.d.z != a.d.z { return Err(format!(\"round trip: {:?} != {:?}\", r, b)); }\n",
         extra="        #[cfg(feature = \"gs\")] {\n            // generated setters on a generic struct: store the value, report an entry that replays\n            let mut m = a.clone(); let mut copy = a.clone();\n"
               "            if let Some(e) = m.set_a_with_diff(b.a.clone()) { copy.apply_single(e); } else if a.a != b.a { return Err(format!(\"setter a silent on a change\")); }\n"
               "            if let Some(e) = m.put_b(b.b.clone()) { copy.apply_single(e); } else if a.b != b.b { return Err(format!(\"setter b silent on a change\")); }\n"
               "            if let Some(e) = m.set_d_with_diff(b.d.clone()) { copy.apply_single(e); } else if a.d != b.d { return Err(format!(\"setter d silent on a change\")); }\n"
               "            if m.a != b.a || m.b != b.b || m.d != b.d || m.c != a.c { return Err(format!(\"setters did not store: {:?}\", m)); }\n"
               "            if copy.a != m.a || copy.b != m.b || copy.d.x != m.d.x || copy.d.y != m.d.y { return Err(format!(\"replay of setter entries: {:?} != {:?}\", copy, m)); }\n        }\n")
    decl('K8', "pub struct K8<T: Clone + PartialEq + std::fmt::Debug, U: Clone + PartialEq + std::fmt::Debug>", "K8<i64, String>",
         "    #[difference(skip)]\n    pub a: T,\n    pub b: U,\n    #[difference(skip)]\n    pub c: Vec<T>,\n",
         "impl<T: Mk + Clone + PartialEq + std::fmt::Debug, U: Mk + Clone + PartialEq + std::fmt::Debug> Mk for K8<T, U> { fn mk(s: u64) -> Self { K8 { a: Mk::mk(s), b: Mk::mk(s + 1), c: Mk::mk(s + 2) } } }\n",
         "            if r.b != b.b || r.a != a.a || r.c != a.c { return Err(format!(\"round trip: {:?} != {:?}\", r, b)); }\n")
    # two exposed structs side by side in ONE module, both with a `recurse` field of the same name (and a same-named Option one)
    pair = ("#[cfg(feature = \"ns\")] #[allow(unused_imports)] use nanoserde::{SerBin, DeBin};\n#[derive(Debug, Clone, PartialEq, Difference)]\n#[cfg_attr(feature = \"ns\", derive(nanoserde::SerBin, nanoserde::DeBin))]\n#[cfg_attr(feature = \"sd\", derive(serde::Serialize, serde::Deserialize))]\npub struct K9N { pub x: i64 }\n"
            "impl Mk for K9N { fn mk(s: u64) -> Self { K9N { x: Mk::mk(s) } } }\n"
            "#[derive(Debug, Clone, PartialEq, Difference)]\n#[difference(expose)]\npub struct K9A { #[difference(recurse)] pub inner: K9N, #[difference(recurse)] pub opt: Option<K9N>, pub k: u8 }\n"
            "#[derive(Debug, Clone, PartialEq, Difference)]\n#[difference(expose = \"K9BDelta\")]\npub struct K9B { #[difference(recurse)] pub inner: K9N, #[difference(recurse)] pub opt: Option<K9N>, pub j: i64 }\n"
            "pub fn test() -> Result<(), String> {\n    for s in 0..6u64 {\n        let a = K9A { inner: Mk::mk(s), opt: Mk::mk(s + 1), k: Mk::mk(s) }; let b = K9A { inner: Mk::mk(s + 2), opt: Mk::mk(s + 3), k: Mk::mk(s + 4) };\n"
            "        if a.clone().apply(a.diff(&b)) != b { return Err(format!(\"K9A round trip\")); }\n"
            "        let c = K9B { inner: Mk::mk(s), opt: Mk::mk(s + 1), j: Mk::mk(s) }; let d = K9B { inner: Mk::mk(s + 2), opt: Mk::mk(s + 3), j: Mk::mk(s + 4) };\n"
            "        if c.clone().apply(c.diff(&d)) != d { return Err(format!(\"K9B round trip\")); }\n    }\n    Ok(())\n}\n")
    out.append(('K9', pair, ['two_exposed_structs_in_one_module']))
    # a generic enum: its diff carries the whole new value, so the enum itself derives the codecs
    e = ("#[cfg(feature = \"ns\")] #[allow(unused_imports)] use nanoserde::{SerBin, DeBin};\n#[derive(Debug, Clone, PartialEq, Difference)]\n#[cfg_attr(feature = \"ns\", derive(nanoserde::SerBin, nanoserde::DeBin))]\n#[cfg_attr(feature = \"sd\", derive(serde::Serialize, serde::Deserialize))]\n"
         "pub enum K3<T: Clone + PartialEq + std::fmt::Debug> { A, B(T), C { x: T, y: i64 }, D(i64, bool) }\n"
         "impl<T: Mk + Clone + PartialEq + std::fmt::Debug> Mk for K3<T> { fn mk(s: u64) -> Self { match s % 4 { 0 => K3::A, 1 => K3::B(Mk::mk(s)), 2 => K3::C { x: Mk::mk(s), y: Mk::mk(s + 1) }, _ => K3::D(Mk::mk(s), Mk::mk(s + 1)) } } }\n"
         "pub fn test() -> Result<(), String> {\n    for seed in 0..12u64 {\n        let a: K3<String> = Mk::mk(seed);\n        let b: K3<String> = Mk::mk(seed / 2 + 1);\n        let d = a.diff(&b);\n"
         "        if (a == b) != d.is_empty() { return Err(format!(\"enum diff empty={} but equal={}\", d.is_empty(), a == b)); }\n        if a.clone().apply(d) != b { return Err(format!(\"enum round trip\")); }\n"
         "        let dr: Vec<_> = a.diff_ref(&b).into_iter().map(Into::into).collect();\n        if a.clone().apply(dr) != b { return Err(format!(\"enum diff_ref round trip\")); }\n"
         "        #[cfg(feature = \"ns\")] {\n            let bytes = nanoserde::SerBin::serialize_bin(&a.diff_ref(&b));\n            let back: Vec<<K3<String> as StructDiff>::Diff> = nanoserde::DeBin::deserialize_bin(&bytes).map_err(|e| format!(\"nanoserde borrowed: {:?}\", e))?;\n            if a.clone().apply(back) != b { return Err(format!(\"enum via nanoserde (borrowed)\")); }\n        }\n"
         "        #[cfg(feature = \"sd\")] {\n            let bytes = bincode::serialize(&a.diff_ref(&b)).map_err(|e| format!(\"bincode: {:?}\", e))?;\n            let back: Vec<<K3<String> as StructDiff>::Diff> = bincode::deserialize(&bytes).map_err(|e| format!(\"bincode borrowed: {:?}\", e))?;\n            if a.clone().apply(back) != b { return Err(format!(\"enum via bincode (borrowed)\")); }\n        }\n"
         "    }\n    Ok(())\n}\n")
    out.append(('K3', e, ['codec_generic_enum']))
    return out


def gen_enum_item(rng, i):
    """(source of one enum item named N<i>, ok): syntax only, for the tie of the enum part of the declaration-parser model"""
    ok = True
    name = f"N{i}"
    def attrs(pool_ok, k):
        nonlocal ok
        out = []
        for _ in range(k):
            if rng.random() < 0.05: out.append(rng.choice(ATTR_ODD)); ok = False
            else: out.append(rng.choice(pool_ok))
        return out
    sattrs = attrs(STRUCT_ATTR_OK, rng.choice([0, 0, 1]))
    vis = rng.choice(['', '', 'pub ', 'pub ', 'pub ', 'pub(crate) '])
    if vis == 'pub(crate) ': ok = False
    params = []
    if rng.random() < 0.3: params.append("'a")
    tn = ['T', 'U'][:rng.choice([0, 0, 1, 2])]
    for t in tn: params.append(t + (': ' + ' + '.join(rng.choice(BOUNDS) for _ in range(rng.choice([1, 2]))) if rng.random() < 0.5 else ''))
    if rng.random() < 0.2: params.append('const N: usize')
    gen = ('<' + ', '.join(params) + '>') if params else ''
    where = ''
    if tn and rng.random() < 0.3: where = f" where {tn[0]}: {rng.choice(BOUNDS)}" + (',' if rng.random() < 0.3 else '')
    def ftype():
        nonlocal ok
        t, tok = gen_parse_type(rng, rng.choice([0, 1, 2]))
        for _ in range(3):
            if tok or rng.random() < 0.15: break
            t, tok = gen_parse_type(rng, rng.choice([0, 1, 2]))
        ok = ok and tok
        return t
    vs = []
    for k in range(rng.choice([0, 1, 2, 3, 5])):
        va = attrs(['/// doc', '#[doc = "v"]', '#[allow(dead_code)]', '#[default]', '#[difference()]'], rng.choice([0, 0, 1]))
        c = rng.random()
        if c < 0.35: body = ''
        elif c < 0.65:
            n = rng.choice([0, 1, 2, 3]); body = '(' + ', '.join(ftype() for _ in range(n)) + (',' if n and rng.random() < 0.3 else '') + ')'
        elif c < 0.93:
            n = rng.choice([0, 1, 2]); fields = []
            for j in range(n):
                fa = attrs(ATTR_OK, rng.choice([0, 0, 1]))
                fields.append('\n'.join(fa) + ('\n' if fa else '') + f"g{j}: {ftype()}")
            body = ' { ' + ', '.join(fields) + (',' if n and rng.random() < 0.4 else '') + ' }'
        else:
            body = rng.choice([' = 1', ' = 0x10']); ok = False            # explicit discriminants: "Unnamed variants are not supported"
        vs.append('\n'.join(va) + ('\n' if va else '') + f"V{k}{body}")
    body = ' { ' + ', '.join(vs) + (',' if vs and rng.random() < 0.5 else '') + ' }'
    src = '\n'.join(sattrs) + ('\n' if sattrs else '') + f"{vis}enum {name}{gen}{where}{body}"
    return src, ok
