#!/usr/bin/env python3
"""White-box clone of /repo: copies /repo/src/** into /verif/.work/wb/structdiff/src, appending the accessor
snippets of /verif/harness/wb_snippets to three files. A file is rewritten only if its content changed, so cargo's
mtime fingerprinting can neither miss nor invent a change. /repo is never modified."""
import os, sys, re
REPO, V = '/repo', '/verif'
DST = os.path.join(V, '.work', 'wb', 'structdiff')
SNIP = {'src/collections/rope/slots.rs': 'slots.rs', 'src/collections/rope/mod.rs': 'rope_mod.rs', 'src/lib.rs': 'lib.rs'}

def put(path, content):
    try:
        if open(path).read() == content:
            return False
    except OSError:
        pass
    os.makedirs(os.path.dirname(path), exist_ok=True)
    open(path, 'w').write(content)
    return True

def sync():
    want = set()
    changed = []
    for d, _, fs in os.walk(os.path.join(REPO, 'src')):
        for f in fs:
            p = os.path.join(d, f)
            rel = os.path.relpath(p, REPO)
            content = open(p).read()
            if rel in SNIP:
                content += open(os.path.join(V, 'harness', 'wb_snippets', SNIP[rel])).read()
            want.add(rel)
            if put(os.path.join(DST, rel), content):
                changed.append(rel)
    # Cargo.toml: same as /repo's, with the derive crate taken from /repo/derive by absolute path
    toml = open(os.path.join(REPO, 'Cargo.toml')).read()
    toml2, n = re.subn(r'path\s*=\s*"derive"', 'path = "/repo/derive"', toml)
    if n != 1:
        raise SystemExit("wbsync: cannot rewrite the derive path in Cargo.toml")
    toml2 = re.sub(r'\[dev-dependencies\].*?(?=\n\[|\Z)', '', toml2, flags=re.S)
    if put(os.path.join(DST, 'Cargo.toml'), toml2):
        changed.append('Cargo.toml')
    # remove files that disappeared from /repo
    for d, _, fs in os.walk(os.path.join(DST, 'src')):
        for f in fs:
            rel = os.path.relpath(os.path.join(d, f), DST)
            if rel not in want:
                os.remove(os.path.join(d, f)); changed.append('-' + rel)
    return changed

if __name__ == '__main__':
    print('wbsync:', sync())
