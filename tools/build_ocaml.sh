#!/bin/bash
# build_ocaml.sh <name>: extract coq/extract/Extract<Name>.v and build ocaml/<name>_driver.ml into .work/ocaml/<name>_driver
# Rebuilds only when an input changed (hash over the extracted .ml + driver + conv).
set -e
V=/verif
name=$1; Name=$2
out=$V/.work/ocaml/$name
mkdir -p $out
cd $out
QS=$(grep '^-Q' $V/coq/_CoqProject | sed "s# \([a-z0-9]*\) # $V/coq/\1 #")
timeout 600 coqc $QS -Q $V/coq/extract Ext $V/coq/extract/Extract$Name.v > extract.log 2>&1 || { cat extract.log; exit 1; }
h=$(cat *_model.ml $V/ocaml/${name}_driver.ml $V/ocaml/conv.ml $V/ocaml/convz.ml | sha256sum | cut -c1-16)
if [ -x driver ] && [ "$(cat .hash 2>/dev/null)" = "$h" ]; then exit 0; fi
python3 - "$V/ocaml/${name}_driver.ml" "$V/ocaml/conv.ml" "$V/ocaml/convz.ml" > driver_main.ml <<'PY'
import sys
d=open(sys.argv[1]).read(); c=open(sys.argv[2]).read(); z=open(sys.argv[3]).read()
sys.stdout.write(d.replace('(*CONVZ*)', z).replace('(*CONV*)', c))
PY
rm -f *.cmi *.cmx *.o *_model.mli.orig
# built beside and renamed into place: a check that is executing the previous driver keeps its inode
ocamlfind ocamlopt -O3 -w -a -package str *_model.mli *_model.ml driver_main.ml -o driver.new 2>build.log || ocamlfind ocamlopt -w -a *_model.mli *_model.ml driver_main.ml -o driver.new > build.log 2>&1 || { cat build.log; exit 1; }
mv -f driver.new driver
echo $h > .hash
