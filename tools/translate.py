#!/usr/bin/env python3
"""Translator: regenerates coq/gen/Consts.v (and gen/Features.v) from /repo's working tree.

Every item is located by an anchored regular expression that must match EXACTLY ONCE in its
file; zero or several matches mean "the translator cannot read the source" -> the tie between
model and code is broken (reported by the caller; never silently defaulted).

Usage: translate.py [--repo /repo] [--out /verif/coq/gen]    exit 0 ok / 2 cannot read
Writes files only when their content changed (so `make` does not rebuild needlessly).
"""
import re, sys, os, json, argparse

class TranslateError(Exception):
    pass

def read(repo, rel):
    p = os.path.join(repo, rel)
    try:
        with open(p, encoding='utf-8') as f:
            return f.read()
    except OSError as e:
        raise TranslateError(f"{rel}: cannot read ({e})")

def one(text, rel, pattern, what, flags=re.M):
    ms = list(re.finditer(pattern, text, flags))
    if len(ms) != 1:
        raise TranslateError(f"{rel}: expected exactly one match for {what} (/{pattern}/), found {len(ms)}")
    return ms[0]

def const_usize(text, rel, name):
    m = one(text, rel, r'^\s*(?:pub(?:\([a-z]+\))?\s+)?const\s+' + name + r'\s*:\s*usize\s*=\s*([^;]+);', f"const {name}")
    expr = m.group(1).strip().replace('_', '')
    if re.fullmatch(r'\d+', expr):
        return int(expr)
    if expr in ('usize::MAX', 'std::usize::MAX', 'core::usize::MAX'):
        return 2**64 - 1
    raise TranslateError(f"{rel}: const {name} = {expr!r} is not an integer literal")

def block_after(text, rel, header_pat, what):
    """return the brace-balanced block following the unique match of header_pat"""
    m = one(text, rel, header_pat, what, re.M | re.S)
    i = text.index('{', m.end() - 1) if text[m.end() - 1] != '{' else m.end() - 1
    depth, j = 0, i
    while j < len(text):
        if text[j] == '{':
            depth += 1
        elif text[j] == '}':
            depth -= 1
            if depth == 0:
                return text[i:j + 1]
        j += 1
    raise TranslateError(f"{rel}: unbalanced block after {what}")

def all_blocks(text, rel, header_pat, what, expect):
    out = []
    for m in re.finditer(header_pat, text, re.M | re.S):
        i = m.end() - 1
        depth, j = 0, i
        while j < len(text):
            if text[j] == '{':
                depth += 1
            elif text[j] == '}':
                depth -= 1
                if depth == 0:
                    out.append(text[i:j + 1]); break
            j += 1
    if len(out) != expect:
        raise TranslateError(f"{rel}: expected {expect} blocks for {what}, found {len(out)}")
    return out

def disc_table(block, rel, what, variants):
    """discriminant match arms  `Type::Variant(..) => N,` in a nanoserde_discriminant fn"""
    tbl = {}
    for v in variants:
        ms = re.findall(r'::' + v + r'\s*(?:\([^)]*\)|\{[^}]*\})?\s*=>\s*(\d+)(?:_?u8)?\s*,', block)
        if len(ms) != 1:
            raise TranslateError(f"{rel}: {what}: expected one arm for variant {v}, found {len(ms)}")
        tbl[v] = int(ms[0])
    return tbl

def de_table(block, rel, what, variants):
    """decoder arms `N => { ... Ok(Type::Variant(` : literal -> variant constructed in that arm"""
    tbl = {}
    arms = list(re.finditer(r'^\s*(\d+)(?:_?u8)?\s*=>\s*\{', block, re.M))
    for k, a in enumerate(arms):
        end = arms[k + 1].start() if k + 1 < len(arms) else len(block)
        body = block[a.end():end]
        vs = re.findall(r'Ok\(\s*(?:Self|[A-Za-z_]+)::([A-Za-z_]+)', body)
        if len(vs) != 1:
            raise TranslateError(f"{rel}: {what}: arm {a.group(1)} constructs {vs}")
        lit = int(a.group(1))
        if lit in tbl:
            raise TranslateError(f"{rel}: {what}: duplicate arm {lit}")
        tbl[lit] = vs[0]
    inv = {}
    for lit, v in tbl.items():
        inv.setdefault(v, []).append(lit)
    out = {}
    for v in variants:
        if v not in inv or len(inv[v]) != 1:
            raise TranslateError(f"{rel}: {what}: variant {v} decoded by arms {inv.get(v)}")
        out[v] = inv[v][0]
    if len(tbl) != len(variants):
        raise TranslateError(f"{rel}: {what}: {len(tbl)} arms for {len(variants)} variants")
    return out

def sec_ordered(repo, c):
    rel = 'src/collections/ordered_array_like.rs'
    t = read(repo, rel)
    for n in ('LEVENSHTEIN_CUTOFF', 'DELETE_COST', 'REPLACE_COST', 'INSERT_COST'):
        c[n] = const_usize(t, rel, n)

def sec_ordered_wire(repo, c):
    rel = 'src/collections/ordered_array_like.rs'
    t = read(repo, rel)
    ov = ['Replace', 'Insert', 'Delete', 'Swap']
    b = block_after(t, rel, r'impl<T>\s+OrderedArrayLikeChangeOwned<T>\s*\{\s*#\[inline\]\s*fn\s+nanoserde_discriminant', 'owned nanoserde_discriminant')
    c['ORD_SER_OWNED'] = disc_table(b, rel, 'ordered owned discriminants', ov)
    b = block_after(t, rel, r'impl<T>\s+OrderedArrayLikeChangeRef<\'_,\s*T>\s*\{\s*#\[inline\]\s*fn\s+nanoserde_discriminant', 'ref nanoserde_discriminant')
    c['ORD_SER_REF'] = disc_table(b, rel, 'ordered ref discriminants', ov)
    b = block_after(t, rel, r'impl<T:\s*DeBin>\s+DeBin\s+for\s+OrderedArrayLikeChangeOwned<T>\s*\{', 'ordered de_bin')
    c['ORD_DE'] = de_table(b, rel, 'ordered de_bin', ov)

def sec_rope(repo, c):
    rel = 'src/collections/rope/mod.rs'
    t = read(repo, rel)
    for n in ('MAX_SLOT_SIZE', 'BASE_SLOT_SIZE', 'UNDERSIZED_SLOT'):
        c[n] = const_usize(t, rel, n)
    fi = block_after(t, rel, r'impl<T>\s+FromIterator<T>\s+for\s+Rope<T>\s*\{', 'Rope::from_iter')
    m1 = one(fi, rel, r'\.take\(\s*(\d+)\s*\)', 'take(N) in Rope::from_iter')
    m2 = one(fi, rel, r'\.len\(\)\s*!=\s*(\d+)', 'len() != N in Rope::from_iter')
    c['FROM_ITER_TAKE'] = int(m1.group(1))
    c['FROM_ITER_FULL'] = int(m2.group(1))
    if c['FROM_ITER_TAKE'] != c['FROM_ITER_FULL']:
        raise TranslateError(f"{rel}: Rope::from_iter takes {c['FROM_ITER_TAKE']} per chunk but tests len() != {c['FROM_ITER_FULL']}: the model has one constant for both")
    nw = block_after(t, rel, r'pub\s+fn\s+new\(\)\s*->\s*Self\s*\{', 'Rope::new')
    body = re.sub(r'\s+', '', nw)
    if body == '{Self(Vec::from([slots::ArrayMap::new()]))}':
        c['ROPE_NEW_CHUNKS'] = 1
    elif body in ('{Self(Vec::new())}', '{Self(vec![])}', '{Self(Vec::from([]))}', '{Self(Vec::default())}'):
        c['ROPE_NEW_CHUNKS'] = 0
    else:
        raise TranslateError(f"{rel}: Rope::new body not recognised: {body}")

def sec_slots_iter(repo, c):
    # ---- slots.rs: direction of rev_pos in the owning iterator's next_back
    rel = 'src/collections/rope/slots.rs'
    t = read(repo, rel)
    nbs = [b for b in all_blocks(t, rel, r'fn\s+next_back\(&mut\s+self\)\s*->\s*Option<Self::Item>\s*\{', 'next_back fns', 2) if 'rev_pos' in b]
    if len(nbs) != 1:
        raise TranslateError(f"{rel}: expected one next_back using rev_pos, found {len(nbs)}")
    nb = nbs[0]
    upd = re.findall(r'self\.rev_pos\s*([^;]*);', nb)
    upd = [re.sub(r'\s+', '', u) for u in upd if not u.strip().startswith(')')]
    upd = [u for u in upd if u.startswith('=') or u.startswith('+=') or u.startswith('-=')]
    if upd == ['+=1']:
        c['REV_POS_DOWN'] = False
    elif upd in (['=self.rev_pos.wrapping_sub(1)'],):
        c['REV_POS_DOWN'] = True
    else:
        raise TranslateError(f"{rel}: next_back updates rev_pos by {upd}: not one of the two forms the model knows")
    ip = one(t, rel, r'let\s+rev_pos\s*=\s*([^;]+);', 'initial rev_pos in into_iter')
    if re.sub(r'\s+', '', ip.group(1)) != 'self.len().saturating_sub(1)':
        raise TranslateError(f"{rel}: initial rev_pos is {ip.group(1)!r}, the model has len().saturating_sub(1)")

def sec_derive_ordered_entry(repo, c):
    # the derive must call the divide-and-conquer entry point for ordered collections (C18), never the full-table one
    rel = 'derive/src/difference.rs'
    t = read(repo, rel)
    nh = len(re.findall(r'ordered_array_like::hirschberg\(', t))
    nl = len(re.findall(r'ordered_array_like::levenshtein\(', t))
    if nh < 1 or nl != 0:
        raise TranslateError(f"{rel}: ordered templates call hirschberg {nh} times and levenshtein {nl} times; the model of the derive uses hirschberg only")
    c['DERIVE_HIRSCHBERG_CALLS'] = nh

def _u8_arms(text, rel, variants):
    """every `N_u8` literal written by a ser_bin arm or matched by a de_bin arm, attributed to the enum variant of that arm; all uses of a
    variant must agree on one literal and the literals of one enum must be pairwise different"""
    found = {}
    # ser: `...::Variant(..) => { N_u8.ser_bin`   |  de: `N_u8 => ...::Variant(`  or  `N_u8 => { ... Variant(`
    for m in re.finditer(r'(?:Self|\w+)::(\w+)\s*(?:\([^)]*\))?\s*=>\s*\{\s*(\d+)_u8\.ser_bin', text):
        found.setdefault(m.group(1), set()).add(int(m.group(2)))
    for m in re.finditer(r'(\d+)_u8\s*=>\s*(?:\{[^}]*?)?(?:\w+::)*?(\w+)\s*\(', text, re.S):
        v = m.group(2)
        if v in variants: found.setdefault(v, set()).add(int(m.group(1)))
    # de arms whose constructor is nested deeper (Replace/Modify wrapped in the newtype)
    for m in re.finditer(r'(\d+)_u8\s*=>\s*(.*?)(?=\n\s*\d+_u8\s*=>|\n\s*_\s*=>)', text, re.S):
        for v in variants:
            if re.search(r'::' + v + r'\s*\(', m.group(2)): found.setdefault(v, set()).add(int(m.group(1)))
    tbl = []
    for v in variants:
        lits = found.get(v, set())
        if len(lits) != 1:
            raise TranslateError(f"{rel}: variant {v} is written/read with discriminants {sorted(lits)} (expected exactly one, used consistently by every ser_bin and de_bin)")
        tbl.append(next(iter(lits)))
    if len(set(tbl)) != len(tbl):
        raise TranslateError(f"{rel}: discriminants {tbl} of {variants} are not pairwise different")
    return tbl

def sec_unord_wire(repo, c):
    rel = 'src/collections/unordered_array_like.rs'; t = read(repo, rel)
    blk = block_after(t, rel, r'mod\s+nanoserde_impls\s*\{', 'nanoserde_impls of unordered_array_like')
    c['UA_CHANGE'] = _u8_arms(blk, rel, ['InsertMany', 'RemoveMany', 'InsertFew', 'RemoveFew', 'InsertSingle', 'RemoveSingle'])
    c['UA_DIFF'] = _u8_arms(blk, rel, ['Replace', 'Modify'])
    rel = 'src/collections/unordered_map_like.rs'; t = read(repo, rel)
    blk = block_after(t, rel, r'mod\s+nanoserde_impls\s*\{', 'nanoserde_impls of unordered_map_like')
    c['MF_CHANGE'] = _u8_arms(blk, rel, ['InsertMany', 'RemoveMany', 'InsertSingle', 'RemoveSingle'])
    c['MF_DIFF'] = _u8_arms(blk, rel, ['Replace', 'Modify'])
    rel = 'src/collections/unordered_map_like_recursive.rs'; t = read(repo, rel)
    blk = block_after(t, rel, r'mod\s+nanoserde_impls\s*\{', 'nanoserde_impls of unordered_map_like_recursive')
    c['RM_CHANGE'] = _u8_arms(blk, rel, ['Insert', 'Remove', 'Change'])
    c['RM_DIFF'] = _u8_arms(blk, rel, ['Replace', 'Modify'])

def sec_features(repo, c):
    rel = 'Cargo.toml'
    t = read(repo, rel)
    m = one(t, rel, r'^\[features\]\s*\n(.*?)(?=^\[|\Z)', '[features] table', re.M | re.S)
    feats = {}
    for line in m.group(1).splitlines():
        line = line.strip()
        if not line or line.startswith('#'):
            continue
        mm = re.fullmatch(r'"?([A-Za-z0-9_\-]+)"?\s*=\s*\[(.*)\]\s*', line)
        if not mm:
            raise TranslateError(f"{rel}: cannot parse feature line {line!r}")
        feats[mm.group(1)] = [x.strip().strip('"') for x in mm.group(2).split(',') if x.strip()]
    c['FEATURES'] = feats

# ---- bounded arithmetic: the models use unbounded nat/Z (slot indices: u8 with N <= 255 translated). Every place where the code narrows an
# integer or uses wrapping / saturating / checked arithmetic is listed in tools/arith_sites.json (normalised text of the line); a site that
# appears, disappears or changes means the unbounded model may no longer describe the code: broken tie of the section.
ARITH_FILES = {'arith_ordered': 'src/collections/ordered_array_like.rs', 'arith_rope': 'src/collections/rope/mod.rs', 'arith_slots': 'src/collections/rope/slots.rs',
               'arith_unord_array': 'src/collections/unordered_array_like.rs', 'arith_unord_map': 'src/collections/unordered_map_like.rs',
               'arith_rec_map': 'src/collections/unordered_map_like_recursive.rs'}
ARITH_RE = re.compile(r"\bas\s+(u8|u16|u32|u64|i8|i16|i32|i64|isize|usize)\b|\b(wrapping|saturating|checked|overflowing)_\w+|\b(u8|u16|u32|i8|i16|i32)::(MAX|MIN|try_from|from)\b|try_into\(\)|\s(>>|<<)=?\s")
def arith_sites(repo, rel):
    out = []
    for line in read(repo, rel).splitlines():
        code = line.split('//')[0]
        if ARITH_RE.search(code):
            out.append(' '.join(code.split()))
    return sorted(out)
def make_sec_arith(name, rel):
    def sec(repo, c):
        now = arith_sites(repo, rel)
        c.setdefault('ARITH', {})[name] = now
        pin_file = os.path.join(os.path.dirname(os.path.abspath(__file__)), 'arith_sites.json')
        try:
            pinned = json.load(open(pin_file)).get(name)
        except OSError:
            pinned = None
        if pinned is None:
            raise TranslateError(f"{rel}: no pinned list of bounded-arithmetic sites (tools/arith_sites.json)")
        if pinned != now:
            import collections
            a, b = collections.Counter(pinned), collections.Counter(now)
            added, gone = list((b - a).elements()), list((a - b).elements())
            raise TranslateError(f"{rel}: bounded-arithmetic sites changed (the model computes with unbounded integers): new {added[:3]} removed {gone[:3]}")
    return sec

SECTIONS = [('ordered', sec_ordered), ('ordered_wire', sec_ordered_wire), ('rope', sec_rope), ('slots_iter', sec_slots_iter), ('unord_wire', sec_unord_wire), ('derive_ordered_entry', sec_derive_ordered_entry), ('features', sec_features)] + [(n, make_sec_arith(n, r)) for n, r in ARITH_FILES.items()]

def translate(repo):
    """returns (constants, errors-by-section)"""
    c, errs = {}, {}
    for name, fn in SECTIONS:
        try:
            fn(repo, c)
        except TranslateError as e:
            errs[name] = str(e)
    return c, errs

def coq_tbl(name, tbl, order):
    return f"Definition {name} : list nat := [{'; '.join(str(tbl[v]) for v in order)}]."

HDR = "(* GENERATED by /verif/tools/translate.py from /repo -- do not edit. *)\nFrom Coq Require Import List Arith NArith.\nImport ListNotations.\n"

def nat(n):
    # numerals above 5000 are not parsed as unary nat by Coq; keep huge ones symbolic
    return str(n) if n <= 4096 else f"(N.to_nat {n}%N)"

def render(c, errs):
    files = {}
    if 'ordered' not in errs:
        files['ConstsOrdered.v'] = HDR + "".join(f"Definition {n} : nat := {nat(c[n])}.\n"
            for n in ('LEVENSHTEIN_CUTOFF', 'DELETE_COST', 'REPLACE_COST', 'INSERT_COST'))
    if 'rope' not in errs:
        files['ConstsRope.v'] = HDR + "".join(f"Definition {n} : nat := {nat(c[n])}.\n"
            for n in ('MAX_SLOT_SIZE', 'BASE_SLOT_SIZE', 'UNDERSIZED_SLOT', 'FROM_ITER_TAKE', 'FROM_ITER_FULL', 'ROPE_NEW_CHUNKS'))
    if 'slots_iter' not in errs:
        files['ConstsSlotsIter.v'] = HDR + f"Definition REV_POS_DOWN : bool := {'true' if c['REV_POS_DOWN'] else 'false'}.\n"
    if 'ordered_wire' not in errs:
        ov = ['Replace', 'Insert', 'Delete', 'Swap']
        files['ConstsOrderedWire.v'] = HDR + "(* nanoserde discriminants of the ordered change, order: Replace Insert Delete Swap *)\n" + "\n".join(
            coq_tbl(n, c[n], ov) for n in ('ORD_SER_OWNED', 'ORD_SER_REF', 'ORD_DE')) + "\n"
    if 'unord_wire' not in errs:
        files['ConstsUnordWire.v'] = HDR + "(* u8 discriminants of the hand-written nanoserde impls of the unordered collection diffs, in declaration order of the variants *)\n" + "".join(
            f"Definition {n} : list nat := [{'; '.join(map(str, c[n]))}].\n" for n in ('UA_CHANGE', 'UA_DIFF', 'MF_CHANGE', 'MF_DIFF', 'RM_CHANGE', 'RM_DIFF'))
    return files

def write_if_changed(path, content):
    try:
        with open(path) as f:
            if f.read() == content:
                return False
    except OSError:
        pass
    os.makedirs(os.path.dirname(path), exist_ok=True)
    with open(path, 'w') as f:
        f.write(content)
    return True

def run(repo='/repo', out=None):
    """translate and write; returns (constants, errors). Files of failed sections are left as they are."""
    out = out or os.path.join(os.path.dirname(os.path.abspath(__file__)), '..', 'coq', 'gen')
    c, errs = translate(repo)
    changed = [f for f, content in render(c, errs).items() if write_if_changed(os.path.join(out, f), content)]
    write_if_changed(os.path.join(out, 'consts.json'), json.dumps({'consts': c, 'errors': errs}, indent=1, sort_keys=True) + "\n")
    return c, errs, changed

def main():
    ap = argparse.ArgumentParser()
    ap.add_argument('--repo', default='/repo')
    ap.add_argument('--out', default=None)
    a = ap.parse_args()
    c, errs, changed = run(a.repo, a.out)
    for k, v in errs.items():
        print(f"TRANSLATE-ERROR[{k}]: {v}")
    print(f"translated: rewritten={changed}")
    return 2 if errs else 0

if __name__ == '__main__':
    sys.exit(main())
