#!/usr/bin/env python3
"""mkaudit.py Cxx thm1 thm2 ...  : writes coq/audit/AuditCxx.v (Check @thm / Print Assumptions thm for each theorem of Props.Cxx)
and coq/audit/AuditCxx.expected = the output of compiling it NOW. The expected file pins the full statement of every property
theorem (as printed by Coq, implicit arguments made explicit with @): a later change of a statement changes this text and the
check reports the pinned statement as no longer matching. Run only when a statement is changed on purpose; review the diff."""
import sys, os, re
sys.path.insert(0, os.path.dirname(os.path.abspath(__file__)))
from vlib import *
prop, thms = sys.argv[1], sys.argv[2:]
src = f"(* audit file for {prop}: statements pinned through Audit{prop}.expected (see tools/mkaudit.py) *)\nRequire Import Props.{prop}.\nSet Printing Width 160.\nSet Printing Depth 1000.\n"
for t in thms:
    src += f"Check @{t}.\n"
for t in thms:
    src += f"Print Assumptions {t}.\n"
open(os.path.join(COQ, 'audit', f'Audit{prop}.v'), 'w').write(src)
rc, out = sh(['coqc', '-noglob'] + qflags() + ['-o', os.path.join(WORK, f'Audit{prop}.vo'), os.path.join(COQ, 'audit', f'Audit{prop}.v')], cwd=WORK, timeout=300)
if rc != 0:
    print(out); sys.exit(1)
open(os.path.join(COQ, 'audit', f'Audit{prop}.expected'), 'w').write(out)
print(out)
