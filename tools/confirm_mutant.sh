#!/bin/bash
# confirm_mutant.sh <worktree> <mutant dir> <demo test filter>: independent confirmation of a seeded change in a scratch worktree.
# prints three lines: SUITE_WITH_MUTANT=pass|fail  DEMO_WITH_MUTANT=fail|pass  DEMO_WITHOUT=pass|fail
wt=$1; md=$2; filt=$3
cd $wt || exit 2
export CARGO_NET_OFFLINE=true
reset() { git checkout -q -- . ; git clean -fdq -- src derive tests; }
apply_demo() { if [ -f $md/demo.diff ]; then git apply $md/demo.diff; else cp $md/demo.rs tests/demo_$(basename $md).rs; fi; }
reset
git apply $md/patch.diff || { echo "PATCH_DOES_NOT_APPLY"; exit 2; }
if timeout 1500 cargo test --workspace --offline -- --skip paired > $md/suite.log 2>&1; then echo "SUITE_WITH_MUTANT=pass"; else echo "SUITE_WITH_MUTANT=fail"; fi
apply_demo
if timeout 900 cargo test --offline $filt > $md/demo_with.log 2>&1; then echo "DEMO_WITH_MUTANT=pass"; else echo "DEMO_WITH_MUTANT=fail"; fi
reset
apply_demo
if timeout 900 cargo test --offline $filt > $md/demo_without.log 2>&1; then echo "DEMO_WITHOUT=pass"; else echo "DEMO_WITHOUT=fail"; fi
grep -h "test result" $md/demo_with.log $md/demo_without.log | head -4
reset
