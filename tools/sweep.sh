#!/bin/bash
# sweep.sh <seed>...: quick checks of every property on the current tree for each seed; prints only what is not OK
cd /verif
for seed in "$@"; do
  for p in C01 C02 C03 C04 C05 C06 C07 C08 C09 C10 C11 C12 C13 C14 C15 C16 C17 C18 C19 C20; do
    out=$(VERIF_SEED=$seed ./check $p --tier quick 2>&1)
    if echo "$out" | grep -q "VIOLATION"; then echo "seed=$seed $p: $(echo "$out" | grep -E 'VIOLATION|BROKEN' | head -3 | cut -c1-300)"; fi
  done
  echo "seed=$seed done"
done
