"""Shared machinery of the /verif checks: translator call, Coq build + proof audit, extraction/OCaml
drivers, cargo harness builds, model/implementation comparison, verdict, evidence.

Verdict logic (DESIGN.md section 3):
  oracle (the property as stated, evaluated on the real code) fails on x      -> VIOLATION replay=x
     ... unless x matches an entry of known_findings.json (kind "known")      -> KNOWN-FINDING line, exit 0
  proof obligation broken, translator cannot read the source, or model != implementation:
     search (corpus, seeded generator with a larger budget) for an oracle failure
       found  -> VIOLATION replay=<that input>
       none   -> VIOLATION replay=<file naming what no longer checks>  no-failing-input-found
"""
import os, sys, json, time, subprocess, hashlib, fcntl, re, contextlib, random, shutil

V = '/verif'
REPO = '/repo'
WORK = os.path.join(V, '.work')
COQ = os.path.join(V, 'coq')
TARGET = os.path.join(WORK, 'target')
ENV = dict(os.environ, CARGO_NET_OFFLINE='true', CARGO_TARGET_DIR=TARGET, CARGO_TERM_COLOR='never')

sys.path.insert(0, os.path.join(V, 'tools'))
import translate as translator

TRUSTED_BASE = [
    "Coq 8.16.1 kernel (coqc, full .vo build; vm_compute used for side conditions over translated constants and Examples; no native_compute)",
    "axioms: none (every property theorem prints 'Closed under the global context'; checked on every run)",
    "translator /verif/tools/translate.py (anchored regexes, exactly-one-match rule) for constants/discriminants/feature table",
    "extraction: Require Extraction + ExtrOcamlBasic only (no Extract Constant / Extract Inductive of ours); OCaml 4.13.1; drivers under /verif/ocaml",
    "correspondence check: seeded Python generators, Rust harness crates under /verif/harness built against /repo's working tree, textual comparison after canonicalisation",
    "modelled-not-verified: control flow of the Rust sources is hand-modelled in Gallina and tied to the code only by the correspondence check; std Vec/VecDeque/HashMap/sort/min_by_key/Zip behave as documented",
]

def log(*a):
    print(*a, flush=True)

def sh(cmd, timeout=None, cwd=None, env=None, stdin=None):
    """run; returns (rc, stdout+stderr)"""
    try:
        p = subprocess.run(cmd, shell=isinstance(cmd, str), cwd=cwd, env=env or ENV, timeout=timeout,
                           stdout=subprocess.PIPE, stderr=subprocess.STDOUT, text=True, input=stdin)
        return p.returncode, p.stdout
    except subprocess.TimeoutExpired as e:
        return 124, (e.stdout or '') + f"\n[timeout after {timeout}s]"

@contextlib.contextmanager
def lock(name):
    os.makedirs(os.path.join(WORK, 'locks'), exist_ok=True)
    f = open(os.path.join(WORK, 'locks', name), 'w')
    fcntl.flock(f, fcntl.LOCK_EX)
    try:
        yield
    finally:
        fcntl.flock(f, fcntl.LOCK_UN)
        f.close()

def sha(s):
    if isinstance(s, str):
        s = s.encode()
    return hashlib.sha256(s).hexdigest()[:16]

def repo_hash(paths=('src', 'derive/src', 'Cargo.toml', 'derive/Cargo.toml')):
    h = hashlib.sha256()
    for p in paths:
        full = os.path.join(REPO, p)
        if os.path.isfile(full):
            files = [full]
        else:
            files = sorted(os.path.join(d, f) for d, _, fs in os.walk(full) for f in fs)
        for f in files:
            h.update(f.encode()); h.update(open(f, 'rb').read())
    return h.hexdigest()[:16]

# ------------------------------------------------------------------ problems / result object
class Result:
    """collects what a check run found"""
    def __init__(self, prop, tier, seed):
        self.prop, self.tier, self.seed = prop, tier, seed
        self.t0 = time.time()
        self.broken = []          # [(kind, name, detail)]: proof obligations / tie elements that no longer check
        self.oracle_fail = []     # [dict(case=..., what=..., group=...)]: property fails on the real code
        self.obligations = 0
        self.discharged = 0
        self.theorems = []
        self.coverage = {}
        self.evaluations = 0
        self.nontrivial = set()
        self.samples = []
        self.rule = ''
        self.assumptions = []
        self.checker_cmd = ''
        self.notes = []
        self.invalid_cases = 0
    def add_broken(self, kind, name, detail):
        self.broken.append((kind, name, detail))
        log(f"[{self.prop}] BROKEN {kind}: {name}: {detail[:400]}")

# ------------------------------------------------------------------ translator
def step_translate(res, sections):
    with lock('translate'):
        c, errs, changed = translator.run(REPO, os.path.join(COQ, 'gen'))
    for s in sections:
        if s in errs:
            res.add_broken('translator', s, errs[s])
    return c

# ------------------------------------------------------------------ Coq
def coq_make(targets, timeout=1500):
    """full .vo build of the given targets (and their dependencies) through coq_makefile's Makefile"""
    with lock('coq'):
        if not os.path.exists(os.path.join(COQ, 'Makefile')) or \
           os.path.getmtime(os.path.join(COQ, 'Makefile')) < os.path.getmtime(os.path.join(COQ, '_CoqProject')):
            sh('coq_makefile -f _CoqProject -o Makefile', cwd=COQ, timeout=120)
        rc, out = sh(['make', '-j16', '-k'] + targets, cwd=COQ, timeout=timeout)
    return rc, out

def qflags():
    fl = []
    for line in open(os.path.join(COQ, '_CoqProject')):
        m = re.match(r'-Q\s+(\S+)\s+(\S+)', line)
        if m:
            fl += ['-Q', os.path.join(COQ, m.group(1)), m.group(2)]
    return fl

FORBIDDEN = re.compile(r'\b(Admitted|admit|Axiom|Axioms|Parameter|Parameters|Conjecture|Conjectures|Admit Obligations|Unset Guard Checking|Unset Positivity Checking|Unset Universe Checking|bypass_check|type-in-type|impredicative-set|native_compute)\b')

def strip_comments(src):
    out, depth, i = [], 0, 0
    while i < len(src):
        if src.startswith('(*', i):
            depth += 1; i += 2
        elif src.startswith('*)', i) and depth > 0:
            depth -= 1; i += 2
        else:
            if depth == 0:
                out.append(src[i])
            i += 1
    return ''.join(out)

def grep_forbidden():
    """forbidden vernacular anywhere in the development (comments stripped); Variable/Hypothesis outside sections"""
    bad = []
    for d, _, fs in os.walk(COQ):
        for f in fs:
            if not f.endswith('.v'):
                continue
            p = os.path.join(d, f)
            src = strip_comments(open(p).read())
            for m in FORBIDDEN.finditer(src):
                bad.append(f"{os.path.relpath(p, COQ)}: {m.group(0)}")
            depth = 0
            for line in src.splitlines():
                s = line.strip()
                if re.match(r'(Section|Module)\s+\w+', s) and not re.match(r'Module\s+(Import|Export)', s):
                    depth += 1
                elif re.match(r'End\s+\w+\s*\.', s):
                    depth = max(0, depth - 1)
                elif depth == 0 and re.match(r'(Variable|Variables|Hypothesis|Hypotheses|Context)\b', s):
                    bad.append(f"{os.path.relpath(p, COQ)}: {s[:60]} outside a section")
    for f in ('_CoqProject',):
        t = open(os.path.join(COQ, f)).read()
        if re.search(r'-type-in-type|-impredicative-set|-vos|-vok', t):
            bad.append(f"{f}: forbidden flag")
    return bad

def step_proofs(res, prop, targets, sections=()):
    """build the property's .vo cone, then run the audit file: every pinned statement type-checks against the
    proved theorem and every theorem is closed under the global context."""
    t = time.time()
    rc, out = coq_make(targets)
    audit = os.path.join(COQ, 'audit', 'Audit' + prop + '.v')
    src = open(audit).read()
    thms = re.findall(r'^Print Assumptions\s+([\w.]+)\s*\.', src, re.M)
    res.theorems = thms
    res.obligations = len(thms)
    res.checker_cmd = f"make -C /verif/coq {' '.join(targets)} && coqc -Q ... /verif/coq/audit/Audit{prop}.v  (Check pinned statements; Print Assumptions)"
    if rc != 0:
        errs = re.findall(r'File "([^"]+)", line (\d+).*?\nError:?(.*?)(?=\n\S|\Z)', out, re.S)
        detail = '; '.join(f"{os.path.relpath(f, COQ) if f.startswith('/') else f}:{l}: {' '.join(e.split())[:300]}" for f, l, e in errs[:3]) or out[-600:]
        res.add_broken('proof', f"build of {' '.join(targets)}", detail)
        res.discharged = 0
        return False
    bad = grep_forbidden()
    if bad:
        res.add_broken('proof', 'forbidden vernacular', '; '.join(bad[:5]))
    with lock('coq'):
        rc, out = sh(['coqc', '-noglob'] + qflags() + ['-o', os.path.join(WORK, 'Audit' + prop + '.vo'), audit], timeout=300, cwd=WORK)
    if rc != 0:
        res.add_broken('proof', f"audit/Audit{prop}.v (pinned statement no longer matches the proved theorem)", ' '.join(out.split())[-500:])
        res.discharged = 0
        return False
    exp = os.path.join(COQ, 'audit', 'Audit' + prop + '.expected')
    if os.path.exists(exp):
        norm = lambda t: ' '.join(t.split())
        if norm(open(exp).read()) != norm(out):
            import difflib
            d = [l for l in difflib.unified_diff(open(exp).read().splitlines(), out.splitlines(), lineterm='', n=0) if l[:1] in '+-' and l[:3] not in ('+++', '---')]
            res.add_broken('proof', f"audit/Audit{prop}.expected (a pinned theorem statement or its assumptions changed)", ' | '.join(d[:6]))
            res.discharged = 0
            return False
    # parse: sequence of Print Assumptions answers
    answers = re.findall(r'(Closed under the global context|Axioms:.*?(?=\nClosed under|\nAxioms:|\Z))', out, re.S)
    ok = 0
    for th, a in zip(thms, answers):
        if a.startswith('Closed'):
            ok += 1
        else:
            res.add_broken('proof', th, 'depends on axioms: ' + ' '.join(a.split())[:300])
    if len(answers) != len(thms):
        res.add_broken('proof', 'audit output', f"{len(answers)} answers for {len(thms)} theorems")
        ok = 0
    res.discharged = ok if not bad else 0
    res.coverage['proof_wall_s'] = round(time.time() - t, 1)
    return res.discharged == res.obligations

def coqchk(res, vo_modules, timeout=1500):
    """thorough: independent re-check of the compiled cone"""
    with lock('coq'):
        rc, out = sh(['coqchk', '-o', '-silent'] + qflags() + vo_modules, cwd=COQ, timeout=timeout)
    m = re.search(r'\* Axioms:\s*(.*?)\n\s*\n', out + "\n\n", re.S)
    axioms = ' '.join(m.group(1).split()) if m else '?'
    res.coverage['coqchk'] = {'rc': rc, 'axioms': axioms}
    if rc != 0 or axioms != '<none>':
        res.add_broken('proof', 'coqchk', f"rc={rc} axioms={axioms} {out[-300:]}")

# ------------------------------------------------------------------ OCaml drivers / cargo
def build_ocaml(res, name, Name):
    with lock('ocaml_' + name):
        rc, out = sh([os.path.join(V, 'tools', 'build_ocaml.sh'), name, Name], timeout=900)
    if rc != 0:
        res.add_broken('correspondence', f"extracted model driver {name}", out[-500:])
        return None
    return os.path.join(WORK, 'ocaml', name, 'driver')

def cargo_build(res, crate_dir, bin_name, features=None, rustflags=None, target_dir=None, extra_env=None, quiet=False):
    env = dict(ENV)
    if target_dir:
        env['CARGO_TARGET_DIR'] = target_dir
    if rustflags:
        env['RUSTFLAGS'] = rustflags
    if extra_env:
        env.update(extra_env)
    lockf = os.path.join(crate_dir, 'Cargo.lock')
    if not os.path.exists(lockf):
        shutil.copy(os.path.join(REPO, 'Cargo.lock'), lockf)
    cmd = ['cargo', 'build', '--offline', '--quiet']
    if features is not None:
        cmd += ['--features', ','.join(features)] if features else []
    with lock('cargo_' + sha(env['CARGO_TARGET_DIR'])):
        rc, out = sh(cmd, cwd=crate_dir, env=env, timeout=1500)
    if rc != 0:
        errs = [l for l in out.splitlines() if l.startswith('error')]
        if quiet:
            res.broken.append(('correspondence', f"harness {os.path.basename(crate_dir)} does not build", ' | '.join(errs[:4]) or out[-500:]))
        else:
            res.add_broken('correspondence', f"harness {os.path.basename(crate_dir)} no longer builds against /repo", ' | '.join(errs[:4]) or out[-500:])
        return None
    return os.path.join(env['CARGO_TARGET_DIR'], 'debug', bin_name)

def run_cases(exe, casefile, timeout=1800, env=None, max_crashes=6):
    """run a line-oriented harness (one block of output per case line, flushed per case; header lines start with SHAPE or #).
    When the PROCESS dies (abort, e.g. an allocation failure inside a decoder, stack overflow, signal) the case it died on is the
    first one without output: it is recorded and the run continues with the cases after it.
    returns (rc of the last run, stdout lines of all runs, [(case line, what the process said when it died)])"""
    text = open(casefile).read().splitlines()
    header = [l for l in text if l.startswith(('SHAPE', '#'))]
    cases = [l for l in text if l.strip() and not l.startswith(('SHAPE', '#'))]
    out_all, crashed, cur = [], [], casefile
    while True:
        try:
            p = subprocess.run([exe, cur], env=env or ENV, timeout=timeout, stdout=subprocess.PIPE, stderr=subprocess.PIPE, text=True, errors='replace')
            rc, out, err = p.returncode, p.stdout, p.stderr
        except subprocess.TimeoutExpired as e:
            rc, out, err = 124, (e.stdout or b'').decode(errors='replace') if isinstance(e.stdout, bytes) else (e.stdout or ''), f"[timeout after {timeout}s]"
        lines = out.splitlines()
        out_all += lines
        if rc == 0 or not cases:
            break
        done = {l.split(' ', 1)[0] for l in lines if l and not l.startswith('ORACLE-FAIL')} | {l.split()[1] for l in lines if l.startswith('ORACLE-FAIL') and len(l.split()) > 1}
        k = next((i for i, c in enumerate(cases) if c.split()[1] not in done), None)
        if k is None: break
        crashed.append((cases[k], ' '.join(err.split())[:300] or f"rc={rc}"))
        cases = cases[k + 1:]
        if len(crashed) >= max_crashes or not cases: break
        cur = casefile + f".rest{len(crashed)}"
        open(cur, 'w').write('\n'.join(header + cases) + '\n')
    for i in range(1, len(crashed) + 1):
        try: os.unlink(casefile + f".rest{i}")
        except OSError: pass
    return rc, out_all, crashed

def run_lines(cmd, timeout=1800, env=None):
    rc, out = sh(cmd, timeout=timeout, env=env)
    return rc, out.splitlines()

def run_lines_sharded(cmd, casefile, shards=12, timeout=1800, env=None, min_per_shard=4):
    """a line-oriented driver whose output for a case depends on that case's line only: the case file is cut into contiguous shards, the
    shards run in parallel, the outputs are concatenated in order. returns (worst rc, lines)"""
    from concurrent.futures import ThreadPoolExecutor
    lines = [l for l in open(casefile).read().splitlines() if l.strip()]
    if len(lines) < min_per_shard * shards:
        return run_lines(cmd + [casefile], timeout=timeout, env=env)
    # dealt out round robin (expensive cases cluster at the end of a file); every output line starts with the id of its case, so the
    # original order is restored afterwards
    files = []
    for k in range(shards):
        part = lines[k::shards]
        if not part: continue
        f = f"{casefile}.shard{k}"; open(f, 'w').write('\n'.join(part) + '\n'); files.append(f)
    with ThreadPoolExecutor(max_workers=shards) as ex:
        outs = list(ex.map(lambda f: run_lines(cmd + [f], timeout=timeout, env=env), files))
    for f in files:
        try: os.remove(f)
        except OSError: pass
    by_id, other = {}, []
    for _, ls in outs:
        for l in ls:
            cid = l.split(' ', 1)[0]
            by_id.setdefault(cid, []).append(l)
    ordered, seen = [], set()
    for l in lines:
        cid = l.split(' ', 1)[0]
        if cid in seen: continue
        seen.add(cid); ordered += by_id.pop(cid, [])
    for cid, ls in by_id.items(): ordered += ls          # lines that do not start with a case id (self-check failures) go last
    return max(rc for rc, _ in outs), ordered

# ------------------------------------------------------------------ comparison
def split_oracle(lines):
    obs = [l for l in lines if not l.startswith('ORACLE-FAIL')]
    fails = [l for l in lines if l.startswith('ORACLE-FAIL')]
    return obs, fails

def compare(model_lines, impl_lines, limit=20):
    """line-by-line; returns list of (index, model, impl)"""
    dis = []
    n = max(len(model_lines), len(impl_lines))
    for i in range(n):
        a = model_lines[i] if i < len(model_lines) else '<missing>'
        b = impl_lines[i] if i < len(impl_lines) else '<missing>'
        if a != b:
            dis.append((i, a, b))
            if len(dis) >= limit:
                break
    return dis

# ------------------------------------------------------------------ known findings
def known_findings(prop):
    p = os.path.join(V, 'known_findings.json')
    if not os.path.exists(p):
        return []
    return [k for k in json.load(open(p)) if k.get('property') == prop and k.get('kind') == 'known']

def match_known(prop, text):
    for k in known_findings(prop):
        if re.search(k['match'], text):
            return k
    return None

# ------------------------------------------------------------------ evidence / verdict
def write_replay(prop, name, payload):
    d = os.path.join(V, 'replays')
    os.makedirs(d, exist_ok=True)
    p = os.path.join(d, f"{prop}_{name}.json")
    json.dump(payload, open(p, 'w'), indent=1)
    return p

def finish(res, search=None):
    """apply the verdict logic, write evidence, print VIOLATION / KNOWN-FINDING lines, return exit code.
    search: callable() -> list of oracle failures (dicts), run only if something is broken and no oracle failure is known yet."""
    prop = res.prop
    os.makedirs(os.path.join(V, 'replays'), exist_ok=True)
    for f in os.listdir(os.path.join(V, 'replays')):
        if f.startswith(prop + '_'):
            os.remove(os.path.join(V, 'replays', f))
    viol = []           # (replay path, suffix)
    known_lines = []
    fails = list(res.oracle_fail)
    if res.broken and not fails and search is not None:
        log(f"[{prop}] a proof obligation or the correspondence is broken; searching for a failing input ...")
        try:
            fails = search() or []
        except Exception as e:      # the search itself must not mask the broken obligation
            res.notes.append(f"search raised {e!r}")
            fails = []
    unknown = []
    seen_known = set()
    for f in fails:
        k = match_known(prop, f.get('signature', '') + ' ' + f.get('what', ''))
        if k:
            if k['id'] not in seen_known:
                seen_known.add(k['id'])
                known_lines.append(f"KNOWN-FINDING: property={prop} {k['description']}")
        else:
            unknown.append(f)
    if unknown:
        f = unknown[0]
        path = write_replay(prop, 'failing_input', {'property': prop, 'kind': 'failing-input', 'group': f.get('group'),
                            'case': f.get('case'), 'what': f.get('what'), 'others': [u.get('what') for u in unknown[1:10]],
                            'broken': [list(b) for b in res.broken],
                            'replay': f"cd /verif && ./check {prop} --replay {os.path.join(V, 'replays', prop + '_failing_input.json')}"})
        viol.append((path, ''))
    elif res.broken and not (fails and not unknown and all_broken_explained(res, fails)):
        path = write_replay(prop, 'broken', {'property': prop, 'kind': 'no-failing-input-found',
                            'no_longer_checks': [{'kind': k, 'name': n, 'detail': d} for k, n, d in res.broken],
                            'searched': res.coverage.get('search', {}),
                            'note': 'the property is no longer shown to hold: the named theorem / side condition / correspondence does not check against the current /repo; the oracle found no failing input within the search budget'})
        viol.append((path, ' no-failing-input-found'))
    wall = round(time.time() - res.t0, 2)
    cov = dict(res.coverage)
    cov.update({
        'obligations': max(res.obligations, 1), 'discharged': res.discharged,
        'checker_cmd': res.checker_cmd or 'n/a', 'trusted_base': TRUSTED_BASE + res.assumptions,
        'theorems': res.theorems,
        'evaluations': res.evaluations, 'distinct_nontrivial': len(res.nontrivial),
        'rule': res.rule, 'samples': res.samples[:6] or ['(no cases run: build failed before the correspondence step)'],
        'broken': [list(b) for b in res.broken],
    })
    if res.discharged == 0:      # schema: a proof-level "discharged" must be >= 1; a run with nothing discharged says so differently
        cov.pop('discharged'); cov['discharged_none'] = True
    ev = {'property_id': prop, 'tier': res.tier, 'seed': res.seed, 'level': 'proof', 'coverage': cov,
          'assumptions': TRUSTED_BASE + res.assumptions, 'wall_s': wall, 'violations': len(viol),
          'known_findings_reported': known_lines, 'notes': res.notes}
    os.makedirs(os.path.join(V, 'evidence'), exist_ok=True)
    json.dump(ev, open(os.path.join(V, 'evidence', prop + '.json'), 'w'), indent=1)
    for l in known_lines:
        print(l)
    for path, suffix in viol:
        print(f"VIOLATION property={prop} replay={path}{suffix}")
    if not viol:
        log(f"[{prop}] OK tier={res.tier} seed={res.seed} obligations={res.obligations} discharged={res.discharged} "
            f"evaluations={res.evaluations} nontrivial={len(res.nontrivial)} wall={wall}s")
    sys.stdout.flush()
    return 1 if viol else 0

def all_broken_explained(res, fails):
    """a broken tie/proof is 'explained' by known findings only if every broken item is flagged as caused by one"""
    return all(k == 'known' for k, _, _ in res.broken)

def std_args(argv=None):
    import argparse
    ap = argparse.ArgumentParser()
    ap.add_argument('--tier', default=os.environ.get('VERIF_TIER', 'quick'), choices=['quick', 'thorough'])
    ap.add_argument('--seed', type=int, default=int(os.environ.get('VERIF_SEED', '20261001')))
    ap.add_argument('--replay', default=None)
    return ap.parse_args(argv)
