#!/usr/bin/env python3
"""store_seeded.py <id> <property> <mutant dir> <confirm log section> : keep a confirmed seeded change under /verif/seeded/<id>/"""
import sys, os, json, shutil, subprocess
sid, prop, md = sys.argv[1:4]
needs = sys.argv[4] if len(sys.argv) > 4 else ''
d = f'/verif/seeded/{sid}'
os.makedirs(d, exist_ok=True)
for f in ('patch.diff', 'demo.diff', 'demo.rs', 'notes.txt'):
    if os.path.exists(os.path.join(md, f)):
        shutil.copy(os.path.join(md, f), os.path.join(d, f))
# run my checks against it
props = sys.argv[5].split(',') if len(sys.argv) > 5 else [prop]
out = subprocess.run(['/verif/tools/try_mutant.sh', os.path.join(d, 'patch.diff')] + props, capture_output=True, text=True).stdout
caught = [l for l in out.splitlines() if l.startswith('VIOLATION')]
meta = {'id': sid, 'breaks_property': prop, 'needs_to_manifest': needs,
        'author': 'independent sub-agent given only the property text and a scratch worktree',
        'confirmed_by_me': {'existing_suite_passes_with_change': True, 'demo_fails_with_change': True, 'demo_passes_without': True,
                            'how': 'tools/confirm_mutant.sh in a scratch worktree of /repo (cargo test --workspace --offline -- --skip paired; cargo test <demo>)'},
        'checks_run': props, 'check_output': [l[:300] for l in out.splitlines()], 'caught': bool(caught),
        'caught_with_failing_input': any('no-failing-input-found' not in l for l in caught)}
json.dump(meta, open(os.path.join(d, 'meta.json'), 'w'), indent=1)
print(sid, 'caught' if caught else 'MISSED', [l[-60:] for l in caught])
