"""Derive-level generator: random type SHAPES (every field strategy and container the derive accepts), Rust code for
them, values / pairs / histories, canonical text forms shared with the OCaml model driver, a generic parser of Rust
`Debug` output, and the shape-directed canonicalisation of generated diff values.

shape text:   S(f,f,...) | E      field: Pi Po Pe K R<shape> Q<shape> L<c> U<c> M<c> N<ko><c><shape>
value text (space separated tokens):  INT | n | s v | [ INT* ] | { k:v* } | < k v k v ... > | ( v* )
"""
import random, re

# ------------------------------------------------------------------ shapes
class Sh:
    """shape node: kind 'S' with fields, or 'E'"""
    def __init__(self, kind, fields=None):
        self.kind, self.fields = kind, fields or []
    def text(self):
        return 'E' if self.kind == 'E' else 'S(' + ','.join(f.text() for f in self.fields) + ')'

class Fd:
    """field: strat in Pi Po Pe K R Q L U M N; c container code; ko for N; sub shape for R Q N"""
    def __init__(self, strat, c=0, ko=0, sub=None):
        self.strat, self.c, self.ko, self.sub = strat, c, ko, sub
    def text(self):
        s = self.strat
        if s in ('Pi', 'Po', 'Pe'): return s
        if s == 'K': return f"K{self.c}" + (self.sub.text() if self.c == 1 else '')
        if s in ('R', 'Q'): return s + self.sub.text()
        if s in ('L', 'U', 'M'): return f"{s}{self.c}"
        return f"N{self.ko}{self.c}{self.sub.text()}"

def parse_shape(t):
    pos = [0]
    def sh():
        if t[pos[0]] == 'E':
            pos[0] += 1; return Sh('E')
        assert t[pos[0]:pos[0] + 2] == 'S(', t[pos[0]:]
        pos[0] += 2; fs = []
        while True:
            fs.append(fd())
            if t[pos[0]] == ',': pos[0] += 1
            else: break
        assert t[pos[0]] == ')'; pos[0] += 1
        return Sh('S', fs)
    def fd():
        c = t[pos[0]]
        if c == 'P':
            s = t[pos[0]:pos[0] + 2]; pos[0] += 2; return Fd(s)
        if c == 'K':
            k = int(t[pos[0] + 1]); pos[0] += 2
            return Fd('K', c=k, sub=sh() if k == 1 else None)
        if c in 'RQ': pos[0] += 1; return Fd(c, sub=sh())
        if c in 'LUM':
            k = int(t[pos[0] + 1]); pos[0] += 2; return Fd(c, c=k)
        if c == 'N':
            ko, k = int(t[pos[0] + 1]), int(t[pos[0] + 2]); pos[0] += 3; return Fd('N', c=k, ko=ko, sub=sh())
        raise ValueError(t[pos[0]:])
    r = sh()
    assert pos[0] == len(t)
    return r

def gen_shape(rng, depth, allow_enum=True, weights=None, codec_safe=False):
    """codec_safe: only containers nanoserde 0.1.37 can encode (no VecDeque, no BTreeMap)"""
    if allow_enum and rng.random() < 0.08:
        return Sh('E')
    n = rng.choice([1, 2, 2, 3, 3, 4, 5, 6])
    if rng.random() < 0.05: n = rng.choice([10, 11, 13, 17])          # two-digit field indices / variant tags
    fs = []
    for _ in range(n):
        opts = ['Pi', 'Pi', 'Po', 'Pe', 'K', 'K', 'L', 'U', 'M']
        if depth > 0: opts += ['R', 'R', 'Q', 'Q', 'N', 'N']
        s = rng.choice(opts)
        if s in ('Pi', 'Po', 'Pe'): fs.append(Fd(s))
        elif s == 'K':     # skipped fields of several types, so that `skip` is combined with other attribute items
            k = rng.choice([0, 0, 0, 1, 2, 3]) if depth > 0 else rng.choice([0, 0, 2, 3])
            fs.append(Fd('K', c=k, sub=gen_shape(rng, depth - 1, allow_enum=False, codec_safe=codec_safe) if k == 1 else None))
        elif s == 'L': fs.append(Fd('L', c=rng.randrange(2 if codec_safe else 3)))
        elif s == 'U': fs.append(Fd('U', c=rng.randrange(4)))
        elif s == 'M': fs.append(Fd('M', c=0 if codec_safe else rng.randrange(2)))
        elif s in ('R', 'Q'): fs.append(Fd(s, sub=gen_shape(rng, depth - 1, allow_enum=(s == 'R'), codec_safe=codec_safe)))
        else: fs.append(Fd('N', c=0 if codec_safe else rng.randrange(2), ko=rng.randrange(2), sub=gen_shape(rng, depth - 1, allow_enum=False, codec_safe=codec_safe)))
    if all(f.strat == 'K' for f in fs):        # a struct with every field skipped does not compile (finding D5): keep one real field
        fs[rng.randrange(len(fs))] = Fd('Pi')
    return Sh('S', fs)

def fixed_shapes(codec_safe=False):
    """shapes that every derive-level workload contains, whatever the seed (random shapes reach a given combination only by luck):
    (1) every recursive strategy under every recursive strategy - a nested struct / optional nested struct / recursive map in either mode whose
        value type again has plain, optional, skipped, nested, optional nested, ordered, unordered, flat-map and recursive-map fields;
    (2) every ordered pair of ADJACENT field kinds (a de Bruijn sequence over the kinds, cut into structs of about 16 fields): templates
        that look at a neighbouring field, or whose generated arms could capture one another's bindings, show only for particular neighbours"""
    c_l, c_u, c_m, c_n = ('0', '0', '0', '0') if codec_safe else ('1', '2', '1', '1')
    inner = f"Pi,Po,K0,RS(Pi,K0),QS(Pi,Po),L0,U0,M0,N00S(Pi,K0),N10S(Po)"
    inner2 = f"Po,K3,QS(Po,K0),RS(Pe,Pi),L{c_l},U{c_u},M{c_m},N0{c_n}S(Pi),Pe"
    out = [f"S(RS({inner}),QS({inner}),N00S({inner}),N10S({inner}))",
           f"S(QS({inner2}),N0{c_n}S({inner2}),RS({inner2}),N1{c_n}S({inner2}))"]
    kinds = ['Pi', 'Po', 'Pe', 'K0', 'K3', 'RS(Pi,Po)', 'QS(Pi,K0)', 'L0', 'U0', 'M0', 'N00S(Pi)']
    # Eulerian circuit of the complete directed graph with loops on the kinds: every ordered pair occurs as neighbours exactly once
    n = len(kinds); nxt = [0] * n; seq = []
    def visit(u):
        while nxt[u] < n:
            v = nxt[u]; nxt[u] += 1; visit(v)
        seq.append(u)
    visit(0); seq.reverse()
    chunk = 16
    for i in range(0, len(seq) - 1, chunk):
        part = seq[i:i + chunk + 1]
        out.append('S(' + ','.join(kinds[k] for k in part) + ')')
    return [parse_shape(t) for t in out]

# ------------------------------------------------------------------ values (python repr: int | None-marker | ...)
# python value forms: ('a', int) ('n',) ('s', v) ('q', [ints]) ('m', [(k,v)]) ('r', [(k, v)]) ('t', [v...])
ENUM_ATOMS = [0, 1, 4, 7, 2, 5, 8, 31, 32]

def gen_atom(rng): return ('a', rng.choice([0, 1, 2, 3, 5, 7, 11, 100, -4]))
def gen_seq(rng, setlike, small=False, bigmult=False):
    if bigmult and not setlike and rng.random() < 0.06:      # multiplicities around the 255/256 boundary of the compact count encoding
        l = [rng.randrange(3)] * rng.choice([254, 255, 256, 257, 300]) + [rng.randrange(6) for _ in range(rng.randint(0, 3))]
        rng.shuffle(l); return ('q', l)
    if not small and rng.random() < 0.025:      # a LONG collection: more than 255 distinct elements / script entries / change-list entries
        n = rng.choice([60, 130, 260, 300, 600]) if (setlike or bigmult) else rng.choice([60, 100, 130, 200])      # ordered lists: the Peano-nat model is O(n*m)
        if setlike: return ('q', sorted(rng.sample(range(5000), n)))
        return ('q', [rng.randrange(3000) for _ in range(n)] if rng.random() < 0.7 else [rng.randrange(6) for _ in range(n)])
    n = rng.choice([0, 1, 2, 3, 5] if small else [0, 0, 1, 2, 3, 5, 9, 14, 20])
    if setlike:      # a set has no order: canonical (sorted) form, like maps
        return ('q', sorted(rng.sample(range(30), min(n, 30))))
    return ('q', [rng.randrange(6) for _ in range(n)])
def gen_fmap(rng):
    if rng.random() < 0.05:              # a large flat map
        ks = sorted(rng.sample(range(64), rng.choice([17, 20, 33, 40])))
        return ('m', [(k, rng.randrange(4)) for k in ks])
    ks = sorted(rng.sample(range(12), rng.choice([0, 1, 2, 3, 5, 8])))
    return ('m', [(k, rng.randrange(4)) for k in ks])

def gen_val(rng, sh):
    if sh.kind == 'E': return ('a', rng.choice(ENUM_ATOMS))
    return ('t', [gen_field(rng, f) for f in sh.fields])

def gen_field(rng, f):
    s = f.strat
    if s == 'Pi' or (s == 'K' and f.c == 0): return gen_atom(rng)
    if s == 'K' and f.c == 1: return gen_val(rng, f.sub)
    if s == 'K' and f.c == 2: return gen_seq(rng, False, small=True)
    if s == 'Po' or (s == 'K' and f.c == 3): return ('n',) if rng.random() < 0.4 else ('s', gen_atom(rng))
    if s == 'Pe': return ('a', rng.choice(ENUM_ATOMS))
    if s == 'R': return gen_val(rng, f.sub)
    if s == 'Q': return ('n',) if rng.random() < 0.4 else ('s', gen_val(rng, f.sub))
    if s == 'L': return gen_seq(rng, False)
    if s == 'U': return gen_seq(rng, f.c >= 2, bigmult=True)
    if s == 'M': return gen_fmap(rng)
    if s == 'N':
        if rng.random() < 0.15:          # a LARGE map (thresholds on sizes / counts of changed, inserted, removed entries show only here)
            ks = sorted(rng.sample(range(64), rng.choice([17, 20, 33, 40])))
            return ('r', [(k, gen_val(rng, f.sub)) for k in ks])
        ks = sorted(rng.sample(range(9), rng.choice([0, 1, 2, 3, 5])))
        return ('r', [(k, gen_val(rng, f.sub)) for k in ks])
    raise ValueError(s)

def mutate_field(rng, f, v, mode):
    """a neighbouring value of field f; mode in {'any','skiponly','orderonly'}"""
    s = f.strat
    if mode == 'skiponly':
        if s == 'K': return gen_field(rng, f)
        if s == 'R' and f.sub.kind == 'S': return mutate_val(rng, f.sub, v, 'skiponly')
        if s == 'Q' and v[0] == 's' and f.sub.kind == 'S': return ('s', mutate_val(rng, f.sub, v[1], 'skiponly'))
        if s == 'N': return ('r', [(k, mutate_val(rng, f.sub, x, 'skiponly')) for k, x in v[1]])
        return v
    if mode == 'orderonly':
        if s == 'U' and f.c < 2:
            l = list(v[1]); rng.shuffle(l); return ('q', l)
        if s == 'R' and f.sub.kind == 'S': return mutate_val(rng, f.sub, v, 'orderonly')
        return v
    # any
    if s == 'U' and f.c < 2 and v[1] and rng.random() < 0.6:     # an element held about 256 times: remove all / most of its copies, or add as many again
        from collections import Counter
        x, cx = Counter(v[1]).most_common(1)[0]
        if cx >= 254:
            l = list(v[1]); k = rng.choice([cx, cx, 255, 256, 257, cx - 1])
            if rng.random() < 0.65:
                for _ in range(min(k, cx)): l.remove(x)
            else: l += [x] * k
            return ('q', l)
    if s == 'U' and f.c < 2 and rng.random() < 0.05:        # a multiplicity delta of exactly 255 / 256 / 257
        l = list(v[1]); x = l[0] if l else 1
        k = rng.choice([255, 256, 257])
        if l.count(x) > k and rng.random() < 0.5:
            for _ in range(k): l.remove(x)
        else: l += [x] * k
        return ('q', l)
    if s in ('L', 'U') and len(v[1]) >= 60 and rng.random() < 0.8:      # bulk edits of a long collection: c elements go, c fresh ones come
        l = list(v[1]); setl = (s == 'U' and f.c >= 2)
        c = min(len(l), rng.choice([1, 16, 17, 128, 255, 256, 257, 300]))
        kinds = rng.choice([('rem',), ('ins',), ('rem', 'ins'), ('rem', 'ins'), ('shift',)])
        if 'shift' in kinds and not setl: k = rng.randint(1, 5); l = l[k:] + l[:k]
        if 'rem' in kinds:
            for i in sorted(rng.sample(range(len(l)), c), reverse=True): del l[i]
        if 'ins' in kinds:
            fresh = [x for x in rng.sample(range(5000, 9000), c)]
            if setl: l += fresh
            else:
                for x in fresh: l.insert(rng.randint(0, len(l)), x)
        return ('q', sorted(set(l)) if setl else l)
    if s in ('L', 'U') and rng.random() < 0.7:
        l = list(v[1])
        for _ in range(rng.randint(1, 3)):
            op = rng.randrange(3)
            if op == 0 and l: del l[rng.randrange(len(l))]
            elif op == 1:
                x = rng.randrange(6) if not (s == 'U' and f.c >= 2) else next((y for y in rng.sample(range(30), 30) if y not in l), None)
                if x is not None: l.insert(rng.randint(0, len(l)), x)
            elif l and not (s == 'U' and f.c >= 2): l[rng.randrange(len(l))] = rng.randrange(6)
        return ('q', sorted(l) if (s == 'U' and f.c >= 2) else l)
    if s in ('M', 'N') and len(v[1]) >= 17 and rng.random() < 0.85:
        m = dict(v[1]); keys = sorted(m)
        c = rng.choice([1, 2, 16, 17, len(keys) // 2, len(keys)]); c = max(1, min(c, len(keys)))
        kinds = rng.choice([('chg',), ('chg', 'ins'), ('chg', 'ins'), ('chg', 'ins', 'rem'), ('chg', 'ins', 'rem'), ('ins', 'rem'), ('rem',), ('chg', 'rem')])
        rng.shuffle(keys)
        if 'rem' in kinds:
            for k in keys[:min(c, len(keys) - 1)]: del m[k]
            keys = keys[min(c, len(keys) - 1):]
        if 'chg' in kinds:
            for k in keys[:c]:
                if s == 'M': m[k] = m[k] + 10
                else:
                    old = m[k]
                    for _ in range(4):
                        m[k] = mutate_val(rng, f.sub, old, 'any') if rng.random() < 0.7 else gen_val(rng, f.sub)
                        if m[k] != old: break
        if 'ins' in kinds:
            fresh = [k for k in rng.sample(range(64, 200), 60)][:c]
            for k in fresh: m[k] = rng.randrange(4) if s == 'M' else gen_val(rng, f.sub)
        return ('m' if s == 'M' else 'r', sorted(m.items()))
    if s == 'M' and rng.random() < 0.7:
        m = dict(v[1])
        for _ in range(rng.randint(1, 3)):
            op = rng.randrange(3)
            if op == 0 and m: del m[rng.choice(sorted(m))]
            elif op == 1: m[rng.randrange(12)] = rng.randrange(4)
            elif m: k = rng.choice(sorted(m)); m[k] = m[k] + 10
        return ('m', sorted(m.items()))
    if s == 'N' and rng.random() < 0.8:
        m = dict(v[1])
        for _ in range(rng.randint(1, 3)):
            op = rng.randrange(4)
            if op == 0 and m: del m[rng.choice(sorted(m))]
            elif op == 1: m[rng.randrange(9)] = gen_val(rng, f.sub)
            elif op == 2 and m: k = rng.choice(sorted(m)); m[k] = mutate_val(rng, f.sub, m[k], 'any')
            elif m: k = rng.choice(sorted(m)); m[k] = mutate_val(rng, f.sub, m[k], 'skiponly')
        return ('r', sorted(m.items()))
    if s == 'R' and rng.random() < 0.7: return mutate_val(rng, f.sub, v, 'any')
    if s == 'Q' and v[0] == 's' and rng.random() < 0.5: return ('s', mutate_val(rng, f.sub, v[1], 'any'))
    return gen_field(rng, f)

def mutate_val(rng, sh, v, mode):
    if sh.kind == 'E':
        return ('a', rng.choice(ENUM_ATOMS)) if mode == 'any' else v
    fs = list(v[1])
    if mode == 'any':
        for i in rng.sample(range(len(fs)), rng.choice([1, 1, 2, len(fs)]) if len(fs) > 1 else 1):
            fs[i] = mutate_field(rng, sh.fields[i], fs[i], 'any')
    else:
        fs = [mutate_field(rng, f, x, mode) for f, x in zip(sh.fields, fs)]
    return ('t', fs)

def perturb_equiv(rng, sh, v):
    """a value equivalent (C02) to v: skipped fields anything, unordered collections permuted, retained values of key-only maps anything"""
    if sh.kind == 'E': return v
    out = []
    for f, x in zip(sh.fields, v[1]):
        s = f.strat
        if s == 'K': out.append(gen_field(rng, f) if rng.random() < 0.7 else x)
        elif s == 'U' and f.c < 2:
            l = list(x[1]); rng.shuffle(l); out.append(('q', l))
        elif s == 'R': out.append(perturb_equiv(rng, f.sub, x))
        elif s == 'Q' and x[0] == 's': out.append(('s', perturb_equiv(rng, f.sub, x[1])))
        elif s == 'N':
            if f.ko: out.append(('r', [(k, gen_val(rng, f.sub) if rng.random() < 0.5 else y) for k, y in x[1]]))
            else: out.append(('r', [(k, perturb_equiv(rng, f.sub, y)) for k, y in x[1]]))
        else: out.append(x)
    return ('t', out)

def vtext(v):
    k = v[0]
    if k == 'a': return str(v[1])
    if k == 'n': return 'n'
    if k == 's': return 's ' + vtext(v[1])
    if k == 'q': return ' '.join(['['] + [str(x) for x in v[1]] + [']'])
    if k == 'm': return ' '.join(['{'] + [f"{a}:{b}" for a, b in v[1]] + ['}'])
    if k == 'r': return ' '.join(['<'] + [f"{a} {vtext(b)}" for a, b in v[1]] + ['>'])
    if k == 't': return ' '.join(['('] + [vtext(x) for x in v[1]] + [')'])
    raise ValueError(v)

def parse_vtoks(toks, i=0):
    t = toks[i]
    if t == 'n': return ('n',), i + 1
    if t == 's':
        v, j = parse_vtoks(toks, i + 1); return ('s', v), j
    if t == '[':
        j = i + 1; l = []
        while toks[j] != ']': l.append(int(toks[j])); j += 1
        return ('q', l), j + 1
    if t == '{':
        j = i + 1; l = []
        while toks[j] != '}':
            a, b = toks[j].split(':'); l.append((int(a), int(b))); j += 1
        return ('m', l), j + 1
    if t == '<':
        j = i + 1; l = []
        while toks[j] != '>':
            k = int(toks[j]); v, j = parse_vtoks(toks, j + 1); l.append((k, v))
        return ('r', l), j + 1
    if t == '(':
        j = i + 1; l = []
        while toks[j] != ')':
            v, j = parse_vtoks(toks, j); l.append(v)
        return ('t', l), j + 1
    return ('a', int(t)), i + 1

def parse_vtext(s):
    v, j = parse_vtoks(s.split())
    return v

def canon_val(sh, v):
    """shape-directed canonical value: unordered sequences sorted, maps sorted by key"""
    if sh.kind == 'E': return v
    out = []
    for f, x in zip(sh.fields, v[1]):
        s = f.strat
        if s == 'U': out.append(('q', sorted(x[1])))
        elif s == 'M': out.append(('m', sorted(x[1])))
        elif s == 'R' or (s == 'K' and f.c == 1): out.append(canon_val(f.sub, x))
        elif s == 'Q' and x[0] == 's': out.append(('s', canon_val(f.sub, x[1])))
        elif s == 'N': out.append(('r', sorted((k, canon_val(f.sub, y)) for k, y in x[1])))
        else: out.append(x)
    return ('t', out)

# ------------------------------------------------------------------ Rust code generation
ORD_T = ['Vec<i64>', 'LinkedList<i64>', 'VecDeque<i64>']
UNO_T = ['Vec<i64>', 'LinkedList<i64>', 'HashSet<i64>', 'BTreeSet<i64>']
MAP_T = ['HashMap<i64, i64>', 'BTreeMap<i64, i64>']

# legal spellings of a skipped field: `skip` alone, with other items before/after it, in a separate attribute
SPELL_SKIP = ['#[difference(skip)]', '/// doc comment\n    #[difference(skip)]', '#[allow(dead_code)]\n    #[difference(skip)]']
SPELL_SKIP_REC = ['#[difference(recurse, skip)]', '#[difference(skip, recurse)]', '#[difference(recurse)]\n    #[difference(skip)]', '#[difference(skip)]']
SPELL_SKIP_COLL = ['#[difference(collection_strategy = "ordered_array_like", skip)]', '#[difference(skip, collection_strategy = "unordered_array_like")]',
                   '#[difference(skip)]\n    #[difference(collection_strategy = "ordered_array_like")]']
SPELL_MAP = ['#[difference(collection_strategy = "unordered_map_like", map_equality = "MAPEQ")]', '#[difference(map_equality = "MAPEQ", collection_strategy = "unordered_map_like")]',
             '#[difference(collection_strategy = "unordered_map_like")]\n    #[difference(map_equality = "MAPEQ")]']
SPELL_RMAP = ['#[difference(collection_strategy = "unordered_map_like", recurse, map_equality = "%s")]', '#[difference(recurse, collection_strategy = "unordered_map_like", map_equality = "%s")]',
              '#[difference(map_equality = "%s", recurse)]\n    #[difference(collection_strategy = "unordered_map_like")]']

def setter_plan(sid, sh):
    """which fields of the top-level struct get a generated setter, and under which name (deterministic rules so that the Python
    oracle, the Rust code generator and the case generator agree): struct-level `setters` for sid % 3 in {0,1}, per-field opt-in
    `setter` on even fields for sid % 3 == 2; field i % 5 == 3 opts out with `skip_setter`; field i % 5 == 4 has a custom name.
    Skipped fields and key-and-value recursive maps never get a setter (the macro generates none)."""
    plan = {}
    if sh.kind != 'S': return 'none', plan
    mode = 'all' if int(sid) % 3 != 2 else 'optin'
    for i, f in enumerate(sh.fields):
        if f.strat == 'K' or (f.strat == 'N' and not f.ko): continue
        if opt_out(sid, i): continue
        if mode == 'optin' and i % 2 != 0: continue
        plan[i] = f"cust_f{i}" if custom_name(sid, i) else f"set_f{i}_with_diff"
    return mode, plan

# about every third setter has a custom name and every seventh field opts out, spread over field positions by the shape id,
# so that every strategy meets every attribute combination
def custom_name(sid, i): return (i + int(sid)) % 3 == 1
def opt_out(sid, i): return (i + int(sid)) % 7 == 5

def setter_attr(mode, i, sid):
    items = []
    if mode == 'optin' and i % 2 == 0: items.append('setter')
    if opt_out(sid, i): items.append('skip_setter')
    if custom_name(sid, i): items.append(f'setter_name = "cust_f{i}"')
    return f"#[difference({', '.join(items)})]\n    " if items else ''

def rust_types(sh, name, out, derives, struct_attr='', setters=None):
    """emit struct definitions + Vconv impls for shape sh named `name` (depth-first); returns the Rust type name"""
    if sh.kind == 'E':
        return 'En'
    fields, fromv, tov, setarms = [], [], [], []
    for i, f in enumerate(sh.fields):
        s = f.strat
        fn = f"f{i}"
        if s == 'Pi': ty, attr = 'i64', ''
        elif s == 'Po': ty, attr = 'Option<i64>', ''
        elif s == 'Pe': ty, attr = 'En', ''
        elif s == 'K' and f.c == 0: ty, attr = 'i64', SPELL_SKIP[(i + len(name)) % len(SPELL_SKIP)]
        elif s == 'K' and f.c == 1: ty, attr = rust_types(f.sub, f"{name}_{i}", out, derives), SPELL_SKIP_REC[(i + len(name)) % len(SPELL_SKIP_REC)]
        elif s == 'K' and f.c == 2: ty, attr = 'Vec<i64>', SPELL_SKIP_COLL[(i + len(name)) % len(SPELL_SKIP_COLL)]
        elif s == 'K' and f.c == 3: ty, attr = 'Option<i64>', '#[difference(skip)]'
        elif s == 'R': ty, attr = rust_types(f.sub, f"{name}_{i}", out, derives), '#[difference(recurse)]'
        elif s == 'Q': ty, attr = f"Option<{rust_types(f.sub, f'{name}_{i}', out, derives)}>", '#[difference(recurse)]'
        elif s == 'L': ty, attr = ORD_T[f.c], '#[difference(collection_strategy = "ordered_array_like")]'
        elif s == 'U': ty, attr = UNO_T[f.c], '#[difference(collection_strategy = "unordered_array_like")]'
        elif s == 'M': ty, attr = MAP_T[f.c], SPELL_MAP[(i + len(name)) % len(SPELL_MAP)]
        else:
            inner = rust_types(f.sub, f"{name}_{i}", out, derives)
            ty = ('HashMap' if f.c == 0 else 'BTreeMap') + f"<i64, {inner}>"
            attr = SPELL_RMAP[(i + len(name)) % len(SPELL_RMAP)] % ('key_only' if f.ko else 'key_and_value')
        if setters is not None:
            attr = setter_attr(setters[0], i, setters[2]) + attr
        fields.append(f"    {attr}\n    pub {fn}: {ty}," if attr else f"    pub {fn}: {ty},")
        if setters is not None and i in setters[1]:
            setarms.append(f"            {i} => {{ let val = <{ty} as Fconv>::fv(v, 0); let r = self.{setters[1][i]}(val.clone()); if self.{fn} != val {{ STORE_MISMATCH.store(true, std::sync::atomic::Ordering::SeqCst); }} Some(r) }},")
        fromv.append(f"            {fn}: <{ty} as Fconv>::fv(&fs[{i}], {1 if s == 'U' else 0}),")
        tov.append(f"            self.{fn}.tv({1 if s == 'U' else 0}),")
    out.append(f"#[derive({derives})]\n#[cfg_attr(feature = \"ns\", derive(nanoserde::SerBin, nanoserde::DeBin))]\n#[cfg_attr(feature = \"sd\", derive(serde::Serialize, serde::Deserialize))]\n{struct_attr}pub struct {name} {{\n" + '\n'.join(fields) + "\n}\n"
               f"impl HasOptionMarker for {name} {{}}\nimpl Fconv for {name} {{\n    fn fv(v: &Val, _u: u8) -> Self {{\n        let fs = match v {{ Val::Struct(fs) => fs, _ => panic!(\"struct expected\") }};\n        {name} {{\n"
               + '\n'.join(fromv) + f"\n        }}\n    }}\n    fn tv(&self, _u: u8) -> Val {{\n        Val::Struct(vec![\n" + '\n'.join(tov) + "\n        ])\n    }\n}\n")
    if setters is not None:
        out.append(f"impl SetField for {name} {{\n    #[cfg(feature = \"gs\")]\n    fn set_field(&mut self, i: usize, v: &Val) -> Option<Option<<Self as StructDiff>::Diff>> {{\n        match i {{\n"
                   + '\n'.join(setarms) + "\n            _ => None,\n        }\n    }\n}\n")
    return name

def rust_module(shapes, derives="Debug, Clone, PartialEq, Difference", setters=False):
    """shapes: list of (sid, ko, Sh). returns Rust source of the generated part (types + dispatch)"""
    out = []
    arms = []
    for sid, ko, sh in shapes:
        chunk = []
        if setters and sh.kind == 'S':
            mode, plan = setter_plan(sid, sh)
            ty = rust_types(sh, f"T{sid}", chunk, derives, struct_attr=('#[difference(setters)]\n' if mode == 'all' else ''), setters=(mode, plan, sid))
        else:
            ty = rust_types(sh, f"T{sid}", chunk, derives)
            if sh.kind == 'S': chunk.append(f"impl SetField for T{sid} {{}}\n")
        if sh.kind == 'S':
            chunk.append(f"#[cfg(not(all(feature = \"ns\", feature = \"sd\")))]\nimpl Wire for T{sid} {{}}\n#[cfg(all(feature = \"ns\", feature = \"sd\"))]\nimpl Wire for T{sid} {{\n"
                         f"    fn wire(id: &str, a: &Self, b: &Self, x: &Self, out: &mut String) {{ wire_obs::<Self>(id, a, b, x, out) }}\n"
                         f"    fn wire_decode(id: &str, a: &Self, ns: &[u8], bc: &[u8], out: &mut String) {{ wire_dec::<Self>(id, a, ns, bc, out) }}\n}}\n")
        out.append('\n'.join(chunk).replace('MAPEQ', 'key_only' if ko else 'key_and_value'))
        arms.append(f'        "{sid}" => run::<{ty}>(toks),')
    return ("// GENERATED by /verif/tools/gen_derive.py\n#![allow(non_camel_case_types, dead_code, unused_imports)]\n"
            "use crate::support::*;\n#[cfg(feature = \"ns\")]\nuse nanoserde::{DeBin, SerBin};\nuse std::collections::{BTreeMap, BTreeSet, HashMap, HashSet, LinkedList, VecDeque};\nuse structdiff::{Difference, StructDiff};\n\n"
            + '\n'.join(out) + "\npub fn dispatch(sid: &str, toks: &[&str]) -> String {\n    match sid {\n" + '\n'.join(arms)
            + '\n        _ => panic!("unknown shape"),\n    }\n}\n')

# ------------------------------------------------------------------ generic parser of Rust Debug output
class DNode:
    """name (may be ''), kind in '(' tuple, '{' struct-with-names / map / set, '[' list, 'atom'; items: list of DNode or (key, DNode)"""
    def __init__(self, name, kind, items=None, atom=None):
        self.name, self.kind, self.items, self.atom = name, kind, items or [], atom
    def __repr__(self): return f"D({self.name},{self.kind},{self.atom if self.kind == 'atom' else self.items})"

_tok = re.compile(r'\s*(-?\d+|[A-Za-z_][A-Za-z0-9_]*|"(?:[^"\\]|\\.)*"|[(){}\[\],:])')
def debug_parse(s):
    toks = _tok.findall(s)
    if ''.join(toks).replace(' ', '') != re.sub(r'\s+', '', s):
        raise ValueError('untokenisable debug text: ' + s[:100])
    pos = [0]
    def peek(): return toks[pos[0]] if pos[0] < len(toks) else None
    def nxt():
        t = toks[pos[0]]; pos[0] += 1; return t
    def value():
        t = nxt()
        if t == '[':
            return DNode('', '[', seq(']'))
        if t == '(':
            return DNode('', '(', seq(')'))
        if t == '{':
            return DNode('', '{', mapitems())
        if re.fullmatch(r'-?\d+', t) or t.startswith('"'):
            return DNode('', 'atom', atom=t)
        # identifier
        p = peek()
        if p == '(':
            nxt(); return DNode(t, '(', seq(')'))
        if p == '{':
            nxt(); return DNode(t, '{', mapitems())
        return DNode(t, 'atom', atom=t)
    def seq(close):
        items = []
        while peek() != close:
            items.append(value())
            if peek() == ',': nxt()
        nxt()
        return items
    def mapitems():
        items = []
        while peek() != '}':
            k = value()
            if peek() == ':':
                nxt(); v = value(); items.append((k, v))
            else:
                items.append(k)
            if peek() == ',': nxt()
        nxt()
        return items
    v = value()
    if pos[0] != len(toks): raise ValueError('trailing debug text')
    return v

def enum_atom(d):
    """En debug -> Z"""
    if d.kind == 'atom' and d.name == 'A': return 0
    if d.name == 'B': return 3 * int(d.items[0].atom) + 1
    if d.name == 'C':
        x = dict((k.atom, v) for k, v in d.items)['x']; return 3 * int(x.atom) + 2
    raise ValueError(f"enum debug {d}")

def dval(sh, d):
    """Debug tree of a VALUE of shape sh -> python value (canonical)"""
    if sh.kind == 'E': return ('a', enum_atom(d))
    fs = dict((k.atom, v) for k, v in d.items)
    out = []
    for i, f in enumerate(sh.fields):
        out.append(dfield(f, fs[f"f{i}"]))
    return ('t', out)

def dfield(f, d):
    s = f.strat
    if s == 'Pi' or (s == 'K' and f.c == 0): return ('a', int(d.atom))
    if s == 'Pe': return ('a', enum_atom(d))
    if s == 'Po' or (s == 'K' and f.c == 3): return ('n',) if d.name == 'None' else ('s', ('a', int(d.items[0].atom)))
    if s == 'R' or (s == 'K' and f.c == 1): return dval(f.sub, d)
    if s == 'K' and f.c == 2: return ('q', [int(x.atom) for x in d.items])
    if s == 'Q': return ('n',) if d.name == 'None' else ('s', dval(f.sub, d.items[0]))
    if s == 'L': return ('q', [int(x.atom) for x in d.items])
    if s == 'U': return ('q', sorted(int(x.atom) for x in d.items))
    if s == 'M': return ('m', sorted((int(k.atom), int(v.atom)) for k, v in d.items))
    if s == 'N': return ('r', sorted((int(k.atom), dval(f.sub, v)) for k, v in d.items))
    raise ValueError(s)

def canon_script(d):
    """OrderedArrayLikeDiffOwned([..]) -> text"""
    out = []
    for c in d.items[0].items:
        a, b = c.items
        if c.name == 'Replace': out.append(f"R({a.atom},{b.atom})")
        elif c.name == 'Insert': out.append(f"I({a.atom},{b.atom})")
        elif c.name == 'Delete': out.append(f"D({a.atom},{'-' if b.name == 'None' else b.items[0].atom})")
        elif c.name == 'Swap': out.append(f"S({a.atom},{b.atom})")
        else: raise ValueError(c.name)
    return ';'.join(out)

def canon_ua(d):
    inner = d.items[0]
    if inner.name == 'Replace':
        return 'Replace[' + ','.join(map(str, sorted(int(x.atom) for x in inner.items[0].items))) + ']'
    ents = []
    for c in inner.items[0].items:
        sign = '+' if c.name.startswith('Insert') else '-'
        if c.name.endswith('Single'): ents.append(f"{sign}S({c.items[0].atom})")
        else:
            spec = dict((k.atom, v) for k, v in c.items[0].items)
            ents.append(f"{sign}{'F' if c.name.endswith('Few') else 'M'}({spec['item'].atom},{spec['count'].atom})")
    return 'Modify[' + ','.join(sorted(ents)) + ']'

def canon_mf(d):
    inner = d.items[0]
    if inner.name == 'Replace':
        return 'Replace[' + ','.join(f"{a}:{b}" for a, b in sorted((int(t.items[0].atom), int(t.items[1].atom)) for t in inner.items[0].items)) + ']'
    ents = []
    for c in inner.items[0].items:
        a = [x.atom for x in c.items]
        if c.name == 'InsertSingle': ents.append(f"+S({a[0]}:{a[1]})")
        elif c.name == 'RemoveSingle': ents.append(f"-S({a[0]})")
        elif c.name == 'InsertMany': ents.append(f"+M({a[0]}:{a[1]},{a[2]})")
        else: ents.append(f"-M({a[0]},{a[1]})")
    return 'Modify[' + ','.join(sorted(ents)) + ']'

def canon_entries(sh, d):
    """Debug tree of Vec<Diff> for shape sh -> canonical entries text"""
    return '[' + ' '.join(canon_entry(sh, e) for e in d.items) + ']'

def canon_entry(sh, e):
    if sh.kind == 'E':
        assert e.name == 'Replace', e.name
        return f"E={vtext(dval(sh, e.items[0]))}"
    m = re.fullmatch(r'f(\d+)(_full)?', e.name)
    i = int(m.group(1)); f = sh.fields[i]; s = f.strat
    p = e.items[0]
    if m.group(2):
        return f"F{i}={vtext(dval(f.sub, p))}"
    if s in ('Pi', 'Po', 'Pe'): return f"P{i}={vtext(dfield(f, p))}"
    if s == 'R': return f"R{i}{canon_entries(f.sub, p)}"
    if s == 'Q': return f"Q{i}N" if p.name == 'None' else f"Q{i}S{canon_entries(f.sub, p.items[0])}"
    if s == 'L': return f"L{i}{{{canon_script(p)}}}"
    if s == 'U': return f"U{i}{{{canon_ua(p)}}}"
    if s == 'M': return f"M{i}{{{canon_mf(p)}}}"
    if s == 'N':
        inner = p.items[0]
        if inner.name == 'Replace':
            kv = sorted((int(t.items[0].atom), vtext(dval(f.sub, t.items[1]))) for t in inner.items[0].items)
            return f"N{i}{{Replace< {' '.join(f'{k} {v}' for k, v in kv)} >}}"
        items = []
        for c in inner.items[0].items:
            if c.name == 'Insert':
                t = c.items[0]; items.append((int(t.items[0].atom), 1, f"+{t.items[0].atom}={vtext(dval(f.sub, t.items[1]))}"))
            elif c.name == 'Remove': items.append((int(c.items[0].atom), 0, f"-{c.items[0].atom}"))
            else:
                t = c.items[0]; items.append((int(t.items[0].atom), 2, f"~{t.items[0].atom}{canon_entries(f.sub, t.items[1])}"))
        return f"N{i}{{Modify( {' '.join(x[2] for x in sorted(items))} )}}"
    raise ValueError(s)
