#!/usr/bin/env python3
"""writes /verif/MANIFEST.json from the table below (kept here so the manifest is always regenerated consistently)"""
import json, os
V = '/verif'
ALL = [f"C{i:02d}" for i in range(1, 21)]
TB = ("Trusted: Coq 8.16.1 kernel (+vm_compute for side conditions over translated constants); no axioms (Print Assumptions checked every run); "
      "translator tools/translate.py; extraction with ExtrOcamlBasic only + OCaml driver; the correspondence check (seeded generator, Rust harness built "
      "against /repo's working tree, verbatim comparison). The Rust control flow is hand-modelled, not verified: the theorem is about the Gallina model, "
      "the model is tied to the code by the correspondence check on every run. ")
CLAIMED = {
 'C07': dict(
   text="Machine-checked proof (Coq) that for ALL pairs of lists over any element type with an arbitrary boolean equality (no law assumed) the scripts of both "
        "algorithms, applied with plain-list semantics, never index out of range and yield a list element-wise R-equal to the target, and that the script is "
        "absent iff the lists are element-wise equal (under reflexivity on the target's elements); theorems are parametric in cutoff and edit costs, which the "
        "translator re-reads from /repo on every run and whose side conditions (1 <= cutoff, 1 <= each cost) are re-proved by computation. Tie: the extracted "
        "model and /repo's hirschberg/levenshtein are run on the same seeded inputs and the scripts are compared verbatim; the oracle applies the real diff through "
        "the real rope into Vec/LinkedList/VecDeque. Inputs include lopsided and long-run pairs around 256 elements (65 536 and more in the thorough tier, oracle only), "
        "where arithmetic in narrow integers would show.",
   note=TB + "Lists are unbounded nat-indexed lists; usize overflow is not modelled; the translator pins every narrowing cast / wrapping / saturating / checked operation of the modelled file (tools/arith_sites.json): a new one breaks the tie. The rev==true arm of changelist_from_change_table is dead code and not modelled.",
   technique="Coq proof (induction on table/backtrack/fuelled divide-and-conquer) + translator for constants + differential execution of the extracted model",
   design="5/C07"),
 'C09': dict(
   text="Machine-checked refinement proof (Coq): for EVERY construction (new() or from_iter of any list) and EVERY finite history of in-range insert/remove/"
        "inclusive drain/swap/assignment, the physical rope model (list of slot-array chunks, rebalance_from_key with carry/hold, key lookup) never panics and "
        "its length, every indexed read (None exactly at/past the length), borrowed iteration and consuming iteration equal those of a plain list under the same "
        "operations (theorem rope_is_growable_array, by a chunk-representation relation, an abstract list-of-lists layer with the size invariant, and simulation). "
        "Parametric in MAX/BASE/UNDERSIZED/from_iter chunk size and the shape of Rope::new(), re-read from /repo by the translator on every run; side conditions "
        "re-proved by computation. Tie: the COMPLETE physical layout after every operation and every read, compared verbatim between the extracted model and a clone "
        "of /repo's rope (accessors appended to the clone only); oracle: a Vec under the same operations.",
   note=TB + "usize arithmetic unbounded; logical slot indices are u8 in the code and nat in the model, covered by the side condition MAX_SLOT_SIZE <= 255. "
        "Found and repaired defect D1 (fix: commit c40f786).",
   technique="Coq refinement proof (representation relation + invariant + simulation, induction over histories) + translator + layout-level differential execution",
   design="5/C09"),
 'C10': dict(
   text="Machine-checked proof (Coq) that from EVERY layout representing a sequence (relation Rep: any assignment of logical positions to physical slots, any hole "
        "pattern — a superset of the reachable layouts), for EVERY capacity, each chunk operation (insert, remove, swap, half-open/open drain, append into free slots, "
        "assignment) yields a layout representing the result of the same operation on a plain list and hands back the same values; every read (len, index with None "
        "exactly out of range, forward iteration) agrees; the owning iterator under every interleaving of next/next_back is a deque over the sequence, in particular "
        "back-to-front iteration yields the reverse; lifted to every capacity-respecting history. Tie: slot-level layouts and results compared verbatim between the "
        "extracted model and /repo's ArrayMap driven through an accessor appended to a clone; oracle: a Python list/deque.",
   note=TB + "The direction of rev_pos in next_back is read by the translator and the theorem requires 'down' (side condition). Found and repaired defect D2 (fix: commit c33d9cb). "
        "sort_unstable_by_key is modelled as a stable insertion sort; keys are pairwise different under Rep so any sorting permutation gives the same table.",
   technique="Coq proof (abstraction relation over layouts, per-operation refinement lemmas, deque invariant for the iterator) + translator + slot-level differential execution",
   design="5/C10"),
 'C11': dict(
   text="Machine-checked proof (Coq), for any key type with decidable equality and ANY hash-map iteration order (a section variable constrained only to be a permutation): "
        "unordered_hashcmp/apply never reach the unreachable!() arm; no diff => equal counts for every item; diff => the patched previous has current's count for every item, "
        "for both representations (Replace iff distinct(cur) < distinct(prev) - distinct(cur) over Z) and every multiplicity (Single/Few/Many with the u8 cast as mod 256 and its "
        "three guards); diff present => some count differs. Tie: sorted entry lists with their constructor and the patched collections, extracted model vs /repo, incl. "
        "multiplicities 254..257 and 600; oracle: sort-and-compare.",
   note=TB + "Assumes a lawful Hash/Eq on items; u8::MAX = 255 is written in the model (not translated). HashMap is modelled as an association list with an arbitrary iteration-order oracle.",
   technique="Coq proof over count maps for any iteration order + differential execution of the extracted model (entries sorted on both sides)",
   design="5/C11"),
 'C12': dict(
   text="Machine-checked proof (Coq), any key/value types with decidable equality, any iteration order, both equality modes: never panics; no diff iff the maps are equal; "
        "a diff patches previous into a map equal to current with every key exactly once (so a changed value ends as the new value, never the old one and never both). "
        "Tie: sorted entries and patched maps, extracted model vs /repo, both modes, incl. duplicate-key lists for the correspondence only.",
   note=TB + "Assumes lawful Hash/Eq on keys and a PartialEq on values that decides equality. Maps are lists of pairs with unique keys (the hypothesis NoDup keys is what HashMap/BTreeMap guarantee).",
   technique="Coq proof over association lists for any iteration order + differential execution of the extracted model",
   design="5/C12"),
 'C19': dict(
   text="Machine-checked proof (Coq) for ANY base and ANY change list (not only produced ones): array: count k (apply base (Modify d)) = (count k base - removed k d) + inserted k d with "
        "truncated subtraction, apply base (Replace xs) = xs; flat map: every key of the result is a key of the base or of the diff; recursive map: per-key closed form "
        "(mr_apply_closed_form, also used by C13). The model has no failure value on these paths. Tie: diffs computed from one pair applied to an unrelated base, model vs /repo; "
        "oracle: the count formula / key containment evaluated on /repo's output, no panic.",
   note=TB + "The recursive-map half is exercised through the derive-level checks (C13).",
   technique="Coq proof (closed form of apply over count maps / association lists) + differential execution on unrelated bases",
   design="5/C19"),
 'C20': dict(
   text="Machine-checked proof (Coq): a produced change list mentions each (item, direction) at most once and carries exactly the multiplicity delta per item (hence nothing for an "
        "unchanged item); a produced replacement carries exactly the new collection and is produced only if distinct(cur) < distinct(prev) - distinct(cur) (so at least as many distinct items "
        "=> change list); flat maps: only single entries, removed keys = exactly the keys whose value is gone or changed, inserted pairs = exactly the pairs current has and previous lacks, both "
        "duplicate-free. Tie: sorted entry lists model vs /repo; oracle: the same facts checked on /repo's own diff.",
   note=TB + "Same modelling assumptions as C11/C12.",
   technique="Coq proof (diff loop invariant, NoDup of produced entries, pigeonhole for the heuristic) + differential execution",
   design="5/C20"),
 'C01': dict(
   text="Machine-checked proof (Coq) by mutual induction over the universe of derivable type shapes {plain/Option/enum, skip, recurse, recurse+Option (all four transitions), ordered, unordered array, flat map in either mode, recursive map in both modes, enum types}: for all well-typed a, b the relation R_s true s a b (apply s a (diff s a b)) holds — plain/optional/nested/enum/ordered fields equal b's, skipped fields keep a's value at top level and hold the old or the new value when nested, unordered fields are permutations, flat maps equal, recursive maps have exactly b's keys with new keys carrying b's value and retained keys patched (key-and-value) or old-or-new (key-only). All back ends are the real models (Hirschberg with translated constants, C11, C12, C13), for every hash iteration order. Tie (shared by the derive-level properties): random type shapes are emitted as Rust declarations with #[derive(Difference)], compiled against /repo on every run, and every observation (entries of diff and diff_ref, results of the four apply entry points, follower states) is compared verbatim with the extracted Coq model of the derive; the oracle evaluates the property's own relation on the implementation's output.",
   note=TB + 'Values are modelled as a universal tree with Z atoms; maps and sets are kept canonical (sorted); derived PartialEq = structural equality; Clone = identity. Shapes are limited to the generator\'s grammar (depth <= 2).',
   technique='Coq proof by mutual induction on the shape universe over the proved back-end theorems + differential execution of generated crates',
   design='5/C01'),
 'C02': dict(
   text="Machine-checked proof (Coq): for a follower base a' equivalent (Eq_s: equal on unskipped fields, unordered collections as multisets, key-only maps by key set) to a, apply s a' (diff s a b) is R-related and hence equivalent to b and keeps the follower's own skipped fields (apply_diff_equiv); by induction over histories of any length the follower is equivalent to the leader after every step (replication_tracks). Tie (shared by the derive-level properties): random type shapes are emitted as Rust declarations with #[derive(Difference)], compiled against /repo on every run, and every observation (entries of diff and diff_ref, results of the four apply entry points, follower states) is compared verbatim with the extracted Coq model of the derive; the oracle evaluates the property's own relation on the implementation's output.",
   note=TB + 'Values are modelled as a universal tree with Z atoms; maps and sets are kept canonical (sorted); derived PartialEq = structural equality; Clone = identity. Shapes are limited to the generator\'s grammar (depth <= 2).',
   technique='Coq proof (follower lemma + induction over histories) + differential execution incl. 3..12-step histories with perturbed followers',
   design='5/C02'),
 'C03': dict(
   text="Machine-checked proof (Coq): for ARBITRARY entry lists a field named by no applied entry keeps its value (hence no sequence of apply calls changes a skipped field), no entry is produced for a skipped field, a diff has at most one entry per field, and applying any sub-multiset of a diff's entries in any order leaves each field either fully patched or exactly as it was. Tie (shared by the derive-level properties): random type shapes are emitted as Rust declarations with #[derive(Difference)], compiled against /repo on every run, and every observation (entries of diff and diff_ref, results of the four apply entry points, follower states) is compared verbatim with the extracted Coq model of the derive; the oracle evaluates the property's own relation on the implementation's output.",
   note=TB + 'Values are modelled as a universal tree with Z atoms; maps and sets are kept canonical (sorted); derived PartialEq = structural equality; Clone = identity. Shapes are limited to the generator\'s grammar (depth <= 2).',
   technique='Coq proof (frame lemma per template, one-entry-per-field, permutation argument) + differential execution of random entry subsets in random order',
   design='5/C03'),
 'C04': dict(
   text="Machine-checked proof (Coq): entries_match — walking the fields in declaration order, diff contains no entry for a field that does not differ in the sense of its strategy and exactly one entry naming that field when it does; enum: empty iff equal else one whole-value replacement; diff a a = []. Back ends instantiated with their proved 'absent iff equal' theorems. Tie (shared by the derive-level properties): random type shapes are emitted as Rust declarations with #[derive(Difference)], compiled against /repo on every run, and every observation (entries of diff and diff_ref, results of the four apply entry points, follower states) is compared verbatim with the extracted Coq model of the derive; the oracle evaluates the property's own relation on the implementation's output.",
   note=TB + 'Values are modelled as a universal tree with Z atoms; maps and sets are kept canonical (sorted); derived PartialEq = structural equality; Clone = identity. Shapes are limited to the generator\'s grammar (depth <= 2).',
   technique='Coq proof (per-strategy exactness over proved back-end iff-specs) + differential execution',
   design='5/C04'),
 'C06': dict(
   text="The four entry points are transcribed from the default methods of src/lib.rs; in a pure functional model the agreement theorem is short and purity holds by construction, so for this property the WEIGHT IS ON THE CORRESPONDENCE: the generated harness calls apply, apply_ref, apply_mut and repeated apply_single on clones of real values for every case, compares the four results with each other and with the model, and compares the receivers and diff arguments with clones afterwards. Tie (shared by the derive-level properties): random type shapes are emitted as Rust declarations with #[derive(Difference)], compiled against /repo on every run, and every observation (entries of diff and diff_ref, results of the four apply entry points, follower states) is compared verbatim with the extracted Coq model of the derive; the oracle evaluates the property's own relation on the implementation's output.",
   note=TB + 'Values are modelled as a universal tree with Z atoms; maps and sets are kept canonical (sorted); derived PartialEq = structural equality; Clone = identity. Shapes are limited to the generator\'s grammar (depth <= 2).',
   technique='Coq model of the four default methods (short proof) + execution-level agreement and purity checks on generated crates',
   design='5/C06'),
 'C13': dict(
   text="Machine-checked proof (Coq) at the collection level for any key type, any nested diff/apply/==, any hash order, both modes and ANY base map (mr_follow: diff absent iff maps same; otherwise per key: new key gets current's value, removed key absent, retained key patched in place by the nested diff / left alone in key-only mode; mr_diff_modify_spec; mr_apply_closed_form) and at the derive level as the FMapRec case of the C01/C02 induction. Tie (shared by the derive-level properties): random type shapes are emitted as Rust declarations with #[derive(Difference)], compiled against /repo on every run, and every observation (entries of diff and diff_ref, results of the four apply entry points, follower states) is compared verbatim with the extracted Coq model of the derive; the oracle evaluates the property's own relation on the implementation's output. The C13 workload consists of shapes that contain a recursive map.",
   note=TB + 'Values are modelled as a universal tree with Z atoms; maps and sets are kept canonical (sorted); derived PartialEq = structural equality; Clone = identity. Shapes are limited to the generator\'s grammar (depth <= 2).',
   technique='Coq proof (keyed fold lemma, loop specification, closed form of apply) + differential execution on recursive-map shapes',
   design='5/C13'),
 'C08': dict(
   text="Machine-checked proofs (Coq): (1) script_exec_list_semantics — for EVERY script that is well-formed against plain-list semantics (each index in range when used; replace/insert-before/single delete/inclusive ranged delete/swap in any index order, of any length), building the rope from the list, applying one rope operation per change and iterating yields exactly the list result (corollary of the C09 refinement); (2) codec round trips for both wire formats — nanoserde (hand-written impls, the three discriminant tables translated from /repo, side conditions 'tables agree, pairwise distinct, fit in u8' re-proved by computation; lenient Option tag of the dependency reproduced) and bincode-of-serde (u32 variant index, strict Option tag), element codec i64 proved lawful: decoding what the encoder wrote returns the script and re-encoding reproduces the bytes; the borrowed encoder equals the owned one. Tie: scripts ENCODED BY THE MODEL are decoded, executed through /repo's rope and re-encoded by /repo; corrupted/truncated byte streams are decoded by both; real diffs go through both codecs in /repo alone.",
   note=TB + "Re-encoding is proved for bytes in the encoder's image; for arbitrary bytes nanoserde (the dependency) decodes any Option tag != 1 as None, so 'for all decodable bytes' is false of the dependency and not claimed. nanoserde / serde_derive / bincode 1.3 (fixint LE, u64 lengths, u32 variant index) are modelled, not verified. A length prefix of 2^60 makes the dependency abort on allocation; such streams are not generated.",
   technique="Coq proof (prefix-law codec combinators; rope refinement corollary) + translator for discriminants + byte-level differential execution",
   design="5/C08"),
 'C18': dict(
   text="PARTIAL. Machine-checked proof (Coq) about a cost semantics: hir_mem returns the peak number of live working cells (cost-table cells, the two-row buffers, change-list slots, chain boxes) of hirschberg_impl on the SAME recursion and data-dependent split points as the functional model; theorem: peak <= (CUTOFF + INSERT_COST + DELETE_COST + 6) * (n + m + 1) for ALL inputs, with the side condition CUTOFF <= 64 re-proved on the translated constants — so never a table of n*m cells. Tie: a counting global allocator in the harness measures the peak of live heap bytes during /repo's hirschberg(); on sizes the model can evaluate, measured <= 32 B * (model peak + retained) + the entry point's pointer vectors; on large sizes (quick: up to 3000 x 2500; thorough: 20000 x 20000) measured <= the proven bound in bytes. The translator checks that the derive's ordered templates call hirschberg and never levenshtein.",
   note=TB + "Partial because the cost semantics is a model of allocator-visible behaviour, validated by measurement, not derived from the code; what 'allocates' lives in Vec/Box of the standard library. The proof covers the algorithmic claim (linear working set on every input).",
   technique="Coq proof of a linear bound on an instrumented cost model + counting-allocator measurement on /repo",
   design="5/C18"),
 'C05': dict(
   text="The diff_ref template family is transcribed as its own mutual fixpoint (nested calls go to diff_ref, Into is the conversion of each entry); machine-checked: map into (diff_ref s a b) = diff s a b for every shape and pair, hence same number of entries, same fields, same order, and (by the follower theorem) the same effect on a and on every base equivalent to a. In a pure model borrowed and owned payloads coincide, so this theorem compares two transcriptions of the generated control structure and closes by computation: for this property the WEIGHT IS ON THE CORRESPONDENCE, which runs both real code paths (diff; diff_ref then Into) on every case of the derive workload, compares each with the model entry for entry, and applies both to a and to an equivalent base.",
   note=TB + 'Values are a universal tree with Z atoms; borrowed payloads are modelled by the values they point to.',
   technique="Coq model of both template families (short proof) + both real code paths executed against the model on generated crates",
   design="5/C05"),
 'C15': dict(
   text="Machine-checked proof (Coq): the setter model (assign field i; return what the field's diff strategy reports from the old to the new value) stores exactly the given value and touches no other field, returns exactly the entry the full diff would contain for that field (absent iff the strategy sees no change), and for ANY sequence of setter calls replaying the returned entries in order on any value equivalent to the initial one yields a value equivalent to the final one (setters_replay, an instance of the follower theorem over all back ends). Tie: struct shapes are compiled against /repo with the generated_setters feature (struct-level `setters`, per-field `setter` opt-in, `skip_setter`, custom `setter_name`), random call sequences are executed, and per call the returned entry, the value afterwards and the final replay are compared with the model; the oracle checks the property on /repo's output. A declaration whose expansion does not compile is bisected to a minimal shape and reported as the failing input.",
   note=TB + "The key-and-value recursive map strategy generates no setter (by design of the macro) and is excluded. Found and repaired defect D3 (fix: commit df32b44). The attribute decision table (setters / setter / skip_setter / setter_name) is mirrored by the generator's deterministic plan and checked by compiling and calling exactly the planned setters.",
   technique="Coq proof (setter = assign + field diff; replay as instance of the follower theorem) + differential execution of generated setters",
   design="5/C15"),
 'C16': dict(
   text="(a) Machine-checked theorem (Coq): the derive model is parametric in ALL three hash iteration orders (unordered array, flat map, recursive map; each only required to be a permutation) — what the hasher feature can change; feature_invariance: under any two choices the results of diff followed by apply both satisfy the round-trip relation and are both equivalent to b (identical up to the order of unordered collections and the old-or-new latitude of ignored data). (b) Structural tie: every cfg(feature) site of the library and the macro (115) is classified (use / type alias / generic bound / derive list / module / assertion / macro code generation) and pinned; a new or changed site breaks the tie. (c) Configuration enumeration: the same seeded derive-level workload is compiled and run under feature sets of the library (quick: 6 representative sets incl. none and all six; thorough: all 64, exhaustive) and every observation must be identical across sets; the debug_diffs set must satisfy the oracles of C01/C03/C04/C13 and agree with the model.",
   note=TB + "debug_asserts_never_fire: the variants of the unordered-array and flat-map models that panic at the debug_assert_ne!(count, 0) and \"Sorting failure\" sites are proved equal to the plain models (diff: all inputs, both map modes; apply: every diff value and base; any hash order); that the real assertion sites are the ones the variants model is pinned by the site list (assertion text included) and observed by running every configuration in a debug build (debug assertions on). Shapes are restricted to containers nanoserde 0.1.37 can encode so that the same workload compiles under every set.",
   technique="Coq proof parametric in all hash iteration orders + Coq proof that the assertion sites are unreachable + pinned cfg(feature) sites + enumeration of feature sets (exhaustive in thorough)",
   design="5/C16"),
 'C17': dict(
   text="PARTIAL. Proved (Coq): the macro's field-type parser (derive/src/parse.rs::next_type transcribed branch by branch on proc-macro token trees) consumes every well-formed type of the grammar of supported field types (paths, nested generics, references with/without lifetimes, tuples incl. unit and 1-tuples, arrays with literal or named length, never, lifetime arguments) EXACTLY, in every legal context, never panics, and yields the tree the templates expect (parse_complete; option_is_recognised); and the macro's type printer (Type::full / Category::path, modelled on the tokens of the printed string) gives back exactly the tokens the user wrote for every such type (print_parse_roundtrip); the whole declaration parser — #[difference(..)] and foreign attributes, visibility, named fields, lifetime / type / const parameters with bounds and defaults, where clauses — maps every well-formed struct declaration of the grammar to exactly the expected structure without panic or leftover (struct_parse_complete), and likewise every enum declaration with unit, tuple-like and struct-like variants, with or without the last comma (enum_parse_complete); the attribute readers of shared.rs do not depend on how items are grouped, comma-terminated or ordered (interpretation_stable, attribute_readings, parsed_field_flags); the helper that decides which lifetimes a field type uses reports exactly the lifetimes written in it (used_lifetimes_exact; this statement produced finding D11), array_lens_exact does the same for const parameters used as array lengths, and param_used_exact characterises when a type parameter counts as used (which is known finding D8, stated exactly). The proof itself produced finding D10 (a reference to a reference is not one type). TESTED, not proved: that rustc accepts the expansion and that the result obeys C01 — generated declarations (struct/field visibility, generic type/lifetime/const parameters with inline bounds, where clauses, defaults, doc comments, foreign attributes, raw-identifier fields, every difference attribute in several spellings incl. trailing commas, expose, enums with unit/tuple/struct variants) are compiled against /repo and each runs a round-trip + frame + diff_ref + self-diff test. Tie of the parser and printer models: /repo's own parser and printer (included by path in a proc-macro; the printed string is lexed again by rustc's lexer) and the extracted models run on the same generated token trees; independently, a supported type must print back as the tokens written. Known-bad constructs are compiled one by one: listed findings print KNOWN-FINDING, anything else is a violation. Also proved: the HEADER part of the code templates of derive/src/difference.rs (model P/ParseHeader.v: used_generics, Generic::ident_only / ident_with_const / full_with_const / has_where_bounds, BOUNDS / REF_BOUNDS / derive lists per feature, every item header of the struct and enum expansions as token lists): every generated impl header declares the declared parameters in order, applies the type to exactly these and repeats every requirement of the declaration in its where clause (struct_impl_headers_good, enum_impl_header_good); the diff enums of a struct declare exactly the parameters whose name an unskipped field type mentions (diff_enum_params_exact, mentioned_params_declared); every use of the diff enums applies them to exactly the parameters they declare (diff_enum_uses_consistent). The generated type definitions (model P/ParseBody.v: variant lists of both diff enums, aliases of recurse fields, panicking combinations): the borrowed enum has the owned one's variants under the same names in the same order (diff_enum_variants_aligned), the names are distinct except exactly in the case of known finding D13 (variant_names_distinct), the payload of a plain field is the type as written (plain_payload). C17 x C01 (declared_type_obeys_C01): the front end assigns every parsed declaration a shape of the universe the derive-level theorems quantify over (G/DeclShape.v::shape_of), and the C01 round-trip theorem holds of whatever shape it gets; the declarations of the derive-level workload are parsed by /repo's parser and by the model and shape_of must return the shape each was generated from. Tie: the proc-macro pd runs /repo's derive_struct_diff_struct / derive_struct_diff_enum on every generated supported declaration under 3 (quick) / 5 (thorough) feature sets and the item headers of the real expansion are compared with the extracted model.",
   note=TB + "Found and repaired D4 (commit b511edd: raw identifiers in composed names), D7 (commit 23b505e: trailing comma in attribute lists) D11 (commit 7d21b8f: a lifetime used as generic argument, Cow<'a, str>, was not counted as used) D14 (commit 74d2d55: missing DeBin bound on the borrowed diff enum under nanoserde for a type parameter in an unordered collection field) D15 (commit bc072df: a generic enum did not compile with serde) D16 (commit 20690bb: an enum ending in a unit variant without trailing comma did not compile) D17 (commit 1e647d5: recurse on a path-qualified Option did not compile) and D18 (commit 41192ca: alias name clash between two exposed structs) D22 (commit 88295e9: its residue - struct A + field bc and struct Ab + field c got the same alias; found while proving alias_names_injective) D23 (commit 639ad13: a field of an associated type T::Item did not compile - the Into impl did not repeat the struct's where-clause items) D24 (commit de59728: an enum variant named Diff or DiffRef made Self::Diff ambiguous) D25 (commit ddc3e84: array lengths / const defaults spelled 4usize, 0x10, 1_0 were dropped or made the derive panic) D26 (commit b7bd8f4: attribute values written as raw string literals). Known findings kept (not small/safe repairs): D5 (all fields skipped / empty struct), D6 (recurse on a field whose type is or mentions a generic parameter / lifetime), D8 (parameter used only behind a reference), D9 (bare reference field), D10 (reference to reference), D12 (collection strategy over a non-'static type parameter or over borrowing elements), D13 (field `f_full` beside an Option recurse field `f`), D19 (a bound of a used parameter mentions a parameter used by skipped fields only), D20 (a field type that mentions Self), D21 (a where-clause item over a compound type that a field type needs is not repeated on the diff enums of a struct). Of the string templates of derive/src/difference.rs the item HEADERS (generics, bounds, where clauses, derive lists) and the generated TYPE DEFINITIONS (variant lists, aliases) are modelled and proved about; the FUNCTION BODIES (match arms of diff / diff_ref / apply_single / Into, setters) are not modelled as text: their behaviour is the subject of the Inst / R models, and that rustc accepts them is exercised by the compile test. What a generic bound or field type may be is limited to the grammar of P/ParseGrammar.v (no `dyn`, `fn`, `impl`, `as`, `?Sized`, higher-ranked bounds).",
   technique="Coq proofs about models of the macro's front end (type parser, type printer, declaration parser, attribute readers) + dump of /repo's own front end vs the extracted models + printer and no-panic oracles + compile-and-run of generated declarations (test) + item headers of the real expansion vs the extracted template model + known-findings list",
   design="5/C17"),
 'C14': dict(
   text="Machine-checked proof (Coq): a byte-level model of BOTH wire formats — nanoserde binary (derive: u16 variant index, fields in order; the hand-written impls of the ordered / unordered-array / flat-map / recursive-map diffs with the u8 discriminants translated from /repo; lenient Option tag) and bincode 1.3 fixint of the serde derives (u32 variant index, strict Option tag) — for the diff entries of EVERY wire shape (every field strategy incl. recurse+Option with its two variants, nested to any depth) and for the values travelling inside entries; theorem wire_owned_roundtrip: decoding what the encoder wrote returns exactly the entry list and the untouched rest of the stream for every valid entry list (by mutual induction over the shape with prefix-law combinators; side conditions on the translated tables — consistent, pairwise distinct, fit in u8 — re-proved by computation), hence the decoded diff has the effect of the in-memory one on any base. Tie in both directions on every run: the Coq model DECODES /repo's bytes of diff and of diff_ref in both formats and must read exactly the in-memory diff; /repo decodes and applies the MODEL's bytes; oracle: the serialized DiffRef decoded as the owned type has the same effect on a and on an equivalent base as the in-memory diff.",
   note=TB + "That a produced diff satisfies the validity hypothesis of the theorem (integers within their slots, entries matching their fields) is checked by execution on every generated case (the model decodes its own encoding of every diff), not proved for all diffs. 'DiffRef bytes = Diff bytes' is compared after decoding (hash iteration order differs between two computations). nanoserde 0.1.37 / serde_derive / bincode 1.3 are modelled, not verified; shapes are restricted to containers nanoserde can encode (no VecDeque / BTreeMap).",
   technique="Coq proof (prefix-law codec combinators, mutual induction over wire shapes) + translator for discriminant tables + two-way byte-level differential execution",
   design="5/C14"),
}
NA_REASON = "check not wired into the manifest yet at this commit (build in progress; see DESIGN.md section 5 for the planned theorem and tie)"

def main():
    checks = []
    for p in ALL:
        if p in CLAIMED:
            c = CLAIMED[p]
            checks.append({
                'property_id': p,
                'quick_cmd': f"./check {p} --tier quick",
                'thorough_cmd': f"./check {p} --tier thorough",
                'evidence_file': f"/verif/evidence/{p}.json",
                'replay_cmd_template': f"./check {p} --replay {{path}}",
                'engine': 'coq-model+correspondence',
                'level_claimed': {'category': 'proof', 'text': c['text'], 'design_ref': c['design']},
                'level_note': c['note'],
                'technique': c['technique'],
            })
    m = {
        'version': 1,
        'setup_cmd': 'bash /verif/tools/setup.sh',
        'hooks': {
            'guard': 'structdiff_verif',
            'enable': 'none needed: the white-box harness clones /repo/src into /verif/.work on every run and appends accessor snippets to the clone; /repo carries no hook code',
            'baseline_off_cmd': 'cd /repo && cargo test --workspace --no-fail-fast --offline',
            'source_commits': [],
            'add_only': True,
        },
        'engines': [
            {'name': 'coq-model+correspondence', 'path': '/verif/coq', 'serves_properties': sorted(CLAIMED),
             'kind_free_text': 'Coq 8.16 development (model + theorems), translator for constants, extracted OCaml model drivers, Rust harness crates for differential execution'},
        ],
        'checks': checks,
        'notes': 'See DESIGN.md. ./check Cxx --tier quick|thorough; known findings in known_findings.json.',
        'not_applicable': [{'property_id': p, 'reason': NA_REASON} for p in ALL if p not in CLAIMED],
    }
    json.dump(m, open(os.path.join(V, 'MANIFEST.json'), 'w'), indent=1)
    print('manifest:', len(checks), 'checks')
main()
