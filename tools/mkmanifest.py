#!/usr/bin/env python3
"""writes /verif/MANIFEST.json from the table below (kept here so the manifest is always regenerated consistently)"""
import json, os
V = '/verif'
ALL = [f"C{i:02d}" for i in range(1, 21)]
TB = ("Trusted: Coq 8.16.1 kernel (+vm_compute for side conditions over translated constants); no axioms (Print Assumptions checked every run); "
      "translator tools/translate.py; extraction with ExtrOcamlBasic only + OCaml driver; the correspondence check (seeded generator, Rust harness built "
      "against /repo's working tree, verbatim comparison). The Rust control flow is hand-modelled, not verified: the theorem is about the Gallina model, "
      "the model is tied to the code by the correspondence check on every run. ")
CLAIMED = {
 'C07': dict(
   text="Machine-checked proof (Coq) that for ALL pairs of lists over any element type with an arbitrary boolean equality (no law assumed) the scripts of both "
        "algorithms, applied with plain-list semantics, never index out of range and yield a list element-wise R-equal to the target, and that the script is "
        "absent iff the lists are element-wise equal (under reflexivity on the target's elements); theorems are parametric in cutoff and edit costs, which the "
        "translator re-reads from /repo on every run and whose side conditions (1 <= cutoff, 1 <= each cost) are re-proved by computation. Tie: the extracted "
        "model and /repo's hirschberg/levenshtein are run on the same seeded inputs and the scripts are compared verbatim; the oracle applies the real diff through "
        "the real rope into Vec/LinkedList/VecDeque.",
   note=TB + "Lists are unbounded nat-indexed lists; usize overflow is not modelled. The rev==true arm of changelist_from_change_table is dead code and not modelled.",
   technique="Coq proof (induction on table/backtrack/fuelled divide-and-conquer) + translator for constants + differential execution of the extracted model",
   design="5/C07"),
}
NA_REASON = "check not wired into the manifest yet at this commit (build in progress; see DESIGN.md section 5 for the planned theorem and tie)"

def main():
    checks = []
    for p in ALL:
        if p in CLAIMED:
            c = CLAIMED[p]
            checks.append({
                'property_id': p,
                'quick_cmd': f"./check {p} --tier quick",
                'thorough_cmd': f"./check {p} --tier thorough",
                'evidence_file': f"/verif/evidence/{p}.json",
                'replay_cmd_template': f"./check {p} --replay {{path}}",
                'engine': 'coq-model+correspondence',
                'level_claimed': {'category': 'proof', 'text': c['text'], 'design_ref': c['design']},
                'level_note': c['note'],
                'technique': c['technique'],
            })
    m = {
        'version': 1,
        'setup_cmd': 'bash /verif/tools/setup.sh',
        'hooks': {
            'guard': 'structdiff_verif',
            'enable': 'none needed: the white-box harness clones /repo/src into /verif/.work on every run and appends accessor snippets to the clone; /repo carries no hook code',
            'baseline_off_cmd': 'cd /repo && cargo test --workspace --no-fail-fast --offline',
            'source_commits': [],
            'add_only': True,
        },
        'engines': [
            {'name': 'coq-model+correspondence', 'path': '/verif/coq', 'serves_properties': sorted(CLAIMED),
             'kind_free_text': 'Coq 8.16 development (model + theorems), translator for constants, extracted OCaml model drivers, Rust harness crates for differential execution'},
        ],
        'checks': checks,
        'notes': 'See DESIGN.md. ./check Cxx --tier quick|thorough; known findings in known_findings.json.',
        'not_applicable': [{'property_id': p, 'reason': NA_REASON} for p in ALL if p not in CLAIMED],
    }
    json.dump(m, open(os.path.join(V, 'MANIFEST.json'), 'w'), indent=1)
    print('manifest:', len(checks), 'checks')
main()
