#!/usr/bin/env python3
"""build every extracted driver and harness crate once (warm caches for the checks)"""
import os, sys
sys.path.insert(0, os.path.dirname(os.path.abspath(__file__)))
from vlib import *
res = Result('setup', 'quick', 0)
import wbsync
wbsync.sync()
for name, Name in [('ordered', 'Ordered'), ('rope', 'Rope'), ('unord', 'Unord'), ('derive', 'Derive'), ('wire', 'Wire'), ('parse', 'Parse')]:
    build_ocaml(res, name, Name)
cargo_build(res, os.path.join(V, 'harness', 'bb'), 'bb')
cargo_build(res, os.path.join(V, 'harness', 'wb'), 'wb')
for b in res.broken:
    print('SETUP-PROBLEM', b)
sys.exit(1 if res.broken else 0)
