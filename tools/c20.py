#!/usr/bin/env python3
import sys, os
sys.path.insert(0, os.path.dirname(os.path.abspath(__file__)))
import unordcheck
RULES = {
 'C11': "seeded pairs of multisets (+ an unrelated base) in the classes of gen_unord.gen_ua (reordered-equal, sub/superset, multiplicities {1,2,3,5,254,255,256,257,600}, replacement shortcut and its edge, empty sides, delta of one around the u8 boundary), given as Vec and LinkedList; the diff (sorted entries with their Single/Few/Many constructor) and the patched collections of /repo and of the extracted model are compared; oracle: patched previous == current as a multiset, diff absent iff equal. non-trivial = distinct cases with a diff",
 'C12': "seeded pairs of maps with unique keys (+ a base) in both equality modes (keys added/removed/retained-equal/retained-changed, shortcut and its edge, empty sides) plus duplicate-key lists for the correspondence only; diff entries and patched maps of /repo and the extracted model compared; oracle: patched previous == current key for key, each key once, diff absent iff equal. non-trivial = distinct cases with a diff",
 'C19': "the array and map cases of C11/C12, the diff of (previous,current) applied to an UNRELATED base by /repo and by the model; oracle: per item base count minus removed (not below zero) plus inserted / exactly the carried collection for a replacement; for maps only keys of the base or the diff; never a panic. non-trivial = distinct cases with a diff",
 'C20': "the array and map cases of C11/C12; oracle on the implementation's own diff: each (item,direction) at most once, exactly the multiplicity delta, nothing for unchanged items, maps: remove-old + insert-new for a changed value and only single entries; a replacement carries exactly the new collection and appears only if current has fewer distinct items/keys. non-trivial = distinct cases with a diff",
}
sys.exit(unordcheck.main('C20', RULES['C20']))
