#!/usr/bin/env python3
import sys, os
sys.path.insert(0, os.path.dirname(os.path.abspath(__file__)))
import derivecheck
RULE = ("the derive-level workload (random type shapes compiled against /repo; see C01): for every pair BOTH real code paths are run -- diff, and diff_ref followed by Into -- and both are "
        "compared entry for entry with the model; oracle: same number of entries, same fields in the same order, and the same result when applied to a and to a base equivalent to a")
sys.exit(derivecheck.main('C05', RULE, ['props/C05.vo']))
