#!/bin/bash
# seeded_regress.sh [id...] (PRIMARY_ONLY=1: only the check of the property the change breaks): apply every stored seeded change (or the ones named) to /repo in turn, run the quick check of the property it
# breaks (plus any listed in meta.json checks_run), undo it, and print one line per change: caught with an input / caught without / MISSED.
cd /verif
ids="$@"; [ -z "$ids" ] && ids=$(ls seeded)
for id in $ids; do
  d=/verif/seeded/$id
  [ -f $d/patch.diff ] || continue
  props=$(python3 -c "import json,os;m=json.load(open('$d/meta.json'));print(m['breaks_property'] if os.environ.get('PRIMARY_ONLY') else ' '.join(dict.fromkeys([m['breaks_property']]+[p for p in m.get('checks_run',[]) if p.startswith('C')])))")
  out=$(bash tools/try_mutant.sh $d/patch.diff $props 2>&1)
  v=$(echo "$out" | grep -c "^VIOLATION")
  vi=$(echo "$out" | grep "^VIOLATION" | grep -vc "no-failing-input-found")
  if echo "$out" | grep -q "patch does not apply"; then echo "$id PATCH-DOES-NOT-APPLY (rebase it on the current /repo HEAD)"; elif [ "$v" = 0 ]; then echo "$id MISSED ($props)"; elif [ "$vi" = 0 ]; then echo "$id caught no-input ($props)"; else echo "$id caught input ($props): $(echo "$out" | grep '^VIOLATION' | grep -v no-failing | sed 's/.*property=\(C[0-9]*\).*/\1/' | tr '\n' ' ')"; fi
done
git -C /repo status --short | head -3
