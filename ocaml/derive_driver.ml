(* driver for the extracted derive-level model: same case file as the generated Rust harness `dg`, canonical output *)
open Derive_model
(*CONV*)
(*CONVZ*)
(* ---- shape text: parsed twice, into the model's `shape` and into a printing shape that also remembers the type of skipped fields ---- *)
type pshape = PS of pf list | PE
and pf = PPlain | PSkip of pshape option | PRec of pshape | POpt of pshape | POrd | PUn | PMap | PRMap of pshape
let parse_shape (t: string) : shape * pshape =
  let pos = ref 0 in
  let peek () = t.[!pos] in
  let adv n = pos := !pos + n in
  let rec sh () : shape * pshape =
    if peek () = 'E' then (adv 1; (SEnum, PE))
    else begin
      adv 2; (* S( *)
      let rec fields () =
        let (f, p) = fd () in
        if peek () = ',' then (adv 1; let (fs, ps) = fields () in (FCons (f, fs), p :: ps)) else (adv 1; (FCons (f, FNil), [p])) in
      let (fs, ps) = fields () in (SStruct fs, PS ps)
    end
  and fd () : fstrat * pf =
    match peek () with
    | 'P' -> adv 2; (FPlain, PPlain)
    | 'K' -> let k = t.[!pos + 1] in adv 2; if k = '1' then (let (_, p) = sh () in (FSkip, PSkip (Some p))) else (FSkip, PSkip None)
    | 'R' -> adv 1; let (s, p) = sh () in (FRecurse s, PRec p)
    | 'Q' -> adv 1; let (s, p) = sh () in (FRecurseOpt s, POpt p)
    | 'L' -> adv 2; (FOrdered, POrd)
    | 'U' -> adv 2; (FUnordArr, PUn)
    | 'M' -> adv 2; (FMapFlat, PMap)
    | 'N' -> let ko = t.[!pos + 1] = '1' in adv 3; let (s, p) = sh () in (FMapRec (ko, s), PRMap p)
    | _ -> failwith "shape" in
  sh ()
(* ---- wire shape (C14): the same text, keeping the plain kinds and the types of skipped fields ---- *)
let parse_wshape (t: string) : wshape =
  let pos = ref 0 in
  let peek () = t.[!pos] in
  let adv n = pos := !pos + n in
  let rec sh () : wshape =
    if peek () = 'E' then (adv 1; WEnum)
    else begin
      adv 2;
      let rec fields () = let f = fd () in if peek () = ',' then (adv 1; WCons (f, fields ())) else (adv 1; WCons (f, WNil)) in
      WStruct (fields ())
    end
  and fd () : wf =
    match peek () with
    | 'P' -> let k = t.[!pos + 1] in adv 2; WPlain (match k with 'i' -> PInt | 'o' -> POptInt | _ -> PEn)
    | 'K' -> let k = t.[!pos + 1] in adv 2; (match k with '0' -> WSkipInt | '1' -> WSkipStruct (sh ()) | '2' -> WSkipSeq | _ -> WSkipOptInt)
    | 'R' -> adv 1; WRec (sh ())
    | 'Q' -> adv 1; WRecOpt (sh ())
    | 'L' -> adv 2; WOrd
    | 'U' -> adv 2; WUn
    | 'M' -> adv 2; WMap
    | 'N' -> let ko = t.[!pos + 1] = '1' in adv 3; WRMap (ko, sh ())
    | _ -> failwith "wshape" in
  sh ()
let rec n_of_int n = if n = 0 then N0 else Npos (pos_of_int n)
let int_of_n = function N0 -> 0 | Npos p -> int_of_pos p
let hex bs = String.concat "" (List.map (fun b -> Printf.sprintf "%02x" (int_of_n b)) bs)
let unhex s = if s = "-" then [] else List.init (String.length s / 2) (fun i -> n_of_int (int_of_string ("0x" ^ String.sub s (2 * i) 2)))
let wshapes : (string, wshape) Hashtbl.t = Hashtbl.create 64

(* ---- values ---- *)
let rec parse_val (toks: string array) (i: int ref) : value =
  let t = toks.(!i) in incr i;
  match t with
  | "n" -> VNone
  | "s" -> VSome (parse_val toks i)
  | "[" -> let l = ref [] in while toks.(!i) <> "]" do l := z_of_int (int_of_string toks.(!i)) :: !l; incr i done; incr i; VSeq (List.rev !l)
  | "{" -> let l = ref [] in
      while toks.(!i) <> "}" do
        (match String.split_on_char ':' toks.(!i) with [a; b] -> l := (z_of_int (int_of_string a), z_of_int (int_of_string b)) :: !l | _ -> failwith "pair");
        incr i done; incr i; VFMap (List.rev !l)
  | "<" -> let l = ref [] in
      while toks.(!i) <> ">" do let k = z_of_int (int_of_string toks.(!i)) in incr i; let v = parse_val toks i in l := (k, v) :: !l done; incr i; VRMap (List.rev !l)
  | "(" -> let l = ref [] in while toks.(!i) <> ")" do l := parse_val toks i :: !l done; incr i; VStruct (List.rev !l)
  | n -> VAtom (z_of_int (int_of_string n))

let zi z = string_of_int (int_of_z z)
let rec show_val (s: pshape) (v: value) : string =
  match s, v with
  | PS fs, VStruct vs -> "(" ^ String.concat "" (List.map2 (fun f x -> " " ^ show_field f x) fs vs) ^ " )"
  | _, _ -> show_plain v
and show_plain v = match v with
  | VAtom z -> zi z | VNone -> "n" | VSome x -> "s " ^ show_plain x
  | VSeq l -> "[" ^ String.concat "" (List.map (fun z -> " " ^ zi z) l) ^ " ]"
  | VFMap m -> "{" ^ String.concat "" (List.map (fun (a, b) -> " " ^ zi a ^ ":" ^ zi b) m) ^ " }"
  | _ -> "?"
and show_field (f: pf) (v: value) : string =
  match f, v with
  | PUn, VSeq l -> "[" ^ String.concat "" (List.map (fun n -> " " ^ string_of_int n) (List.sort compare (List.map int_of_z l))) ^ " ]"
  | PRec s, _ | PSkip (Some s), _ -> show_val s v
  | POpt s, VSome x -> "s " ^ show_val s x
  | PRMap s, VRMap m -> "<" ^ String.concat "" (List.map (fun (k, x) -> " " ^ zi k ^ " " ^ show_val s x) (List.sort (fun (a, _) (b, _) -> compare (int_of_z a) (int_of_z b)) m)) ^ " >"
  | PMap, VFMap m -> "{" ^ String.concat "" (List.map (fun (a, b) -> " " ^ string_of_int a ^ ":" ^ string_of_int b) (List.sort compare (List.map (fun (a, b) -> (int_of_z a, int_of_z b)) m))) ^ " }"
  | _, _ -> show_plain v

(* ---- entries ---- *)
let join = String.concat
let show_script cs = join ";" (List.map (function
  | CReplace (v, i) -> Printf.sprintf "R(%d,%d)" (int_of_z v) (int_of_nat i)
  | CInsert (v, i) -> Printf.sprintf "I(%d,%d)" (int_of_z v) (int_of_nat i)
  | CDelete (i, None) -> Printf.sprintf "D(%d,-)" (int_of_nat i)
  | CDelete (i, Some j) -> Printf.sprintf "D(%d,%d)" (int_of_nat i) (int_of_nat j)
  | CSwap (a, b) -> Printf.sprintf "S(%d,%d)" (int_of_nat a) (int_of_nat b)) cs)
let show_ua = function
  | Replace xs -> "Replace[" ^ join "," (List.map string_of_int (List.sort compare (List.map int_of_z xs))) ^ "]"
  | Modify cs -> "Modify[" ^ join "," (List.sort compare (List.map (function
      | InsertMany (k, c) -> Printf.sprintf "+M(%d,%d)" (int_of_z k) (int_of_nat c) | RemoveMany (k, c) -> Printf.sprintf "-M(%d,%d)" (int_of_z k) (int_of_nat c)
      | InsertFew (k, c) -> Printf.sprintf "+F(%d,%d)" (int_of_z k) (int_of_nat c) | RemoveFew (k, c) -> Printf.sprintf "-F(%d,%d)" (int_of_z k) (int_of_nat c)
      | InsertSingle k -> Printf.sprintf "+S(%d)" (int_of_z k) | RemoveSingle k -> Printf.sprintf "-S(%d)" (int_of_z k)) cs)) ^ "]"
let show_mf = function
  | Replace0 xs -> "Replace[" ^ join "," (List.map (fun (a, b) -> Printf.sprintf "%d:%d" a b) (List.sort compare (List.map (fun (a, b) -> (int_of_z a, int_of_z b)) xs))) ^ "]"
  | Modify0 cs -> "Modify[" ^ join "," (List.sort compare (List.map (function
      | InsertMany0 (k, v, c) -> Printf.sprintf "+M(%d:%d,%d)" (int_of_z k) (int_of_z v) (int_of_nat c) | RemoveMany0 (k, c) -> Printf.sprintf "-M(%d,%d)" (int_of_z k) (int_of_nat c)
      | InsertSingle0 (k, v) -> Printf.sprintf "+S(%d:%d)" (int_of_z k) (int_of_z v) | RemoveSingle0 k -> Printf.sprintf "-S(%d)" (int_of_z k)) cs)) ^ "]"
let nth_field fs i = List.nth fs (int_of_nat i)
let sub_shape = function PRec s | POpt s | PRMap s -> s | _ -> PE
let rec show_entries (s: pshape) (es: _ list) : string = "[" ^ join " " (List.map (show_entry s) es) ^ "]"
and show_entry (s: pshape) e : string =
  match s with
  | PE -> (match e with EEnumReplace v -> "E=" ^ show_plain v | _ -> "?enum")
  | PS fs ->
    (match e with
     | EPlain (i, v) -> Printf.sprintf "P%d=%s" (int_of_nat i) (show_plain v)
     | ERec (i, d) -> Printf.sprintf "R%d%s" (int_of_nat i) (show_entries (sub_shape (nth_field fs i)) d)
     | ERecOpt (i, None) -> Printf.sprintf "Q%dN" (int_of_nat i)
     | ERecOpt (i, Some d) -> Printf.sprintf "Q%dS%s" (int_of_nat i) (show_entries (sub_shape (nth_field fs i)) d)
     | ERecOptFull (i, v) -> Printf.sprintf "F%d=%s" (int_of_nat i) (show_val (sub_shape (nth_field fs i)) v)
     | EOrdered (i, d) -> Printf.sprintf "L%d{%s}" (int_of_nat i) (show_script d)
     | EUnordArr (i, d) -> Printf.sprintf "U%d{%s}" (int_of_nat i) (show_ua d)
     | EMapFlat (i, d) -> Printf.sprintf "M%d{%s}" (int_of_nat i) (show_mf d)
     | EMapRec (i, d) ->
       let sub = sub_shape (nth_field fs i) in
       (match d with
        | MRReplace l -> Printf.sprintf "N%d{Replace< %s >}" (int_of_nat i)
            (join " " (List.map (fun (k, v) -> string_of_int k ^ " " ^ v) (List.sort compare (List.map (fun (k, v) -> (int_of_z k, show_val sub v)) l))))
        | MRModify cs -> Printf.sprintf "N%d{Modify( %s )}" (int_of_nat i)
            (join " " (List.map (fun (_, _, t) -> t) (List.sort compare (List.map (function
               | MRInsert (k, v) -> (int_of_z k, 1, Printf.sprintf "+%d=%s" (int_of_z k) (show_val sub v))
               | MRRemove k -> (int_of_z k, 0, Printf.sprintf "-%d" (int_of_z k))
               | MRChange (k, dd) -> (int_of_z k, 2, Printf.sprintf "~%d%s" (int_of_z k) (show_entries sub dd))) cs)))))
     | EEnumReplace _ -> "?struct")

let shapes : (string, bool * shape * pshape) Hashtbl.t = Hashtbl.create 64
let expect toks i s = if toks.(!i) <> s then failwith ("expected " ^ s) else incr i
let () =
  iter_lines Sys.argv.(1) (fun line ->
    let toks = Array.of_list (split_ws line) in
    match toks.(0) with
    | "SHAPE" -> let (m, p) = parse_shape toks.(3) in Hashtbl.replace shapes toks.(1) (toks.(2) = "1", m, p); Hashtbl.replace wshapes toks.(1) (parse_wshape toks.(3))
    | "WENC" ->      (* WENC id sid A <a> B <b>: the model's diff of (a, b) encoded in both formats *)
      let id = toks.(1) in let (ko, s, _) = Hashtbl.find shapes toks.(2) in let ws = Hashtbl.find wshapes toks.(2) in
      let i = ref 3 in
      expect toks i "A"; let a = parse_val toks i in
      expect toks i "B"; let b = parse_val toks i in
      let d = x_diff ko s a b in
      Printf.printf "%s NSM %s\n%s BCM %s\n" id (hex (w_ser_es NS ws d)) id (hex (w_ser_es BC ws d));
      (* the produced diff lies in the domain of the round-trip theorem: the model decodes its own bytes to the same diff *)
      List.iter (fun f -> match w_de_es f ws (w_ser_es f ws d) with Some (d', []) when d' = d -> () | _ -> Printf.printf "MODEL-SELF-FAIL %s decode(encode(diff)) <> diff\n" id) [NS; BC]
    | "WDEC" ->      (* WDEC id sid tag fmt hex: decode bytes produced by the implementation *)
      let id = toks.(1) in let (_, _, ps) = Hashtbl.find shapes toks.(2) in let ws = Hashtbl.find wshapes toks.(2) in
      let f = if toks.(4) = "ns" then NS else BC in
      (match w_de_es f ws (unhex toks.(5)) with
       | Some (es, []) -> Printf.printf "%s %s %s\n" id toks.(3) (show_entries ps es)
       | Some (es, _) -> Printf.printf "%s %s TRAILING %s\n" id toks.(3) (show_entries ps es)
       | None -> Printf.printf "%s %s UNDECODABLE\n" id toks.(3))
    | "PAIR" ->
      let id = toks.(1) in let (ko, s, ps) = Hashtbl.find shapes toks.(2) in
      let i = ref 3 in
      expect toks i "A"; let a = parse_val toks i in
      expect toks i "B"; let b = parse_val toks i in
      expect toks i "X"; let x = parse_val toks i in
      expect toks i "C"; let c = parse_val toks i in
      expect toks i "SUB";
      let sub = Array.to_list (Array.map int_of_string (Array.sub toks !i (Array.length toks - !i))) in
      let d = x_diff ko s a b in
      let ds = show_entries ps d in
      let av = show_val ps (x_apply s a d) in
      Printf.printf "%s D %s\n%s DR %s\n" id ds id ds;
      List.iter (fun tag -> Printf.printf "%s %s %s\n" id tag av) ["A"; "AR"; "AM"];
      Printf.printf "%s AS %s\n" id (show_val ps (List.fold_left (fun acc e -> x_apply_single s acc e) a d));
      let xv = show_val ps (x_apply s x d) in
      Printf.printf "%s X %s\n" id xv;
      let both = d @ x_diff ko s b c in
      let v2 = show_val ps (x_apply s a both) in
      List.iter (fun tag -> Printf.printf "%s %s %s\n" id tag v2) ["A2"; "AR2"; "AM2"];
      Printf.printf "%s AS2 %s\n" id (show_val ps (List.fold_left (fun acc e -> x_apply_single s acc e) a both));
      let n = List.length d in
      let pick = if n = 0 then [] else begin
        let seen = Array.make n false in
        List.rev (List.fold_left (fun acc k -> let k = k mod n in if seen.(k) then acc else (seen.(k) <- true; List.nth d k :: acc)) [] sub) end in
      Printf.printf "%s S %s\n" id (show_val ps (x_apply s a pick));
      Printf.printf "%s XR %s\n%s ARR %s\n" id xv id av
    | "HIST" ->
      let id = toks.(1) in let (ko, s, ps) = Hashtbl.find shapes toks.(2) in
      let i = ref 3 in
      expect toks i "F"; let f = ref (parse_val toks i) in
      let states = ref [] in
      while !i < Array.length toks do expect toks i "ST"; states := parse_val toks i :: !states done;
      let states = Array.of_list (List.rev !states) in
      for k = 1 to Array.length states - 1 do
        f := x_apply s !f (x_diff ko s states.(k - 1) states.(k));
        Printf.printf "%s H%d %s\n" id k (show_val ps !f)
      done;
      if Array.length states > 0 then begin
        let all = ref [] in
        for k = 1 to Array.length states - 1 do all := !all @ x_diff ko s states.(k - 1) states.(k) done;
        let v = show_val ps (x_apply s states.(0) !all) in
        List.iter (fun tag -> Printf.printf "%s %s %s\n" id tag v) ["HA"; "HAR"; "HAM"];
        Printf.printf "%s HAS %s\n" id (show_val ps (List.fold_left (fun acc e -> x_apply_single s acc e) states.(0) !all));
        Printf.printf "%s HN %d\n" id (List.length !all)
      end
    | "SET" ->
      let id = toks.(1) in let (ko, s, ps) = Hashtbl.find shapes toks.(2) in
      let i = ref 3 in
      expect toks i "X"; let x0 = parse_val toks i in
      expect toks i "OPS";
      (match s, x0 with
       | SStruct fs, VStruct xs0 ->
         let xs = ref xs0 and es = ref [] and k = ref 0 in
         while !i < Array.length toks do
           let fi = int_of_string toks.(!i) in incr i;
           let v = parse_val toks i in
           let (xs', e) = x_setter ko fs !xs (nat_of_int fi) v in
           xs := xs'; es := !es @ e;
           Printf.printf "%s E%d %s\n" id !k (match e with [] -> "-" | e1 :: _ -> show_entry ps e1);
           Printf.printf "%s V%d %s\n" id !k (show_val ps (VStruct !xs));
           incr k
         done;
         Printf.printf "%s REPLAY %s\n" id (show_val ps (x_apply s x0 !es))
       | _ -> ())
    | _ -> ())
