(* driver for the extracted wire model (ordered script codecs) and script execution *)
open Wire_model
(*CONV*)
(*CONVZ*)
let rec n_of_int n = if n = 0 then N0 else Npos (pos_of_int n)
let int_of_n = function N0 -> 0 | Npos p -> int_of_pos p
(* arbitrary-precision decimal rendering (corrupted streams decode to values beyond OCaml's 63-bit ints) *)
let dec_double_add (ds: int list) (bit: int) : int list =   (* ds: little-endian decimal digits *)
  let rec go ds carry = match ds with
    | [] -> if carry = 0 then [] else [carry]
    | d :: r -> let v = 2 * d + carry in (v mod 10) :: go r (v / 10) in
  go ds bit
let rec pos_bits_msb p acc = match p with XH -> 1 :: acc | XO q -> pos_bits_msb q (0 :: acc) | XI q -> pos_bits_msb q (1 :: acc)
let string_of_pos p =
  let ds = List.fold_left dec_double_add [] (pos_bits_msb p []) in
  String.concat "" (List.rev_map string_of_int ds)
let string_of_n = function N0 -> "0" | Npos p -> string_of_pos p
let string_of_z = function Z0 -> "0" | Zpos p -> string_of_pos p | Zneg p -> "-" ^ string_of_pos p
let hex bs = String.concat "" (List.map (fun b -> Printf.sprintf "%02x" (int_of_n b)) bs)
let unhex s = List.init (String.length s / 2) (fun i -> n_of_int (int_of_string ("0x" ^ String.sub s (2 * i) 2)))
let show_w = function
  | CReplace (v, i) -> Printf.sprintf "R(%s,%s)" (string_of_z v) (string_of_n i)
  | CInsert (v, i) -> Printf.sprintf "I(%s,%s)" (string_of_z v) (string_of_n i)
  | CDelete (i, None) -> Printf.sprintf "D(%s,-)" (string_of_n i)
  | CDelete (i, Some j) -> Printf.sprintf "D(%s,%s)" (string_of_n i) (string_of_n j)
  | CSwap (a, b) -> Printf.sprintf "S(%s,%s)" (string_of_n a) (string_of_n b)
let show_script s = String.concat ";" (List.map show_w s)
let rec parse_script = function
  | [] -> []
  | "R" :: v :: i :: r -> CReplace (z_of_int (int_of_string v), n_of_int (int_of_string i)) :: parse_script r
  | "I" :: v :: i :: r -> CInsert (z_of_int (int_of_string v), n_of_int (int_of_string i)) :: parse_script r
  | "D" :: i :: "-" :: r -> CDelete (n_of_int (int_of_string i), None) :: parse_script r
  | "D" :: i :: j :: r -> CDelete (n_of_int (int_of_string i), Some (n_of_int (int_of_string j))) :: parse_script r
  | "S" :: a :: b :: r -> CSwap (n_of_int (int_of_string a), n_of_int (int_of_string b)) :: parse_script r
  | _ -> failwith "script"
let showl l = String.concat "," (List.map (fun z -> string_of_int (int_of_z z)) l)
let () =
  iter_lines Sys.argv.(1) (fun line ->
    match split_ws line with
    | id :: "L" :: n :: rest ->
      let n = int_of_string n in
      let l = List.map (fun x -> z_of_int (int_of_string x)) (take n rest) in
      (match drop n rest with
       | "SC" :: sc ->
         let s = parse_script sc in
         Printf.printf "%s NS %s\n%s NSR %s\n%s BC %s\n" id (hex (ns_ser_owned s)) id (hex (ns_ser_ref s)) id (hex (bc_ser s));
         let ex = List.map to_exec s in
         (match apply_script_z l ex with
          | Some r -> Printf.printf "%s RES %s\n" id (showl r);
                      (match x_exec_z l ex with Some r2 when r2 = r -> () | _ -> Printf.printf "MODEL-SELF-FAIL %s rope execution differs from list semantics\n" id)
          | None -> Printf.printf "%s RES ERR\n" id)
       | _ -> failwith "case")
    | [id; "BYTES"; codec; h] ->
      let b = if h = "-" then [] else unhex h in
      (match (if codec = "ns" then ns_de b else bc_de b) with
       | Some (s, _) -> Printf.printf "%s DEC %s\n" id (show_script s)
       | None -> Printf.printf "%s DEC ERR\n" id)
    | _ -> failwith "case")
