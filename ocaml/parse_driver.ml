(* driver for the extracted model of derive/src/parse.rs::next_type: reads the dump written by the `pd` proc-macro
   (FIELD <name> TOKENS <token tree>) and prints FIELD <name> TYPE <parse result> in the same format *)
open Parse_model
(*CONV*)
(* ExtrOcamlBasic leaves Coq's string/ascii as inductives: String(Ascii(b0..b7), rest) *)
let ascii_of_char c = let n = Char.code c in Ascii (n land 1 <> 0, n land 2 <> 0, n land 4 <> 0, n land 8 <> 0, n land 16 <> 0, n land 32 <> 0, n land 64 <> 0, n land 128 <> 0)
let rec cstr_of (s: Stdlib.String.t) (i: int) = if i >= String.length s then EmptyString else String (ascii_of_char s.[i], cstr_of s (i + 1))
let cstr s = cstr_of s 0
let char_of_ascii (Ascii (a, b, c, d, e, f, g, h)) = let v x k = if x then k else 0 in Char.chr (v a 1 + v b 2 + v c 4 + v d 8 + v e 16 + v f 32 + v g 64 + v h 128)
let rec ostr = function EmptyString -> "" | String (a, r) -> String.make 1 (char_of_ascii a) ^ ostr r
let punct_of = function "," -> PComma | "!" -> PBang | "'" -> PQuote | "&" -> PAmp | ":" -> PColon | "<" -> PLt | ">" -> PGt | ";" -> PSemi | "=" -> PEq | "+" -> PPlus | "-" -> PMinus | _ -> POther
let rec parse_tt (toks: Stdlib.String.t list) : tt list * Stdlib.String.t list =
  match toks with
  | [] -> ([], [])
  | ")" :: rest -> ([], rest)
  | "I" :: s :: rest -> let (l, r) = parse_tt rest in (TId (cstr s) :: l, r)
  | "P" :: c :: rest -> let (l, r) = parse_tt rest in (TP (punct_of c) :: l, r)
  | "L" :: n :: rest -> let (l, r) = parse_tt rest in
      let v = try int_of_string n with _ -> (try Scanf.sscanf n "%d" (fun x -> x) with _ -> 0) in (TLit (nat_of_int v) :: l, r)
  | g :: rest when String.length g = 2 && g.[0] = 'G' ->
      let (inner, rest1) = parse_tt rest in
      let (l, r) = parse_tt rest1 in
      let d = match g.[1] with '(' -> Paren | '[' -> Bracket | _ -> Brace in
      (TG (d, inner) :: l, r)
  | t :: _ -> failwith ("token " ^ t)
let rec show_ty (Ty (cat, wraps, rt, ao)) : Stdlib.String.t =
  let c = match cat with
    | CNever -> "Never" | CUnNamed -> "Unnamed"
    | CNamed path -> "Named:" ^ String.concat "::" (List.map ostr path)
    | CLifetime a -> "Lifetime:" ^ ostr a
    | CTuple l -> "Tuple[ " ^ String.concat "" (List.map (fun t -> show_ty t ^ " ") l) ^ "]"
    | CArray (t, len) -> "Array[ " ^ show_ty t ^ " " ^ (match len with None -> "-" | Some (CValue n) -> "V" ^ string_of_int (int_of_nat n) | Some (CNamedC t2) -> "N " ^ show_ty t2) ^ " ]" in
  let w = match wraps with None -> "-" | Some l -> "{ " ^ String.concat "" (List.map (fun t -> show_ty t ^ " ") l) ^ "}" in
  let r = match rt with None -> "-" | Some None -> "&" | Some (Some a) -> "&" ^ ostr a in
  Printf.sprintf "(%s %s %s %s)" c w r (match ao with None -> "-" | Some _ -> "as")
let char_of_punct = function PComma -> "," | PBang -> "!" | PQuote -> "'" | PAmp -> "&" | PColon -> ":" | PLt -> "<" | PGt -> ">" | PSemi -> ";" | PEq -> "=" | PPlus -> "+" | PMinus -> "-" | POther -> "?"
let rec show_tts (l: tt list) : Stdlib.String.t =
  String.concat "" (List.map (function
    | TId s -> "I " ^ ostr s ^ " " | TP c -> "P " ^ char_of_punct c ^ " " | TLit n -> "L " ^ string_of_int (int_of_nat n) ^ " "
    | TG (d, inner) -> (match d with Paren -> "G( " | Bracket -> "G[ " | Brace -> "G{ ") ^ show_tts inner ^ ") ") l)
let rec depth_tt l = List.fold_left (fun acc t -> acc + (match t with TG (_, inner) -> 1 + depth_tt inner | _ -> 1)) 0 l
let () =
  iter_lines Sys.argv.(1) (fun line ->
    match split_ws line with
    | "FIELD" :: name :: "TOKENS" :: toks ->
      let (tts, _) = parse_tt toks in
      let fuel = nat_of_int (depth_tt tts + 8) in
      let r = match next_type fuel tts with
        | Ok (Some t, []) -> show_ty t
        | Ok (Some t, _) -> "LEFTOVER " ^ show_ty t
        | Ok (None, _) -> "NONE" | Panic -> "PANIC" | Unsup -> "UNSUP" | Fuel -> "FUEL" in
      Printf.printf "FIELD %s TYPE %s\n" name r;
      (match next_type fuel tts with
       | Ok (Some t, []) -> Printf.printf "FIELD %s PRINT %s\n" name (show_tts (pr t))
       | _ -> Printf.printf "FIELD %s PRINT -\n" name)
    | _ -> ())
