(* driver for the extracted model of derive/src/parse.rs::next_type: reads the dump written by the `pd` proc-macro
   (FIELD <name> TOKENS <token tree>) and prints FIELD <name> TYPE <parse result> in the same format *)
open Parse_model
(*CONV*)
(* ExtrOcamlBasic leaves Coq's string/ascii as inductives: String(Ascii(b0..b7), rest) *)
let ascii_of_char c = let n = Char.code c in Ascii (n land 1 <> 0, n land 2 <> 0, n land 4 <> 0, n land 8 <> 0, n land 16 <> 0, n land 32 <> 0, n land 64 <> 0, n land 128 <> 0)
let rec cstr_of (s: Stdlib.String.t) (i: int) = if i >= String.length s then EmptyString else String (ascii_of_char s.[i], cstr_of s (i + 1))
let cstr s = cstr_of s 0
let char_of_ascii (Ascii (a, b, c, d, e, f, g, h)) = let v x k = if x then k else 0 in Char.chr (v a 1 + v b 2 + v c 4 + v d 8 + v e 16 + v f 32 + v g 64 + v h 128)
let rec ostr = function EmptyString -> "" | String (a, r) -> String.make 1 (char_of_ascii a) ^ ostr r
let esc (s: Stdlib.String.t) : Stdlib.String.t =
  if s = "" then "%00" else
  let b = Buffer.create 16 in
  String.iter (fun c -> match c with ' ' -> Buffer.add_string b "%20" | '%' -> Buffer.add_string b "%25" | '\n' -> Buffer.add_string b "%0A" | '\t' -> Buffer.add_string b "%09" | '\r' -> Buffer.add_string b "%0D" | c -> Buffer.add_char b c) s;
  Buffer.contents b
let unesc (s: Stdlib.String.t) : Stdlib.String.t =
  let b = Buffer.create 16 in
  let n = String.length s in
  let i = ref 0 in
  while !i < n do
    if s.[!i] = '%' && !i + 2 <= n - 1 then begin
      (match String.sub s (!i + 1) 2 with "20" -> Buffer.add_char b ' ' | "25" -> Buffer.add_char b '%' | "0A" -> Buffer.add_char b '\n' | "09" -> Buffer.add_char b '\t' | "0D" -> Buffer.add_char b '\r' | "00" -> () | x -> Buffer.add_string b ("%" ^ x));
      i := !i + 3 end
    else begin Buffer.add_char b s.[!i]; incr i end
  done;
  Buffer.contents b
let punct_of = function "#" -> PHash | "," -> PComma | "!" -> PBang | "'" -> PQuote | "&" -> PAmp | ":" -> PColon | "<" -> PLt | ">" -> PGt | ";" -> PSemi | "=" -> PEq | "+" -> PPlus | "-" -> PMinus | _ -> POther
let rec parse_tt (toks: Stdlib.String.t list) : tt list * Stdlib.String.t list =
  match toks with
  | [] -> ([], [])
  | ")" :: rest -> ([], rest)
  | "I" :: s :: rest -> let (l, r) = parse_tt rest in (TId (cstr s) :: l, r)
  | "P" :: c :: rest -> let (l, r) = parse_tt rest in (TP (punct_of c) :: l, r)
  | "L" :: n :: rest -> let (l, r) = parse_tt rest in
      let n = unesc n in
      (* an integer literal stands for its value, however it is spelled: `_` separators, radix prefix, type suffix (as rustc reads it) *)
      let int_value (t: Stdlib.String.t) : int option =
        if t = "" || t.[0] < '0' || t.[0] > '9' then None else
        let d = String.concat "" (String.split_on_char '_' t) in
        let strip d = List.fold_left (fun acc suf -> match acc with Some _ -> acc | None ->
            let ls = String.length suf and ld = String.length d in
            if ld >= ls && String.sub d (ld - ls) ls = suf then Some (String.sub d 0 (ld - ls)) else None) None
            ["usize"; "u128"; "u64"; "u32"; "u16"; "u8"; "isize"; "i128"; "i64"; "i32"; "i16"; "i8"] in
        let d = match strip d with Some x -> x | None -> d in
        (try Some (int_of_string d) with _ -> None) in          (* OCaml reads 0x / 0o / 0b itself *)
      let digits = match int_value n with Some v -> v >= 0 && v <= 999999 | None -> false in
      let lit = if digits then LNat (nat_of_int (match int_value n with Some v -> v | None -> 0))
                else if String.length n >= 2 && n.[0] = '"' then LStr (cstr (String.sub n 1 (String.length n - 2)))    (* next_literal strips the quotes *)
                else if String.length n >= 3 && n.[0] = 'r' && (n.[1] = '"' || n.[1] = '#') then begin                 (* ... of a raw string too: r"..", r#".."# *)
                  let h = ref 0 in while n.[1 + !h] = '#' do incr h done;
                  LStr (cstr (String.sub n (!h + 2) (String.length n - 2 * !h - 3))) end
                else LStr (cstr n) in
      (TLit lit :: l, r)
  | g :: rest when String.length g = 2 && g.[0] = 'G' ->
      let (inner, rest1) = parse_tt rest in
      let (l, r) = parse_tt rest1 in
      let d = match g.[1] with '(' -> Paren | '[' -> Bracket | _ -> Brace in
      (TG (d, inner) :: l, r)
  | t :: _ -> failwith ("token " ^ t)
let show_atok = function AId x -> esc (ostr x) | ALit (LStr x) -> esc (ostr x) | ALit (LNat n) -> string_of_int (int_of_nat n)
let show_attrs (l: atok list list) : Stdlib.String.t = String.concat "" (List.map (fun a -> "( " ^ String.concat "" (List.map (fun t -> show_atok t ^ " ") a) ^ ") ") l)
let rec show_ty (Ty (cat, wraps, rt, ao)) : Stdlib.String.t =
  let c = match cat with
    | CNever -> "Never" | CUnNamed -> "Unnamed"
    | CNamed path -> "Named:" ^ String.concat "::" (List.map ostr path)
    | CLifetime a -> "Lifetime:" ^ ostr a
    | CTuple l -> "Tuple[ " ^ String.concat "" (List.map (fun t -> show_ty t ^ " ") l) ^ "]"
    | CNone -> "NoneCat"
    | CAnon fs -> "Anon[ " ^ String.concat "" (List.map (fun ((a, n), t) -> Printf.sprintf "{ [ %s] %s %s } " (show_attrs a) (match n with None -> "-" | Some x -> esc (ostr x)) (show_ty t)) fs) ^ "]"
    | CArray (t, len) -> "Array[ " ^ show_ty t ^ " " ^ (match len with None -> "-" | Some (CValue n) -> "V" ^ string_of_int (int_of_nat n) | Some (CNamedC t2) -> "N " ^ show_ty t2) ^ " ]" in
  let w = match wraps with None -> "-" | Some l -> "{ " ^ String.concat "" (List.map (fun t -> show_ty t ^ " ") l) ^ "}" in
  let r = match rt with None -> "-" | Some None -> "&" | Some (Some a) -> "&" ^ ostr a in
  Printf.sprintf "(%s %s %s %s)" c w r (match ao with None -> "-" | Some _ -> "as")
let char_of_punct = function PComma -> "," | PBang -> "!" | PQuote -> "'" | PAmp -> "&" | PColon -> ":" | PLt -> "<" | PGt -> ">" | PSemi -> ";" | PEq -> "=" | PPlus -> "+" | PMinus -> "-" | PHash -> "#" | POther -> "?"
let rec show_tts (l: tt list) : Stdlib.String.t =
  String.concat "" (List.map (function
    | TId s -> "I " ^ ostr s ^ " " | TP c -> "P " ^ char_of_punct c ^ " " | TLit (LNat n) -> "L " ^ string_of_int (int_of_nat n) ^ " " | TLit (LStr x) -> "L " ^ esc ("\"" ^ ostr x ^ "\"") ^ " "
    | TG (d, inner) -> (match d with Paren -> "G( " | Bracket -> "G[ " | Brace -> "G{ ") ^ show_tts inner ^ ") ") l)
let sorted (l: Stdlib.String.t list) : Stdlib.String.t = String.concat "" (List.map (fun x -> x ^ " ") (List.sort compare l))
let show_generic = function
  | GnConst (n, t, d) -> Printf.sprintf "C( %s %s %s )" (esc (ostr n)) (show_ty t) (match d with None -> "-" | Some (CValue v) -> "V" ^ string_of_int (int_of_nat v) | Some (CNamedC t2) -> "N " ^ show_ty t2)
  | GnType (n, d, b) -> Printf.sprintf "T( [ %s] %s [ %s] )" (show_tts n) (match d with None -> "-" | Some t -> show_ty t) (sorted (List.map show_ty b))
  | GnLife (n, b) -> Printf.sprintf "L( %s [ %s] )" (esc (ostr n)) (sorted (List.map (fun x -> esc (ostr x)) b))
  | GnWhere (n, b) -> Printf.sprintf "W( [ %s] [ %s] )" (show_tts n) (sorted (List.map show_ty b))
let show_opt_name = function None -> "-" | Some n -> esc (ostr n)
let show_struct (st: strukt) : Stdlib.String.t =
  Printf.sprintf "name=%s named=%d attrs=[ %s] generics=[ %s] fields=[ %s]" (show_opt_name st.s_name) (if st.s_named then 1 else 0) (show_attrs st.s_attrs)
    (String.concat "" (List.map (fun g -> show_generic g ^ " ") st.s_generics))
    (String.concat "" (List.map (fun f -> Printf.sprintf "{ [ %s] %s %s } " (show_attrs f.f_attrs) (show_opt_name f.f_name) (show_ty f.f_ty)) st.s_fields))
let show_interp (a: atok list list) : Stdlib.String.t =
  let b x = if x then 1 else 0 in
  let ms = function KeyOnly -> "key_only" | KeyAndValue -> "key_and_value" in
  let coll = match attrs_collection_type a with None -> "-" | Some OrderedArrayLike -> "ordered" | Some UnorderedArrayLikeHash -> "unordered" | Some (UnorderedMapLikeHash m) -> "map:" ^ ms m in
  let map = match attrs_map_strategy a with None -> "-" | Some m -> ms m in
  let ((local, skip_s), name) = attrs_setter a in
  let expose = match attrs_expose a with None -> "-" | Some None -> "yes" | Some (Some t) -> "as:" ^ show_atok t in
  Printf.sprintf "skip=%d recurse=%d all_setters=%d coll=%s map=%s setter=%d skip_setter=%d setter_name=%s expose=%s" (b (attrs_skip a)) (b (attrs_recurse a)) (b (attrs_all_setters a))
    coll map (b local) (b skip_s) (match name with None -> "-" | Some t -> show_atok t) expose
(* the HashSet pass over bounds: duplicates removed (order is normalised by sorting on both sides) *)
let rec nodup = function [] -> [] | x :: r -> x :: nodup (List.filter (fun y -> y <> x) r)
let rec depth_tt l = List.fold_left (fun acc t -> acc + (match t with TG (_, inner) -> 1 + depth_tt inner | _ -> 1)) 0 l
let parsed_items : (Stdlib.String.t, data) Hashtbl.t = Hashtbl.create 64
let () =
  iter_lines Sys.argv.(1) (fun line ->
    match split_ws line with
    | "FIELD" :: name :: "TOKENS" :: toks ->
      let (tts, _) = parse_tt toks in
      let fuel = nat_of_int (depth_tt tts + 8) in
      let r = match next_type fuel tts with
        | Ok (Some t, []) -> show_ty t
        | Ok (Some t, _) -> "LEFTOVER " ^ show_ty t
        | Ok (None, _) -> "NONE" | Panic -> "PANIC" | Unsup -> "UNSUP" | Fuel -> "FUEL" in
      Printf.printf "FIELD %s TYPE %s\n" name r;
      (match next_type fuel tts with
       | Ok (Some t, []) -> Printf.printf "FIELD %s PRINT %s\n" name (show_tts (pr t))
       | _ -> Printf.printf "FIELD %s PRINT -\n" name)
    | "ITEM" :: name :: "TOKENS" :: toks ->
      let (tts, _) = parse_tt toks in
      let fuel = nat_of_int (depth_tt tts + 8) in
      let pd = parse_data nodup nodup fuel tts in
      let show_enum (e: enumt) = Printf.sprintf "ENUM name=%s attrs=[ %s] generics=[ %s] variants=[ %s]" (esc (ostr e.e_name)) (show_attrs e.e_attrs)
          (String.concat "" (List.map (fun g -> show_generic g ^ " ") e.e_generics))
          (String.concat "" (List.map (fun f -> Printf.sprintf "{ [ %s] %s %s } " (show_attrs f.f_attrs) (show_opt_name f.f_name) (show_ty f.f_ty)) e.e_variants)) in
      let r = match pd with
        | Ok (DStruct st, _) -> show_struct st | Ok (DEnum e, _) -> show_enum e | Panic -> "PANIC" | Unsup -> "UNSUP" | Fuel -> "FUEL" in
      Printf.printf "ITEM %s PARSED %s\n" name r;
      (match pd with Ok (d, _) -> Hashtbl.replace parsed_items name d | _ -> ());
      (match pd with
       | Ok (DStruct st, _) ->
           Printf.printf "ITEM %s INTERP %s\n" name (show_interp st.s_attrs);
           List.iteri (fun k f -> Printf.printf "ITEM %s FINTERP%d %s\n" name k (show_interp f.f_attrs)) st.s_fields
           ; List.iteri (fun k f -> Printf.printf "ITEM %s FUSED%d lifetimes=[ %s] array_lens=[ %s] wraps=[ %s] own=[ %s]\n" name k
                          (String.concat "" (List.map (fun x -> esc (ostr x) ^ " ") (used_lifetimes f.f_ty)))
                          (String.concat "" (List.map (fun x -> "[ " ^ show_tts x ^ "] ") (array_lens f.f_ty)))
                          (String.concat "" (List.map (fun x -> "[ " ^ show_tts x ^ "] ") (wraps_list f.f_ty)))
                          (show_tts (match f.f_ty with Ty (c, _, _, _) -> pr_cat c))) st.s_fields
       | _ -> ())
    | "ITEM" :: name :: "HCFG" :: flags ->
      (* the item headers of the expansion (coq/parse/ParseHeader.v) under the feature set the implementation was built with *)
      let on k = List.mem (k ^ "=1") flags in
      (match Hashtbl.find_opt parsed_items name with
       | None -> ()
       | Some d ->
           (match type_defs d with
            | None -> Printf.printf "ITEM %s HDRPANIC -\n" name                    (* the templates panic on this combination *)
            | Some td ->
                let hs = headers { h_dbg = on "dbg"; h_ns = on "ns"; h_sd = on "sd" } (on "gs") d in
                List.iteri (fun k h -> Printf.printf "ITEM %s HDR%d %s\n" name k (show_tts h)) hs;
                Printf.printf "ITEM %s HDRN %d\n" name (List.length hs);
                (* the generated type definitions (coq/parse/ParseBody.v) *)
                Printf.printf "ITEM %s HDRBODY0 %s\n" name (show_tts td.td_owned_body);
                Printf.printf "ITEM %s HDRBODY1 %s\n" name (show_tts td.td_ref_body);
                List.iteri (fun k a -> Printf.printf "ITEM %s HDRALIAS%d %s\n" name k (show_tts a)) td.td_aliases;
                Printf.printf "ITEM %s HDRDEFS %d\n" name (2 + List.length td.td_aliases)))
    | "SHAPEOF" :: name :: _ ->
      (* the shape the front end assigns to a declaration (coq/glue/DeclShape.v); nested types are looked up among all items parsed so far *)
      let e = Hashtbl.fold (fun k d acc -> (cstr k, d) :: acc) parsed_items [] in
      let rec show_shape = function SEnum -> "E" | SStruct fs -> "S(" ^ String.concat "," (show_fields fs) ^ ")"
      and show_fields = function FNil -> [] | FCons (f, r) -> show_strat f :: show_fields r
      and show_strat = function
        | FPlain -> "P" | FSkip -> "K" | FRecurse s -> "R" ^ show_shape s | FRecurseOpt s -> "Q" ^ show_shape s
        | FOrdered -> "L" | FUnordArr -> "U" | FMapFlat -> "M" | FMapRec (ko, s) -> "N" ^ (if ko then "1" else "0") ^ show_shape s in
      (match Hashtbl.find_opt parsed_items name with
       | None -> Printf.printf "SHAPEOF %s MISSING\n" name
       | Some d -> Printf.printf "SHAPEOF %s %s\n" name (match shape_of (nat_of_int 40) e d with Some sh -> show_shape sh | None -> "NONE"))
    | _ -> ())
