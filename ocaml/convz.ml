(* positive / Z conversions, for models extracted at Z *)
let rec pos_of_int n = if n <= 1 then XH else if n land 1 = 0 then XO (pos_of_int (n lsr 1)) else XI (pos_of_int (n lsr 1))
let rec int_of_pos = function XH -> 1 | XO p -> 2 * int_of_pos p | XI p -> 2 * int_of_pos p + 1
let z_of_int n = if n = 0 then Z0 else if n > 0 then Zpos (pos_of_int n) else Zneg (pos_of_int (-n))
let int_of_z = function Z0 -> 0 | Zpos p -> int_of_pos p | Zneg p -> - (int_of_pos p)
