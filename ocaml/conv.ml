(* conversions between OCaml ints and the extracted Peano nat / binary positive / Z; shared by all drivers.
   Each extracted module declares its own copies of nat/positive/z, so the drivers instantiate these
   helpers by textual inclusion (cat conv.ml >> driver) after `open`ing the model module. *)
let rec nat_of_int n = if n <= 0 then O else S (nat_of_int (n - 1))
let int_of_nat n = let rec go acc = function O -> acc | S m -> go (acc + 1) m in go 0 n
let split_ws s = List.filter (fun x -> x <> "") (String.split_on_char ' ' (String.trim s))
let rec take n l = if n = 0 then [] else match l with [] -> failwith "take" | x :: r -> x :: take (n - 1) r
let rec drop n l = if n = 0 then l else match l with [] -> failwith "drop" | _ :: r -> drop (n - 1) r
let iter_lines file f =
  let ic = open_in file in
  (try while true do
      let l = String.trim (input_line ic) in
      if l <> "" && l.[0] <> '#' then f l
    done with End_of_file -> ());
  close_in ic
