(* driver for the extracted ordered-diff model; same case file and output lines as `bb ord` *)
open Ordered_model
(*CONV*)
(*CONVZ*)
let show_change = function
  | CReplace (v, i) -> Printf.sprintf "R(%d,%d)" (int_of_z v) (int_of_nat i)
  | CInsert (v, i) -> Printf.sprintf "I(%d,%d)" (int_of_z v) (int_of_nat i)
  | CDelete (i, None) -> Printf.sprintf "D(%d,-)" (int_of_nat i)
  | CDelete (i, Some j) -> Printf.sprintf "D(%d,%d)" (int_of_nat i) (int_of_nat j)
  | CSwap (a, b) -> Printf.sprintf "S(%d,%d)" (int_of_nat a) (int_of_nat b)
let show = function None -> "-" | Some cs -> String.concat ";" (List.map show_change cs)
let () =
  iter_lines Sys.argv.(1) (fun line ->
    match split_ws line with
    | id :: "MEM" :: "T" :: n :: rest ->
      let n = int_of_string n in
      let t = List.map (fun x -> z_of_int (int_of_string x)) (take n rest) in
      (match drop n rest with
       | "S" :: m :: rest2 ->
         let s = List.map (fun x -> z_of_int (int_of_string x)) (take (int_of_string m) rest2) in
         let (p, r) = hir_mem_z t s in
         let sc = match hirschberg_z t s with None -> 0 | Some cs -> List.length cs in
         Printf.printf "%s MEM peak_cells=%d retained_cells=%d script=%d\n" id (int_of_nat p) (int_of_nat r) sc
       | _ -> failwith "bad case")
    | id :: "T" :: n :: rest ->
      let n = int_of_string n in
      let t = List.map (fun x -> z_of_int (int_of_string x)) (take n rest) in
      (match drop n rest with
       | "S" :: m :: rest2 ->
         let s = List.map (fun x -> z_of_int (int_of_string x)) (take (int_of_string m) rest2) in
         let h = hirschberg_z t s and l = levenshtein_z t s in
         Printf.printf "%s H %s\n%s L %s\n" id (show h) id (show l);
         (* model self-check: the model's own script applied by the model's list semantics *)
         List.iter (fun (tag, d) -> match apply_opt_z s d with
           | Some r when r = t -> ()
           | _ -> Printf.printf "MODEL-SELF-FAIL %s %s\n" id tag) ["H", h; "L", l]
       | _ -> failwith "bad case")
    | _ -> failwith "bad case")
