(* driver for the extracted rope / slot-array model; same case file and output lines as the `wb` harness *)
open Rope_model
(*CONV*)
(* elements are OCaml ints: the extracted model is polymorphic in the element type *)
let z_of_int (n: int) = n
let int_of_z (n: int) = n
let dump_chunk c =
  Printf.sprintf "%d|%s" (int_of_nat (cnt c))
    (String.concat " " (List.map (function Some (i, v) -> Printf.sprintf "%d:%d" (int_of_nat i) (int_of_z v) | None -> "_") (slots c)))
let layout r = String.concat " / " (List.map dump_chunk r)
let joinz l = String.concat "," (List.map (fun v -> string_of_int (int_of_z v)) l)
let ops_of s = List.filter (fun o -> o <> []) (List.map split_ws (String.split_on_char ';' s))
let zs l = List.map (fun x -> z_of_int (int_of_string x)) l
let nat s = nat_of_int (int_of_string s)
exception Stop
let rope_case id ops =
  let r = ref x_new in
  (try List.iteri (fun k op ->
    let name = List.hd op in
    let pr s = Printf.printf "%s.%d %s %s\n" id k name s in
    let step o = match x_step !r o with Some r' -> r := r'; pr (layout r') | None -> pr "PANIC"; raise Stop in
    match op with
    | ["new"] -> r := x_new; pr (layout !r)
    | "from" :: vs -> (match x_from (zs vs) with Some x -> r := x; pr (layout x) | None -> pr "PANIC"; raise Stop)
    | ["ins"; i; v] -> step (OInsert (nat i, z_of_int (int_of_string v)))
    | ["rem"; i] -> step (ORemove (nat i))
    | ["drain"; a; b] -> step (ODrain (nat a, nat b))
    | ["swap"; a; b] -> step (OSwap (nat a, nat b))
    | ["set"; i; v] -> step (OSet (nat i, z_of_int (int_of_string v)))
    | ["get"; i] -> (match x_index !r (nat i) with Some v -> pr (string_of_int (int_of_z v)) | None -> pr "PANIC")
    | ["len"] -> pr (string_of_int (int_of_nat (x_len !r)))
    | ["iter"] -> (match x_iter !r with Some l -> pr (joinz l) | None -> pr "PANIC")
    | ["into"] -> pr (joinz (x_to_list !r))
    | _ -> failwith "bad rope op") ops
  with Stop -> ())
let slots_case id cap ops =
  let n = nat_of_int cap in
  let m = ref (s_new n) in
  List.iteri (fun k op ->
    let name = List.hd op in
    let pr s = Printf.printf "%s.%d %s %s\n" id k name s in
    match op with
    | ["new"] -> m := s_new n; pr (dump_chunk !m)
    | "from" :: vs -> (match s_from n (zs vs) with Some x -> m := x; pr (dump_chunk x) | None -> pr "PANIC")
    | ["ins"; p; v] -> (match s_insert n !m (nat p) (z_of_int (int_of_string v)) with Some x -> m := x; pr (dump_chunk x) | None -> pr "PANIC")
    | ["rem"; p] -> (match s_remove !m (nat p) with Some (x, v) -> m := x; pr (Printf.sprintf "%s -> %d" (dump_chunk x) (int_of_z v)) | None -> pr "PANIC")
    | ["swap"; a; b] -> (match s_swap !m (nat a) (nat b) with Some x -> m := x; pr (dump_chunk x) | None -> pr "PANIC")
    | ["drain"; lo; hi] ->
        let (x, vals) = s_drain !m (nat lo) (if hi = "-" then None else Some (nat hi)) in
        m := x; pr (Printf.sprintf "%s -> %s" (dump_chunk x) (joinz vals))
    | "ext" :: vs -> m := s_extend !m (zs vs); pr (dump_chunk !m)
    | ["get"; i] -> (match s_index !m (nat i) with Some v -> pr (string_of_int (int_of_z v)) | None -> pr "PANIC")
    | ["set"; i; v] -> (match s_set !m (nat i) (z_of_int (int_of_string v)) with Some x -> m := x; pr (dump_chunk x) | None -> pr "PANIC")
    | ["len"] -> let c = int_of_nat (cnt !m) in pr (Printf.sprintf "%d %b" c (c = 0))
    | ["fwd"] -> pr (joinz (s_to_list !m))
    | "it" :: calls -> pr (String.concat "," (List.map (function Some v -> string_of_int (int_of_z v) | None -> "-") (s_it_run n !m (List.map (fun c -> c = "f") calls))))
    | _ -> failwith "bad slot op") ops
let () =
  iter_lines Sys.argv.(1) (fun line ->
    match String.index_opt line ' ' with
    | None -> ()
    | Some i ->
      let id = String.sub line 0 i in
      let rest = String.sub line (i + 1) (String.length line - i - 1) in
      if String.length rest > 5 && String.sub rest 0 5 = "ROPE " then rope_case id (ops_of (String.sub rest 5 (String.length rest - 5)))
      else if String.length rest > 6 && String.sub rest 0 6 = "SLOTS " then begin
        let rest = String.sub rest 6 (String.length rest - 6) in
        let j = String.index rest ' ' in
        slots_case id (int_of_string (String.sub rest 0 j)) (ops_of (String.sub rest (j + 1) (String.length rest - j - 1)))
      end else failwith "bad case")
