(* driver for the extracted unordered array / flat map models; canonical (sorted) output *)
open Unord_model
(*CONV*)
let ints l = List.map int_of_string l
let section toks tag = match toks with
  | t :: n :: rest when t = tag -> let n = int_of_string n in (ints (take n rest), drop n rest)
  | _ -> failwith ("expected " ^ tag)
let join l = String.concat "," l
let sorted_ints l = join (List.map string_of_int (List.sort compare l))
let rec pairs = function a :: b :: r -> (a, b) :: pairs r | _ -> []
let sorted_pairs l = join (List.map (fun (a, b) -> Printf.sprintf "%d:%d" a b) (List.sort compare l))
let eqb (a: int) (b: int) = a = b
let ua_change = function
  | InsertMany (k, c) -> Printf.sprintf "+M(%d,%d)" k (int_of_nat c) | RemoveMany (k, c) -> Printf.sprintf "-M(%d,%d)" k (int_of_nat c)
  | InsertFew (k, c) -> Printf.sprintf "+F(%d,%d)" k (int_of_nat c) | RemoveFew (k, c) -> Printf.sprintf "-F(%d,%d)" k (int_of_nat c)
  | InsertSingle k -> Printf.sprintf "+S(%d)" k | RemoveSingle k -> Printf.sprintf "-S(%d)" k
let mf_change = function
  | InsertMany0 (k, v, c) -> Printf.sprintf "+M(%d:%d,%d)" k v (int_of_nat c) | RemoveMany0 (k, c) -> Printf.sprintf "-M(%d,%d)" k (int_of_nat c)
  | InsertSingle0 (k, v) -> Printf.sprintf "+S(%d:%d)" k v | RemoveSingle0 k -> Printf.sprintf "-S(%d)" k
let () =
  iter_lines Sys.argv.(2) (fun line ->
    let toks = split_ws line in
    let id = List.hd toks in
    if Sys.argv.(1) = "ua" then begin
      let (p, r) = section (List.tl toks) "P" in let (c, r) = section r "C" in let (b, _) = section r "B" in
      match ua_hashcmp eqb p c with
      | None -> Printf.printf "%s D PANIC\n" id
      | Some None -> Printf.printf "%s D -\n%s A -\n%s B -\n" id id id
      | Some (Some d) ->
        (match d with
         | Replace xs -> Printf.printf "%s D Replace[%s]\n" id (sorted_ints xs)
         | Modify cs -> Printf.printf "%s D Modify[%s]\n" id (join (List.sort compare (List.map ua_change cs))));
        Printf.printf "%s A %s\n%s B %s\n" id (sorted_ints (ua_apply eqb p d)) id (sorted_ints (ua_apply eqb b d))
    end else begin
      match List.tl toks with
      | "K" :: ko :: rest ->
        let (p, r) = section rest "P" in let (c, r) = section r "C" in let (b, _) = section r "B" in
        let (p, c, b) = (pairs p, pairs c, pairs b) in
        (match mf_hashcmp eqb eqb (ko = "1") p c with
         | None -> Printf.printf "%s D PANIC\n" id
         | Some None -> Printf.printf "%s D -\n%s A -\n%s B -\n" id id id
         | Some (Some d) ->
           (match d with
            | Replace0 xs -> Printf.printf "%s D Replace[%s]\n" id (sorted_pairs xs)
            | Modify0 cs -> Printf.printf "%s D Modify[%s]\n" id (join (List.sort compare (List.map mf_change cs))));
           Printf.printf "%s A %s\n%s B %s\n" id (sorted_pairs (mf_apply eqb p d)) id (sorted_pairs (mf_apply eqb b d)))
      | _ -> failwith "bad mf case"
    end)
