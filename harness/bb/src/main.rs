//! Black-box harness: public API of /repo only. One sub-command per model group; reads a
//! line-oriented case file, prints one canonical line per observation (compared verbatim with the
//! extracted Coq model) and `ORACLE-FAIL` lines where the property itself, evaluated on the real
//! code, does not hold.
use std::collections::{LinkedList, VecDeque};
use std::io::{BufRead, BufReader, Write};
use std::panic::{catch_unwind, AssertUnwindSafe};

mod ord;
mod ua;
mod mf;
mod wire;
mod mem;

pub fn parse_ints(toks: &[&str]) -> Vec<i64> {
    toks.iter().map(|t| t.parse::<i64>().expect("int")).collect()
}

/// canonical form of the `Debug` rendering of an ordered diff:
/// `R(v,i);I(v,i);D(i,-);D(a,b);S(a,b)`
pub fn canon_script(dbg: &str) -> String {
    let inner = match (dbg.find('['), dbg.rfind(']')) {
        (Some(a), Some(b)) if a < b => &dbg[a + 1..b],
        _ => return format!("?{}", dbg),
    };
    let mut out: Vec<String> = Vec::new();
    let mut rest = inner.trim();
    while !rest.is_empty() {
        let open = match rest.find('(') { Some(o) => o, None => return format!("?{}", dbg) };
        let name = rest[..open].trim().trim_start_matches(',').trim();
        // find matching close paren
        let bytes = rest.as_bytes();
        let (mut depth, mut j) = (0i32, open);
        loop {
            if j >= bytes.len() { return format!("?{}", dbg); }
            if bytes[j] == b'(' { depth += 1 } else if bytes[j] == b')' { depth -= 1; if depth == 0 { break } }
            j += 1;
        }
        let args = &rest[open + 1..j];
        let tag = match name { "Replace" => "R", "Insert" => "I", "Delete" => "D", "Swap" => "S", _ => return format!("?{}", dbg) };
        let (a, b) = match args.find(", ") { Some(k) => (&args[..k], &args[k + 2..]), None => return format!("?{}", dbg) };
        let b = if b == "None" { "-".to_string() } else if b.starts_with("Some(") { b[5..b.len() - 1].to_string() } else { b.to_string() };
        out.push(format!("{}({},{})", tag, a, b));
        rest = rest[j + 1..].trim().trim_start_matches(',').trim();
    }
    out.join(";")
}

#[global_allocator]
static GLOBAL: mem::Counting = mem::Counting;

fn main() {
    let args: Vec<String> = std::env::args().collect();
    if args.len() < 3 { eprintln!("usage: bb <group> <casefile>"); std::process::exit(2) }
    std::panic::set_hook(Box::new(|_| {}));
    let f = BufReader::new(std::fs::File::open(&args[2]).expect("case file"));
    let stdout = std::io::stdout();
    let mut out = std::io::BufWriter::new(stdout.lock());
    for line in f.lines() {
        let line = line.unwrap();
        let line = line.trim();
        if line.is_empty() || line.starts_with('#') { continue }
        let toks: Vec<&str> = line.split_whitespace().collect();
        let r = catch_unwind(AssertUnwindSafe(|| match args[1].as_str() {
            "ord" => ord::run(&toks),
            "ua" => ua::run(&toks),
            "mf" => mf::run(&toks),
            "wire" => wire::run(&toks),
            "mem" => mem::run(&toks),
            g => panic!("unknown group {}", g),
        }));
        match r {
            Ok(s) => out.write_all(s.as_bytes()).unwrap(),
            Err(_) => writeln!(out, "{} PANIC-IN-HARNESS", toks[0]).unwrap(),
        }
    }
}

pub fn collect3(it: impl Fn() -> Box<dyn Iterator<Item = i64>>) -> (Vec<i64>, LinkedList<i64>, VecDeque<i64>) {
    (it().collect(), it().collect(), it().collect())
}
