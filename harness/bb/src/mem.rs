//! C18: working memory of the divide-and-conquer list diff, measured with a counting global allocator.
//! case line:  <id> MEM T <n> t.. S <m> s..    prints  `<id> MEM peak_bytes=.. script=.. largest_alloc=..`
use crate::parse_ints;
use std::alloc::{GlobalAlloc, Layout, System};
use std::sync::atomic::{AtomicUsize, Ordering::SeqCst};
use structdiff::collections::ordered_array_like::{hirschberg, levenshtein};

pub struct Counting;
static LIVE: AtomicUsize = AtomicUsize::new(0);
static PEAK: AtomicUsize = AtomicUsize::new(0);
static LARGEST: AtomicUsize = AtomicUsize::new(0);
unsafe impl GlobalAlloc for Counting {
    unsafe fn alloc(&self, l: Layout) -> *mut u8 {
        let p = System.alloc(l);
        if !p.is_null() {
            let live = LIVE.fetch_add(l.size(), SeqCst) + l.size();
            PEAK.fetch_max(live, SeqCst);
            LARGEST.fetch_max(l.size(), SeqCst);
        }
        p
    }
    unsafe fn dealloc(&self, p: *mut u8, l: Layout) { LIVE.fetch_sub(l.size(), SeqCst); System.dealloc(p, l) }
    unsafe fn realloc(&self, p: *mut u8, l: Layout, new: usize) -> *mut u8 {
        let q = System.realloc(p, l, new);
        if !q.is_null() {
            if new >= l.size() { let live = LIVE.fetch_add(new - l.size(), SeqCst) + (new - l.size()); PEAK.fetch_max(live, SeqCst); LARGEST.fetch_max(new, SeqCst); }
            else { LIVE.fetch_sub(l.size() - new, SeqCst); }
        }
        q
    }
}

pub fn run(toks: &[&str]) -> String {
    let id = toks[0];
    assert_eq!(toks[2], "T");
    let n: usize = toks[3].parse().unwrap();
    let t = parse_ints(&toks[4..4 + n]);
    let m: usize = toks[5 + n].parse().unwrap();
    let s = parse_ints(&toks[6 + n..6 + n + m]);
    let full = toks.last() == Some(&"FULLTABLE");     // calibration only: the full-table algorithm for comparison
    let base = LIVE.load(SeqCst);
    PEAK.store(base, SeqCst);
    LARGEST.store(0, SeqCst);
    let d = if full { levenshtein(&t, &s) } else { hirschberg(&t, &s) };
    let peak = PEAK.load(SeqCst) - base;
    let largest = LARGEST.load(SeqCst);
    let script = d.map(|d| format!("{:?}", d).matches("(").count().saturating_sub(1)).unwrap_or(0);
    format!("{} MEM peak_bytes={} largest_alloc={} script_entries~{}\n", id, peak, largest, script)
}
