//! C11 / C19 / C20 (array half): `unordered_hashcmp`, `apply_unordered_hashdiffs` of unordered_array_like.
//! case line:  <id> P <n> p.. C <m> c.. B <k> b..      (previous, current, an unrelated base)
//! prints  `<id> D <Debug of the diff or ->`, `<id> A <sorted apply(previous, diff)>`, `<id> B <sorted apply(base, diff)>`
use crate::parse_ints;
use std::collections::LinkedList;
use std::fmt::Write;
use std::panic::{catch_unwind, AssertUnwindSafe};
use structdiff::collections::unordered_array_like::{apply_unordered_hashdiffs, unordered_hashcmp, UnorderedArrayLikeDiff};

fn sorted(mut v: Vec<i64>) -> String {
    v.sort();
    v.iter().map(|x| x.to_string()).collect::<Vec<_>>().join(",")
}

pub fn section<'a>(toks: &'a [&'a str], at: usize, tag: &str) -> (Vec<i64>, usize) {
    assert_eq!(toks[at], tag);
    let n: usize = toks[at + 1].parse().unwrap();
    (parse_ints(&toks[at + 2..at + 2 + n]), at + 2 + n)
}

pub fn run(toks: &[&str]) -> String {
    let id = toks[0];
    let (p, at) = section(toks, 1, "P");
    let (c, at) = section(toks, at, "C");
    let (b, _) = section(toks, at, "B");
    let mut out = String::new();
    let r = catch_unwind(AssertUnwindSafe(|| {
        let d = unordered_hashcmp(p.iter(), c.iter());
        let shown = match &d { None => "-".to_string(), Some(d) => format!("{:?}", d) };
        let owned: Option<UnorderedArrayLikeDiff<i64>> = d.map(Into::into);
        // the same inputs held in another container must give an equivalent diff (compared after canonicalisation)
        let pl: LinkedList<i64> = p.iter().cloned().collect();
        let cl: LinkedList<i64> = c.iter().cloned().collect();
        let d2 = unordered_hashcmp(pl.iter(), cl.iter());
        let shown2 = match &d2 { None => "-".to_string(), Some(d) => format!("{:?}", d) };
        (shown, shown2, owned)
    }));
    match r {
        Err(_) => { writeln!(out, "{} D PANIC", id).unwrap(); }
        Ok((shown, shown2, owned)) => {
            writeln!(out, "{} D {}", id, shown).unwrap();
            writeln!(out, "{} D2 {}", id, shown2).unwrap();
            match owned {
                None => { writeln!(out, "{} A -", id).unwrap(); writeln!(out, "{} B -", id).unwrap(); }
                Some(d) => {
                    for (tag, base) in [("A", &p), ("B", &b)] {
                        match catch_unwind(AssertUnwindSafe(|| apply_unordered_hashdiffs(base.clone(), d.clone()).collect::<Vec<i64>>())) {
                            Ok(v) => writeln!(out, "{} {} {}", id, tag, sorted(v)).unwrap(),
                            Err(_) => writeln!(out, "{} {} PANIC", id, tag).unwrap(),
                        }
                    }
                }
            }
        }
    }
    out
}
