//! C07 (and the derive's use of it): `hirschberg`, `levenshtein`, `apply`.
//! case line:  <id> T <n> t.. S <m> s..
use crate::{canon_script, parse_ints};
use std::collections::{LinkedList, VecDeque};
use std::fmt::Write;
use std::panic::{catch_unwind, AssertUnwindSafe};
use structdiff::collections::ordered_array_like::{apply, hirschberg, levenshtein, OrderedArrayLikeDiffOwned};

pub fn run(toks: &[&str]) -> String {
    let id = toks[0];
    assert_eq!(toks[1], "T");
    let n: usize = toks[2].parse().unwrap();
    let t = parse_ints(&toks[3..3 + n]);
    assert_eq!(toks[3 + n], "S");
    let m: usize = toks[4 + n].parse().unwrap();
    let s = parse_ints(&toks[5 + n..5 + n + m]);
    let mut out = String::new();
    for (tag, which) in [("H", 0), ("L", 1)] {
        let r = catch_unwind(AssertUnwindSafe(|| {
            let d = if which == 0 { hirschberg(&t, &s) } else { levenshtein(&t, &s) };
            let shown = match &d { None => "-".to_string(), Some(d) => canon_script(&format!("{:?}", d)) };
            let owned: Option<OrderedArrayLikeDiffOwned<i64>> = d.map(Into::into);
            (shown, owned)
        }));
        match r {
            Err(_) => { writeln!(out, "{} {} PANIC", id, tag).unwrap(); writeln!(out, "ORACLE-FAIL {} {} diff panicked", id, tag).unwrap(); }
            Ok((shown, owned)) => {
                writeln!(out, "{} {} {}", id, tag, shown).unwrap();
                // oracle: the property as stated, on the real code
                let equal = t == s;
                if owned.is_none() != equal {
                    writeln!(out, "ORACLE-FAIL {} {} diff absent={} but element-wise equal={}", id, tag, owned.is_none(), equal).unwrap();
                }
                if let Some(d) = owned {
                    let r = catch_unwind(AssertUnwindSafe(|| {
                        let v: Vec<i64> = apply(d.clone(), s.clone()).collect();
                        let l: LinkedList<i64> = apply(d.clone(), s.iter().cloned().collect::<LinkedList<_>>()).collect();
                        let q: VecDeque<i64> = apply(d.clone(), s.iter().cloned().collect::<VecDeque<_>>()).collect();
                        (v, l, q)
                    }));
                    match r {
                        Err(_) => writeln!(out, "ORACLE-FAIL {} {} apply panicked", id, tag).unwrap(),
                        Ok((v, l, q)) => {
                            if v != t { writeln!(out, "ORACLE-FAIL {} {} apply->Vec gives {:?}", id, tag, v).unwrap(); }
                            if !l.iter().eq(t.iter()) { writeln!(out, "ORACLE-FAIL {} {} apply->LinkedList gives {:?}", id, tag, l).unwrap(); }
                            if !q.iter().eq(t.iter()) { writeln!(out, "ORACLE-FAIL {} {} apply->VecDeque gives {:?}", id, tag, q).unwrap(); }
                        }
                    }
                }
            }
        }
    }
    out
}
