//! C08: ordered scripts received over either wire format.
//! case lines:  <id> L <n> l.. NS <hex> BC <hex>      decode both, print the decoded script, apply to the list, re-encode
//!              <id> BYTES <ns|bc> <hex>              decode arbitrary bytes
use crate::{canon_script, parse_ints};
use nanoserde::{DeBin, SerBin};
use std::fmt::Write;
use std::panic::{catch_unwind, AssertUnwindSafe};
use structdiff::collections::ordered_array_like::{apply, OrderedArrayLikeDiffOwned};

fn unhex(s: &str) -> Vec<u8> { if s == "-" { return vec![]; } (0..s.len() / 2).map(|i| u8::from_str_radix(&s[2 * i..2 * i + 2], 16).unwrap()).collect() }
fn hex(b: &[u8]) -> String { b.iter().map(|x| format!("{:02x}", x)).collect() }
type D = OrderedArrayLikeDiffOwned<i64>;
fn dec(codec: &str, bytes: &[u8]) -> Option<D> {
    catch_unwind(AssertUnwindSafe(|| -> Option<D> {
        if codec == "ns" { DeBin::deserialize_bin(bytes).ok() } else { bincode::deserialize(bytes).ok() }
    })).unwrap_or(None)
}
fn show(d: &D) -> String { canon_script(&format!("{:?}", d)) }

pub fn run(toks: &[&str]) -> String {
    let id = toks[0];
    let mut out = String::new();
    if toks[1] == "BYTES" {
        match dec(toks[2], &unhex(toks[3])) { Some(d) => writeln!(out, "{} DEC {}", id, show(&d)).unwrap(), None => writeln!(out, "{} DEC ERR", id).unwrap() }
        return out;
    }
    if toks[1] == "RT" {
        // implementation-only oracle: a real diff (borrowed and owned form) through both codecs and back
        use structdiff::collections::ordered_array_like::hirschberg;
        let n: usize = toks[3].parse().unwrap();
        let t = parse_ints(&toks[4..4 + n]);
        let m: usize = toks[5 + n].parse().unwrap();
        let s = parse_ints(&toks[6 + n..6 + n + m]);
        let r = catch_unwind(AssertUnwindSafe(|| -> Vec<String> {
            let mut f = vec![];
            if let Some(dref) = hirschberg(&t, &s) {
                let owned: D = dref.clone().into();
                let (nr, no) = (SerBin::serialize_bin(&dref), SerBin::serialize_bin(&owned));
                let (br, bo) = (bincode::serialize(&dref).unwrap(), bincode::serialize(&owned).unwrap());
                if nr != no { f.push("nanoserde bytes of the borrowed diff differ from the owned diff".to_string()); }
                if br != bo { f.push("bincode bytes of the borrowed diff differ from the owned diff".to_string()); }
                for (codec, bytes) in [("ns", &nr), ("bc", &br)] {
                    match dec(codec, bytes) {
                        None => f.push(format!("{}: own encoding is not decodable", codec)),
                        Some(d) => {
                            if show(&d) != show(&owned) { f.push(format!("{}: decoded script {} differs from the sent script {}", codec, show(&d), show(&owned))); }
                            let v: Vec<i64> = apply(d.clone(), s.clone()).collect();
                            if v != t { f.push(format!("{}: decoded script applied to the source gives {:?}", codec, v)); }
                            let re = if codec == "ns" { SerBin::serialize_bin(&d) } else { bincode::serialize(&d).unwrap() };
                            if &re != bytes { f.push(format!("{}: re-encoding the decoded script does not reproduce the bytes", codec)); }
                        }
                    }
                }
            }
            f
        }));
        match r {
            Ok(f) => { writeln!(out, "{} RT {}", id, if f.is_empty() { "ok" } else { "bad" }).unwrap(); for m in f { writeln!(out, "ORACLE-FAIL {} {}", id, m).unwrap(); } }
            Err(_) => writeln!(out, "ORACLE-FAIL {} panic during encode/decode/apply of a real diff", id).unwrap(),
        }
        return out;
    }
    let n: usize = toks[2].parse().unwrap();
    let l = parse_ints(&toks[3..3 + n]);
    assert_eq!(toks[3 + n], "NS");
    let (ns, bc) = (unhex(toks[4 + n]), unhex(toks[6 + n]));
    for (codec, bytes, tag) in [("ns", &ns, "NS"), ("bc", &bc, "BC")] {
        match dec(codec, bytes) {
            None => writeln!(out, "{} {} UNDECODABLE", id, tag).unwrap(),
            Some(d) => {
                writeln!(out, "{} DEC{} {}", id, tag, show(&d)).unwrap();
                let re = if codec == "ns" { SerBin::serialize_bin(&d) } else { bincode::serialize(&d).unwrap() };
                writeln!(out, "{} {} {}", id, tag, hex(&re)).unwrap();
                match catch_unwind(AssertUnwindSafe(|| apply(d.clone(), l.clone()).collect::<Vec<i64>>())) {
                    Ok(v) => writeln!(out, "{} RES{} {}", id, tag, v.iter().map(|x| x.to_string()).collect::<Vec<_>>().join(",")).unwrap(),
                    Err(_) => writeln!(out, "{} RES{} PANIC", id, tag).unwrap(),
                }
            }
        }
    }
    out
}
