//! C12 / C19 / C20 (flat map half): `unordered_hashcmp`, `apply_unordered_hashdiffs` of unordered_map_like.
//! case line:  <id> K <0|1> P <n> k v k v.. C <m> .. B <j> ..     (n, m, j count the integers, i.e. twice the pairs)
use crate::ua::section;
use std::fmt::Write;
use std::panic::{catch_unwind, AssertUnwindSafe};
use structdiff::collections::unordered_map_like::{apply_unordered_hashdiffs, unordered_hashcmp, UnorderedMapLikeDiff};

fn pairs(v: &[i64]) -> Vec<(i64, i64)> {
    v.chunks(2).map(|c| (c[0], c[1])).collect()
}
fn sorted(mut v: Vec<(i64, i64)>) -> String {
    v.sort();
    v.iter().map(|(k, x)| format!("{}:{}", k, x)).collect::<Vec<_>>().join(",")
}

pub fn run(toks: &[&str]) -> String {
    let id = toks[0];
    assert_eq!(toks[1], "K");
    let ko = toks[2] == "1";
    let (p, at) = section(toks, 3, "P");
    let (c, at) = section(toks, at, "C");
    let (b, _) = section(toks, at, "B");
    let (p, c, b) = (pairs(&p), pairs(&c), pairs(&b));
    let mut out = String::new();
    let r = catch_unwind(AssertUnwindSafe(|| {
        fn pr(t: &(i64, i64)) -> (&i64, &i64) { (&t.0, &t.1) }
        let f: fn(&(i64, i64)) -> (&i64, &i64) = pr;
        let d = unordered_hashcmp(p.iter().map(f), c.iter().map(f), ko);
        let shown = match &d { None => "-".to_string(), Some(d) => format!("{:?}", d) };
        let owned: Option<UnorderedMapLikeDiff<i64, i64>> = d.map(Into::into);
        (shown, owned)
    }));
    match r {
        Err(_) => { writeln!(out, "{} D PANIC", id).unwrap(); }
        Ok((shown, owned)) => {
            writeln!(out, "{} D {}", id, shown).unwrap();
            match owned {
                None => { writeln!(out, "{} A -", id).unwrap(); writeln!(out, "{} B -", id).unwrap(); }
                Some(d) => {
                    for (tag, base) in [("A", &p), ("B", &b)] {
                        match catch_unwind(AssertUnwindSafe(|| apply_unordered_hashdiffs(base.clone(), d.clone()).collect::<Vec<(i64, i64)>>())) {
                            Ok(v) => writeln!(out, "{} {} {}", id, tag, sorted(v)).unwrap(),
                            Err(_) => writeln!(out, "{} {} PANIC", id, tag).unwrap(),
                        }
                    }
                }
            }
        }
    }
    out
}
