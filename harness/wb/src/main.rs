//! White-box harness: runs against a clone of /repo/src with accessor snippets appended (tools/wbsync.py).
//! Case lines:   <id> ROPE <op>;<op>;...      first op `new` or `from v v ..`
//!               <id> SLOTS <cap> <op>;<op>;...
//! Prints one observation line per op (`<id>.<k> <op> <observation>`), compared verbatim with the extracted Coq
//! model, and ORACLE-FAIL lines where the rope disagrees with a Vec subjected to the same operations.
use std::io::{BufRead, BufReader, Write};
use std::panic::{catch_unwind, AssertUnwindSafe};
use structdiff::verif_access::{verif_run_slots, Rope};

fn join(v: impl Iterator<Item = i64>) -> String {
    v.map(|x| x.to_string()).collect::<Vec<_>>().join(",")
}

fn rope_case(id: &str, ops: &[Vec<String>], out: &mut Vec<String>) {
    let mut r: Rope<i64> = Rope::new();
    let mut v: Vec<i64> = Vec::new();
    let mut steps_since_full = 0usize;
    for (k, op) in ops.iter().enumerate() {
        let n = |i: usize| op[i].parse::<usize>().unwrap();
        let z = |i: usize| op[i].parse::<i64>().unwrap();
        let tag = format!("{}.{}", id, k);
        let name = op[0].as_str();
        let mutator = matches!(name, "new" | "from" | "ins" | "rem" | "drain" | "swap" | "set");
        let res = catch_unwind(AssertUnwindSafe(|| -> String {
            match name {
                "new" => { r = Rope::new(); r.verif_layout() }
                "from" => { r = op[1..].iter().map(|x| x.parse::<i64>().unwrap()).collect(); r.verif_layout() }
                "ins" => { r.insert(n(1), z(2)); r.verif_layout() }
                "rem" => { r.remove(n(1)); r.verif_layout() }
                "drain" => { r.drain(n(1)..=n(2)); r.verif_layout() }
                "swap" => { r.swap(n(1), n(2)); r.verif_layout() }
                "set" => { r[n(1)] = z(2); r.verif_layout() }
                "get" => format!("{}", r[n(1)]),
                "len" => format!("{}", r.len()),
                "iter" => join(r.iter().cloned()),
                "into" => join(r.verif_clone().into_iter()),
                o => panic!("bad rope op {}", o),
            }
        }));
        // the Vec oracle under the same op
        let in_range = match name {
            "new" => { v.clear(); true }
            "from" => { v = op[1..].iter().map(|x| x.parse::<i64>().unwrap()).collect(); true }
            "ins" => if n(1) <= v.len() { v.insert(n(1), z(2)); true } else { false },
            "rem" => if n(1) < v.len() { v.remove(n(1)); true } else { false },
            "drain" => if n(1) <= n(2) && n(2) < v.len() { v.drain(n(1)..=n(2)); true } else { false },
            "swap" => if n(1) < v.len() && n(2) < v.len() { v.swap(n(1), n(2)); true } else { false },
            "set" => if n(1) < v.len() { v[n(1)] = z(2); true } else { false },
            "get" => n(1) < v.len(),
            _ => true,
        };
        if mutator && !in_range {
            out.push(format!("INVALID-CASE {} `{}` is out of range for a vec of len {}", tag, op.join(" "), v.len()));
            return;
        }
        match res {
            Ok(s) => {
                out.push(format!("{} {} {}", tag, name, s));
                match name {
                    "get" => {
                        if !in_range { out.push(format!("ORACLE-FAIL {} read at {} with len {} returned {} instead of panicking", tag, n(1), v.len(), s)); }
                        else if s != v[n(1)].to_string() { out.push(format!("ORACLE-FAIL {} r[{}]={} but vec has {}", tag, n(1), s, v[n(1)])); }
                    }
                    "len" => if s != v.len().to_string() { out.push(format!("ORACLE-FAIL {} len()={} but vec has {}", tag, s, v.len())); },
                    "iter" => if s != join(v.iter().cloned()) { out.push(format!("ORACLE-FAIL {} iter() yields [{}] but vec is [{}]", tag, s, join(v.iter().cloned()))); },
                    "into" => if s != join(v.iter().cloned()) { out.push(format!("ORACLE-FAIL {} into_iter() yields [{}] but vec is [{}]", tag, s, join(v.iter().cloned()))); },
                    _ => {}
                }
            }
            Err(_) => {
                out.push(format!("{} {} PANIC", tag, name));
                if in_range && name != "get" || (name == "get" && in_range) {
                    out.push(format!("ORACLE-FAIL {} in-range op `{}` panicked (len {})", tag, op.join(" "), v.len()));
                }
                if mutator { return; } // state after a panic inside a mutator is unspecified
            }
        }
        if mutator && in_range {
            // full agreement with the Vec after every mutation (all four reads); sampled on big ropes
            steps_since_full += 1;
            let full = v.len() <= 256 || steps_since_full >= 64;
            let chk = catch_unwind(AssertUnwindSafe(|| -> Option<String> {
                if r.len() != v.len() { return Some(format!("len()={} but vec has {}", r.len(), v.len())); }
                if full {
                    for i in 0..v.len() { if r[i] != v[i] { return Some(format!("r[{}]={} but vec has {}", i, r[i], v[i])); } }
                    let it: Vec<i64> = r.iter().cloned().collect();
                    if it != v { return Some(format!("iter() yields [{}] but vec is [{}]", join(it.into_iter()), join(v.iter().cloned()))); }
                    let into: Vec<i64> = r.verif_clone().into_iter().collect();
                    if into != v { return Some(format!("into_iter() yields [{}] but vec is [{}]", join(into.into_iter()), join(v.iter().cloned()))); }
                } else {
                    let l = v.len();
                    for i in [0, l / 3, l / 2, l - 1] { if r[i] != v[i] { return Some(format!("r[{}]={} but vec has {}", i, r[i], v[i])); } }
                }
                None
            }));
            if full { steps_since_full = 0; }
            match chk {
                Ok(None) => {}
                Ok(Some(m)) => out.push(format!("ORACLE-FAIL {} after `{}`: {}", tag, op.join(" "), m)),
                Err(_) => out.push(format!("ORACLE-FAIL {} after `{}`: an in-range read panicked", tag, op.join(" "))),
            }
            // reading at len must panic
            let l = v.len();
            if let Ok(x) = catch_unwind(AssertUnwindSafe(|| r[l])) {
                out.push(format!("ORACLE-FAIL {} read at len {} returned {} instead of panicking", tag, l, x));
            }
        }
    }
}

fn main() {
    let args: Vec<String> = std::env::args().collect();
    std::panic::set_hook(Box::new(|_| {}));
    let f = BufReader::new(std::fs::File::open(&args[1]).expect("case file"));
    let stdout = std::io::stdout();
    let mut w = std::io::BufWriter::new(stdout.lock());
    for line in f.lines() {
        let line = line.unwrap();
        let line = line.trim();
        if line.is_empty() || line.starts_with('#') { continue }
        let mut it = line.splitn(3, ' ');
        let id = it.next().unwrap();
        let kind = it.next().unwrap();
        let rest = it.next().unwrap_or("");
        let mut out = Vec::new();
        match kind {
            "ROPE" => {
                let ops: Vec<Vec<String>> = rest.split(';').map(|o| o.split_whitespace().map(String::from).collect()).filter(|o: &Vec<String>| !o.is_empty()).collect();
                rope_case(id, &ops, &mut out);
            }
            "SLOTS" => {
                let (cap, rest) = rest.split_once(' ').unwrap();
                let ops: Vec<Vec<String>> = rest.split(';').map(|o| o.split_whitespace().map(String::from).collect()).filter(|o: &Vec<String>| !o.is_empty()).collect();
                out = verif_run_slots(cap.parse().unwrap(), id, &ops);
            }
            k => panic!("bad case kind {}", k),
        }
        for l in out { writeln!(w, "{}", l).unwrap(); }
    }
}
