//! generated derive-level harness: `gen.rs` (types for this run's shapes + dispatch) is written by tools/gen_derive.py
mod support;
mod gen;
use std::io::{BufRead, BufReader, Write};
fn main() {
    let args: Vec<String> = std::env::args().collect();
    std::panic::set_hook(Box::new(|_| {}));
    let f = BufReader::new(std::fs::File::open(&args[1]).expect("case file"));
    let stdout = std::io::stdout();
    let mut w = std::io::BufWriter::new(stdout.lock());
    for line in f.lines() {
        let line = line.unwrap();
        let toks: Vec<&str> = line.split_whitespace().collect();
        if toks.is_empty() || toks[0] == "SHAPE" || toks[0].starts_with('#') { continue }
        let r = std::panic::catch_unwind(std::panic::AssertUnwindSafe(|| gen::dispatch(toks[2], &toks)));
        match r { Ok(s) => w.write_all(s.as_bytes()).unwrap(), Err(_) => writeln!(w, "{} HARNESS-PANIC", toks[1]).unwrap() }
        w.flush().unwrap();        // per case: when the process aborts inside a case, everything before it has been delivered
    }
}
