//! fixed support code of the generated derive-level harness crate: universal values, conversions of field types,
//! the generic runner (all observations of C01-C06, C13 for one case), the plain enum.
use std::collections::{BTreeMap, BTreeSet, HashMap, HashSet, LinkedList, VecDeque};
use std::fmt::Debug;
use std::fmt::Write;
use std::panic::{catch_unwind, AssertUnwindSafe};
use structdiff::{Difference, StructDiff};
#[cfg(feature = "ns")]
use nanoserde::{DeBin, SerBin};

#[derive(Debug, Clone, PartialEq)]
pub enum Val { Atom(i64), None, Some(Box<Val>), Seq(Vec<i64>), FMap(Vec<(i64, i64)>), RMap(Vec<(i64, Val)>), Struct(Vec<Val>) }

pub fn parse_val(toks: &[&str], i: &mut usize) -> Val {
    let t = toks[*i];
    *i += 1;
    match t {
        "n" => Val::None,
        "s" => Val::Some(Box::new(parse_val(toks, i))),
        "[" => { let mut l = vec![]; while toks[*i] != "]" { l.push(toks[*i].parse().unwrap()); *i += 1; } *i += 1; Val::Seq(l) }
        "{" => { let mut l = vec![]; while toks[*i] != "}" { let (a, b) = toks[*i].split_once(':').unwrap(); l.push((a.parse().unwrap(), b.parse().unwrap())); *i += 1; } *i += 1; Val::FMap(l) }
        "<" => { let mut l = vec![]; while toks[*i] != ">" { let k = toks[*i].parse().unwrap(); *i += 1; let v = parse_val(toks, i); l.push((k, v)); } *i += 1; Val::RMap(l) }
        "(" => { let mut l = vec![]; while toks[*i] != ")" { l.push(parse_val(toks, i)); } *i += 1; Val::Struct(l) }
        n => Val::Atom(n.parse().expect("atom")),
    }
}
pub fn show_val(v: &Val, out: &mut String) {
    match v {
        Val::Atom(n) => write!(out, "{}", n).unwrap(),
        Val::None => out.push('n'),
        Val::Some(x) => { out.push_str("s "); show_val(x, out) }
        Val::Seq(l) => { out.push('['); for x in l { write!(out, " {}", x).unwrap(); } out.push_str(" ]") }
        Val::FMap(l) => { out.push('{'); for (a, b) in l { write!(out, " {}:{}", a, b).unwrap(); } out.push_str(" }") }
        Val::RMap(l) => { out.push('<'); for (k, x) in l { write!(out, " {} ", k).unwrap(); show_val(x, out); } out.push_str(" >") }
        Val::Struct(l) => { out.push('('); for x in l { out.push(' '); show_val(x, out); } out.push_str(" )") }
    }
}
pub fn vs(v: &Val) -> String { let mut s = String::new(); show_val(v, &mut s); s }

/// conversion of a field type from/to the universal value; `u` = 1 for fields with the unordered array strategy (printed sorted)
pub trait Fconv: Sized { fn fv(v: &Val, u: u8) -> Self; fn tv(&self, u: u8) -> Val; }
impl Fconv for i64 {
    fn fv(v: &Val, _: u8) -> Self { match v { Val::Atom(n) => *n, _ => panic!("atom expected") } }
    fn tv(&self, _: u8) -> Val { Val::Atom(*self) }
}
impl Fconv for Option<i64> {
    fn fv(v: &Val, _: u8) -> Self { match v { Val::None => None, Val::Some(x) => Some(i64::fv(x, 0)), _ => panic!("option expected") } }
    fn tv(&self, _: u8) -> Val { match self { None => Val::None, Some(x) => Val::Some(Box::new(x.tv(0))) } }
}
fn seq(v: &Val) -> &Vec<i64> { match v { Val::Seq(l) => l, _ => panic!("seq expected") } }
fn sorted_if(mut l: Vec<i64>, u: u8) -> Val { if u == 1 { l.sort(); } Val::Seq(l) }
impl Fconv for Vec<i64> { fn fv(v: &Val, _: u8) -> Self { seq(v).clone() } fn tv(&self, u: u8) -> Val { sorted_if(self.clone(), u) } }
impl Fconv for LinkedList<i64> { fn fv(v: &Val, _: u8) -> Self { seq(v).iter().cloned().collect() } fn tv(&self, u: u8) -> Val { sorted_if(self.iter().cloned().collect(), u) } }
impl Fconv for VecDeque<i64> { fn fv(v: &Val, _: u8) -> Self { seq(v).iter().cloned().collect() } fn tv(&self, u: u8) -> Val { sorted_if(self.iter().cloned().collect(), u) } }
impl Fconv for HashSet<i64> { fn fv(v: &Val, _: u8) -> Self { seq(v).iter().cloned().collect() } fn tv(&self, _: u8) -> Val { sorted_if(self.iter().cloned().collect(), 1) } }
impl Fconv for BTreeSet<i64> { fn fv(v: &Val, _: u8) -> Self { seq(v).iter().cloned().collect() } fn tv(&self, _: u8) -> Val { sorted_if(self.iter().cloned().collect(), 1) } }
fn fmap(v: &Val) -> &Vec<(i64, i64)> { match v { Val::FMap(l) => l, _ => panic!("flat map expected") } }
impl Fconv for HashMap<i64, i64> { fn fv(v: &Val, _: u8) -> Self { fmap(v).iter().cloned().collect() } fn tv(&self, _: u8) -> Val { let mut l: Vec<_> = self.iter().map(|(a, b)| (*a, *b)).collect(); l.sort(); Val::FMap(l) } }
impl Fconv for BTreeMap<i64, i64> { fn fv(v: &Val, _: u8) -> Self { fmap(v).iter().cloned().collect() } fn tv(&self, _: u8) -> Val { Val::FMap(self.iter().map(|(a, b)| (*a, *b)).collect()) } }
fn rmap(v: &Val) -> &Vec<(i64, Val)> { match v { Val::RMap(l) => l, _ => panic!("recursive map expected") } }
impl<T: Fconv + HasOptionMarker> Fconv for HashMap<i64, T> { fn fv(v: &Val, _: u8) -> Self { rmap(v).iter().map(|(k, x)| (*k, T::fv(x, 0))).collect() } fn tv(&self, _: u8) -> Val { let mut l: Vec<_> = self.iter().map(|(k, x)| (*k, x.tv(0))).collect(); l.sort_by_key(|p| p.0); Val::RMap(l) } }
impl<T: Fconv + HasOptionMarker> Fconv for BTreeMap<i64, T> { fn fv(v: &Val, _: u8) -> Self { rmap(v).iter().map(|(k, x)| (*k, T::fv(x, 0))).collect() } fn tv(&self, _: u8) -> Val { Val::RMap(self.iter().map(|(k, x)| (*k, x.tv(0))).collect()) } }
impl<T: Fconv + HasOptionMarker> Fconv for Option<T> {
    fn fv(v: &Val, _: u8) -> Self { match v { Val::None => None, Val::Some(x) => Some(T::fv(x, 0)), _ => panic!("option expected") } }
    fn tv(&self, _: u8) -> Val { match self { None => Val::None, Some(x) => Val::Some(Box::new(x.tv(0))) } }
}
/// Debug rendering of diffs when the crate is built with the `dbg` feature (structdiff/debug_diffs); otherwise only entry counts are printed
pub trait MaybeDebug { fn dbg(&self) -> String; }
#[cfg(feature = "dbg")]
impl<T: Debug> MaybeDebug for T { fn dbg(&self) -> String { format!("{:?}", self) } }
#[cfg(not(feature = "dbg"))]
impl<T> MaybeDebug for T { fn dbg(&self) -> String { String::from("<built without debug_diffs>") } }
fn show_diff<D: MaybeDebug>(d: &Vec<D>) -> String {
    if cfg!(feature = "dbg") { format!("[{}]", d.iter().map(|x| x.dbg()).collect::<Vec<_>>().join(", ")) } else { format!("N={}", d.len()) }
}
fn show_opt<D: MaybeDebug>(d: &Option<D>) -> String { match d { None => "-".to_string(), Some(x) => if cfg!(feature = "dbg") { x.dbg() } else { "N=1".to_string() } } }

/// generated setters, by field index (None = this field has no generated setter)
/// set by a generated set_field arm when the field does not equal the value the setter was called with
pub static STORE_MISMATCH: std::sync::atomic::AtomicBool = std::sync::atomic::AtomicBool::new(false);
pub trait SetField: StructDiff + Sized {
    fn set_field(&mut self, _i: usize, _v: &Val) -> Option<Option<<Self as StructDiff>::Diff>> { None }
}
impl SetField for En {}
/// marker for generated struct types (so that Option<struct> does not overlap Option<i64>)
pub trait HasOptionMarker {}

/// the plain enum: unit, tuple and struct variants; one comparable value encoded as an integer
#[derive(Debug, Clone, PartialEq, Difference)]
#[cfg_attr(feature = "ns", derive(nanoserde::SerBin, nanoserde::DeBin))]
#[cfg_attr(feature = "sd", derive(serde::Serialize, serde::Deserialize))]
pub enum En { A, B(i64), C { x: i64, y: i64 } }

/// wire observations (C14), available when the crate is built with both codec features; a no-op otherwise
pub trait Wire: StructDiff + Sized {
    fn wire(_id: &str, _a: &Self, _b: &Self, _x: &Self, _out: &mut String) {}
    fn wire_decode(_id: &str, _a: &Self, _ns: &[u8], _bc: &[u8], _out: &mut String) {}
}
#[cfg(not(all(feature = "ns", feature = "sd")))]
impl Wire for En {}
#[cfg(all(feature = "ns", feature = "sd"))]
impl Wire for En {
    fn wire(id: &str, a: &Self, b: &Self, x: &Self, out: &mut String) { wire_obs::<Self>(id, a, b, x, out) }
    fn wire_decode(id: &str, a: &Self, ns: &[u8], bc: &[u8], out: &mut String) { wire_dec::<Self>(id, a, ns, bc, out) }
}
pub fn hex(b: &[u8]) -> String { b.iter().map(|x| format!("{:02x}", x)).collect() }
pub fn unhex(s: &str) -> Vec<u8> { if s == "-" { return vec![]; } (0..s.len() / 2).map(|i| u8::from_str_radix(&s[2 * i..2 * i + 2], 16).unwrap()).collect() }

/// bytes of diff (owned) and diff_ref (borrowed) in both formats; the borrowed bytes decoded as the owned type and applied
#[cfg(all(feature = "ns", feature = "sd"))]
pub fn wire_obs<T>(id: &str, a: &T, b: &T, x: &T, out: &mut String)
where T: StructDiff + Fconv + Clone,
      T::Diff: nanoserde::SerBin + nanoserde::DeBin + serde::Serialize + serde::de::DeserializeOwned + MaybeDebug + Clone,
      for<'t> T::DiffRef<'t>: nanoserde::SerBin + serde::Serialize {
    let r = guard(|| {
        let d = a.diff(b);
        let dr = a.diff_ref(b);
        let nsb = nanoserde::SerBin::serialize_bin(&d);
        let nsrb = nanoserde::SerBin::serialize_bin(&dr);
        let bcb = bincode::serialize(&d).unwrap();
        let bcrb = bincode::serialize(&dr).unwrap();
        (nsb, nsrb, bcb, bcrb)
    });
    match r {
        None => { writeln!(out, "{} NSB PANIC", id).unwrap(); }
        Some((nsb, nsrb, bcb, bcrb)) => {
            for (tag, bytes) in [("NSB", &nsb), ("NSRB", &nsrb), ("BCB", &bcb), ("BCRB", &bcrb)] { writeln!(out, "{} {} {}", id, tag, if bytes.is_empty() { "-".to_string() } else { hex(bytes) }).unwrap(); }
            // the serialized DiffRef decodes as a Diff and has the same effect (on a and on an equivalent base)
            let dn: Option<Vec<T::Diff>> = guard(|| nanoserde::DeBin::deserialize_bin(&nsrb).ok()).flatten();
            let db: Option<Vec<T::Diff>> = guard(|| bincode::deserialize(&bcrb).ok()).flatten();
            for (tag, dd) in [("N", dn), ("B", db)] {
                match dd {
                    None => { writeln!(out, "{} AW{} UNDECODABLE", id, tag).unwrap(); }
                    Some(dd) => {
                        line(out, id, &format!("DW{}", tag), Some(show_diff(&dd)));
                        line(out, id, &format!("AW{}", tag), guard(|| vs(&a.clone().apply(dd.clone()).tv(0))));
                        line(out, id, &format!("XW{}", tag), guard(|| vs(&x.clone().apply(dd.clone()).tv(0))));
                    }
                }
            }
            // the serialized owned diff decodes as itself and has the same effect
            let on: Option<Vec<T::Diff>> = guard(|| nanoserde::DeBin::deserialize_bin(&nsb).ok()).flatten();
            let ob: Option<Vec<T::Diff>> = guard(|| bincode::deserialize(&bcb).ok()).flatten();
            for (tag, dd) in [("N", on), ("B", ob)] {
                match dd {
                    None => { writeln!(out, "{} AO{} UNDECODABLE", id, tag).unwrap(); }
                    Some(dd) => {
                        line(out, id, &format!("DO{}", tag), Some(show_diff(&dd)));
                        line(out, id, &format!("AO{}", tag), guard(|| vs(&a.clone().apply(dd.clone()).tv(0))));
                        line(out, id, &format!("XO{}", tag), guard(|| vs(&x.clone().apply(dd.clone()).tv(0))));
                    }
                }
            }
        }
    }
}
/// bytes produced by the MODEL, decoded as the owned diff and applied
#[cfg(all(feature = "ns", feature = "sd"))]
pub fn wire_dec<T>(id: &str, a: &T, ns: &[u8], bc: &[u8], out: &mut String)
where T: StructDiff + Fconv + Clone, T::Diff: nanoserde::DeBin + serde::de::DeserializeOwned + MaybeDebug + Clone {
    let dn: Option<Vec<T::Diff>> = guard(|| nanoserde::DeBin::deserialize_bin(ns).ok()).flatten();
    let db: Option<Vec<T::Diff>> = guard(|| bincode::deserialize(bc).ok()).flatten();
    for (tag, dd) in [("N", dn), ("B", db)] {
        match dd {
            None => { writeln!(out, "{} DM{} UNDECODABLE", id, tag).unwrap(); }
            Some(dd) => {
                line(out, id, &format!("DM{}", tag), Some(show_diff(&dd)));
                line(out, id, &format!("AM{}", tag), guard(|| vs(&a.clone().apply(dd.clone()).tv(0))));
            }
        }
    }
}
impl Fconv for En {
    fn fv(v: &Val, _: u8) -> Self { let z = i64::fv(v, 0); match z.rem_euclid(3) { 0 => En::A, 1 => En::B((z - 1) / 3), _ => En::C { x: (z - 2) / 3, y: (z - 2) / 3 + 1 } } }
    fn tv(&self, _: u8) -> Val { Val::Atom(match self { En::A => 0, En::B(n) => 3 * n + 1, En::C { x, .. } => 3 * x + 2 }) }
}

fn guard<R>(f: impl FnOnce() -> R) -> Option<R> { catch_unwind(AssertUnwindSafe(f)).ok() }
fn line(out: &mut String, id: &str, tag: &str, v: Option<String>) { writeln!(out, "{} {} {}", id, tag, v.unwrap_or_else(|| "PANIC".to_string())).unwrap(); }

/// all observations for one case line (PAIR or HIST) of shape type T
pub fn run<T>(toks: &[&str]) -> String
where T: StructDiff + Fconv + Clone + PartialEq + Debug + SetField + Wire, T::Diff: MaybeDebug + Clone {
    let mut out = String::new();
    let kind = toks[0];
    let id = toks[1];
    let mut i = 3;
    if kind == "PAIR" {
        assert_eq!(toks[i], "A"); i += 1; let a = T::fv(&parse_val(toks, &mut i), 0);
        assert_eq!(toks[i], "B"); i += 1; let b = T::fv(&parse_val(toks, &mut i), 0);
        assert_eq!(toks[i], "X"); i += 1; let x = T::fv(&parse_val(toks, &mut i), 0);
        assert_eq!(toks[i], "C"); i += 1; let c = T::fv(&parse_val(toks, &mut i), 0);
        assert_eq!(toks[i], "SUB"); i += 1;
        let sub: Vec<usize> = toks[i..].iter().map(|t| t.parse().unwrap()).collect();
        let (a0, b0, x0) = (a.clone(), b.clone(), x.clone());
        let d = guard(|| a.diff(&b));
        line(&mut out, id, "D", d.as_ref().map(|d| show_diff(d)));
        let dr: Option<Vec<T::Diff>> = guard(|| a.diff_ref(&b).into_iter().map(Into::into).collect());
        line(&mut out, id, "DR", dr.as_ref().map(|d| show_diff(d)));
        T::wire(id, &a, &b, &x, &mut out);
        if a != a0 || b != b0 { writeln!(out, "ORACLE-FAIL {} computing a diff modified an argument", id).unwrap(); }
        if let Some(d) = d {
            line(&mut out, id, "A", guard(|| vs(&a.clone().apply(d.clone()).tv(0))));
            line(&mut out, id, "AR", guard(|| vs(&a.apply_ref(d.clone()).tv(0))));
            if a != a0 { writeln!(out, "ORACLE-FAIL {} apply_ref modified its receiver", id).unwrap(); }
            line(&mut out, id, "AM", guard(|| { let mut m = a.clone(); m.apply_mut(d.clone()); vs(&m.tv(0)) }));
            line(&mut out, id, "AS", guard(|| { let mut m = a.clone(); for e in d.clone() { m.apply_single(e); } vs(&m.tv(0)) }));
            line(&mut out, id, "X", guard(|| vs(&x.clone().apply(d.clone()).tv(0))));
            // two batched steps a->b, b->c in ONE entry list (fields may be named twice, entries interact): the four entry points must still agree
            if let Some(d2) = guard(|| b.diff(&c)) {
                let both: Vec<T::Diff> = d.iter().cloned().chain(d2.into_iter()).collect();
                line(&mut out, id, "A2", guard(|| vs(&a.clone().apply(both.clone()).tv(0))));
                line(&mut out, id, "AR2", guard(|| vs(&a.apply_ref(both.clone()).tv(0))));
                line(&mut out, id, "AM2", guard(|| { let mut m = a.clone(); m.apply_mut(both.clone()); vs(&m.tv(0)) }));
                line(&mut out, id, "AS2", guard(|| { let mut m = a.clone(); for e in both.clone() { m.apply_single(e); } vs(&m.tv(0)) }));
            }
            // a sub-multiset of the entries in the given order
            let pick: Vec<T::Diff> = if d.is_empty() { vec![] } else { let mut seen = vec![false; d.len()]; let mut p = vec![];
                for s in &sub { let k = s % d.len(); if !seen[k] { seen[k] = true; p.push(d[k].clone()); } } p };
            line(&mut out, id, "S", guard(|| vs(&a.clone().apply(pick).tv(0))));
        }
        if let Some(dr) = dr {
            line(&mut out, id, "XR", guard(|| vs(&x.clone().apply(dr.clone()).tv(0))));
            line(&mut out, id, "ARR", guard(|| vs(&a.clone().apply(dr).tv(0))));
        }
        if x != x0 { writeln!(out, "ORACLE-FAIL {} applying to a clone modified the original", id).unwrap(); }
    } else if kind == "HIST" {
        // HIST id sid F <follower> ST <s0> ST <s1> ...: the follower applies the leader's successive diffs
        assert_eq!(toks[i], "F"); i += 1; let mut f = T::fv(&parse_val(toks, &mut i), 0);
        let mut states: Vec<T> = vec![];
        while i < toks.len() { assert_eq!(toks[i], "ST"); i += 1; states.push(T::fv(&parse_val(toks, &mut i), 0)); }
        for k in 1..states.len() {
            let r = guard(|| { let d = states[k - 1].diff(&states[k]); f.clone().apply(d) });
            match r { Some(nf) => { f = nf; line(&mut out, id, &format!("H{}", k), Some(vs(&f.tv(0)))); }
                      None => { line(&mut out, id, &format!("H{}", k), None); break; } }
        }
        // C06 on a diff that no single call of diff() produces: the diffs of all steps concatenated (long, with several entries
        // for one field, often next to each other) applied to the first state through each of the four entry points
        if !states.is_empty() {
            let s0 = states[0].clone();
            if let Some(all) = guard(|| { let mut all: Vec<T::Diff> = vec![]; for k in 1..states.len() { all.extend(states[k - 1].diff(&states[k])); } all }) {
                line(&mut out, id, "HA", guard(|| vs(&s0.clone().apply(all.clone()).tv(0))));
                line(&mut out, id, "HAR", guard(|| vs(&s0.apply_ref(all.clone()).tv(0))));
                line(&mut out, id, "HAM", guard(|| { let mut m = s0.clone(); m.apply_mut(all.clone()); vs(&m.tv(0)) }));
                line(&mut out, id, "HAS", guard(|| { let mut m = s0.clone(); for e in all.clone() { m.apply_single(e); } vs(&m.tv(0)) }));
                writeln!(out, "{} HN {}", id, all.len()).unwrap();
            }
        }
    } else if kind == "WIRE" {
        // WIRE id sid A <a> NS <hex> BC <hex>: bytes produced by the model
        assert_eq!(toks[i], "A"); i += 1; let a = T::fv(&parse_val(toks, &mut i), 0);
        assert_eq!(toks[i], "NS"); let ns = unhex(toks[i + 1]); assert_eq!(toks[i + 2], "BC"); let bc = unhex(toks[i + 3]);
        T::wire_decode(id, &a, &ns, &bc, &mut out);
    } else if kind == "SET" {
        // SET id sid X <value> OPS <i> <field value> ...: generated setters; the returned entries replayed on a copy
        assert_eq!(toks[i], "X"); i += 1; let x0 = T::fv(&parse_val(toks, &mut i), 0);
        assert_eq!(toks[i], "OPS"); i += 1;
        let mut x = x0.clone();
        let mut entries: Vec<T::Diff> = vec![];
        let mut k = 0;
        while i < toks.len() {
            let fi: usize = toks[i].parse().unwrap(); i += 1;
            let v = parse_val(toks, &mut i);
            let before = match x.tv(0) { Val::Struct(fs) => fs, _ => vec![] };
            STORE_MISMATCH.store(false, std::sync::atomic::Ordering::SeqCst);
            let r = guard(|| x.set_field(fi, &v));
            // C15: "stores exactly the given value" - compared with the field type's own == inside the generated set_field (a Vec keeps its order)
            if STORE_MISMATCH.load(std::sync::atomic::Ordering::SeqCst) { writeln!(out, "ORACLE-FAIL {} setter call {} for field f{} did not store exactly the value it was given", id, k, fi).unwrap(); }
            match r {
                None => { line(&mut out, id, &format!("E{}", k), None); break; }
                Some(None) => { writeln!(out, "{} E{} NOSETTER", id, k).unwrap(); }
                Some(Some(e)) => {
                    line(&mut out, id, &format!("E{}", k), Some(show_opt(&e)));
                    if let Some(d) = e { entries.push(d); }
                    let after = match x.tv(0) { Val::Struct(fs) => fs, _ => vec![] };
                    for j in 0..after.len() {
                        if j != fi && after[j] != before[j] { writeln!(out, "ORACLE-FAIL {} setter call {} for field f{} changed field f{}", id, k, fi, j).unwrap(); }
                    }
                }
            }
            line(&mut out, id, &format!("V{}", k), Some(vs(&x.tv(0))));
            k += 1;
        }
        line(&mut out, id, "REPLAY", guard(|| vs(&x0.clone().apply(entries).tv(0))));
    } else { panic!("bad case kind"); }
    out
}
