
// ======================================================================================
// verif accessors -- appended to a CLONE of /repo/src/collections/rope/slots.rs by
// /verif/tools/wbsync.py; /repo itself is not modified.
// ======================================================================================
impl<T: Clone, const N: usize> ArrayMap<T, N> {
    pub(crate) fn verif_raw(&self) -> (Vec<Option<(u8, T)>>, usize) {
        (self.0.to_vec(), self.1)
    }
}

pub(crate) fn verif_dump_chunk<T: Clone + std::fmt::Display, const N: usize>(m: &ArrayMap<T, N>) -> String {
    let (slots, cnt) = m.verif_raw();
    let mut s = format!("{}|", cnt);
    for (k, sl) in slots.iter().enumerate() {
        if k > 0 { s.push(' '); }
        match sl { Some((i, v)) => s.push_str(&format!("{}:{}", i, v)), None => s.push('_') }
    }
    s
}

/// direct driver of one chunk of capacity N; one observation line per op (see /verif/tools/gen_rope.py)
pub(crate) fn verif_run_slots<const N: usize>(id: &str, ops: &[Vec<String>]) -> Vec<String> {
    use std::panic::{catch_unwind, AssertUnwindSafe};
    let mut m: ArrayMap<i64, N> = ArrayMap::new();
    let mut out = Vec::new();
    for (k, op) in ops.iter().enumerate() {
        let n = |i: usize| op[i].parse::<usize>().unwrap();
        let z = |i: usize| op[i].parse::<i64>().unwrap();
        let tag = format!("{}.{}", id, k);
        let r = catch_unwind(AssertUnwindSafe(|| -> String {
            match op[0].as_str() {
                "new" => { m = ArrayMap::new(); verif_dump_chunk(&m) }
                "from" => { m = op[1..].iter().map(|x| x.parse::<i64>().unwrap()).collect(); verif_dump_chunk(&m) }
                "ins" => { m.insert(n(1), z(2)); verif_dump_chunk(&m) }
                "rem" => { let v = m.remove(n(1)); format!("{} -> {}", verif_dump_chunk(&m), v) }
                "swap" => { m.swap(n(1), n(2)); verif_dump_chunk(&m) }
                "drain" => {
                    let vals: Vec<i64> = if op[2] == "-" { m.drain(n(1)..).collect() } else { m.drain(n(1)..n(2)).collect() };
                    format!("{} -> {}", verif_dump_chunk(&m), vals.iter().map(|v| v.to_string()).collect::<Vec<_>>().join(","))
                }
                "ext" => { m.extend(op[1..].iter().map(|x| x.parse::<i64>().unwrap())); verif_dump_chunk(&m) }
                "get" => format!("{}", m[n(1)]),
                "set" => { m[n(1)] = z(2); verif_dump_chunk(&m) }
                "len" => format!("{} {}", m.len(), m.is_empty()),
                "fwd" => (&m).into_iter().map(|v| v.to_string()).collect::<Vec<_>>().join(","),
                "it" => {
                    let mut it = m.clone().into_iter();
                    op[1..].iter().map(|c| match (if c == "f" { it.next() } else { it.next_back() }) { Some(v) => v.to_string(), None => "-".to_string() }).collect::<Vec<_>>().join(",")
                }
                o => panic!("bad slot op {}", o),
            }
        }));
        match r {
            Ok(s) => out.push(format!("{} {} {}", tag, op[0], s)),
            Err(_) => out.push(format!("{} {} PANIC", tag, op[0])),
        }
    }
    out
}
