
// ======================================================================================
// verif accessors -- appended to a CLONE of /repo/src/collections/rope/mod.rs by
// /verif/tools/wbsync.py; /repo itself is not modified.
// ======================================================================================
impl<T: Clone + std::fmt::Display> Rope<T> {
    /// complete physical layout: one `cnt|slot slot ...` group per chunk
    pub fn verif_layout(&self) -> String {
        self.0.iter().map(|c| slots::verif_dump_chunk(c)).collect::<Vec<_>>().join(" / ")
    }
    pub fn verif_clone(&self) -> Self {
        Rope(self.0.clone())
    }
    pub fn verif_chunk_lens(&self) -> Vec<usize> {
        self.0.iter().map(|c| c.len()).collect()
    }
}
pub fn verif_run_slots(cap: usize, id: &str, ops: &[Vec<String>]) -> Vec<String> {
    match cap {
        1 => slots::verif_run_slots::<1>(id, ops),
        2 => slots::verif_run_slots::<2>(id, ops),
        3 => slots::verif_run_slots::<3>(id, ops),
        4 => slots::verif_run_slots::<4>(id, ops),
        5 => slots::verif_run_slots::<5>(id, ops),
        6 => slots::verif_run_slots::<6>(id, ops),
        8 => slots::verif_run_slots::<8>(id, ops),
        16 => slots::verif_run_slots::<16>(id, ops),
        32 => slots::verif_run_slots::<32>(id, ops),
        _ => panic!("capacity not instantiated"),
    }
}
pub const VERIF_MAX_SLOT_SIZE: usize = MAX_SLOT_SIZE;
