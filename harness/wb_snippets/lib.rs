
// verif accessors -- appended to a CLONE of /repo/src/lib.rs by /verif/tools/wbsync.py
pub mod verif_access {
    pub use crate::collections::rope::{verif_run_slots, Rope, VERIF_MAX_SLOT_SIZE};
}
