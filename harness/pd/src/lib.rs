//! `#[derive(DumpParse)]`: runs /repo's own declaration parser (derive/src/parse.rs, included by path, unmodified) on the item and appends,
//! for every named field, the token tree of its type and the parse result to the file named by $PD_DUMP. Used to tie the Coq models of `parse_data` (coq/parse/ParseDecl.v: the whole item),
//! `next_type` (coq/parse/ParseModel.v) and of the printer `Type::full` (coq/parse/ParsePrint.v) to the code.
extern crate alloc;
extern crate proc_macro;
#[allow(unused_macros, dead_code)]
#[macro_use]
#[path = "/repo/derive/src/shared.rs"]
mod shared;
#[allow(dead_code)]
#[path = "/repo/derive/src/parse.rs"]
mod parse;

/// derive/src/difference.rs included textually, so that its private helpers that decide which lifetime / const parameters a field type
/// uses (get_used_lifetimes, get_array_lens; coq/parse/ParseUsed.v) can be called on the parse result
#[allow(dead_code, unused_imports, unused_variables, unused_mut, unused_macros)]
mod difference {
    include!("/repo/derive/src/difference.rs");
    pub fn used_lifetimes_of(t: &crate::parse::Type) -> Vec<String> { get_used_lifetimes(t) }
    pub fn array_lens_of(t: &crate::parse::Type) -> Vec<String> { get_array_lens(t) }
    /// the whole expansion, for the item headers (coq/parse/ParseHeader.v)
    pub fn expand(d: &crate::parse::Data) -> proc_macro::TokenStream {
        match d { crate::parse::Data::Struct(s) => derive_struct_diff_struct(s), crate::parse::Data::Enum(e) => derive_struct_diff_enum(e), _ => proc_macro::TokenStream::new() }
    }
}
use parse::{Category, ConstValType, Data, Type};
use proc_macro::{Delimiter, TokenStream, TokenTree};
use std::io::Write;

/// whitespace and `%` inside a token text are percent-escaped: the dump is split on blanks
fn esc(s: &str) -> String {
    let mut o = String::new();
    for c in s.chars() { match c { ' ' => o.push_str("%20"), '%' => o.push_str("%25"), '\n' => o.push_str("%0A"), '\t' => o.push_str("%09"), '\r' => o.push_str("%0D"), c => o.push(c) } }
    if o.is_empty() { o.push_str("%00") }
    o
}
fn relex(s: &str) -> String {
    match s.parse::<TokenStream>() {
        Err(_) => format!("LEXERROR {}", esc(s)),
        Ok(ts) => { let v: Vec<TokenTree> = ts.into_iter().collect(); let mut o = String::new(); tt_text(&v, &mut o); o }
    }
}
fn attrs_text(a: &[parse::Attribute]) -> String {
    a.iter().map(|x| format!("( {}) ", x.tokens.iter().map(|t| esc(t) + " ").collect::<String>())).collect()
}
fn sorted(mut v: Vec<String>) -> String { v.sort(); v.iter().map(|x| x.clone() + " ").collect() }
fn generic_text(g: &parse::Generic) -> String {
    use parse::Generic as G;
    match g {
        G::ConstGeneric { name, _type, default } => format!("C( {} {} {} )", esc(name), ty_text(_type), match default {
            None => "-".to_string(), Some(ConstValType::Value(v)) => format!("V{}", v), Some(ConstValType::Named(t)) => format!("N {}", ty_text(t)) }),
        G::Generic { name, default, bounds } => format!("T( [ {}] {} [ {}] )", relex(name), default.as_ref().map(ty_text).unwrap_or_else(|| "-".to_string()), sorted(bounds.iter().map(ty_text).collect())),
        G::Lifetime { name, bounds } => format!("L( {} [ {}] )", esc(name), sorted(bounds.iter().map(|l| esc(&l.ident)).collect())),
        G::WhereBounded { name, bounds } => format!("W( [ {}] [ {}] )", relex(name), sorted(bounds.iter().map(ty_text).collect())),
    }
}
/// derive/src/shared.rs: what the templates read off an attribute list (coq/parse/ParseInterp.v)
fn interp_text(a: &[parse::Attribute]) -> String {
    use shared::{CollectionStrategy as C, MapStrategy as M};
    let ms = |m: &M| match m { M::KeyOnly => "key_only", M::KeyAndValue => "key_and_value" };
    let coll = match shared::attrs_collection_type(a) { None => "-".to_string(), Some(C::OrderedArrayLike) => "ordered".to_string(), Some(C::UnorderedArrayLikeHash) => "unordered".to_string(),
        Some(C::UnorderedMapLikeHash(m)) => format!("map:{}", ms(&m)) };
    let map = match shared::attrs_map_strategy(a) { None => "-".to_string(), Some(m) => ms(&m).to_string() };
    let (local, skip_s, name) = shared::attrs_setter(a);
    let expose = match shared::attrs_expose(a) { None => "-".to_string(), Some(None) => "yes".to_string(), Some(Some(n)) => format!("as:{}", esc(&n)) };
    format!("skip={} recurse={} all_setters={} coll={} map={} setter={} skip_setter={} setter_name={} expose={}", shared::attrs_skip(a) as u8, shared::attrs_recurse(a) as u8,
        shared::attrs_all_setters(a) as u8, coll, map, local as u8, skip_s as u8, name.as_deref().map(esc).unwrap_or_else(|| "-".to_string()), expose)
}
fn enum_text(e: &parse::Enum) -> String {
    format!("ENUM name={} attrs=[ {}] generics=[ {}] variants=[ {}]", esc(&e.name), attrs_text(&e.attributes),
        e.generics.iter().map(|g| generic_text(g) + " ").collect::<String>(),
        e.variants.iter().map(|f| format!("{{ [ {}] {} {} }} ", attrs_text(&f.attributes), f.field_name.as_deref().map(esc).unwrap_or_else(|| "-".to_string()), ty_text(&f.ty))).collect::<String>())
}
fn struct_text(s: &parse::Struct) -> String {
    format!("name={} named={} attrs=[ {}] generics=[ {}] fields=[ {}]",
        s.name.as_deref().map(esc).unwrap_or_else(|| "-".to_string()), s.named as u8, attrs_text(&s.attributes),
        s.generics.iter().map(|g| generic_text(g) + " ").collect::<String>(),
        s.fields.iter().map(|f| format!("{{ [ {}] {} {} }} ", attrs_text(&f.attributes), f.field_name.as_deref().map(esc).unwrap_or_else(|| "-".to_string()), ty_text(&f.ty))).collect::<String>())
}

fn tt_text(ts: &[TokenTree], out: &mut String) {
    for t in ts {
        match t {
            TokenTree::Ident(i) => { out.push_str("I "); out.push_str(&i.to_string()); out.push(' '); }
            TokenTree::Punct(p) => { out.push_str("P "); out.push(p.as_char()); out.push(' '); }
            TokenTree::Literal(l) => { out.push_str("L "); out.push_str(&esc(&l.to_string())); out.push(' '); }
            TokenTree::Group(g) => {
                let d = match g.delimiter() { Delimiter::Parenthesis => "G(", Delimiter::Bracket => "G[", Delimiter::Brace => "G{", Delimiter::None => "G0" };
                out.push_str(d); out.push(' ');
                let inner: Vec<TokenTree> = g.stream().into_iter().collect();
                tt_text(&inner, out);
                out.push_str(") ");
            }
        }
    }
}

fn ty_text(t: &Type) -> String {
    let cat = match &t.ident {
        Category::Never => "Never".to_string(),
        Category::UnNamed => "Unnamed".to_string(),
        Category::None => "NoneCat".to_string(),
        Category::Named { path } => format!("Named:{}", path),
        Category::Lifetime { path } => format!("Lifetime:{}", path),
        Category::Tuple { contents } => format!("Tuple[ {}]", contents.iter().map(|c| ty_text(c) + " ").collect::<String>()),
        Category::Array { content_type, len } => format!("Array[ {} {} ]", ty_text(content_type), match len {
            None => "-".to_string(), Some(ConstValType::Value(n)) => format!("V{}", n), Some(ConstValType::Named(t)) => format!("N {}", ty_text(t)) }),
        Category::AnonymousStruct { contents } => format!("Anon[ {}]", contents.fields.iter().map(|f| format!("{{ [ {}] {} {} }} ", attrs_text(&f.attributes), f.field_name.as_deref().map(esc).unwrap_or_else(|| "-".to_string()), ty_text(&f.ty))).collect::<String>()),
        _ => "UnsupCat".to_string(),
    };
    let wraps = match &t.wraps { None => "-".to_string(), Some(w) => format!("{{ {}}}", w.iter().map(|c| ty_text(c) + " ").collect::<String>()) };
    let rt = match &t.ref_type { None => "-".to_string(), Some(None) => "&".to_string(), Some(Some(l)) => format!("&{}", l.ident) };
    let ao = match &t.as_other { None => "-".to_string(), Some(_) => "as".to_string() };
    format!("({} {} {} {})", cat, wraps, rt, ao)
}

/// tokens of each named field's type: skip attributes and visibility, `name :`, then up to the next comma at angle-bracket depth 0
fn field_type_tokens(body: TokenStream) -> Vec<(String, Vec<TokenTree>)> {
    let toks: Vec<TokenTree> = body.into_iter().collect();
    let mut out = vec![];
    let mut i = 0;
    while i < toks.len() {
        // attributes
        loop {
            match (toks.get(i), toks.get(i + 1)) {
                (Some(TokenTree::Punct(p)), Some(TokenTree::Group(_))) if p.as_char() == '#' => i += 2,
                _ => break,
            }
        }
        if let Some(TokenTree::Ident(id)) = toks.get(i) { if id.to_string() == "pub" { i += 1; if let Some(TokenTree::Group(g)) = toks.get(i) { if g.delimiter() == Delimiter::Parenthesis { i += 1; } } } }
        let name = match toks.get(i) { Some(TokenTree::Ident(id)) => id.to_string(), _ => break };
        i += 1;
        match toks.get(i) { Some(TokenTree::Punct(p)) if p.as_char() == ':' => i += 1, _ => break }
        let mut depth = 0i32;
        let mut ty = vec![];
        while i < toks.len() {
            if let TokenTree::Punct(p) = &toks[i] {
                let c = p.as_char();
                if c == '<' { depth += 1 } else if c == '>' { depth -= 1 } else if c == ',' && depth == 0 { break }
            }
            ty.push(toks[i].clone());
            i += 1;
        }
        i += 1; // the comma
        out.push((name, ty));
    }
    out
}

/// first keyword of an item: attributes and `pub` skipped
fn item_kind(cur: &[TokenTree]) -> String {
    let mut i = 0;
    while i < cur.len() {
        match (&cur[i], cur.get(i + 1)) {
            (TokenTree::Punct(p), Some(TokenTree::Group(_))) if p.as_char() == '#' => i += 2,
            (TokenTree::Ident(id), _) if id.to_string() == "pub" => i += 1,
            (TokenTree::Ident(id), _) => return id.to_string(),
            _ => return String::new(),
        }
    }
    String::new()
}
/// `#[serde(bound = "..")]`: the string literal is replaced by a brace group holding the tokens of its content
fn lex_serde_bound(g: &proc_macro::Group) -> TokenTree {
    let inner: Vec<TokenTree> = g.stream().into_iter().collect();
    let is_serde = matches!(inner.first(), Some(TokenTree::Ident(i)) if i.to_string() == "serde");
    if !is_serde { return TokenTree::Group(g.clone()); }
    let mut out: Vec<TokenTree> = vec![];
    for t in inner {
        match t {
            TokenTree::Group(a) => {
                let args: Vec<TokenTree> = a.stream().into_iter().map(|x| match x {
                    TokenTree::Literal(l) => {
                        let txt = l.to_string();
                        let body = txt.trim_matches('"').to_string();
                        match body.parse::<TokenStream>() { Ok(ts) => TokenTree::Group(proc_macro::Group::new(Delimiter::Brace, ts)), Err(_) => TokenTree::Literal(l) }
                    }
                    o => o,
                }).collect();
                out.push(TokenTree::Group(proc_macro::Group::new(a.delimiter(), args.into_iter().collect())));
            }
            o => out.push(o),
        }
    }
    TokenTree::Group(proc_macro::Group::new(Delimiter::Bracket, out.into_iter().collect()))
}
/// the item headers of an expansion, in order: everything in front of the body of each `enum` and `impl` (doc comments dropped), and the
/// associated types of the StructDiff impl; type aliases, `use` items and all bodies are left out
fn split_headers(ts: Vec<TokenTree>, out: &mut Vec<Vec<TokenTree>>, defs: &mut Vec<(&'static str, Vec<TokenTree>)>) {
    let mut cur: Vec<TokenTree> = vec![];
    let mut i = 0;
    while i < ts.len() {
        match (&ts[i], ts.get(i + 1)) {
            (TokenTree::Punct(p), Some(TokenTree::Group(g))) if p.as_char() == '#' && g.delimiter() == Delimiter::Bracket => {
                let is_doc = matches!(g.stream().into_iter().next(), Some(TokenTree::Ident(id)) if id.to_string() == "doc");
                if !is_doc { cur.push(ts[i].clone()); cur.push(lex_serde_bound(g)); }
                i += 2; continue;
            }
            (TokenTree::Group(g), _) if g.delimiter() == Delimiter::Brace => {
                let kind = item_kind(&cur);
                let inner: Vec<TokenTree> = g.stream().into_iter().collect();
                if kind == "const" { split_headers(inner, out, defs); }
                else if kind == "enum" { out.push(cur.clone()); defs.push(("BODY", inner)); }
                else if kind == "impl" {
                    out.push(cur.clone());
                    if cur.iter().any(|t| matches!(t, TokenTree::Ident(id) if id.to_string() == "StructDiff")) {
                        let mut piece: Vec<TokenTree> = vec![];
                        for t in inner {
                            match &t {
                                TokenTree::Ident(id) if id.to_string() == "fn" => break,
                                TokenTree::Punct(p) if p.as_char() == ';' => { if matches!(piece.first(), Some(TokenTree::Ident(id)) if id.to_string() == "type") { out.push(piece.clone()); } piece.clear(); }
                                _ => piece.push(t),
                            }
                        }
                    }
                }
                cur.clear();
            }
            // a type alias (`use` items and the `;` that ends the const block are dropped)
            (TokenTree::Punct(p), _) if p.as_char() == ';' => { if item_kind(&cur) == "type" { defs.push(("ALIAS", cur.clone())); } cur.clear() }
            (t, _) => cur.push(t.clone()),
        }
        i += 1;
    }
}

#[proc_macro_derive(DumpParse, attributes(difference))]
pub fn dump_parse(input: TokenStream) -> TokenStream {
    let path = match std::env::var("PD_DUMP") { Ok(p) => p, Err(_) => return TokenStream::new() };
    let mut text = String::new();
    // the struct's name and body group
    let toks: Vec<TokenTree> = input.clone().into_iter().collect();
    let mut sname = String::from("?");
    for w in toks.windows(2) { if let (TokenTree::Ident(a), TokenTree::Ident(b)) = (&w[0], &w[1]) { if a.to_string() == "struct" || a.to_string() == "enum" { sname = b.to_string(); } } }
    let body = toks.iter().rev().find_map(|t| match t { TokenTree::Group(g) if g.delimiter() == Delimiter::Brace => Some(g.stream()), _ => None });
    let fields = body.map(field_type_tokens).unwrap_or_default();
    // the whole item: token trees as received, and what parse_data makes of them (coq/parse/ParseDecl.v)
    { let mut t = String::new(); tt_text(&toks, &mut t); text.push_str(&format!("ITEM {} TOKENS {}\n", sname, t)); }
    let parsed = std::panic::catch_unwind(|| parse::parse_data(input));
    match &parsed {
        Err(_) => text.push_str(&format!("ITEM {} PARSED PANIC\n", sname)),
        Ok(Data::Struct(s)) => {
            text.push_str(&format!("ITEM {} PARSED {}\n", sname, struct_text(s)));
            text.push_str(&format!("ITEM {} INTERP {}\n", sname, interp_text(&s.attributes)));
            for (k, f) in s.fields.iter().enumerate() { text.push_str(&format!("ITEM {} FINTERP{} {}\n", sname, k, interp_text(&f.attributes))); }
            for (k, f) in s.fields.iter().enumerate() {
                let lts = std::panic::catch_unwind(|| difference::used_lifetimes_of(&f.ty)).map(|v| v.iter().map(|x| esc(x) + " ").collect::<String>()).unwrap_or_else(|_| "PANIC ".to_string());
                let lens = std::panic::catch_unwind(|| difference::array_lens_of(&f.ty)).map(|v| v.iter().map(|x| format!("[ {}] ", relex(x))).collect::<String>()).unwrap_or_else(|_| "PANIC ".to_string());
                // Type::wraps() and the type's own path: what the used-type-parameter tests of the struct derive compare generic names with
                let wr = std::panic::catch_unwind(|| f.ty.wraps()).map(|v| v.iter().map(|x| format!("[ {}] ", relex(x))).collect::<String>()).unwrap_or_else(|_| "PANIC ".to_string());
                let own = std::panic::catch_unwind(|| f.ty.ident.path(&f.ty, false)).map(|x| relex(&x)).unwrap_or_else(|_| "PANIC ".to_string());
                text.push_str(&format!("ITEM {} FUSED{} lifetimes=[ {}] array_lens=[ {}] wraps=[ {}] own=[ {}]\n", sname, k, lts, lens, wr, own));
            }
        }
        Ok(Data::Enum(e)) => text.push_str(&format!("ITEM {} PARSED {}\n", sname, enum_text(e))),
        Ok(_) => text.push_str(&format!("ITEM {} PARSED UNION\n", sname)),
    }
    if std::env::var("PD_HEADERS").is_ok() {
        if let Ok(d) = &parsed {
            text.push_str(&format!("ITEM {} HCFG dbg={} ns={} sd={} gs={}\n", sname, cfg!(feature = "debug_diffs") as u8, cfg!(feature = "nanoserde") as u8, cfg!(feature = "serde") as u8, cfg!(feature = "generated_setters") as u8));
            match std::panic::catch_unwind(|| difference::expand(d)) {
                Err(_) => text.push_str(&format!("ITEM {} HDRPANIC -\n", sname)),
                Ok(ts) => {
                    let mut hs = vec![];
                    let mut defs = vec![];
                    split_headers(ts.into_iter().collect(), &mut hs, &mut defs);
                    for (k, h) in hs.iter().enumerate() { let mut t = String::new(); tt_text(h, &mut t); text.push_str(&format!("ITEM {} HDR{} {}\n", sname, k, t)); }
                    text.push_str(&format!("ITEM {} HDRN {}\n", sname, hs.len()));
                    // the generated type definitions (coq/parse/ParseBody.v): enum bodies in order, then the aliases in order
                    for (tag, want) in [("BODY", "HDRBODY"), ("ALIAS", "HDRALIAS")] {
                        for (k, (_, d)) in defs.iter().filter(|(t, _)| *t == tag).enumerate() { let mut t = String::new(); tt_text(d, &mut t); text.push_str(&format!("ITEM {} {}{} {}\n", sname, want, k, t)); }
                    }
                    text.push_str(&format!("ITEM {} HDRDEFS {}\n", sname, defs.len()));
                }
            }
        }
    }
    match parsed {
        Err(_) => {
            text.push_str(&format!("STRUCT {} PARSE-PANIC\n", sname));
            for (name, ty) in &fields { let mut t = String::new(); tt_text(ty, &mut t); text.push_str(&format!("FIELD {}.{} TOKENS {}\nFIELD {}.{} TYPE PANIC\n", sname, name, t, sname, name)); }
        }
        Ok(Data::Struct(s)) => {
            text.push_str(&format!("STRUCT {} OK generics={:?}\n", sname, s.generics.iter().map(|g| g.full()).collect::<Vec<_>>()));
            for (name, ty) in &fields {
                let mut t = String::new(); tt_text(ty, &mut t);
                let field = s.fields.iter().find(|f| f.field_name.as_deref() == Some(name.as_str()));
                let parsed_ty = field.map(|f| ty_text(&f.ty)).unwrap_or_else(|| "MISSING".to_string());
                text.push_str(&format!("FIELD {}.{} TOKENS {}\nFIELD {}.{} TYPE {}\n", sname, name, t, sname, name, parsed_ty));
                // the printer: Type::full() as the templates splice it, lexed again the way rustc will
                let printed = match field {
                    None => "MISSING".to_string(),
                    Some(f) => match std::panic::catch_unwind(|| f.ty.full()) {
                        Err(_) => "PANIC".to_string(),
                        Ok(st) => match st.parse::<TokenStream>() {
                            Err(_) => format!("LEXERROR {}", st),
                            Ok(ts) => { let v: Vec<TokenTree> = ts.into_iter().collect(); let mut o = String::new(); tt_text(&v, &mut o); o }
                        },
                    },
                };
                text.push_str(&format!("FIELD {}.{} PRINT {}\n", sname, name, printed));
            }
        }
        Ok(_) => text.push_str(&format!("STRUCT {} NOT-A-STRUCT\n", sname)),
    }
    if let Ok(mut f) = std::fs::OpenOptions::new().create(true).append(true).open(&path) { let _ = f.write_all(text.as_bytes()); }
    TokenStream::new()
}
