(* Extraction of the instantiated rope / slot-array model (Inst/RopeInst.v). ExtrOcamlBasic only. *)
Require Import Extraction ExtrOcamlBasic.
Require Import S.Slots S.RopePhys Inst.RopeInst.
Extraction "rope_model.ml" x_new x_from x_step x_index x_len x_iter x_to_list
  s_new s_from s_insert s_remove s_swap s_drain s_extend s_index s_set s_to_list s_it_run slots cnt.
