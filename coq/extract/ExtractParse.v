Require Import Extraction ExtrOcamlBasic.
Require Import P.ParseModel P.ParsePrintModel.
Extraction "parse_model.ml" next_type pr.
