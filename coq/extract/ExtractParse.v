Require Import Extraction ExtrOcamlBasic.
Require Import P.ParseModel.
Extraction "parse_model.ml" next_type.
