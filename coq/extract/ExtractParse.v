Require Import Extraction ExtrOcamlBasic.
Require Import P.ParseModel P.ParsePrintModel P.ParseDecl.
Extraction "parse_model.ml" next_type pr parse_data.
