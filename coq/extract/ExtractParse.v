Require Import Extraction ExtrOcamlBasic.
Require Import P.ParseModel P.ParsePrintModel P.ParseDecl P.ParseInterp P.ParseUsed P.ParseHeader P.ParseBody G.DeclShape.
Extraction "parse_model.ml" next_type pr pr_cat parse_data attrs_skip attrs_recurse attrs_all_setters attrs_map_strategy attrs_collection_type attrs_setter attrs_expose used_lifetimes array_lens wraps_list headers type_defs shape_of.
