Require Import Extraction ExtrOcamlBasic.
Require Import U.UnordArr M.MapFlat Inst.UnordInst.
Extraction "unord_model.ml" ua_hashcmp ua_apply mf_hashcmp mf_apply.
