(* Extraction of the executable ordered-diff model, instantiated at Z elements and the constants
   translated from /repo. ExtrOcamlBasic only: bool option list prod unit sumbool -> OCaml's. *)
Require Import Extraction ExtrOcamlBasic.
From Coq Require Import List ZArith.
Require Import SD.ListOps SD.Ordered SD.OrderedAlloc Gen.ConstsOrdered.
Definition hirschberg_z (t s: list Z) := Ordered.hirschberg Z.eqb LEVENSHTEIN_CUTOFF DELETE_COST REPLACE_COST INSERT_COST t s 0%Z.
Definition levenshtein_z (t s: list Z) := Ordered.levenshtein Z.eqb DELETE_COST REPLACE_COST INSERT_COST t s 0%Z.
Definition apply_opt_z (l: list Z) (o: option (list (@Ordered.change Z))) := Ordered.apply_opt l o.
Definition hir_mem_z (t s: list Z) := hir_mem Z.eqb LEVENSHTEIN_CUTOFF DELETE_COST REPLACE_COST INSERT_COST (S (length t)) t s 0 (length t) 0 (length s).
Extraction "ordered_model.ml" hirschberg_z levenshtein_z apply_opt_z hir_mem_z.
