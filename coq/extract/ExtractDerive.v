Require Import Extraction ExtrOcamlBasic.
Require Import SD.Ordered U.UnordArr M.MapFlat R.MapRec R.DModel3 Inst.DeriveInst W.WireDerive Inst.WireDeriveInst.
Extraction "derive_model.ml" x_diff x_apply_single x_apply x_setter w_ser_es w_de_es w_erase.
