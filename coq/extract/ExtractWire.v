Require Import Extraction ExtrOcamlBasic.
From Coq Require Import ZArith.
Require Import W.Wire S.C08Exec Inst.WireInst.
Definition apply_script_z := @C08Exec.apply_script Z.
Definition x_exec_z := @x_exec Z.
Extraction "wire_model.ml" ns_ser_owned ns_ser_ref ns_de bc_ser bc_de apply_script_z x_exec_z to_exec.
