(* C14: round trip of the byte model of derived diffs, both formats: de (ser x ++ rest) = Some (x, rest) for every valid x. *)
From Coq Require Import List Arith ZArith NArith Lia Bool.
Import ListNotations.
Require Import SD.Ordered U.UnordArr M.MapFlat R.MapRec R.DModel3 W.Wire Inst.WireInst Inst.DeriveInst W.WireDerive.

(* ---- the element codec: i64, two's complement, little endian ---- *)
Lemma i64_ok : forall z rest, i64_valid z -> WireInst.de_i64 (WireInst.ser_i64 z ++ rest) = Some (z, rest).
Proof.
  intros z rest [Hlo Hhi]. unfold WireInst.de_i64, WireInst.ser_i64.
  assert (Hm: (0 <= z mod 2 ^ 64 < 2 ^ 64)%Z) by (apply Z.mod_pos_bound; lia).
  rewrite le_roundtrip by (change (256 ^ N.of_nat 8)%N with (Z.to_N (2 ^ 64)); apply Z2N.inj_lt; lia).
  f_equal. f_equal. destruct (Z.neg_nonneg_cases z) as [Hn|Hp].
  - assert (E: (z mod 2 ^ 64 = z + 2 ^ 64)%Z) by (symmetry; apply Z.mod_unique with (q := (-1)%Z); lia).
    rewrite E. destruct (N.ltb_spec (Z.to_N (z + 2 ^ 64)) (2 ^ 63)) as [H|H].
    + exfalso. apply N2Z.inj_lt in H. rewrite Z2N.id in H by lia. change (Z.of_N (2 ^ 63)) with (2 ^ 63)%Z in H. lia.
    + rewrite Z2N.id by lia. lia.
  - rewrite Z.mod_small by lia. destruct (N.ltb_spec (Z.to_N z) (2 ^ 63)) as [H|H].
    + apply Z2N.id. exact Hp.
    + exfalso. apply N2Z.inj_le in H. rewrite Z2N.id in H by lia. change (Z.of_N (2 ^ 63)) with (2 ^ 63)%Z in H. lia.
Qed.

Definition fits (w: nat) (n: nat) : Prop := (N.of_nat n < 256 ^ N.of_nat w)%N.
Definition tbl_ok (tbl: list nat) : Prop := NoDup tbl /\ Forall (fun d => fits 1 d) tbl.

(* a decoder/encoder pair obeys the prefix law on the values satisfying P *)
Notation rt P ser de := (forall x rest, P x -> de (ser x ++ rest) = Some (x, rest)).

Section P.
Variable F : fmt.
Variable T : tables.
Notation entry := DeriveInst.entry_t.


Lemma le_nat_rt w n rest : fits w n -> de_le w (ser_le w (N.of_nat n) ++ rest) = Some (N.of_nat n, rest).
Proof. intros H. apply le_roundtrip. exact H. Qed.
Lemma vtag_rt : rt (fits (tagw F)) (ser_vtag F) (de_vtag F).
Proof. intros n rest H. unfold de_vtag, ser_vtag. rewrite le_nat_rt by exact H. rewrite Nat2N.id. reflexivity. Qed.
Lemma len_rt : rt (fits 8) ser_len de_len.
Proof. intros n rest H. unfold de_len, ser_len. rewrite le_nat_rt by exact H. rewrite Nat2N.id. reflexivity. Qed.
Lemma u8n_rt : rt (fits 1) (fun n => ser_le 1 (N.of_nat n)) de_u8n.
Proof. intros n rest H. unfold de_u8n. rewrite le_nat_rt by exact H. rewrite Nat2N.id. reflexivity. Qed.

Lemma index_of_nth (tbl: list nat) : NoDup tbl -> forall pos i, pos < length tbl -> index_of (nth pos tbl 0) tbl i = Some (i + pos).
Proof.
  induction tbl as [|y tbl IH]; intros ND pos i Hp; [cbn in Hp; lia|]. inversion ND as [|? ? Hn ND']; subst.
  destruct pos as [|pos]; cbn [nth index_of].
  - rewrite Nat.eqb_refl. f_equal. lia.
  - cbn in Hp. destruct (Nat.eqb_spec (nth pos tbl 0) y) as [E|E].
    + exfalso. apply Hn. rewrite <- E. apply nth_In. lia.
    + rewrite IH by (assumption || lia). f_equal. lia.
Qed.
Lemma htag_rt (tbl: list nat) : tbl_ok tbl -> length tbl <= 255 -> rt (fun pos => pos < length tbl) (ser_htag F tbl) (de_htag F tbl).
Proof.
  intros [ND FT] HL pos rest Hp. unfold de_htag, ser_htag. destruct F.
  - rewrite le_nat_rt by (rewrite Forall_forall in FT; apply FT; apply nth_In; exact Hp).
    rewrite Nat2N.id, index_of_nth by assumption. reflexivity.
  - rewrite le_nat_rt by (unfold fits; cbn; lia). rewrite Nat2N.id. destruct (Nat.ltb_spec pos (length tbl)); [reflexivity|lia].
Qed.

Lemma pair_rt {A B} (PA: A -> Prop) (PB: B -> Prop) sa da sb db : rt PA sa da -> rt PB sb db -> rt (fun p => PA (fst p) /\ PB (snd p)) (ser_pair sa sb) (de_pair da db).
Proof. intros HA HB [x y] rest [Hx Hy]. unfold de_pair, ser_pair. cbn [fst snd]. rewrite <- app_assoc, HA by exact Hx. rewrite HB by exact Hy. reflexivity. Qed.
Lemma items_rt {A} (P: A -> Prop) ser (de: dec A) : rt P ser de -> forall l rest, Forall P l -> de_items de (length l) (flat_map ser l ++ rest) = Some (l, rest).
Proof. intros H. induction l as [|x l IH]; intros rest FA; cbn; [reflexivity|]. inversion FA; subst. rewrite <- app_assoc, H by assumption. rewrite IH by assumption. reflexivity. Qed.
Lemma list_rt {A} (P: A -> Prop) ser (de: dec A) : rt P ser de -> rt (fun l => fits 8 (length l) /\ Forall P l) (ser_list ser) (de_list de).
Proof. intros H l rest [HL FA]. unfold de_list, ser_list. rewrite <- app_assoc, len_rt by exact HL. apply (items_rt P ser de H); assumption. Qed.
Lemma opt_rt {A} (P: A -> Prop) ser (de: dec A) : rt P ser de -> rt (fun o => match o with Some x => P x | None => True end) (ser_option ser) (de_opt F de).
Proof.
  intros H o rest Ho. unfold de_opt. destruct o as [x|]; destruct F; cbn [ser_option de_option de_option_strict app]; try reflexivity;
  rewrite N.eqb_refl, H by exact Ho; reflexivity.
Qed.
Lemma i64_rt : rt i64_valid WireDerive.ser_i64 WireDerive.de_i64.
Proof. intros z rest H. apply i64_ok. exact H. Qed.

(* the harness enum: canonical atoms 0, 3n+1, 3x+2 *)
Definition en_valid (z: Z) : Prop := (z = 0 \/ (z mod 3 = 1 /\ i64_valid ((z - 1) / 3)) \/ (z mod 3 = 2 /\ i64_valid ((z - 2) / 3) /\ i64_valid ((z - 2) / 3 + 1)))%Z.
Lemma fits_tag n : n < 256 -> fits (tagw F) n.
Proof. intros H. unfold fits. destruct F; cbn; lia. Qed.
Lemma en_rt : rt en_valid (ser_en F) (de_en F).
Proof.
  intros z rest H. unfold ser_en, de_en. destruct H as [->|[[Hm Hv]|[Hm [Hv1 Hv2]]]].
  - cbn [Z.modulo]. change (0 mod 3)%Z with 0%Z. cbn iota. rewrite vtag_rt by (apply fits_tag; lia). reflexivity.
  - rewrite Hm. rewrite <- app_assoc, vtag_rt by (apply fits_tag; lia). rewrite i64_rt by exact Hv. f_equal. f_equal.
    pose proof (Z.div_mod z 3 ltac:(lia)). pose proof (Z.div_mod (z - 1) 3 ltac:(lia)).
    assert (E: ((z - 1) mod 3 = 0)%Z) by (rewrite Zminus_mod, Hm; reflexivity). lia.
  - rewrite Hm. rewrite <- !app_assoc, vtag_rt by (apply fits_tag; lia). rewrite i64_rt by exact Hv1. rewrite i64_rt by exact Hv2. f_equal. f_equal.
    pose proof (Z.div_mod (z - 2) 3 ltac:(lia)). assert (E: ((z - 2) mod 3 = 0)%Z) by (rewrite Zminus_mod, Hm; reflexivity). lia.
Qed.

(* ---- values ---- *)
Definition ok_plain (k: pk) (v: value) : Prop :=
  match k, v with
  | PInt, VAtom z => i64_valid z | POptInt, VNone => True | POptInt, VSome (VAtom z) => i64_valid z | PEn, VAtom z => en_valid z | _, _ => False
  end.
Definition ok_seq (v: value) : Prop := match v with VSeq l => fits 8 (length l) /\ Forall i64_valid l | _ => False end.
Definition ok_fmap (v: value) : Prop := match v with VFMap m => fits 8 (length m) /\ Forall (fun p => i64_valid (fst p) /\ i64_valid (snd p)) m | _ => False end.
Fixpoint ok_v (w: wshape) (v: value) {struct w} : Prop :=
  match w with
  | WEnum => match v with VAtom z => en_valid z | _ => False end
  | WStruct fs => match v with VStruct vs => ok_vs fs vs | _ => False end
  end
with ok_vs (fs: wfields) (vs: list value) {struct fs} : Prop :=
  match fs, vs with WNil, [] => True | WCons f r, v :: vs' => ok_vf f v /\ ok_vs r vs' | _, _ => False end
with ok_vf (f: wf) (v: value) {struct f} : Prop :=
  match f with
  | WPlain k => ok_plain k v | WSkipInt => ok_plain PInt v | WSkipOptInt => ok_plain POptInt v
  | WSkipSeq | WOrd | WUn => ok_seq v
  | WSkipStruct s | WRec s => ok_v s v
  | WRecOpt s => match v with VNone => True | VSome x => ok_v s x | _ => False end
  | WMap => ok_fmap v
  | WRMap _ s => match v with VRMap m => fits 8 (length m) /\ Forall (fun p => i64_valid (fst p) /\ ok_v s (snd p)) m | _ => False end
  end.

Lemma plain_rt k : rt (ok_plain k) (ser_plain F k) (de_plain F k).
Proof.
  intros v rest H. unfold ser_plain, de_plain. destruct k; destruct v as [z| |x| | | |]; cbn in H; try contradiction.
  - rewrite i64_rt by exact H. reflexivity.
  - pose proof (opt_rt i64_valid _ _ i64_rt None rest I) as E. rewrite E. reflexivity.
  - destruct x as [z| | | | | |]; try contradiction. pose proof (opt_rt i64_valid _ _ i64_rt (Some z) rest H) as E. rewrite E. reflexivity.
  - rewrite en_rt by exact H. reflexivity.
Qed.
Lemma seq_rt : rt ok_seq ser_seq (de_seq).
Proof. intros v rest H. destruct v; try contradiction. unfold ser_seq, de_seq. rewrite (list_rt i64_valid _ _ i64_rt) by exact H. reflexivity. Qed.
Lemma fmap_rt : rt ok_fmap ser_fmap de_fmap.
Proof.
  intros v rest H. destruct v; try contradiction. unfold ser_fmap, de_fmap.
  rewrite (list_rt _ _ _ (pair_rt i64_valid i64_valid _ _ _ _ i64_rt i64_rt)) by exact H. reflexivity.
Qed.

Scheme wshape_mind := Induction for wshape Sort Prop
with wfields_mind := Induction for wfields Sort Prop
with wf_mind := Induction for wf Sort Prop.
Combined Scheme wshape_all_ind from wshape_mind, wfields_mind, wf_mind.

Lemma de_vf_recopt s b : de_vf F (WRecOpt s) b = match de_opt F (de_v F s) b with Some (Some x, r) => Some (VSome x, r) | Some (None, r) => Some (VNone, r) | None => None end.
Proof. reflexivity. Qed.
Lemma ser_vf_recopt s v : ser_vf F (WRecOpt s) v = match v with VSome x => 1%N :: ser_v F s x | _ => [0%N] end.
Proof. reflexivity. Qed.
Lemma de_vf_rmap ko s b : de_vf F (WRMap ko s) b = match de_list (de_pair WireDerive.de_i64 (de_v F s)) b with Some (m, r) => Some (VRMap m, r) | None => None end.
Proof. reflexivity. Qed.
Lemma ser_vf_rmap ko s v : ser_vf F (WRMap ko s) v = match v with VRMap m => ser_len (length m) ++ flat_map (fun p => WireDerive.ser_i64 (fst p) ++ ser_v F s (snd p)) m | _ => [] end.
Proof. reflexivity. Qed.

Theorem value_roundtrip :
  (forall w, rt (ok_v w) (ser_v F w) (de_v F w)) /\
  (forall fs, rt (ok_vs fs) (ser_vs F fs) (de_vs F fs)) /\
  (forall f, rt (ok_vf f) (ser_vf F f) (de_vf F f)).
Proof.
  apply wshape_all_ind.
  - intros fs IH v rest H. destruct v; try contradiction. cbn [ser_v de_v ok_v] in *. rewrite IH by exact H. reflexivity.
  - intros v rest H. destruct v; try contradiction. cbn [ser_v de_v ok_v] in *. rewrite en_rt by exact H. reflexivity.
  - intros vs rest H. destruct vs; [reflexivity|contradiction].
  - intros f IHf fs IHfs vs rest H. destruct vs as [|v vs]; [contradiction|]. cbn [ser_vs de_vs ok_vs] in *. destruct H as [Hv Hvs].
    rewrite <- app_assoc, IHf by exact Hv. rewrite IHfs by exact Hvs. reflexivity.
  - intros k v rest H. apply plain_rt. exact H.
  - intros v rest H. apply (plain_rt PInt). exact H.
  - intros v rest H. apply (plain_rt POptInt). exact H.
  - intros v rest H. apply seq_rt. exact H.
  - intros s IH v rest H. apply IH. exact H.
  - intros s IH v rest H. apply IH. exact H.
  - intros s IH v rest H. rewrite de_vf_recopt, ser_vf_recopt. cbn [ok_vf] in H. destruct v as [| |x| | | |]; try contradiction.
    + pose proof (opt_rt (ok_v s) _ _ IH None rest I) as E. cbn [ser_option app] in E. cbn [app]. rewrite E. reflexivity.
    + pose proof (opt_rt (ok_v s) _ _ IH (Some x) rest H) as E. cbn [ser_option app] in E. cbn [app]. rewrite E. reflexivity.
  - intros v rest H. apply seq_rt. exact H.
  - intros v rest H. apply seq_rt. exact H.
  - intros v rest H. apply fmap_rt. exact H.
  - intros ko s IH v rest H. rewrite de_vf_rmap, ser_vf_rmap. cbn [ok_vf] in H. destruct v; try contradiction.
    pose proof (list_rt _ _ _ (pair_rt i64_valid (ok_v s) _ _ _ _ i64_rt IH) m rest H) as E. unfold ser_list, ser_pair in E. rewrite E. reflexivity.
Qed.

(* ---- side conditions on the translated discriminant tables (discharged by computation in Props/C14.v) ---- *)
Hypothesis H_ord : NoDup [dn (t_ord T) 0; dn (t_ord T) 1; dn (t_ord T) 2; dn (t_ord T) 3] /\ Forall (fun d => (d < 256 ^ N.of_nat 1)%N) [dn (t_ord T) 0; dn (t_ord T) 1; dn (t_ord T) 2; dn (t_ord T) 3].
Hypothesis H_uac : tbl_ok (t_ua_change T) /\ length (t_ua_change T) = 6.
Hypothesis H_uad : tbl_ok (t_ua_diff T) /\ length (t_ua_diff T) = 2.
Hypothesis H_mfc : tbl_ok (t_mf_change T) /\ length (t_mf_change T) = 4.
Hypothesis H_mfd : tbl_ok (t_mf_diff T) /\ length (t_mf_diff T) = 2.
Hypothesis H_rmc : tbl_ok (t_rm_change T) /\ length (t_rm_change T) = 3.
Hypothesis H_rmd : tbl_ok (t_rm_diff T) /\ length (t_rm_diff T) = 2.

(* ---- ordered script ---- *)
Definition ok_script (s: list (@Ordered.change Z)) : Prop := fits 8 (length s) /\ Forall (fun c => @Wire.change_ok Z i64_valid (to_wire c)) s.
Lemma of_to_wire c : of_wire (to_wire c) = c.
Proof. destruct c as [v i|v i|i [r|]|a b]; cbn; unfold n2N; rewrite ?Nat2N.id; reflexivity. Qed.
Lemma script_rt : rt ok_script (ser_script F T) (de_script F T).
Proof.
  intros s rest [HL FA]. unfold ser_script, de_script, WireDerive.ser_i64, WireDerive.de_i64.
  assert (FA': Forall (@Wire.change_ok Z i64_valid) (map to_wire s)) by (apply Forall_map; exact FA).
  assert (HL': usize_ok (N.of_nat (length (map to_wire s)))) by (rewrite map_length; exact HL).
  assert (M: map of_wire (map to_wire s) = s) by (rewrite map_map; rewrite <- (map_id s) at 2; apply map_ext; apply of_to_wire).
  destruct F.
  - rewrite (@script_codec_roundtrip Z WireInst.ser_i64 WireInst.de_i64 i64_valid i64_ok 1 false _ _ _ _ (proj1 H_ord) (proj2 H_ord) (map to_wire s) rest FA' HL'). rewrite M. reflexivity.
  - rewrite (@script_codec_roundtrip Z WireInst.ser_i64 WireInst.de_i64 i64_valid i64_ok 4 true 0%N 1%N 2%N 3%N
               ltac:(repeat constructor; cbn; intuition discriminate) ltac:(repeat constructor) (map to_wire s) rest FA' HL'). rewrite M. reflexivity.
Qed.

(* ---- unordered array ---- *)
Definition ok_ua_change (c: @UnordArr.change Z) : Prop :=
  match c with
  | UnordArr.InsertMany k n | UnordArr.RemoveMany k n => i64_valid k /\ fits 8 n
  | UnordArr.InsertFew k n | UnordArr.RemoveFew k n => i64_valid k /\ fits 1 n
  | UnordArr.InsertSingle k | UnordArr.RemoveSingle k => i64_valid k
  end.
Definition ok_ua (d: @UnordArr.udiff Z) : Prop :=
  match d with UnordArr.Replace xs => fits 8 (length xs) /\ Forall i64_valid xs | UnordArr.Modify cs => fits 8 (length cs) /\ Forall ok_ua_change cs end.
Ltac pr L := let E := fresh "E" in pose proof L as E; unfold ser_pair in E; cbn [fst snd] in E; rewrite <- ?app_assoc in E; rewrite E; clear E.
Ltac htag tbl H := rewrite <- ?app_assoc; rewrite (htag_rt tbl (proj1 H) ltac:(rewrite (proj2 H); lia)) by (rewrite (proj2 H); lia).
Lemma ua_change_rt : rt ok_ua_change (ser_ua_change F T) (de_ua_change F T).
Proof.
  intros c rest H. unfold ser_ua_change, de_ua_change. destruct c as [k n|k n|k n|k n|k|k]; cbn [ok_ua_change] in H; htag (t_ua_change T) H_uac.
  - pr (pair_rt i64_valid (fits 8) _ _ _ _ i64_rt len_rt (k, n) rest H). reflexivity.
  - pr (pair_rt i64_valid (fits 8) _ _ _ _ i64_rt len_rt (k, n) rest H). reflexivity.
  - pr (pair_rt i64_valid (fits 1) _ _ _ _ i64_rt u8n_rt (k, n) rest H). reflexivity.
  - pr (pair_rt i64_valid (fits 1) _ _ _ _ i64_rt u8n_rt (k, n) rest H). reflexivity.
  - rewrite i64_rt by exact H. reflexivity.
  - rewrite i64_rt by exact H. reflexivity.
Qed.
Lemma ua_rt : rt ok_ua (ser_ua F T) (de_ua F T).
Proof.
  intros d rest H. unfold ser_ua, de_ua. destruct d as [xs|cs]; cbn [ok_ua] in H; htag (t_ua_diff T) H_uad.
  - rewrite (list_rt i64_valid _ _ i64_rt) by exact H. reflexivity.
  - rewrite (list_rt ok_ua_change _ _ ua_change_rt) by exact H. reflexivity.
Qed.
(* ---- flat map ---- *)
Definition ok_mf_change (c: @MapFlat.mchange Z Z) : Prop :=
  match c with
  | MapFlat.InsertMany k v n => i64_valid k /\ i64_valid v /\ fits 8 n | MapFlat.RemoveMany k n => i64_valid k /\ fits 8 n
  | MapFlat.InsertSingle k v => i64_valid k /\ i64_valid v | MapFlat.RemoveSingle k => i64_valid k
  end.
Definition ok_mf (d: @MapFlat.mdiff Z Z) : Prop :=
  match d with
  | MapFlat.Replace xs => fits 8 (length xs) /\ Forall (fun p => i64_valid (fst p) /\ i64_valid (snd p)) xs
  | MapFlat.Modify cs => fits 8 (length cs) /\ Forall ok_mf_change cs
  end.
Lemma mf_change_rt : rt ok_mf_change (ser_mf_change F T) (de_mf_change F T).
Proof.
  intros c rest H. unfold ser_mf_change, de_mf_change. destruct c as [k v n|k n|k v|k]; cbn [ok_mf_change] in H; htag (t_mf_change T) H_mfc.
  - pose proof (pair_rt i64_valid (fun p => i64_valid (fst p) /\ fits 8 (snd p)) _ _ _ _ i64_rt (pair_rt i64_valid (fits 8) _ _ _ _ i64_rt len_rt) (k, (v, n)) rest) as E.
    unfold ser_pair in E. cbn [fst snd] in E. rewrite <- !app_assoc in E. rewrite E by tauto. reflexivity.
  - pr (pair_rt i64_valid (fits 8) _ _ _ _ i64_rt len_rt (k, n) rest H). reflexivity.
  - pr (pair_rt i64_valid i64_valid _ _ _ _ i64_rt i64_rt (k, v) rest H). reflexivity.
  - rewrite i64_rt by exact H. reflexivity.
Qed.
Lemma mf_rt : rt ok_mf (ser_mf F T) (de_mf F T).
Proof.
  intros d rest H. unfold ser_mf, de_mf. destruct d as [xs|cs]; cbn [ok_mf] in H; htag (t_mf_diff T) H_mfd.
  - rewrite (list_rt _ _ _ (pair_rt i64_valid i64_valid _ _ _ _ i64_rt i64_rt)) by exact H. reflexivity.
  - rewrite (list_rt ok_mf_change _ _ mf_change_rt) by exact H. reflexivity.
Qed.

(* ---- entries ---- *)
Definition ok_rm_change (s: wshape) (ok_sub: list entry -> Prop) (c: mrchange Z value (list entry)) : Prop :=
  match c with MRInsert k v => i64_valid k /\ ok_v s v | MRRemove k => i64_valid k | MRChange k dd => i64_valid k /\ ok_sub dd end.
Fixpoint ok_es (w: wshape) (es: list entry) {struct w} : Prop :=
  match w with
  | WEnum => fits 8 (length es) /\ Forall (fun e => match e with EEnumReplace _ _ _ (VAtom z) => en_valid z | _ => False end) es
  | WStruct fs => fits 8 (length es) /\ Forall (ok_in fs 0 0) es
  end
with ok_in (fs: wfields) (i base: nat) (e: entry) {struct fs} : Prop :=
  match fs with
  | WNil => False
  | WCons f r => if hit e i then ok_payload base f e else ok_in r (S i) (base + nvars f) e
  end
with ok_payload (base: nat) (f: wf) (e: entry) {struct f} : Prop :=
  fits (tagw F) (S base) /\
  match f, e with
  | WPlain k, EPlain _ _ _ _ v => ok_plain k v
  | WRec s, ERec _ _ _ _ d => ok_es s d
  | WRecOpt s, ERecOpt _ _ _ _ None => True
  | WRecOpt s, ERecOpt _ _ _ _ (Some d) => ok_es s d
  | WRecOpt s, ERecOptFull _ _ _ _ v => ok_v s v
  | WOrd, EOrdered _ _ _ _ d => ok_script d
  | WUn, EUnordArr _ _ _ _ d => ok_ua d
  | WMap, EMapFlat _ _ _ _ d => ok_mf d
  | WRMap _ s, EMapRec _ _ _ _ d =>
      match d with
      | MRReplace l => fits 8 (length l) /\ Forall (fun p => i64_valid (fst p) /\ ok_v s (snd p)) l
      | MRModify cs => fits 8 (length cs) /\ Forall (ok_rm_change s (ok_es s)) cs
      end
  | _, _ => False
  end.

(* unfolding lemmas (cbn on these mutual fixpoints exposes raw `fix` terms) *)
Lemma ser_es_struct fs es : ser_es F T (WStruct fs) es = ser_len (length es) ++ flat_map (ser_in F T fs 0 0) es.  Proof. reflexivity. Qed.
Lemma de_es_struct fs : de_es F T (WStruct fs) = de_list (fun b => match de_vtag F b with Some (k, r) => de_in F T fs 0 k r | None => None end).  Proof. reflexivity. Qed.
Lemma ser_in_cons f r i base e : ser_in F T (WCons f r) i base e = if hit e i then ser_payload F T base i f e else ser_in F T r (S i) (base + nvars f) e.  Proof. reflexivity. Qed.
Lemma de_in_cons f r i k : de_in F T (WCons f r) i k =
  match nvars f with
  | 0 => de_in F T r (S i) k
  | 1 => match k with 0 => de_payload F T i f false | S k' => de_in F T r (S i) k' end
  | _ => match k with 0 => de_payload F T i f false | 1 => de_payload F T i f true | S (S k') => de_in F T r (S i) k' end
  end.
Proof. reflexivity. Qed.
Lemma ok_in_cons f r i base e : ok_in (WCons f r) i base e = if hit e i then ok_payload base f e else ok_in r (S i) (base + nvars f) e.  Proof. reflexivity. Qed.
Lemma de_payload_rec i s full b : de_payload F T i (WRec s) full b = match de_es F T s b with Some (d, r) => Some (ERec _ _ _ i d, r) | None => None end.  Proof. reflexivity. Qed.
Lemma de_payload_recopt i s full b : de_payload F T i (WRecOpt s) full b =
  if full then match de_v F s b with Some (v, r) => Some (ERecOptFull _ _ _ i v, r) | None => None end
  else match de_opt F (de_es F T s) b with Some (o, r) => Some (ERecOpt _ _ _ i o, r) | None => None end.
Proof. reflexivity. Qed.
Definition de_rm_change (s: wshape) : dec (mrchange Z value (list entry)) := fun b1 =>
  match de_htag F (t_rm_change T) b1 with
  | Some (0, r1) => match de_pair WireDerive.de_i64 (de_v F s) r1 with Some ((k, v), r2) => Some (MRInsert k v, r2) | None => None end
  | Some (1, r1) => match WireDerive.de_i64 r1 with Some (k, r2) => Some (MRRemove k, r2) | None => None end
  | Some (2, r1) => match de_pair WireDerive.de_i64 (de_es F T s) r1 with Some ((k, dd), r2) => Some (MRChange k dd, r2) | None => None end
  | _ => None
  end.
Lemma de_payload_rmap i ko s full b : de_payload F T i (WRMap ko s) full b =
  match de_htag F (t_rm_diff T) b with
  | Some (0, r) => match de_list (de_pair WireDerive.de_i64 (de_v F s)) r with Some (l, r2) => Some (EMapRec _ _ _ i (MRReplace l), r2) | None => None end
  | Some (1, r) => match de_list (de_rm_change s) r with Some (cs, r2) => Some (EMapRec _ _ _ i (MRModify cs), r2) | None => None end
  | _ => None
  end.
Proof. reflexivity. Qed.
Definition ser_rm_change (s: wshape) (c: mrchange Z value (list entry)) : bytes :=
  match c with
  | MRInsert k v => ser_htag F (t_rm_change T) 0 ++ WireDerive.ser_i64 k ++ ser_v F s v
  | MRRemove k => ser_htag F (t_rm_change T) 1 ++ WireDerive.ser_i64 k
  | MRChange k dd => ser_htag F (t_rm_change T) 2 ++ WireDerive.ser_i64 k ++ ser_es F T s dd
  end.
Lemma ser_payload_rmap base i ko s j d : ser_payload F T base i (WRMap ko s) (EMapRec _ _ _ j d) =
  ser_vtag F base ++ match d with
                     | MRReplace l => ser_htag F (t_rm_diff T) 0 ++ ser_len (length l) ++ flat_map (fun p => WireDerive.ser_i64 (fst p) ++ ser_v F s (snd p)) l
                     | MRModify cs => ser_htag F (t_rm_diff T) 1 ++ ser_len (length cs) ++ flat_map (ser_rm_change s) cs
                     end.
Proof. reflexivity. Qed.
Lemma ser_payload_rec base i s j d : ser_payload F T base i (WRec s) (ERec _ _ _ j d) = ser_vtag F base ++ ser_es F T s d.  Proof. reflexivity. Qed.
Lemma ser_payload_recopt_some base i s j d : ser_payload F T base i (WRecOpt s) (ERecOpt _ _ _ j (Some d)) = ser_vtag F base ++ 1%N :: ser_es F T s d.  Proof. reflexivity. Qed.
Lemma ser_payload_recopt_full base i s j v : ser_payload F T base i (WRecOpt s) (ERecOptFull _ _ _ j v) = ser_vtag F (S base) ++ ser_v F s v.  Proof. reflexivity. Qed.

Lemma hit_index (e: entry) i : hit e i = true -> ent_field e = Some i.
Proof. unfold hit. destruct (ent_field e) as [j|]; [|discriminate]. intros H. apply Nat.eqb_eq in H. congruence. Qed.
Lemma fits_S w n : fits w (S n) -> fits w n.
Proof. unfold fits. lia. Qed.

Lemma ok_payload_fits base f e : ok_payload base f e -> fits (tagw F) (S base).
Proof. destruct f; intros [H _]; exact H. Qed.

(* one entry: the emitted variant tag is base + k with k < nvars f, and the decoder positioned at this field with k rebuilds the entry *)
Definition payload_spec (f: wf) : Prop := forall base i e rest, ok_payload base f e -> hit e i = true ->
  exists k body, k < nvars f /\ ser_payload F T base i f e = ser_vtag F (base + k) ++ body /\
                 (match nvars f with 2 => match k with 0 => de_payload F T i f false | _ => de_payload F T i f true end | _ => de_payload F T i f false end) (body ++ rest) = Some (e, rest).
Definition in_spec (fs: wfields) : Prop := forall i base e rest, ok_in fs i base e ->
  exists k body, fits (tagw F) (base + k) /\ ser_in F T fs i base e = ser_vtag F (base + k) ++ body /\ de_in F T fs i k (body ++ rest) = Some (e, rest).

Theorem entries_roundtrip_all :
  (forall w, rt (ok_es w) (ser_es F T w) (de_es F T w)) /\ (forall fs, in_spec fs) /\ (forall f, payload_spec f).
Proof.
  apply wshape_all_ind; unfold payload_spec, in_spec.
  - (* WStruct *) intros fs IH es rest [HL FA]. rewrite ser_es_struct, de_es_struct.
    apply (list_rt (ok_in fs 0 0) (ser_in F T fs 0 0) _); [|split; assumption].
    intros e r Hok. destruct (IH 0 0 e r Hok) as (k & body & Hf & Hs & Hd). rewrite Hs, <- app_assoc, vtag_rt by exact Hf. exact Hd.
  - (* WEnum *) intros es rest [HL FA]. cbn [ser_es de_es].
    apply (list_rt (fun e => match e with EEnumReplace _ _ _ (VAtom z) => en_valid z | _ => False end) _ _); [|split; assumption].
    intros e r He. destruct e; try contradiction. destruct v; try contradiction.
    rewrite <- app_assoc, vtag_rt by (apply fits_tag; lia). rewrite en_rt by exact He. reflexivity.
  - (* WNil *) intros i base e rest H. contradiction.
  - (* WCons *) intros f IHf fs IHfs i base e rest H. rewrite ok_in_cons in H. rewrite ser_in_cons. destruct (hit e i) eqn:Hh.
    + destruct (IHf base i e rest H Hh) as (k & body & Hk & Hs & Hd). exists k, body. pose proof (ok_payload_fits _ _ _ H) as Hfit.
      assert (Hn2: nvars f <= 2) by (destruct f; cbn; lia).
      split; [unfold fits in *; lia|]. split; [exact Hs|]. rewrite de_in_cons.
      destruct (nvars f) as [|[|[|n]]] eqn:En; try lia.
      * destruct k; [exact Hd|lia].
      * destruct k as [|[|k]]; [exact Hd|exact Hd|lia].
    + destruct (IHfs (S i) (base + nvars f) e rest H) as (k & body & Hfit & Hs & Hd).
      exists (nvars f + k), body. rewrite Nat.add_assoc. split; [exact Hfit|]. split; [exact Hs|]. rewrite de_in_cons.
      destruct (nvars f) as [|[|[|n]]] eqn:En; cbn [Nat.add]; try exact Hd. exfalso. destruct f; cbn in En; lia.
  - (* WPlain *) intros k base i e rest [Hfit H] Hh. destruct e; try contradiction. apply hit_index in Hh. cbn in Hh. injection Hh as ->.
    exists 0, (ser_plain F k v). rewrite Nat.add_0_r. split; [cbn; lia|]. split; [reflexivity|]. cbn [nvars de_payload]. rewrite plain_rt by exact H. reflexivity.
  - intros base i e rest [_ H] _. destruct e; contradiction.
  - intros base i e rest [_ H] _. destruct e; contradiction.
  - intros base i e rest [_ H] _. destruct e; contradiction.
  - intros s _ base i e rest [_ H] _. destruct e; contradiction.
  - (* WRec *) intros s IH base i e rest [Hfit H] Hh. destruct e; try contradiction. apply hit_index in Hh. cbn in Hh. injection Hh as ->.
    exists 0, (ser_es F T s d). rewrite Nat.add_0_r. split; [cbn; lia|]. split; [apply ser_payload_rec|]. cbn [nvars]. rewrite de_payload_rec, IH by exact H. reflexivity.
  - (* WRecOpt *) intros s IH base i e rest [Hfit H] Hh. destruct e; try contradiction; apply hit_index in Hh; cbn in Hh; injection Hh as ->.
    + destruct d as [d|].
      * exists 0, (1%N :: ser_es F T s d). rewrite Nat.add_0_r. split; [cbn; lia|]. split; [apply ser_payload_recopt_some|]. cbn [nvars]. rewrite de_payload_recopt.
        pose proof (opt_rt (ok_es s) _ _ IH (Some d) rest H) as E. cbn [ser_option app] in E. cbn [app]. rewrite E. reflexivity.
      * exists 0, [0%N]. rewrite Nat.add_0_r. split; [cbn; lia|]. split; [reflexivity|]. cbn [nvars]. rewrite de_payload_recopt.
        pose proof (opt_rt (ok_es s) _ _ IH None rest I) as E. cbn [ser_option app] in E. cbn [app]. rewrite E. reflexivity.
    + exists 1, (ser_v F s v). replace (base + 1) with (S base) by lia. split; [cbn; lia|]. split; [apply ser_payload_recopt_full|]. cbn [nvars]. rewrite de_payload_recopt.
      rewrite (proj1 value_roundtrip s v rest H). reflexivity.
  - (* WOrd *) intros base i e rest [Hfit H] Hh. destruct e; try contradiction. apply hit_index in Hh. cbn in Hh. injection Hh as ->.
    exists 0, (ser_script F T d). rewrite Nat.add_0_r. split; [cbn; lia|]. split; [reflexivity|]. cbn [nvars de_payload]. rewrite script_rt by exact H. reflexivity.
  - (* WUn *) intros base i e rest [Hfit H] Hh. destruct e; try contradiction. apply hit_index in Hh. cbn in Hh. injection Hh as ->.
    exists 0, (ser_ua F T d). rewrite Nat.add_0_r. split; [cbn; lia|]. split; [reflexivity|]. cbn [nvars de_payload]. rewrite ua_rt by exact H. reflexivity.
  - (* WMap *) intros base i e rest [Hfit H] Hh. destruct e; try contradiction. apply hit_index in Hh. cbn in Hh. injection Hh as ->.
    exists 0, (ser_mf F T d). rewrite Nat.add_0_r. split; [cbn; lia|]. split; [reflexivity|]. cbn [nvars de_payload]. rewrite mf_rt by exact H. reflexivity.
  - (* WRMap *) intros ko s IH base i e rest [Hfit H] Hh. destruct e; try contradiction. apply hit_index in Hh. cbn in Hh. injection Hh as ->.
    eexists 0, _. rewrite Nat.add_0_r. split; [cbn; lia|]. split; [apply ser_payload_rmap|]. cbn [nvars]. rewrite de_payload_rmap.
    destruct d as [l|cs].
    + htag (t_rm_diff T) H_rmd.
      pose proof (list_rt _ _ _ (pair_rt i64_valid (ok_v s) _ _ _ _ i64_rt (proj1 value_roundtrip s)) l rest H) as E. unfold ser_list, ser_pair in E.
      rewrite <- app_assoc in E. rewrite E. reflexivity.
    + htag (t_rm_diff T) H_rmd.
      assert (C: rt (ok_rm_change s (ok_es s)) (ser_rm_change s) (de_rm_change s)).
      { intros c r Hc. unfold ser_rm_change, de_rm_change. destruct c as [k v|k|k dd]; cbn [ok_rm_change] in Hc; htag (t_rm_change T) H_rmc.
        - pr (pair_rt i64_valid (ok_v s) _ _ _ _ i64_rt (proj1 value_roundtrip s) (k, v) r Hc). reflexivity.
        - rewrite i64_rt by exact Hc. reflexivity.
        - pr (pair_rt i64_valid (ok_es s) _ _ _ _ i64_rt IH (k, dd) r Hc). reflexivity. }
      pose proof (list_rt _ _ _ C cs rest H) as E. unfold ser_list in E. rewrite <- app_assoc in E. rewrite E. reflexivity.
Qed.
End P.

