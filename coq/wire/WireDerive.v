(* C14: byte-level model of both wire formats for the diffs of derived types.
   fmt = NS : nanoserde binary (derive: u16 variant index, fields in order; the hand-written impls of the collection diffs with their u8 discriminants;
              lenient Option tag on decode)
   fmt = BC : bincode 1.3 fixint little-endian of the serde derives (u32 variant index in declaration order; strict Option tag).
   Everything else is common: u64 lengths, 8-byte little-endian integers, struct fields in declaration order.
   The model needs more of a type than the diff semantics does (which plain fields are i64 / Option<i64> / the enum, what type a skipped field has,
   because values of nested structs travel in `f_full` entries and in recursive-map insertions): the wire shape `wshape`, erased to `shape`. *)
From Coq Require Import List Arith ZArith NArith Lia Bool.
Import ListNotations.
Require Import SD.Ordered U.UnordArr M.MapFlat R.MapRec R.DModel3 W.Wire Inst.WireInst Inst.DeriveInst.

Inductive fmt := NS | BC.
Inductive pk := PInt | POptInt | PEn.
Inductive wshape := WStruct (fs: wfields) | WEnum
with wfields := WNil | WCons (f: wf) (fs: wfields)
with wf :=
  | WPlain (k: pk) | WSkipInt | WSkipOptInt | WSkipSeq | WSkipStruct (s: wshape)
  | WRec (s: wshape) | WRecOpt (s: wshape) | WOrd | WUn | WMap | WRMap (ko: bool) (s: wshape).

Fixpoint erase (w: wshape) : shape :=
  match w with WStruct fs => SStruct (erase_fs fs) | WEnum => SEnum end
with erase_fs (fs: wfields) : fields :=
  match fs with WNil => FNil | WCons f r => FCons (erase_f f) (erase_fs r) end
with erase_f (f: wf) : fstrat :=
  match f with
  | WPlain _ => FPlain | WSkipInt | WSkipOptInt | WSkipSeq | WSkipStruct _ => FSkip
  | WRec s => FRecurse (erase s) | WRecOpt s => FRecurseOpt (erase s) | WOrd => FOrdered | WUn => FUnordArr | WMap => FMapFlat
  | WRMap ko s => FMapRec ko (erase s)
  end.

(* discriminants of the hand-written nanoserde impls, as translated from /repo (one table per enum; the translator checks that every ser_bin and de_bin
   impl uses the same literal for a variant) *)
Record tables := {
  t_ord : list nat;       (* Replace Insert Delete Swap *)
  t_ua_change : list nat; (* InsertMany RemoveMany InsertFew RemoveFew InsertSingle RemoveSingle *)
  t_ua_diff : list nat;   (* Replace Modify *)
  t_mf_change : list nat; (* InsertMany RemoveMany InsertSingle RemoveSingle *)
  t_mf_diff : list nat;
  t_rm_change : list nat; (* Insert Remove Change *)
  t_rm_diff : list nat }.

Section Codec.
Variable F : fmt.
Variable T : tables.
Notation entry := DeriveInst.entry_t.

(* ---- primitives ---- *)
Definition tagw : nat := match F with NS => 2 | BC => 4 end.                 (* variant index of a DERIVED enum *)
Definition ser_vtag (n: nat) : bytes := ser_le tagw (N.of_nat n).
Definition de_vtag : dec nat := fun b => match de_le tagw b with Some (n, r) => Some (N.to_nat n, r) | None => None end.
(* discriminant of a hand-written impl (NS: u8 from the table) or of the serde derive of the same enum (BC: u32 = position) *)
Definition ser_htag (tbl: list nat) (pos: nat) : bytes :=
  match F with NS => ser_le 1 (N.of_nat (nth pos tbl 0)) | BC => ser_le 4 (N.of_nat pos) end.
Fixpoint index_of (x: nat) (l: list nat) (i: nat) : option nat :=
  match l with [] => None | y :: r => if x =? y then Some i else index_of x r (S i) end.
Definition de_htag (tbl: list nat) : dec nat := fun b =>
  match F with
  | NS => match de_le 1 b with Some (n, r) => match index_of (N.to_nat n) tbl 0 with Some p => Some (p, r) | None => None end | None => None end
  | BC => match de_le 4 b with Some (n, r) => if N.to_nat n <? length tbl then Some (N.to_nat n, r) else None | None => None end
  end.
Definition ser_i64 := WireInst.ser_i64.
Definition de_i64 := WireInst.de_i64.
Definition ser_len (n: nat) : bytes := ser_le 8 (N.of_nat n).
Definition de_len : dec nat := fun b => match de_le 8 b with Some (n, r) => Some (N.to_nat n, r) | None => None end.
Definition de_opt {A} (de: dec A) : dec (option A) := match F with NS => de_option de | BC => de_option_strict de end.
Definition ser_list {A} (ser: A -> bytes) (l: list A) : bytes := ser_len (length l) ++ flat_map ser l.
Definition de_list {A} (de: dec A) : dec (list A) := fun b => match de_len b with Some (n, r) => de_items de n r | None => None end.
Definition ser_pair {A B} (sa: A -> bytes) (sb: B -> bytes) (p: A * B) : bytes := sa (fst p) ++ sb (snd p).
Definition de_pair {A B} (da: dec A) (db: dec B) : dec (A * B) := fun b =>
  match da b with Some (x, r) => match db r with Some (y, r2) => Some ((x, y), r2) | None => None end | None => None end.

(* the plain enum `En { A, B(i64), C { x: i64, y: i64 } }` of the harness, one value encoded as 0 / 3n+1 / 3x+2 (with y = x+1) *)
Definition ser_en (z: Z) : bytes :=
  match (z mod 3)%Z with
  | 0%Z => ser_vtag 0
  | 1%Z => ser_vtag 1 ++ ser_i64 ((z - 1) / 3)
  | _ => ser_vtag 2 ++ ser_i64 ((z - 2) / 3) ++ ser_i64 ((z - 2) / 3 + 1)
  end.
Definition de_en : dec Z := fun b =>
  match de_vtag b with
  | Some (0, r) => Some (0%Z, r)
  | Some (1, r) => match de_i64 r with Some (n, r2) => Some ((3 * n + 1)%Z, r2) | None => None end
  | Some (2, r) => match de_i64 r with Some (x, r2) => match de_i64 r2 with Some (_, r3) => Some ((3 * x + 2)%Z, r3) | None => None end | None => None end
  | _ => None
  end.

(* ---- values (a nested struct inside `f_full`, a recursive-map insertion or replacement) ---- *)
Definition ser_plain (k: pk) (v: value) : bytes :=
  match k, v with
  | PInt, VAtom z => ser_i64 z
  | POptInt, VNone => ser_option ser_i64 None
  | POptInt, VSome (VAtom z) => ser_option ser_i64 (Some z)
  | PEn, VAtom z => ser_en z
  | _, _ => []
  end.
Definition de_plain (k: pk) : dec value := fun b =>
  match k with
  | PInt => match de_i64 b with Some (z, r) => Some (VAtom z, r) | None => None end
  | POptInt => match de_opt de_i64 b with Some (Some z, r) => Some (VSome (VAtom z), r) | Some (None, r) => Some (VNone, r) | None => None end
  | PEn => match de_en b with Some (z, r) => Some (VAtom z, r) | None => None end
  end.
Definition ser_seq (v: value) : bytes := match v with VSeq l => ser_list ser_i64 l | _ => [] end.
Definition de_seq : dec value := fun b => match de_list de_i64 b with Some (l, r) => Some (VSeq l, r) | None => None end.
Definition ser_fmap (v: value) : bytes := match v with VFMap m => ser_list (ser_pair ser_i64 ser_i64) m | _ => [] end.
Definition de_fmap : dec value := fun b => match de_list (de_pair de_i64 de_i64) b with Some (m, r) => Some (VFMap m, r) | None => None end.

Fixpoint ser_v (w: wshape) (v: value) {struct w} : bytes :=
  match w with
  | WEnum => match v with VAtom z => ser_en z | _ => [] end
  | WStruct fs => match v with VStruct vs => ser_vs fs vs | _ => [] end
  end
with ser_vs (fs: wfields) (vs: list value) {struct fs} : bytes :=
  match fs, vs with WCons f r, v :: vs' => ser_vf f v ++ ser_vs r vs' | _, _ => [] end
with ser_vf (f: wf) (v: value) {struct f} : bytes :=
  match f with
  | WPlain k => ser_plain k v
  | WSkipInt => ser_plain PInt v | WSkipOptInt => ser_plain POptInt v | WSkipSeq | WOrd | WUn => ser_seq v
  | WSkipStruct s | WRec s => ser_v s v
  | WRecOpt s => match v with VSome x => 1%N :: ser_v s x | _ => [0%N] end
  | WMap => ser_fmap v
  | WRMap _ s => match v with VRMap m => ser_len (length m) ++ flat_map (fun p => ser_i64 (fst p) ++ ser_v s (snd p)) m | _ => [] end
  end.

Fixpoint de_v (w: wshape) {struct w} : dec value :=
  match w with
  | WEnum => fun b => match de_en b with Some (z, r) => Some (VAtom z, r) | None => None end
  | WStruct fs => fun b => match de_vs fs b with Some (vs, r) => Some (VStruct vs, r) | None => None end
  end
with de_vs (fs: wfields) {struct fs} : dec (list value) :=
  match fs with
  | WNil => fun b => Some ([], b)
  | WCons f r => fun b => match de_vf f b with Some (v, r1) => match de_vs r r1 with Some (vs, r2) => Some (v :: vs, r2) | None => None end | None => None end
  end
with de_vf (f: wf) {struct f} : dec value :=
  match f with
  | WPlain k => de_plain k
  | WSkipInt => de_plain PInt | WSkipOptInt => de_plain POptInt | WSkipSeq | WOrd | WUn => de_seq
  | WSkipStruct s | WRec s => de_v s
  | WRecOpt s => fun b => match de_opt (de_v s) b with Some (Some x, r) => Some (VSome x, r) | Some (None, r) => Some (VNone, r) | None => None end
  | WMap => de_fmap
  | WRMap _ s => fun b => match de_list (de_pair de_i64 (de_v s)) b with Some (m, r) => Some (VRMap m, r) | None => None end
  end.

(* ---- collection diffs ---- *)
Definition n2N (n: nat) : N := N.of_nat n.
Definition to_wire (c: @Ordered.change Z) : @Wire.change Z :=
  match c with
  | Ordered.CReplace v i => Wire.CReplace v (n2N i) | Ordered.CInsert v i => Wire.CInsert v (n2N i)
  | Ordered.CDelete i r => Wire.CDelete (n2N i) (option_map n2N r) | Ordered.CSwap a b => Wire.CSwap (n2N a) (n2N b)
  end.
Definition of_wire (c: @Wire.change Z) : @Ordered.change Z :=
  match c with
  | Wire.CReplace v i => Ordered.CReplace v (N.to_nat i) | Wire.CInsert v i => Ordered.CInsert v (N.to_nat i)
  | Wire.CDelete i r => Ordered.CDelete (N.to_nat i) (option_map N.to_nat r) | Wire.CSwap a b => Ordered.CSwap (N.to_nat a) (N.to_nat b)
  end.
Definition dn (tbl: list nat) (i: nat) : N := N.of_nat (nth i tbl 0).
Definition ser_script (s: list (@Ordered.change Z)) : bytes :=
  match F with
  | NS => @Wire.ser_script Z ser_i64 1 (dn (t_ord T) 0) (dn (t_ord T) 1) (dn (t_ord T) 2) (dn (t_ord T) 3) (map to_wire s)
  | BC => @Wire.ser_script Z ser_i64 4 0%N 1%N 2%N 3%N (map to_wire s)
  end.
Definition de_script : dec (list (@Ordered.change Z)) := fun b =>
  match (match F with
         | NS => @Wire.de_script Z de_i64 1 false (dn (t_ord T) 0) (dn (t_ord T) 1) (dn (t_ord T) 2) (dn (t_ord T) 3) b
         | BC => @Wire.de_script Z de_i64 4 true 0%N 1%N 2%N 3%N b end) with
  | Some (s, r) => Some (map of_wire s, r) | None => None end.

(* unordered array: change = tag then {item, count} (count usize for Many, u8 for Few) or the item *)
Definition ser_ua_change (c: @UnordArr.change Z) : bytes :=
  match c with
  | UnordArr.InsertMany k n => ser_htag (t_ua_change T) 0 ++ ser_i64 k ++ ser_len n
  | UnordArr.RemoveMany k n => ser_htag (t_ua_change T) 1 ++ ser_i64 k ++ ser_len n
  | UnordArr.InsertFew k n => ser_htag (t_ua_change T) 2 ++ ser_i64 k ++ ser_le 1 (N.of_nat n)
  | UnordArr.RemoveFew k n => ser_htag (t_ua_change T) 3 ++ ser_i64 k ++ ser_le 1 (N.of_nat n)
  | UnordArr.InsertSingle k => ser_htag (t_ua_change T) 4 ++ ser_i64 k
  | UnordArr.RemoveSingle k => ser_htag (t_ua_change T) 5 ++ ser_i64 k
  end.
Definition de_u8n : dec nat := fun b => match de_le 1 b with Some (n, r) => Some (N.to_nat n, r) | None => None end.
Definition de_ua_change : dec (@UnordArr.change Z) := fun b =>
  match de_htag (t_ua_change T) b with
  | Some (0, r) => match de_pair de_i64 de_len r with Some ((k, n), r2) => Some (UnordArr.InsertMany k n, r2) | None => None end
  | Some (1, r) => match de_pair de_i64 de_len r with Some ((k, n), r2) => Some (UnordArr.RemoveMany k n, r2) | None => None end
  | Some (2, r) => match de_pair de_i64 de_u8n r with Some ((k, n), r2) => Some (UnordArr.InsertFew k n, r2) | None => None end
  | Some (3, r) => match de_pair de_i64 de_u8n r with Some ((k, n), r2) => Some (UnordArr.RemoveFew k n, r2) | None => None end
  | Some (4, r) => match de_i64 r with Some (k, r2) => Some (UnordArr.InsertSingle k, r2) | None => None end
  | Some (5, r) => match de_i64 r with Some (k, r2) => Some (UnordArr.RemoveSingle k, r2) | None => None end
  | _ => None
  end.
Definition ser_ua (d: @UnordArr.udiff Z) : bytes :=
  match d with
  | UnordArr.Replace xs => ser_htag (t_ua_diff T) 0 ++ ser_list ser_i64 xs
  | UnordArr.Modify cs => ser_htag (t_ua_diff T) 1 ++ ser_list ser_ua_change cs
  end.
Definition de_ua : dec (@UnordArr.udiff Z) := fun b =>
  match de_htag (t_ua_diff T) b with
  | Some (0, r) => match de_list de_i64 r with Some (xs, r2) => Some (UnordArr.Replace xs, r2) | None => None end
  | Some (1, r) => match de_list de_ua_change r with Some (cs, r2) => Some (UnordArr.Modify cs, r2) | None => None end
  | _ => None
  end.
(* flat map *)
Definition ser_mf_change (c: @MapFlat.mchange Z Z) : bytes :=
  match c with
  | MapFlat.InsertMany k v n => ser_htag (t_mf_change T) 0 ++ ser_i64 k ++ ser_i64 v ++ ser_len n
  | MapFlat.RemoveMany k n => ser_htag (t_mf_change T) 1 ++ ser_i64 k ++ ser_len n
  | MapFlat.InsertSingle k v => ser_htag (t_mf_change T) 2 ++ ser_i64 k ++ ser_i64 v
  | MapFlat.RemoveSingle k => ser_htag (t_mf_change T) 3 ++ ser_i64 k
  end.
Definition de_mf_change : dec (@MapFlat.mchange Z Z) := fun b =>
  match de_htag (t_mf_change T) b with
  | Some (0, r) => match de_pair de_i64 (de_pair de_i64 de_len) r with Some ((k, (v, n)), r2) => Some (MapFlat.InsertMany k v n, r2) | None => None end
  | Some (1, r) => match de_pair de_i64 de_len r with Some ((k, n), r2) => Some (MapFlat.RemoveMany k n, r2) | None => None end
  | Some (2, r) => match de_pair de_i64 de_i64 r with Some ((k, v), r2) => Some (MapFlat.InsertSingle k v, r2) | None => None end
  | Some (3, r) => match de_i64 r with Some (k, r2) => Some (MapFlat.RemoveSingle k, r2) | None => None end
  | _ => None
  end.
Definition ser_mf (d: @MapFlat.mdiff Z Z) : bytes :=
  match d with
  | MapFlat.Replace xs => ser_htag (t_mf_diff T) 0 ++ ser_list (ser_pair ser_i64 ser_i64) xs
  | MapFlat.Modify cs => ser_htag (t_mf_diff T) 1 ++ ser_list ser_mf_change cs
  end.
Definition de_mf : dec (@MapFlat.mdiff Z Z) := fun b =>
  match de_htag (t_mf_diff T) b with
  | Some (0, r) => match de_list (de_pair de_i64 de_i64) r with Some (xs, r2) => Some (MapFlat.Replace xs, r2) | None => None end
  | Some (1, r) => match de_list de_mf_change r with Some (cs, r2) => Some (MapFlat.Modify cs, r2) | None => None end
  | _ => None
  end.

(* ---- entries of a derived diff: Vec<Diff>, each entry = variant index then payload ---- *)
Definition nvars (f: wf) : nat := match f with WSkipInt | WSkipOptInt | WSkipSeq | WSkipStruct _ => 0 | WRecOpt _ => 2 | _ => 1 end.
Fixpoint vidx (fs: wfields) (i: nat) : nat :=
  match fs, i with WCons f r, S i' => nvars f + vidx r i' | _, _ => 0 end.
Fixpoint wnth (fs: wfields) (i: nat) : option wf :=
  match fs, i with WCons f _, 0 => Some f | WCons _ r, S i' => wnth r i' | WNil, _ => None end.
(* which field (and whether its `_full` variant) a variant index denotes *)
Fixpoint unvidx (fs: wfields) (i: nat) (k: nat) : option (nat * wf * bool) :=
  match fs with
  | WNil => None
  | WCons f r =>
      match nvars f with
      | 0 => unvidx r (S i) k
      | 1 => match k with 0 => Some (i, f, false) | S k' => unvidx r (S i) k' end
      | _ => match k with 0 => Some (i, f, false) | 1 => Some (i, f, true) | S (S k') => unvidx r (S i) k' end
      end
  end.

Definition ent_field (e: entry) : option nat := field_of _ _ _ e.
Definition hit (e: entry) (i: nat) : bool := match ent_field e with Some j => j =? i | None => false end.

Fixpoint ser_es (w: wshape) (es: list entry) {struct w} : bytes :=
  match w with
  | WEnum => ser_len (length es) ++ flat_map (fun e => match e with EEnumReplace _ _ _ v => ser_vtag 0 ++ (match v with VAtom z => ser_en z | _ => [] end) | _ => [] end) es
  | WStruct fs => ser_len (length es) ++ flat_map (ser_in fs 0 0) es
  end
with ser_in (fs: wfields) (i base: nat) (e: entry) {struct fs} : bytes :=      (* fs = the fields from index i on; base = variant index of field i *)
  match fs with
  | WNil => []
  | WCons f r => if hit e i then ser_payload base i f e else ser_in r (S i) (base + nvars f) e
  end
with ser_payload (base i: nat) (f: wf) (e: entry) {struct f} : bytes :=
  match f, e with
  | WPlain k, EPlain _ _ _ _ v => ser_vtag base ++ ser_plain k v
  | WRec s, ERec _ _ _ _ d => ser_vtag base ++ ser_es s d
  | WRecOpt s, ERecOpt _ _ _ _ None => ser_vtag base ++ [0%N]
  | WRecOpt s, ERecOpt _ _ _ _ (Some d) => ser_vtag base ++ 1%N :: ser_es s d
  | WRecOpt s, ERecOptFull _ _ _ _ v => ser_vtag (S base) ++ ser_v s v
  | WOrd, EOrdered _ _ _ _ d => ser_vtag base ++ ser_script d
  | WUn, EUnordArr _ _ _ _ d => ser_vtag base ++ ser_ua d
  | WMap, EMapFlat _ _ _ _ d => ser_vtag base ++ ser_mf d
  | WRMap _ s, EMapRec _ _ _ _ d =>
      ser_vtag base ++
      match d with
      | MRReplace l => ser_htag (t_rm_diff T) 0 ++ ser_len (length l) ++ flat_map (fun p => ser_i64 (fst p) ++ ser_v s (snd p)) l
      | MRModify cs => ser_htag (t_rm_diff T) 1 ++ ser_len (length cs) ++ flat_map (fun c =>
          match c with
          | MRInsert k v => ser_htag (t_rm_change T) 0 ++ ser_i64 k ++ ser_v s v
          | MRRemove k => ser_htag (t_rm_change T) 1 ++ ser_i64 k
          | MRChange k dd => ser_htag (t_rm_change T) 2 ++ ser_i64 k ++ ser_es s dd
          end) cs
      end
  | _, _ => []
  end.

Fixpoint de_es (w: wshape) {struct w} : dec (list entry) :=
  match w with
  | WEnum => de_list (fun b => match de_vtag b with Some (0, r) => match de_en r with Some (z, r2) => Some (EEnumReplace _ _ _ (VAtom z), r2) | None => None end | _ => None end)
  | WStruct fs => de_list (fun b => match de_vtag b with Some (k, r) => de_in fs 0 k r | None => None end)
  end
with de_in (fs: wfields) (i: nat) (k: nat) {struct fs} : dec entry :=          (* k = variant index still to skip *)
  match fs with
  | WNil => fun _ => None
  | WCons f r =>
      match nvars f with
      | 0 => de_in r (S i) k
      | 1 => match k with 0 => de_payload i f false | S k' => de_in r (S i) k' end
      | _ => match k with 0 => de_payload i f false | 1 => de_payload i f true | S (S k') => de_in r (S i) k' end
      end
  end
with de_payload (i: nat) (f: wf) (full: bool) {struct f} : dec entry :=
  match f with
  | WPlain k => fun b => match de_plain k b with Some (v, r) => Some (EPlain _ _ _ i v, r) | None => None end
  | WRec s => fun b => match de_es s b with Some (d, r) => Some (ERec _ _ _ i d, r) | None => None end
  | WRecOpt s => fun b =>
      if full then match de_v s b with Some (v, r) => Some (ERecOptFull _ _ _ i v, r) | None => None end
      else match de_opt (de_es s) b with Some (o, r) => Some (ERecOpt _ _ _ i o, r) | None => None end
  | WOrd => fun b => match de_script b with Some (d, r) => Some (EOrdered _ _ _ i d, r) | None => None end
  | WUn => fun b => match de_ua b with Some (d, r) => Some (EUnordArr _ _ _ i d, r) | None => None end
  | WMap => fun b => match de_mf b with Some (d, r) => Some (EMapFlat _ _ _ i d, r) | None => None end
  | WRMap _ s => fun b =>
      match de_htag (t_rm_diff T) b with
      | Some (0, r) => match de_list (de_pair de_i64 (de_v s)) r with Some (l, r2) => Some (EMapRec _ _ _ i (MRReplace l), r2) | None => None end
      | Some (1, r) =>
          match de_list (fun b1 =>
                  match de_htag (t_rm_change T) b1 with
                  | Some (0, r1) => match de_pair de_i64 (de_v s) r1 with Some ((k, v), r2) => Some (MRInsert k v, r2) | None => None end
                  | Some (1, r1) => match de_i64 r1 with Some (k, r2) => Some (MRRemove k, r2) | None => None end
                  | Some (2, r1) => match de_pair de_i64 (de_es s) r1 with Some ((k, dd), r2) => Some (MRChange k dd, r2) | None => None end
                  | _ => None
                  end) r with
          | Some (cs, r2) => Some (EMapRec _ _ _ i (MRModify cs), r2) | None => None end
      | _ => None
      end
  | _ => fun _ => None
  end.
End Codec.
