(* Byte-level model of nanoserde's binary format and of the hand-written codecs of the ordered change script *)
From Coq Require Import List Arith ZArith NArith Lia Bool.
Import ListNotations.

Definition byte := N.                       (* values < 256 *)
Definition bytes := list byte.

(* a decoder consumes a prefix and returns the value with the rest *)
Definition dec (A: Type) := bytes -> option (A * bytes).
Definition codec_ok {A} (ser: A -> bytes) (de: dec A) : Prop := forall x rest, de (ser x ++ rest) = Some (x, rest).

(* ---- primitives ---- *)
Definition ser_u8 (n: N) : bytes := [n].
Definition de_u8 : dec N := fun b => match b with x :: r => Some (x, r) | [] => None end.

(* little-endian fixed width *)
Fixpoint ser_le (width: nat) (n: N) : bytes :=
  match width with 0 => [] | S w => (n mod 256)%N :: ser_le w (n / 256)%N end.
Fixpoint de_le (width: nat) (b: bytes) : option (N * bytes) :=
  match width with
  | 0 => Some (0%N, b)
  | S w => match b with
           | [] => None
           | x :: r => match de_le w r with Some (hi, rest) => Some ((x + 256 * hi)%N, rest) | None => None end
           end
  end.
Definition ser_usize (n: N) := ser_le 8 n.            (* usize is written as u64 *)
Definition de_usize : dec N := de_le 8.
Definition ser_u16 (n: N) := ser_le 2 n.
Definition de_u16 : dec N := de_le 2.

Lemma le_roundtrip : forall w n rest, (n < 256 ^ N.of_nat w)%N -> de_le w (ser_le w n ++ rest) = Some (n, rest).
Proof.
  induction w as [|w IH]; intros n rest H.
  - cbn in *. f_equal. f_equal. lia.
  - cbn [ser_le de_le app]. rewrite IH.
    + f_equal. f_equal. rewrite N.add_comm. symmetry. apply N.div_mod'.
    + rewrite Nat2N.inj_succ, N.pow_succ_r' in H. apply N.div_lt_upper_bound; lia.
Qed.

(* Option<T>: tag 1 = Some, anything else = None (nanoserde's leniency is reproduced) *)
Definition ser_option {A} (ser: A -> bytes) (o: option A) : bytes := match o with Some x => 1%N :: ser x | None => [0%N] end.
Definition de_option {A} (de: dec A) : dec (option A) := fun b =>
  match b with
  | [] => None
  | t :: r => if (t =? 1)%N then match de r with Some (x, rest) => Some (Some x, rest) | None => None end else Some (None, r)
  end.
Lemma option_ok {A} (ser: A -> bytes) (de: dec A) : codec_ok ser de -> codec_ok (ser_option ser) (de_option de).
Proof. intros H [x|] rest; cbn; [rewrite H; reflexivity|reflexivity]. Qed.

(* Vec<T>: u64 length then the items *)
Definition ser_vec {A} (ser: A -> bytes) (l: list A) : bytes := ser_usize (N.of_nat (length l)) ++ flat_map ser l.
Fixpoint de_items {A} (de: dec A) (n: nat) (b: bytes) : option (list A * bytes) :=
  match n with
  | 0 => Some ([], b)
  | S n' => match de b with
            | Some (x, r) => match de_items de n' r with Some (xs, rest) => Some (x :: xs, rest) | None => None end
            | None => None
            end
  end.
Definition de_vec {A} (de: dec A) : dec (list A) := fun b =>
  match de_usize b with Some (n, r) => de_items de (N.to_nat n) r | None => None end.
Lemma items_ok {A} (ser: A -> bytes) (de: dec A) : codec_ok ser de -> forall l rest, de_items de (length l) (flat_map ser l ++ rest) = Some (l, rest).
Proof. intros H. induction l as [|x l IH]; intros rest; cbn; [reflexivity|]. rewrite <- app_assoc, H, IH. reflexivity. Qed.
Lemma vec_ok {A} (ser: A -> bytes) (de: dec A) : codec_ok ser de ->
  forall l rest, (N.of_nat (length l) < 256 ^ 8)%N -> de_vec de (ser_vec ser l ++ rest) = Some (l, rest).
Proof.
  intros H l rest Hl. unfold de_vec, ser_vec, ser_usize, de_usize. rewrite <- app_assoc, le_roundtrip by exact Hl.
  rewrite Nat2N.id. apply items_ok. exact H.
Qed.

(* strict Option (bincode): tag 0 = None, 1 = Some, anything else is an error *)
Definition de_option_strict {A} (de: dec A) : dec (option A) := fun b =>
  match b with
  | [] => None
  | t :: r => if (t =? 1)%N then match de r with Some (x, rest) => Some (Some x, rest) | None => None end
              else if (t =? 0)%N then Some (None, r) else None
  end.
Lemma option_strict_ok {A} (ser: A -> bytes) (de: dec A) : codec_ok ser de -> codec_ok (ser_option ser) (de_option_strict de).
Proof. intros H [x|] rest; cbn; [rewrite H; reflexivity|reflexivity]. Qed.

(* ---- the ordered change script, for both wire formats ----
   TW     = width of the variant tag in bytes (1: the hand-written nanoserde impls write a u8; 4: bincode writes serde's u32 variant index)
   STRICT = how an Option tag other than 0/1 is decoded (nanoserde: None; bincode: error) *)
Section Script.
Context {T: Type} (ser_T: T -> bytes) (de_T: dec T).
Variable Tvalid : T -> Prop.                       (* the element values the element codec represents (e.g. the i64 range) *)
Hypothesis T_ok : forall x rest, Tvalid x -> de_T (ser_T x ++ rest) = Some (x, rest).
Variable TW : nat.
Variable STRICT : bool.
(* discriminants as extracted by the translator; side conditions: pairwise distinct and representable in TW bytes *)
Variables (D_REPLACE D_INSERT D_DELETE D_SWAP: N).
Hypothesis D_distinct : NoDup [D_REPLACE; D_INSERT; D_DELETE; D_SWAP].
Hypothesis D_fit : Forall (fun d => (d < 256 ^ N.of_nat TW)%N) [D_REPLACE; D_INSERT; D_DELETE; D_SWAP].

Inductive change := CReplace (v: T) (i: N) | CInsert (v: T) (i: N) | CDelete (i: N) (r: option N) | CSwap (a b: N).
Definition usize_ok (n: N) := (n < 256 ^ 8)%N.
Definition change_ok (c: change) : Prop :=
  match c with
  | CReplace v i | CInsert v i => Tvalid v /\ usize_ok i
  | CDelete i r => usize_ok i /\ match r with Some j => usize_ok j | None => True end
  | CSwap a b => usize_ok a /\ usize_ok b
  end.
Definition ser_tag (d: N) : bytes := ser_le TW d.
Definition de_tag : dec N := de_le TW.
Definition de_opt {A} (de: dec A) : dec (option A) := if STRICT then de_option_strict de else de_option de.

Definition ser_change (c: change) : bytes :=
  match c with
  | CReplace v i => ser_tag D_REPLACE ++ ser_T v ++ ser_usize i
  | CInsert v i => ser_tag D_INSERT ++ ser_T v ++ ser_usize i
  | CDelete i r => ser_tag D_DELETE ++ ser_usize i ++ ser_option ser_usize r
  | CSwap a b => ser_tag D_SWAP ++ ser_usize a ++ ser_usize b
  end.
Definition de_change : dec change := fun b =>
  match de_tag b with
  | None => None
  | Some (tag, r) =>
     if (tag =? D_REPLACE)%N then match de_T r with Some (v, r1) => match de_usize r1 with Some (i, r2) => Some (CReplace v i, r2) | None => None end | None => None end
     else if (tag =? D_INSERT)%N then match de_T r with Some (v, r1) => match de_usize r1 with Some (i, r2) => Some (CInsert v i, r2) | None => None end | None => None end
     else if (tag =? D_DELETE)%N then match de_usize r with Some (i, r1) => match de_opt de_usize r1 with Some (o, r2) => Some (CDelete i o, r2) | None => None end | None => None end
     else if (tag =? D_SWAP)%N then match de_usize r with Some (a, r1) => match de_usize r1 with Some (b0, r2) => Some (CSwap a b0, r2) | None => None end | None => None end
     else None
  end.

Lemma usize_rt n rest : usize_ok n -> de_usize (ser_usize n ++ rest) = Some (n, rest).
Proof. intros H. apply le_roundtrip. exact H. Qed.
Lemma tag_rt d rest : In d [D_REPLACE; D_INSERT; D_DELETE; D_SWAP] -> de_tag (ser_tag d ++ rest) = Some (d, rest).
Proof. intros H. apply le_roundtrip. rewrite Forall_forall in D_fit. apply D_fit. exact H. Qed.
Lemma opt_rt (r: option N) rest : match r with Some j => usize_ok j | None => True end -> de_opt de_usize (ser_option ser_usize r ++ rest) = Some (r, rest).
Proof.
  intros H. unfold de_opt. destruct r as [j|]; destruct STRICT; cbn [ser_option de_option de_option_strict app]; try reflexivity;
  rewrite N.eqb_refl, usize_rt by exact H; reflexivity.
Qed.

Lemma change_roundtrip c rest : change_ok c -> de_change (ser_change c ++ rest) = Some (c, rest).
Proof.
  assert (Dn: D_REPLACE <> D_INSERT /\ D_REPLACE <> D_DELETE /\ D_REPLACE <> D_SWAP /\ D_INSERT <> D_DELETE /\ D_INSERT <> D_SWAP /\ D_DELETE <> D_SWAP).
  { inversion D_distinct as [|? ? N1 R1]; subst. inversion R1 as [|? ? N2 R2]; subst. inversion R2 as [|? ? N3 R3]; subst. cbn in *. intuition congruence. }
  destruct Dn as (N1 & N2 & N3 & N4 & N5 & N6).
  destruct c as [v i|v i|i r|a b]; cbn [change_ok ser_change]; intros H; unfold de_change; rewrite <- app_assoc, tag_rt by (cbn; tauto).
  - destruct H as [Hv H]. rewrite N.eqb_refl, <- app_assoc, T_ok by exact Hv. rewrite usize_rt by exact H. reflexivity.
  - destruct H as [Hv H]. destruct (N.eqb_spec D_INSERT D_REPLACE); [congruence|]. rewrite N.eqb_refl, <- app_assoc, T_ok by exact Hv. rewrite usize_rt by exact H. reflexivity.
  - destruct (N.eqb_spec D_DELETE D_REPLACE); [congruence|]. destruct (N.eqb_spec D_DELETE D_INSERT); [congruence|]. rewrite N.eqb_refl.
    destruct H as [H1 H2]. rewrite <- app_assoc, usize_rt by exact H1. rewrite opt_rt by exact H2. reflexivity.
  - destruct (N.eqb_spec D_SWAP D_REPLACE); [congruence|]. destruct (N.eqb_spec D_SWAP D_INSERT); [congruence|]. destruct (N.eqb_spec D_SWAP D_DELETE); [congruence|]. rewrite N.eqb_refl.
    destruct H as [H1 H2]. rewrite <- app_assoc, usize_rt by exact H1. rewrite usize_rt by exact H2. reflexivity.
Qed.

(* a script = Vec<change>; decoding what this encoder wrote gives the script back and re-encoding gives the same bytes *)
Definition ser_script (s: list change) := ser_vec ser_change s.
Definition de_script : dec (list change) := de_vec de_change.

Lemma items_ok_in (l: list change) : Forall change_ok l -> forall rest, de_items de_change (length l) (flat_map ser_change l ++ rest) = Some (l, rest).
Proof. induction l as [|c l IH]; intros F rest; cbn; [reflexivity|]. inversion F; subst. rewrite <- app_assoc, change_roundtrip by assumption. rewrite IH by assumption. reflexivity. Qed.

Theorem script_codec_roundtrip (s: list change) rest : Forall change_ok s -> usize_ok (N.of_nat (length s)) ->
  de_script (ser_script s ++ rest) = Some (s, rest).
Proof.
  intros F L. unfold de_script, de_vec, ser_script, ser_vec, ser_usize, de_usize. rewrite <- app_assoc, le_roundtrip by exact L.
  rewrite Nat2N.id. apply items_ok_in. exact F.
Qed.
Corollary script_reencode (s s': list change) : Forall change_ok s -> usize_ok (N.of_nat (length s)) ->
  de_script (ser_script s) = Some (s', []) -> ser_script s' = ser_script s.
Proof. intros F L H. rewrite <- (app_nil_r (ser_script s)) in H. rewrite script_codec_roundtrip in H by assumption. congruence. Qed.
End Script.
Print Assumptions script_codec_roundtrip.
