(* C14/C08 style: tagged-sum codec combinator; nanoserde codec of the unordered-array diff, owned and ref forms *)
From Coq Require Import List NArith Lia Bool.
Import ListNotations.
Require Import W.Wire.
Local Open Scope N_scope.

Section Tagged.
Context {A: Type}.
(* a decoder table: discriminant -> payload decoder (the `match id { 0_u8 => .., _ => Err }` of a hand-written de_bin) *)
Fixpoint lookup_tag (t: N) (tbl: list (N * dec A)) : option (dec A) :=
  match tbl with [] => None | (t', d) :: r => if t =? t' then Some d else lookup_tag t r end.
Definition de_tagged (tbl: list (N * dec A)) : dec A := fun b =>
  match de_u8 b with Some (tag, r) => match lookup_tag tag tbl with Some d => d r | None => None end | None => None end.
Lemma tagged_ok (tbl: list (N * dec A)) (tag_of: A -> N) (payload: A -> bytes) x rest d :
  lookup_tag (tag_of x) tbl = Some d -> d (payload x ++ rest) = Some (x, rest) ->
  de_tagged tbl ((tag_of x :: payload x) ++ rest) = Some (x, rest).
Proof. intros L D. unfold de_tagged. cbn [app de_u8]. rewrite L. exact D. Qed.
End Tagged.

Section UA.
Variables (T: Type) (ser_T: T -> bytes) (de_T: dec T).
Hypothesis T_ok : codec_ok ser_T de_T.
(* discriminants as the translator reads them: one table from the owned ser_bin, one from the ref ser_bin, one from de_bin *)
Variables (S_IM S_RM S_IF S_RF S_IS S_RS: N) (R_IM R_RM R_IF R_RF R_IS R_RS: N) (D_IM D_RM D_IF D_RF D_IS D_RS: N).
Variables (S_REPLACE S_MODIFY R_REPLACE R_MODIFY D_REPLACE D_MODIFY: N).

Inductive uchange := InsertMany (v: T) (c: N) | RemoveMany (v: T) (c: N) | InsertFew (v: T) (c: N) | RemoveFew (v: T) (c: N) | InsertSingle (v: T) | RemoveSingle (v: T).
Inductive udiff := UReplace (l: list T) | UModify (cs: list uchange).

Definition change_ok (c: uchange) : Prop :=
  match c with InsertMany _ n | RemoveMany _ n => n < 256 ^ 8 | InsertFew _ n | RemoveFew _ n => n < 256 | _ => True end.
Definition ser_change (tags: N * N * N * N * N * N) (c: uchange) : bytes :=
  let '(im, rm, fi, fr, si, sr) := tags in
  match c with
  | InsertMany v n => im :: ser_T v ++ ser_usize n | RemoveMany v n => rm :: ser_T v ++ ser_usize n
  | InsertFew v n => fi :: ser_T v ++ ser_u8 n | RemoveFew v n => fr :: ser_T v ++ ser_u8 n
  | InsertSingle v => si :: ser_T v | RemoveSingle v => sr :: ser_T v
  end.
Definition pair_dec {B} (mk: T -> N -> B) (dn: dec N) : dec B := fun b =>
  match de_T b with Some (v, r) => match dn r with Some (n, r') => Some (mk v n, r') | None => None end | None => None end.
Definition one_dec {B} (mk: T -> B) : dec B := fun b => match de_T b with Some (v, r) => Some (mk v, r) | None => None end.
Definition de_change : dec uchange :=
  de_tagged [(D_IM, pair_dec InsertMany de_usize); (D_RM, pair_dec RemoveMany de_usize); (D_IF, pair_dec InsertFew de_u8); (D_RF, pair_dec RemoveFew de_u8);
             (D_IS, one_dec InsertSingle); (D_RS, one_dec RemoveSingle)].

(* side conditions discharged by computation on the generated constants *)
Hypothesis tags_agree : (S_IM, S_RM, S_IF, S_RF, S_IS, S_RS) = (D_IM, D_RM, D_IF, D_RF, D_IS, D_RS).
Hypothesis ref_tags_agree : (R_IM, R_RM, R_IF, R_RF, R_IS, R_RS) = (S_IM, S_RM, S_IF, S_RF, S_IS, S_RS).
Hypothesis tags_distinct : NoDup [D_IM; D_RM; D_IF; D_RF; D_IS; D_RS].

Definition owned_tags := (S_IM, S_RM, S_IF, S_RF, S_IS, S_RS).
Definition ref_tags := (R_IM, R_RM, R_IF, R_RF, R_IS, R_RS).

Lemma nodup6 (a b c d e f: N) : NoDup [a; b; c; d; e; f] ->
  a <> b /\ a <> c /\ a <> d /\ a <> e /\ a <> f /\ b <> c /\ b <> d /\ b <> e /\ b <> f /\ c <> d /\ c <> e /\ c <> f /\ d <> e /\ d <> f /\ e <> f.
Proof.
  intros H. inversion H as [|? ? N1 H1]; subst. inversion H1 as [|? ? N2 H2]; subst. inversion H2 as [|? ? N3 H3]; subst.
  inversion H3 as [|? ? N4 H4]; subst. inversion H4 as [|? ? N5 H5]; subst. cbn in *. intuition congruence.
Qed.

Lemma change_roundtrip c rest : change_ok c -> de_change (ser_change owned_tags c ++ rest) = Some (c, rest).
Proof.
  unfold owned_tags. injection tags_agree as -> -> -> -> -> ->.
  destruct (nodup6 _ _ _ _ _ _ tags_distinct) as (n1 & n2 & n3 & n4 & n5 & n6 & n7 & n8 & n9 & n10 & n11 & n12 & n13 & n14 & n15).
  intros Hc. unfold de_change, de_tagged.
  destruct c as [v n|v n|v n|v n|v|v]; cbn [ser_change app de_u8 lookup_tag change_ok] in *;
    repeat match goal with |- context [(?a =? ?b)] => first [rewrite (N.eqb_refl a) | destruct (N.eqb_spec a b); [congruence|]] end;
    unfold pair_dec, one_dec; rewrite <- ?app_assoc, T_ok.
  - unfold de_usize, ser_usize. rewrite le_roundtrip by exact Hc. reflexivity.
  - unfold de_usize, ser_usize. rewrite le_roundtrip by exact Hc. reflexivity.
  - reflexivity.
  - reflexivity.
  - reflexivity.
  - reflexivity.
Qed.

(* the ref form writes the same bytes as the owned form of the converted value (Into clones) *)
Lemma ref_is_owned c : ser_change ref_tags c = ser_change owned_tags c.
Proof. unfold ref_tags, owned_tags. rewrite ref_tags_agree. reflexivity. Qed.
End UA.
Print Assumptions change_roundtrip.
