(* The derive-level model with every collection back end plugged in: ordered = Hirschberg with the constants translated
   from /repo, unordered array, flat map (mode `ko`), recursive map. These are the constants the extracted derive driver
   runs and the constants Glue/GlueAll.v and Props/C01..C06, C13, C15 are stated about. No proofs here. *)
From Coq Require Import List ZArith.
Require Import SD.ListOps SD.Ordered U.UnordArr M.MapFlat R.AssocList R.SortedMap R.MapRec R.DModel3 R.DSetters.
Require Export Gen.ConstsOrdered.

Definition odiff (t s: list Z) := Ordered.hirschberg Z.eqb LEVENSHTEIN_CUTOFF DELETE_COST REPLACE_COST INSERT_COST t s 0%Z.
Definition oapply (d: list (@Ordered.change Z)) (s: list Z) : list Z := match Ordered.apply_script s d with Some r => r | None => s end.
Definition zid (m: list (Z * nat)) := m.
(* generalised over the hash iteration orders (what the rustc_hash feature changes); the executed instance uses the identity *)
Definition udiff_g (uio: list (Z * nat) -> list (Z * nat)) (p c: list Z) : option (@UnordArr.udiff Z) := match UnordArr.hashcmp Z.eqb uio p c with Some o => o | None => None end.
Definition uapply_g (uio: list (Z * nat) -> list (Z * nat)) (base: list Z) (d: @UnordArr.udiff Z) := UnordArr.apply Z.eqb uio base d.
Definition udiff := udiff_g zid.
Definition uapply := uapply_g zid.
Definition mid (m: list (Z * (Z * nat))) := m.
Definition mdiff_g (mio: list (Z * (Z * nat)) -> list (Z * (Z * nat))) (ko: bool) (p c: list (Z * Z)) : option (@MapFlat.mdiff Z Z) := match MapFlat.hashcmp Z.eqb Z.eqb mio ko p c with Some o => o | None => None end.
Definition mapply_g (mio: list (Z * (Z * nat)) -> list (Z * (Z * nat))) (p: list (Z * Z)) (d: @MapFlat.mdiff Z Z) : list (Z * Z) := canon (MapFlat.apply Z.eqb mio p d).   (* .collect() into the map type *)
Definition mdiff := mdiff_g mid.
Definition mapply := mapply_g mid.
Definition rid (m: list (Z * value)) := m.            (* hash order of recursive maps for execution; the theorems quantify over it *)

Notation entry_t := (DModel3.entry (list (@Ordered.change Z)) (@UnordArr.udiff Z) (@MapFlat.mdiff Z Z)).
Definition x_diff (ko: bool) (s: shape) (a b: value) : list entry_t := DModel3.diff_s _ _ _ odiff udiff (mdiff ko) rid s a b.
Definition x_apply_single (s: shape) (x: value) (e: entry_t) : value := DModel3.apply_s _ _ _ oapply uapply mapply rid s x e.
Definition x_apply (s: shape) (x: value) (d: list entry_t) : value := DModel3.apply _ _ _ oapply uapply mapply rid s x d.
(* generated setter for field i of a struct with fields fs: (new field list, returned entry or none) *)
Definition x_setter (ko: bool) (fs: fields) (xs: list value) (i: nat) (v: value) : list value * list entry_t :=
  DSetters.setter _ _ _ odiff udiff (mdiff ko) rid fs xs i v.
