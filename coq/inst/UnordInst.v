(* The unordered back ends with the hash-map iteration order instantiated by the identity for execution.
   (The theorems hold for EVERY iteration order that is a permutation; both sides of the comparison are sorted.) *)
From Coq Require Import List.
Require Import U.UnordArr M.MapFlat.
Definition ua_hashcmp {K} (keqb: K -> K -> bool) := UnordArr.hashcmp keqb (fun m => m).
Definition ua_apply {K} (keqb: K -> K -> bool) := UnordArr.apply keqb (fun m => m).
Definition mf_hashcmp {K V} (keqb: K -> K -> bool) (veqb: V -> V -> bool) := MapFlat.hashcmp keqb veqb (fun m => m).
Definition mf_apply {K V} (keqb: K -> K -> bool) := @MapFlat.apply K V keqb (fun m => m).
