(* The rope / slot-array model instantiated with the constants translated from /repo on this run.
   These exact constants are (a) what Extract/ExtractRope.v extracts and runs against the implementation and
   (b) what the theorems of Props/C09.v, Props/C10.v and Props/C08.v are about. No proofs here. *)
From Coq Require Import List Arith.
Import ListNotations.
Require Import S.Slots S.RopePhys S.SlotsIter S.SlotsIterPhys S.RopeGen.
Require Export Gen.ConstsRope Gen.ConstsSlotsIter.

Section I.
Context {T: Type}.
Notation rope := (list (@am T)).
Definition x_new : rope := rope_new_gen MAX_SLOT_SIZE ROPE_NEW_CHUNKS.
Definition x_from (l: list T) : option rope := rope_from_list MAX_SLOT_SIZE FROM_ITER_TAKE l.
Definition x_step (r: rope) (o: @rop T) : option rope := rope_step MAX_SLOT_SIZE BASE_SLOT_SIZE UNDERSIZED_SLOT r o.
Definition x_index (r: rope) (i: nat) : option T := rope_index r i.
Definition x_len (r: rope) : nat := rope_len r.
Definition x_iter (r: rope) : option (list T) := rope_iter r.
Definition x_to_list (r: rope) : list T := rope_to_list r.
Fixpoint x_run (r: rope) (ops: list (@rop T)) : option rope :=
  match ops with [] => Some r | o :: ops' => match x_step r o with Some r' => x_run r' ops' | None => None end end.
Inductive build := BNew | BFrom (l: list T).
Definition x_build (b: build) : option rope := match b with BNew => Some x_new | BFrom l => x_from l end.

(* one chunk of capacity N *)
Definition s_new (N: nat) : @am T := am_new N.
Definition s_from (N: nat) (l: list T) := am_from_list N l.
Definition s_insert (N: nat) (m: @am T) := am_insert N m.
Definition s_remove (m: @am T) := am_remove m.
Definition s_swap (m: @am T) := am_swap m.
Definition s_drain (m: @am T) := am_drain m.
Definition s_extend (m: @am T) := am_extend m.
Definition s_index (m: @am T) := am_index m.
Definition s_set (m: @am T) := am_set m.
Definition s_to_list (m: @am T) := am_to_list m.
Definition s_it_run (N: nat) (m: @am T) (calls: list bool) := ph_run_gen REV_POS_DOWN calls (ph_init N m).
Inductive sop := SIns (p: nat) (v: T) | SRem (p: nat) | SSwap (a b: nat) | SDrain (lo: nat) (hi: option nat) | SExt (vs: list T) | SSet (i: nat) (v: T).
Definition s_step (N: nat) (m: @am T) (o: sop) : option (@am T) :=
  match o with
  | SIns p v => s_insert N m p v | SRem p => option_map fst (s_remove m p) | SSwap a b => s_swap m a b
  | SDrain lo hi => Some (fst (s_drain m lo hi)) | SExt vs => Some (s_extend m vs) | SSet i v => s_set m i v
  end.
Fixpoint s_run (N: nat) (m: @am T) (ops: list sop) : option (@am T) :=
  match ops with [] => Some m | o :: ops' => match s_step N m o with Some m' => s_run N m' ops' | None => None end end.
End I.
