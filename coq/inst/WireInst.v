(* The ordered-script codecs instantiated: nanoserde (hand-written impls; u8 discriminants translated from /repo; lenient Option tag)
   and bincode-of-serde (u32 variant index in declaration order; strict Option tag), element type i64. *)
From Coq Require Import List ZArith NArith.
Import ListNotations.
Require Import W.Wire S.Slots S.RopePhys S.C08Exec Inst.RopeInst.
Require Export Gen.ConstsOrderedWire.

Definition ser_i64 (z: Z) : bytes := ser_le 8 (Z.to_N (z mod 2 ^ 64)).
Definition de_i64 : dec Z := fun b =>
  match de_le 8 b with
  | Some (n, r) => Some ((if (n <? 2 ^ 63)%N then Z.of_N n else Z.of_N n - 2 ^ 64)%Z, r)
  | None => None
  end.
Definition i64_valid (z: Z) : Prop := (- 2 ^ 63 <= z < 2 ^ 63)%Z.

Definition dn (tbl: list nat) (i: nat) : N := N.of_nat (nth i tbl 0).
(* nanoserde: encoder of the owned diff, encoder of the borrowed diff, decoder -- three separately translated tables *)
Definition ns_ser_owned := @ser_script Z ser_i64 1 (dn ORD_SER_OWNED 0) (dn ORD_SER_OWNED 1) (dn ORD_SER_OWNED 2) (dn ORD_SER_OWNED 3).
Definition ns_ser_ref := @ser_script Z ser_i64 1 (dn ORD_SER_REF 0) (dn ORD_SER_REF 1) (dn ORD_SER_REF 2) (dn ORD_SER_REF 3).
Definition ns_de := @de_script Z de_i64 1 false (dn ORD_DE 0) (dn ORD_DE 1) (dn ORD_DE 2) (dn ORD_DE 3).
(* bincode 1.3 (fixint, little endian) of the serde derives: variant index = declaration order Replace, Insert, Delete, Swap *)
Definition bc_ser := @ser_script Z ser_i64 4 0%N 1%N 2%N 3%N.
Definition bc_de := @de_script Z de_i64 4 true 0%N 1%N 2%N 3%N.

(* execution of a script on the rope model with the translated constants *)
Definition x_exec {T} (l: list T) (cs: list (@C08Exec.change T)) : option (list T) :=
  C08Exec.rope_exec MAX_SLOT_SIZE BASE_SLOT_SIZE UNDERSIZED_SLOT FROM_ITER_TAKE l cs.
(* wire script -> executed script *)
Definition to_exec (c: @Wire.change Z) : @C08Exec.change Z :=
  match c with
  | Wire.CReplace v i => C08Exec.CReplace v (N.to_nat i) | Wire.CInsert v i => C08Exec.CInsert v (N.to_nat i)
  | Wire.CDelete i r => C08Exec.CDelete (N.to_nat i) (option_map N.to_nat r) | Wire.CSwap a b => C08Exec.CSwap (N.to_nat a) (N.to_nat b)
  end.
