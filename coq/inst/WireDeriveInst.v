(* The derive-level wire model instantiated with the discriminant tables translated from /repo on this run. *)
From Coq Require Import List.
Require Import W.WireDerive R.DModel3 Inst.DeriveInst.
Require Export Gen.ConstsOrderedWire Gen.ConstsUnordWire.
Definition tables_now : tables :=
  {| t_ord := ORD_DE; t_ua_change := UA_CHANGE; t_ua_diff := UA_DIFF; t_mf_change := MF_CHANGE; t_mf_diff := MF_DIFF; t_rm_change := RM_CHANGE; t_rm_diff := RM_DIFF |}.
Definition w_ser_es (f: fmt) (w: wshape) (es: list entry_t) := ser_es f tables_now w es.
Definition w_de_es (f: fmt) (w: wshape) := de_es f tables_now w.
Definition w_erase := erase.
