
val negb : bool -> bool

type nat =
| O
| S of nat

val fst : ('a1 * 'a2) -> 'a1

val snd : ('a1 * 'a2) -> 'a2

val length : 'a1 list -> nat

val app : 'a1 list -> 'a1 list -> 'a1 list

type comparison =
| Eq
| Lt
| Gt

val compOpp : comparison -> comparison

val add : nat -> nat -> nat

val sub : nat -> nat -> nat

module Nat :
 sig
  val leb : nat -> nat -> bool

  val ltb : nat -> nat -> bool
 end

val map : ('a1 -> 'a2) -> 'a1 list -> 'a2 list

val flat_map : ('a1 -> 'a2 list) -> 'a1 list -> 'a2 list

val fold_left : ('a1 -> 'a2 -> 'a1) -> 'a2 list -> 'a1 -> 'a1

val filter : ('a1 -> bool) -> 'a1 list -> 'a1 list

val repeat : 'a1 -> nat -> 'a1 list

type positive =
| XI of positive
| XO of positive
| XH

type z =
| Z0
| Zpos of positive
| Zneg of positive

module Pos :
 sig
  val succ : positive -> positive

  val add : positive -> positive -> positive

  val add_carry : positive -> positive -> positive

  val pred_double : positive -> positive

  val compare_cont : comparison -> positive -> positive -> comparison

  val compare : positive -> positive -> comparison

  val of_succ_nat : nat -> positive
 end

module Z :
 sig
  val double : z -> z

  val succ_double : z -> z

  val pred_double : z -> z

  val pos_sub : positive -> positive -> z

  val add : z -> z -> z

  val opp : z -> z

  val sub : z -> z -> z

  val compare : z -> z -> comparison

  val ltb : z -> z -> bool

  val of_nat : nat -> z
 end

type ('k, 'v) vmap = ('k * ('v * nat)) list

val vm_get :
  ('a1 -> 'a1 -> bool) -> 'a1 -> ('a1, 'a2) vmap -> ('a2 * nat) option

val vm_remove :
  ('a1 -> 'a1 -> bool) -> 'a1 -> ('a1, 'a2) vmap -> ('a1, 'a2) vmap

val vm_set :
  ('a1 -> 'a1 -> bool) -> 'a1 -> ('a2 * nat) -> ('a1, 'a2) vmap -> ('a1, 'a2)
  vmap

val collect_key : ('a1 -> 'a1 -> bool) -> ('a1 * 'a2) list -> ('a1, 'a2) vmap

val collect_key_value :
  ('a1 -> 'a1 -> bool) -> ('a2 -> 'a2 -> bool) -> ('a1 * 'a2) list -> ('a1,
  'a2) vmap

type ('k, 'v) mchange =
| InsertMany of 'k * 'v * nat
| RemoveMany of 'k * nat
| InsertSingle of 'k * 'v
| RemoveSingle of 'k

type op =
| OIns
| ORem

val new_change : 'a1 -> 'a2 -> nat -> op -> ('a1, 'a2) mchange

type ('k, 'v) mdiff =
| Replace of ('k * 'v) list
| Modify of ('k, 'v) mchange list

val expand : ('a1, 'a2) vmap -> ('a1 * 'a2) list

val diff_loop :
  ('a1 -> 'a1 -> bool) -> ('a2 -> 'a2 -> bool) -> ('a1, 'a2) vmap -> ('a1,
  'a2) vmap -> ('a1, 'a2) mchange list -> (('a1, 'a2) mchange list * ('a1,
  'a2) vmap) option

val hashcmp :
  ('a1 -> 'a1 -> bool) -> ('a2 -> 'a2 -> bool) -> (('a1 * ('a2 * nat)) list
  -> ('a1 * ('a2 * nat)) list) -> bool -> ('a1 * 'a2) list -> ('a1 * 'a2)
  list -> ('a1, 'a2) mdiff option option

val is_insert : ('a1, 'a2) mchange -> bool

val rem_step :
  ('a1 -> 'a1 -> bool) -> ('a1, 'a2) vmap -> ('a1, 'a2) mchange -> ('a1, 'a2)
  vmap

val ins_step :
  ('a1 -> 'a1 -> bool) -> ('a1, 'a2) vmap -> ('a1, 'a2) mchange -> ('a1, 'a2)
  vmap

val apply :
  ('a1 -> 'a1 -> bool) -> (('a1 * ('a2 * nat)) list -> ('a1 * ('a2 * nat))
  list) -> ('a1 * 'a2) list -> ('a1, 'a2) mdiff -> ('a1 * 'a2) list
