(* Model of src/collections/unordered_array_like.rs *)
From Coq Require Import List Arith ZArith Lia Bool.
Import ListNotations.

Section UA.
Context {K: Type} (keqb: K -> K -> bool).
(* HashMap iteration order: any permutation; identity for execution *)
Variable iter_order : list (K * nat) -> list (K * nat).

Definition cmap := list (K * nat).
Fixpoint cm_get (k: K) (m: cmap) : option nat :=
  match m with [] => None | (k', c) :: m' => if keqb k' k then Some c else cm_get k m' end.
Fixpoint cm_incr (k: K) (m: cmap) : cmap :=
  match m with [] => [(k, 1)] | (k', c) :: m' => if keqb k' k then (k', S c) :: m' else (k', c) :: cm_incr k m' end.
Fixpoint cm_remove (k: K) (m: cmap) : cmap :=
  match m with [] => [] | (k', c) :: m' => if keqb k' k then m' else (k', c) :: cm_remove k m' end.
Fixpoint cm_set (k: K) (c: nat) (m: cmap) : cmap :=
  match m with [] => [(k, c)] | (k', c') :: m' => if keqb k' k then (k', c) :: m' else (k', c') :: cm_set k c m' end.
Definition collect (l: list K) : cmap := fold_left (fun m k => cm_incr k m) l [].

Inductive dir := Ins | Rem.
Inductive change :=
  | InsertMany (k: K) (c: nat) | RemoveMany (k: K) (c: nat)
  | InsertFew (k: K) (c: nat)  | RemoveFew (k: K) (c: nat)      (* c is the u8 payload *)
  | InsertSingle (k: K) | RemoveSingle (k: K).
Definition U8MAX := 255.

(* Change::new with its three guards; None = unreachable!() *)
Definition new_change (k: K) (count: nat) (d: dir) : option change :=
  match d with
  | Ins => if count =? 1 then Some (InsertSingle k)
           else if count <=? U8MAX then Some (InsertFew k (count mod 256))
           else if U8MAX <? count then Some (InsertMany k count) else None
  | Rem => if count =? 1 then Some (RemoveSingle k)
           else if count <=? U8MAX then Some (RemoveFew k (count mod 256))
           else if U8MAX <? count then Some (RemoveMany k count) else None
  end.

Inductive udiff := Replace (xs: list K) | Modify (cs: list change).
Definition expand (m: cmap) : list K := flat_map (fun p => repeat (fst p) (snd p)) m.

Fixpoint diff_loop (cur: cmap) (prev: cmap) (acc: list change) : option (list change * cmap) :=
  match cur with
  | [] => Some (acc, prev)
  | (k, cc) :: cur' =>
      match cm_get k prev with
      | Some pc =>
          let prev' := cm_remove k prev in
          if pc <? cc then match new_change k (cc - pc) Ins with Some c => diff_loop cur' prev' (acc ++ [c]) | None => None end
          else if cc <? pc then match new_change k (pc - cc) Rem with Some c => diff_loop cur' prev' (acc ++ [c]) | None => None end
          else diff_loop cur' prev' acc
      | None => match new_change k cc Ins with Some c => diff_loop cur' prev (acc ++ [c]) | None => None end
      end
  end.
Fixpoint leftovers (prev: cmap) : option (list change) :=
  match prev with [] => Some [] | (k, c) :: p' => match new_change k c Rem, leftovers p' with Some x, Some r => Some (x :: r) | _, _ => None end end.

(* None = panic; Some None = no diff *)
Definition hashcmp (previous current: list K) : option (option udiff) :=
  let prev := collect previous in let cur := collect current in
  if (Z.of_nat (length cur) <? Z.of_nat (length prev) - Z.of_nat (length cur))%Z then Some (Some (Replace (expand (iter_order cur))))
  else match diff_loop (iter_order cur) prev [] with
       | None => None
       | Some (acc, rest) => match leftovers (iter_order rest) with None => None | Some l =>
            match acc ++ l with [] => Some None | d => Some (Some (Modify d)) end end
       end.

Definition is_insert (c: change) := match c with InsertMany _ _ | InsertFew _ _ | InsertSingle _ => true | _ => false end.
Definition cm_sub (k: K) (c: nat) (m: cmap) : cmap :=
  match cm_get k m with Some v => if c <? v then cm_set k (v - c) m else cm_remove k m | None => m end.
Definition cm_addn (k: K) (c: nat) (m: cmap) : cmap :=
  match cm_get k m with Some v => cm_set k (v + c) m | None => m ++ [(k, c)] end.
Definition rem_step (m: cmap) (c: change) : cmap :=
  match c with RemoveMany k n | RemoveFew k n => cm_sub k n m | RemoveSingle k => cm_sub k 1 m | _ => m end.
Definition ins_step (m: cmap) (c: change) : cmap :=
  match c with InsertMany k n | InsertFew k n => cm_addn k n m | InsertSingle k => cm_addn k 1 m | _ => m end.

Definition apply (base: list K) (d: udiff) : list K :=
  match d with
  | Replace xs => xs
  | Modify cs =>
     let ins := filter is_insert cs in let rems := filter (fun c => negb (is_insert c)) cs in
     expand (iter_order (fold_left ins_step ins (fold_left rem_step rems (collect base))))
  end.
End UA.
