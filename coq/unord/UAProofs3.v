From Coq Require Import List Arith ZArith Lia Bool Permutation.
Import ListNotations.
Require Import U.UnordArr U.UAProofs1 U.UAProofs2.

Section P3.
Context {K: Type} (keqb: K -> K -> bool).
Hypothesis keqb_spec : forall a b, keqb a b = true <-> a = b.
Variable iter_order : list (K * nat) -> list (K * nat).
Hypothesis iter_perm : forall m, Permutation (iter_order m) m.
Notation cm_get := (UnordArr.cm_get keqb).
Notation cm_remove := (UnordArr.cm_remove keqb).
Notation cmv := (UAProofs1.cmv keqb).
Notation count := (UAProofs1.count keqb).
Notation change := (@UnordArr.change K).
Notation removed := (UAProofs2.removed keqb).
Notation inserted := (UAProofs2.inserted keqb).
Notation rem_of := (UAProofs2.rem_of keqb).
Notation ins_of := (UAProofs2.ins_of keqb).

(* Change::new never reaches unreachable!() for a positive count and encodes it losslessly (u8 boundary included) *)
Lemma new_change_spec k c dir : 1 <= c ->
  exists ch, new_change k c dir = Some ch /\
    (forall k', rem_of k' ch = match dir with Rem => if keqb k k' then c else 0 | Ins => 0 end) /\
    (forall k', ins_of k' ch = match dir with Ins => if keqb k k' then c else 0 | Rem => 0 end).
Proof.
  intros Hc. unfold new_change, U8MAX. destruct dir.
  - destruct (c =? 1) eqn:E1; [apply Nat.eqb_eq in E1; subst; eexists; split; [reflexivity|split; intros; reflexivity]|].
    destruct (c <=? 255) eqn:E2.
    + apply Nat.leb_le in E2. eexists; split; [reflexivity|]. split; intros k'; cbn [UAProofs2.rem_of UAProofs2.ins_of]; rewrite ?Nat.mod_small by lia; reflexivity.
    + apply Nat.leb_gt in E2. assert (E3: (255 <? c) = true) by (apply Nat.ltb_lt; lia). rewrite E3.
      eexists; split; [reflexivity|split; intros; reflexivity].
  - destruct (c =? 1) eqn:E1; [apply Nat.eqb_eq in E1; subst; eexists; split; [reflexivity|split; intros; reflexivity]|].
    destruct (c <=? 255) eqn:E2.
    + apply Nat.leb_le in E2. eexists; split; [reflexivity|]. split; intros k'; cbn [UAProofs2.rem_of UAProofs2.ins_of]; rewrite ?Nat.mod_small by lia; reflexivity.
    + apply Nat.leb_gt in E2. assert (E3: (255 <? c) = true) by (apply Nat.ltb_lt; lia). rewrite E3.
      eexists; split; [reflexivity|split; intros; reflexivity].
Qed.

Lemma removed_app k a b : removed k (a ++ b) = removed k a + removed k b.
Proof. unfold UAProofs2.removed. induction a; cbn; [reflexivity|]. rewrite IHa. lia. Qed.
Lemma inserted_app k a b : inserted k (a ++ b) = inserted k a + inserted k b.
Proof. unfold UAProofs2.inserted. induction a; cbn; [reflexivity|]. rewrite IHa. lia. Qed.

Definition inb (k: K) (l: list K) : bool := existsb (fun x => keqb x k) l.

Lemma pos_remove k m : pos m -> pos (cm_remove k m).
Proof.
  induction m as [|[k0 c0] m IH]; intros P k' c' H; cbn in H; [contradiction|].
  destruct (keqb k0 k); [apply (P k' c'); right; exact H|].
  destruct H as [[= <- <-]|H]; [apply (P k0 c0); left; reflexivity|]. apply (IH (fun a b Hab => P a b (or_intror Hab)) k' c' H).
Qed.

(* the main loop over the current map *)
Lemma diff_loop_spec : forall cur prev acc, wf cur -> pos cur -> wf prev -> pos prev ->
  exists es rest, diff_loop keqb cur prev acc = Some (acc ++ es, rest) /\ wf rest /\ pos rest /\
    (forall k, inserted k es = if inb k (keys cur) then cmv cur k - cmv prev k else 0) /\
    (forall k, removed k es  = if inb k (keys cur) then cmv prev k - cmv cur k else 0) /\
    (forall k, cmv rest k = if inb k (keys cur) then 0 else cmv prev k).
Proof.
  induction cur as [|[k cc] cur IH]; intros prev acc Wc Pc Wp Pp.
  - exists [], prev. cbn. rewrite app_nil_r. repeat split; auto.
  - inversion Wc; subst.
    assert (Pc': pos cur) by (intros a b Hab; apply (Pc a b); right; exact Hab).
    assert (Hcc: 1 <= cc) by (apply (Pc k cc); left; reflexivity).
    assert (Hk: cm_get k cur = None) by (apply (cm_get_none keqb keqb_spec); exact H1).
    (* reading cur = (k,cc)::cur *)
    assert (Cv: forall k', cmv ((k, cc) :: cur) k' = if keqb k k' then cc else cmv cur k').
    { intros k'. unfold UAProofs1.cmv. cbn. destruct (keqb k k'); reflexivity. }
    assert (Inb: forall k', inb k' (keys ((k, cc) :: cur)) = keqb k k' || inb k' (keys cur)) by (intros; reflexivity).
    cbn [diff_loop]. destruct (cm_get k prev) as [pc|] eqn:G.
    + set (prev' := cm_remove k prev).
      assert (Wp': wf prev') by (apply wf_remove; assumption).
      assert (Pp': pos prev') by (apply pos_remove; assumption).
      assert (Rv: forall k', cmv prev' k' = if keqb k k' then 0 else cmv prev k') by (intros; apply cmv_remove; assumption).
      assert (Pv: cmv prev k = pc) by (unfold UAProofs1.cmv; rewrite G; reflexivity).
      destruct (pc <? cc) eqn:E1; [|destruct (cc <? pc) eqn:E2].
      * apply Nat.ltb_lt in E1. destruct (new_change_spec k (cc - pc) Ins ltac:(lia)) as (ch & N & Rm & In_).
        rewrite N. destruct (IH prev' (acc ++ [ch]) H2 Pc' Wp' Pp') as (es & rest & D & Wr & Pr & I & Rr & Rs).
        exists (ch :: es), rest. rewrite D. rewrite <- app_assoc. repeat split; auto; intros k'; rewrite ?Inb, ?Cv.
        -- cbn [UAProofs2.inserted fold_right]. fold (inserted k' es). rewrite In_, I, Rv. destruct (keqb k k') eqn:E; cbn [orb].
           ++ apply keqb_spec in E. subst k'. assert (Hnb: inb k (keys cur) = false).
              { destruct (inb k (keys cur)) eqn:B; [|reflexivity]. apply (existsb_keys keqb keqb_spec) in B. contradiction. }
              rewrite Hnb. lia.
           ++ destruct (inb k' (keys cur)); lia.
        -- cbn [UAProofs2.removed fold_right]. fold (removed k' es). rewrite Rm, Rr, Rv. destruct (keqb k k') eqn:E; cbn [orb].
           ++ apply keqb_spec in E. subst k'. assert (Hnb: inb k (keys cur) = false).
              { destruct (inb k (keys cur)) eqn:B; [|reflexivity]. apply (existsb_keys keqb keqb_spec) in B. contradiction. }
              rewrite Hnb. lia.
           ++ destruct (inb k' (keys cur)); lia.
        -- rewrite Rs, Rv. destruct (keqb k k'); cbn [orb]; [destruct (inb k' (keys cur)); reflexivity|reflexivity].
      * apply Nat.ltb_lt in E2. destruct (new_change_spec k (pc - cc) Rem ltac:(lia)) as (ch & N & Rm & In_).
        rewrite N. destruct (IH prev' (acc ++ [ch]) H2 Pc' Wp' Pp') as (es & rest & D & Wr & Pr & I & Rr & Rs).
        exists (ch :: es), rest. rewrite D. rewrite <- app_assoc. repeat split; auto; intros k'; rewrite ?Inb, ?Cv.
        -- cbn [UAProofs2.inserted fold_right]. fold (inserted k' es). rewrite In_, I, Rv. destruct (keqb k k') eqn:E; cbn [orb].
           ++ apply keqb_spec in E. subst k'. assert (Hnb: inb k (keys cur) = false).
              { destruct (inb k (keys cur)) eqn:B; [|reflexivity]. apply (existsb_keys keqb keqb_spec) in B. contradiction. }
              rewrite Hnb. lia.
           ++ destruct (inb k' (keys cur)); lia.
        -- cbn [UAProofs2.removed fold_right]. fold (removed k' es). rewrite Rm, Rr, Rv. destruct (keqb k k') eqn:E; cbn [orb].
           ++ apply keqb_spec in E. subst k'. assert (Hnb: inb k (keys cur) = false).
              { destruct (inb k (keys cur)) eqn:B; [|reflexivity]. apply (existsb_keys keqb keqb_spec) in B. contradiction. }
              rewrite Hnb. lia.
           ++ destruct (inb k' (keys cur)); lia.
        -- rewrite Rs, Rv. destruct (keqb k k'); cbn [orb]; [destruct (inb k' (keys cur)); reflexivity|reflexivity].
      * apply Nat.ltb_ge in E1. apply Nat.ltb_ge in E2.
        destruct (IH prev' acc H2 Pc' Wp' Pp') as (es & rest & D & Wr & Pr & I & Rr & Rs).
        exists es, rest. rewrite D. repeat split; auto; intros k'; rewrite ?Inb, ?Cv.
        -- rewrite I, Rv. destruct (keqb k k') eqn:E; cbn [orb].
           ++ apply keqb_spec in E. subst k'. assert (Hnb: inb k (keys cur) = false).
              { destruct (inb k (keys cur)) eqn:B; [|reflexivity]. apply (existsb_keys keqb keqb_spec) in B. contradiction. }
              rewrite Hnb. lia.
           ++ destruct (inb k' (keys cur)); lia.
        -- rewrite Rr, Rv. destruct (keqb k k') eqn:E; cbn [orb].
           ++ apply keqb_spec in E. subst k'. assert (Hnb: inb k (keys cur) = false).
              { destruct (inb k (keys cur)) eqn:B; [|reflexivity]. apply (existsb_keys keqb keqb_spec) in B. contradiction. }
              rewrite Hnb. lia.
           ++ destruct (inb k' (keys cur)); lia.
        -- rewrite Rs, Rv. destruct (keqb k k'); cbn [orb]; [destruct (inb k' (keys cur)); reflexivity|reflexivity].
    + assert (Pv: cmv prev k = 0) by (unfold UAProofs1.cmv; rewrite G; reflexivity).
      destruct (new_change_spec k cc Ins Hcc) as (ch & N & Rm & In_).
      rewrite N. destruct (IH prev (acc ++ [ch]) H2 Pc' Wp Pp) as (es & rest & D & Wr & Pr & I & Rr & Rs).
      exists (ch :: es), rest. rewrite D. rewrite <- app_assoc. repeat split; auto; intros k'; rewrite ?Inb, ?Cv.
      * cbn [UAProofs2.inserted fold_right]. fold (inserted k' es). rewrite In_, I. destruct (keqb k k') eqn:E; cbn [orb].
        -- apply keqb_spec in E. subst k'. assert (Hnb: inb k (keys cur) = false).
           { destruct (inb k (keys cur)) eqn:B; [|reflexivity]. apply (existsb_keys keqb keqb_spec) in B. contradiction. }
           rewrite Hnb. lia.
        -- destruct (inb k' (keys cur)); lia.
      * cbn [UAProofs2.removed fold_right]. fold (removed k' es). rewrite Rm, Rr. destruct (keqb k k') eqn:E; cbn [orb].
        -- apply keqb_spec in E. subst k'. assert (Hnb: inb k (keys cur) = false).
           { destruct (inb k (keys cur)) eqn:B; [|reflexivity]. apply (existsb_keys keqb keqb_spec) in B. contradiction. }
           rewrite Hnb. lia.
        -- destruct (inb k' (keys cur)); lia.
      * rewrite Rs. destruct (keqb k k') eqn:E; cbn [orb]; [|reflexivity].
        apply keqb_spec in E. subst k'. destruct (inb k (keys cur)); [reflexivity|exact Pv].
Qed.
End P3.
