From Coq Require Import List Arith ZArith Lia Bool Permutation.
Import ListNotations.
Require Import U.UnordArr U.UAProofs1 U.UAProofs2 U.UAProofs3.

Section P4.
Context {K: Type} (keqb: K -> K -> bool).
Hypothesis keqb_spec : forall a b, keqb a b = true <-> a = b.
Variable iter_order : list (K * nat) -> list (K * nat).
Hypothesis iter_perm : forall m, Permutation (iter_order m) m.
Notation cmv := (UAProofs1.cmv keqb).
Notation count := (UAProofs1.count keqb).
Notation removed := (UAProofs2.removed keqb).
Notation inserted := (UAProofs2.inserted keqb).
Notation hashcmp := (UnordArr.hashcmp keqb iter_order).
Notation apply := (UnordArr.apply keqb iter_order).

Lemma pos_perm (m m': list (K * nat)) : pos m -> Permutation m m' -> pos m'.
Proof. intros P Pm k c H. apply (P k c). eapply Permutation_in; [apply Permutation_sym; exact Pm|exact H]. Qed.

Lemma leftovers_spec : forall rest, wf rest -> pos rest ->
  exists l, leftovers rest = Some l /\ (forall k, removed k l = cmv rest k) /\ (forall k, inserted k l = 0).
Proof.
  induction rest as [|[k c] rest IH]; intros W P.
  - exists []. repeat split; reflexivity.
  - inversion W; subst. assert (P': pos rest) by (intros a b Hab; apply (P a b); right; exact Hab).
    destruct (IH H2 P') as (l & L & Rm & In_).
    destruct (new_change_spec keqb k c Rem ltac:(apply (P k c); left; reflexivity)) as (ch & N & Rc & Ic).
    exists (ch :: l). cbn [leftovers]. rewrite N, L. repeat split; intros k'.
    + cbn [UAProofs2.removed fold_right]. fold (removed k' l). rewrite Rc, Rm. unfold UAProofs1.cmv. cbn [UnordArr.cm_get].
      destruct (keqb k k') eqn:E; [|reflexivity]. apply keqb_spec in E. subst k'.
      assert (G: UnordArr.cm_get keqb k rest = None) by (apply (cm_get_none keqb keqb_spec); exact H1). rewrite G. lia.
    + cbn [UAProofs2.inserted fold_right]. fold (inserted k' l). rewrite Ic, In_. reflexivity.
Qed.

(* keys absent from a positive map read 0; present ones read >= 1 *)
Lemma cmv_pos_in k m : wf m -> pos m -> (In k (keys m) <-> 1 <= cmv m k).
Proof.
  intros W P. unfold UAProofs1.cmv. destruct (UnordArr.cm_get keqb k m) eqn:G.
  - pose proof (cm_get_some_in keqb keqb_spec _ _ _ G) as Hin. split; [intros _; apply (P k n Hin)|intros _; unfold keys; apply in_map_iff; exists (k, n); auto].
  - apply (cm_get_none keqb keqb_spec) in G. split; [contradiction|lia].
Qed.

(* the Modify branch carries exactly the per-key deltas (C20) *)
Theorem modify_deltas : forall previous current d,
  hashcmp previous current = Some (Some (Modify d)) ->
  forall k, inserted k d = count k current - count k previous /\ removed k d = count k previous - count k current.
Proof.
  intros previous current d H k. unfold UnordArr.hashcmp in H.
  set (prev := collect keqb previous) in *. set (cur := collect keqb current) in *.
  destruct (Z.of_nat (length cur) <? Z.of_nat (length prev) - Z.of_nat (length cur))%Z; [discriminate|].
  assert (Wc: wf cur) by apply (collect_wf keqb keqb_spec). assert (Pc: pos cur) by apply (collect_pos keqb).
  assert (Wp: wf prev) by apply (collect_wf keqb keqb_spec). assert (Pp: pos prev) by apply (collect_pos keqb).
  assert (Wc': wf (iter_order cur)) by (eapply wf_perm; [exact Wc|apply Permutation_sym, iter_perm]).
  assert (Pc': pos (iter_order cur)) by (eapply pos_perm; [exact Pc|apply Permutation_sym, iter_perm]).
  destruct (diff_loop_spec keqb keqb_spec (iter_order cur) prev [] Wc' Pc' Wp Pp) as (es & rest & D & Wr & Pr & I & Rm & Rs).
  rewrite D in H. cbn [app] in H.
  assert (Wr': wf (iter_order rest)) by (eapply wf_perm; [exact Wr|apply Permutation_sym, iter_perm]).
  assert (Pr': pos (iter_order rest)) by (eapply pos_perm; [exact Pr|apply Permutation_sym, iter_perm]).
  destruct (leftovers_spec (iter_order rest) Wr' Pr') as (l & L & Lr & Li). rewrite L in H.
  assert (Ed: d = es ++ l) by (destruct (es ++ l); [discriminate|injection H as <-; reflexivity]). subst d.
  rewrite inserted_app, removed_app, I, Rm, Li, Lr.
  rewrite (cmv_perm keqb keqb_spec rest (iter_order rest) k Wr) by (apply Permutation_sym, iter_perm).
  rewrite Rs.
  rewrite (cmv_perm keqb keqb_spec cur (iter_order cur) k Wc) by (apply Permutation_sym, iter_perm).
  assert (Ek: UAProofs3.inb keqb k (keys (iter_order cur)) = true <-> 1 <= cmv cur k).
  { unfold UAProofs3.inb. rewrite (existsb_keys keqb keqb_spec). rewrite <- (cmv_pos_in k cur Wc Pc).
    unfold keys. split; intros Hin; (eapply Permutation_in; [apply Permutation_map|exact Hin]); [apply iter_perm|apply Permutation_sym, iter_perm]. }
  unfold cur, prev in *. rewrite !(collect_cmv keqb keqb_spec). rewrite (collect_cmv keqb keqb_spec) in Ek.
  destruct (UAProofs3.inb keqb k (keys (iter_order (collect keqb current)))) eqn:B.
  - lia.
  - assert (count k current = 0). { destruct (count k current) eqn:C; [reflexivity|]. assert (Hft: false = true) by (apply Ek; lia). discriminate Hft. }
    lia.
Qed.

(* C11: round trip as multisets, never panics, absent iff equal (⇐ direction of "absent" and the Modify half of "present") *)
Theorem unordered_array_roundtrip : forall previous current,
  match hashcmp previous current with
  | None => False
  | Some None => forall k, count k previous = count k current
  | Some (Some d) => forall k, count k (apply previous d) = count k current
  end.
Proof.
  intros previous current. destruct (hashcmp previous current) as [[d|]|] eqn:H.
  - destruct d as [xs|d].
    + (* Replace *) intros k. cbn [UnordArr.apply]. unfold UnordArr.hashcmp in H.
      destruct (Z.of_nat (length (collect keqb current)) <? _)%Z; [|destruct (diff_loop _ _ _ _) as [[? ?]|]; [destruct (leftovers _); [destruct (_ ++ _)|]|]; discriminate].
      injection H as <-.
      rewrite (count_expand keqb keqb_spec) by (eapply wf_perm; [apply (collect_wf keqb keqb_spec)|apply Permutation_sym, iter_perm]).
      rewrite (cmv_perm keqb keqb_spec (collect keqb current)) by (apply (collect_wf keqb keqb_spec) || apply Permutation_sym, iter_perm).
      apply (collect_cmv keqb keqb_spec).
    + intros k. rewrite (unordered_apply_closed_form keqb keqb_spec iter_order iter_perm).
      destruct (modify_deltas previous current d H k) as [I R]. rewrite I, R. lia.
  - (* no diff: all deltas are zero *)
    intros k. unfold UnordArr.hashcmp in H.
    set (prev := collect keqb previous) in *. set (cur := collect keqb current) in *.
    destruct (Z.of_nat (length cur) <? Z.of_nat (length prev) - Z.of_nat (length cur))%Z; [discriminate|].
    assert (Wc: wf cur) by apply (collect_wf keqb keqb_spec). assert (Pc: pos cur) by apply (collect_pos keqb).
    assert (Wp: wf prev) by apply (collect_wf keqb keqb_spec). assert (Pp: pos prev) by apply (collect_pos keqb).
    assert (Wc': wf (iter_order cur)) by (eapply wf_perm; [exact Wc|apply Permutation_sym, iter_perm]).
    assert (Pc': pos (iter_order cur)) by (eapply pos_perm; [exact Pc|apply Permutation_sym, iter_perm]).
    destruct (diff_loop_spec keqb keqb_spec (iter_order cur) prev [] Wc' Pc' Wp Pp) as (es & rest & D & Wr & Pr & I & Rm & Rs).
    rewrite D in H. cbn [app] in H.
    assert (Wr': wf (iter_order rest)) by (eapply wf_perm; [exact Wr|apply Permutation_sym, iter_perm]).
    assert (Pr': pos (iter_order rest)) by (eapply pos_perm; [exact Pr|apply Permutation_sym, iter_perm]).
    destruct (leftovers_spec (iter_order rest) Wr' Pr') as (l & L & Lr & Li). rewrite L in H.
    destruct (es ++ l) eqn:El; [|discriminate]. apply app_eq_nil in El. destruct El as [-> ->].
    specialize (I k). specialize (Rm k). specialize (Lr k). specialize (Rs k). cbn in I, Rm, Lr.
    rewrite (cmv_perm keqb keqb_spec rest (iter_order rest) k Wr) in Lr by (apply Permutation_sym, iter_perm).
    rewrite (cmv_perm keqb keqb_spec cur (iter_order cur) k Wc) in I, Rm by (apply Permutation_sym, iter_perm).
    rewrite Rs in Lr.
    assert (Ek: UAProofs3.inb keqb k (keys (iter_order cur)) = true <-> 1 <= cmv cur k).
    { unfold UAProofs3.inb. rewrite (existsb_keys keqb keqb_spec). rewrite <- (cmv_pos_in k cur Wc Pc).
      unfold keys. split; intros Hin; (eapply Permutation_in; [apply Permutation_map|exact Hin]); [apply iter_perm|apply Permutation_sym, iter_perm]. }
    unfold cur, prev in *. rewrite ?(collect_cmv keqb keqb_spec) in I. rewrite ?(collect_cmv keqb keqb_spec) in Rm. rewrite ?(collect_cmv keqb keqb_spec) in Lr. rewrite (collect_cmv keqb keqb_spec) in Ek.
    destruct (UAProofs3.inb keqb k (keys (iter_order (collect keqb current)))) eqn:B; [lia|].
    assert (count k current = 0). { destruct (count k current) eqn:C; [reflexivity|]. assert (Hft: false = true) by (apply Ek; lia). discriminate Hft. }
    lia.
  - (* no panic *)
    unfold UnordArr.hashcmp in H.
    set (prev := collect keqb previous) in *. set (cur := collect keqb current) in *.
    destruct (Z.of_nat (length cur) <? Z.of_nat (length prev) - Z.of_nat (length cur))%Z; [discriminate|].
    assert (Wc: wf cur) by apply (collect_wf keqb keqb_spec). assert (Pc: pos cur) by apply (collect_pos keqb).
    assert (Wp: wf prev) by apply (collect_wf keqb keqb_spec). assert (Pp: pos prev) by apply (collect_pos keqb).
    assert (Wc': wf (iter_order cur)) by (eapply wf_perm; [exact Wc|apply Permutation_sym, iter_perm]).
    assert (Pc': pos (iter_order cur)) by (eapply pos_perm; [exact Pc|apply Permutation_sym, iter_perm]).
    destruct (diff_loop_spec keqb keqb_spec (iter_order cur) prev [] Wc' Pc' Wp Pp) as (es & rest & D & Wr & Pr & I & Rm & Rs).
    rewrite D in H.
    assert (Wr': wf (iter_order rest)) by (eapply wf_perm; [exact Wr|apply Permutation_sym, iter_perm]).
    assert (Pr': pos (iter_order rest)) by (eapply pos_perm; [exact Pr|apply Permutation_sym, iter_perm]).
    destruct (leftovers_spec (iter_order rest) Wr' Pr') as (l & L & Lr & Li). rewrite L in H.
    cbn [app] in H. destruct (es ++ l); discriminate H.
Qed.
End P4.
Print Assumptions unordered_array_roundtrip.
Print Assumptions modify_deltas.
