(* The `debug_asserts` feature of src/collections/unordered_array_like.rs (debug build): the variant of the model in which
   - Change::new panics on a zero count (`debug_assert_ne!(count, 0)`), and
   - the two patch loops panic on an entry of the wrong kind (`panic!("Sorting failure")`).
   None = panic. Theorems: the variant never panics where the plain model does not, and computes the same results: the three
   assertion sites are unreachable — for every pair of inputs (diff) and for EVERY diff value and base (apply). *)
From Coq Require Import List Arith ZArith Lia Bool Permutation.
Import ListNotations.
Require Import U.UnordArr U.UAProofs1 U.UAProofs2 U.UAProofs3 U.UAProofs4.

Section DA.
Context {K: Type} (keqb: K -> K -> bool).
Hypothesis keqb_spec : forall a b, keqb a b = true <-> a = b.
Variable iter_order : list (K * nat) -> list (K * nat).
Hypothesis iter_perm : forall m, Permutation (iter_order m) m.
Notation cm_get := (UnordArr.cm_get keqb).
Notation cm_remove := (UnordArr.cm_remove keqb).
Notation change := (@UnordArr.change K).
Notation collect := (UnordArr.collect keqb).
Notation pos := (@UAProofs1.pos K).
Notation wf := (@UAProofs1.wf K).

Definition new_change_da (k: K) (count: nat) (d: dir) : option change :=
  if count =? 0 then None else new_change k count d.

Fixpoint diff_loop_da (cur: cmap) (prev: cmap) (acc: list change) : option (list change * cmap) :=
  match cur with
  | [] => Some (acc, prev)
  | (k, cc) :: cur' =>
      match cm_get k prev with
      | Some pc =>
          let prev' := cm_remove k prev in
          if pc <? cc then match new_change_da k (cc - pc) Ins with Some c => diff_loop_da cur' prev' (acc ++ [c]) | None => None end
          else if cc <? pc then match new_change_da k (pc - cc) Rem with Some c => diff_loop_da cur' prev' (acc ++ [c]) | None => None end
          else diff_loop_da cur' prev' acc
      | None => match new_change_da k cc Ins with Some c => diff_loop_da cur' prev (acc ++ [c]) | None => None end
      end
  end.
Fixpoint leftovers_da (prev: cmap) : option (list change) :=
  match prev with [] => Some [] | (k, c) :: p' => match new_change_da k c Rem, leftovers_da p' with Some x, Some r => Some (x :: r) | _, _ => None end end.

Definition hashcmp_da (previous current: list K) : option (option udiff) :=
  let prev := collect previous in let cur := collect current in
  if (Z.of_nat (length cur) <? Z.of_nat (length prev) - Z.of_nat (length cur))%Z then Some (Some (Replace (expand (iter_order cur))))
  else match diff_loop_da (iter_order cur) prev [] with
       | None => None
       | Some (acc, rest) => match leftovers_da (iter_order rest) with None => None | Some l =>
            match acc ++ l with [] => Some None | d => Some (Some (Modify d)) end end
       end.

Definition rem_step_da (m: option cmap) (c: change) : option cmap :=
  match m with None => None | Some m =>
    match c with RemoveMany _ _ | RemoveFew _ _ | RemoveSingle _ => Some (rem_step keqb m c) | _ => None end end.
Definition ins_step_da (m: option cmap) (c: change) : option cmap :=
  match m with None => None | Some m =>
    match c with InsertMany _ _ | InsertFew _ _ | InsertSingle _ => Some (ins_step keqb m c) | _ => None end end.
Definition apply_da (base: list K) (d: udiff) : option (list K) :=
  match d with
  | Replace xs => Some xs
  | Modify cs =>
     let ins := filter is_insert cs in let rems := filter (fun c => negb (is_insert c)) cs in
     match fold_left ins_step_da ins (fold_left rem_step_da rems (Some (collect base))) with
     | Some m => Some (expand (iter_order m)) | None => None end
  end.

Lemma new_change_da_pos k c d : 1 <= c -> new_change_da k c d = new_change k c d.
Proof. intros H. unfold new_change_da. destruct (Nat.eqb_spec c 0); [lia|reflexivity]. Qed.

Lemma pos_tail (a: K * nat) m : pos (a :: m) -> pos m.
Proof. intros P k c H. apply (P k c). right. exact H. Qed.
Lemma pos_head k c m : pos ((k, c) :: m) -> 1 <= c.
Proof. intros P. apply (P k c). left. reflexivity. Qed.

Lemma diff_loop_da_eq : forall cur prev acc, pos cur -> pos prev -> diff_loop_da cur prev acc = diff_loop keqb cur prev acc.
Proof.
  induction cur as [|[k cc] cur IH]; intros prev acc Pc Pp; [reflexivity|].
  pose proof (pos_head _ _ _ Pc) as Hcc. pose proof (pos_tail _ _ Pc) as Pc'.
  cbn [diff_loop_da diff_loop]. destruct (cm_get k prev) as [pc|] eqn:G.
  - pose proof (pos_remove keqb k prev Pp) as Pp'.
    destruct (pc <? cc) eqn:E1; [|destruct (cc <? pc) eqn:E2].
    + apply Nat.ltb_lt in E1. rewrite new_change_da_pos by lia. destruct (new_change k (cc - pc) Ins); [apply IH; assumption|reflexivity].
    + apply Nat.ltb_lt in E2. rewrite new_change_da_pos by lia. destruct (new_change k (pc - cc) Rem); [apply IH; assumption|reflexivity].
    + apply IH; assumption.
  - rewrite new_change_da_pos by lia. destruct (new_change k cc Ins); [apply IH; assumption|reflexivity].
Qed.

Lemma leftovers_da_eq : forall rest, pos rest -> leftovers_da rest = leftovers rest.
Proof.
  induction rest as [|[k c] rest IH]; intros P; [reflexivity|]. cbn [leftovers_da leftovers].
  rewrite new_change_da_pos by (apply (pos_head _ _ _ P)). rewrite IH by (apply (pos_tail _ _ P)). reflexivity.
Qed.

(* diff: the zero-count assertion of Change::new never fires *)
Theorem hashcmp_da_same : forall previous current, hashcmp_da previous current = hashcmp keqb iter_order previous current.
Proof.
  intros previous current. unfold hashcmp_da, hashcmp.
  destruct (Z.of_nat (length (collect current)) <? Z.of_nat (length (collect previous)) - Z.of_nat (length (collect current)))%Z; [reflexivity|].
  assert (Wc: wf (iter_order (collect current))) by (eapply wf_perm; [apply collect_wf; exact keqb_spec|apply Permutation_sym, iter_perm]).
  assert (Pc: pos (iter_order (collect current))) by (eapply pos_perm; [apply collect_pos|apply Permutation_sym, iter_perm]).
  assert (Wp: wf (collect previous)) by (apply collect_wf; exact keqb_spec).
  assert (Pp: pos (collect previous)) by apply collect_pos.
  rewrite diff_loop_da_eq by assumption.
  destruct (diff_loop_spec keqb keqb_spec (iter_order (collect current)) (collect previous) [] Wc Pc Wp Pp) as (es & rest & D & Wr & Pr & _).
  rewrite D. rewrite leftovers_da_eq; [reflexivity|]. eapply pos_perm; [exact Pr|apply Permutation_sym, iter_perm].
Qed.

Lemma fold_rem_da : forall l m, Forall (fun c => is_insert c = false) l ->
  fold_left rem_step_da l (Some m) = Some (fold_left (rem_step keqb) l m).
Proof.
  induction l as [|c l IH]; intros m F; [reflexivity|]. inversion F as [|? ? Hc Hl]; subst. cbn [fold_left].
  destruct c; cbn in Hc; try discriminate; cbn [rem_step_da]; apply IH; exact Hl.
Qed.
Lemma fold_ins_da : forall l m, Forall (fun c => is_insert c = true) l ->
  fold_left ins_step_da l (Some m) = Some (fold_left (ins_step keqb) l m).
Proof.
  induction l as [|c l IH]; intros m F; [reflexivity|]. inversion F as [|? ? Hc Hl]; subst. cbn [fold_left].
  destruct c; cbn in Hc; try discriminate; cbn [ins_step_da]; apply IH; exact Hl.
Qed.

(* apply: the two "Sorting failure" arms are unreachable for every diff value, produced by diff or not *)
Theorem apply_da_same : forall base d, apply_da base d = Some (apply keqb iter_order base d).
Proof.
  intros base [xs|cs]; [reflexivity|]. unfold apply_da, apply.
  rewrite fold_rem_da by (apply Forall_forall; intros c Hc; apply filter_In in Hc; destruct Hc as [_ Hc]; apply negb_true_iff in Hc; exact Hc).
  rewrite fold_ins_da by (apply Forall_forall; intros c Hc; apply filter_In in Hc; destruct Hc as [_ Hc]; exact Hc).
  reflexivity.
Qed.
End DA.
