From Coq Require Import List Arith ZArith Lia Bool Permutation.
Import ListNotations.
Require Import U.UnordArr.

Section P.
Context {K: Type} (keqb: K -> K -> bool).
Hypothesis keqb_spec : forall a b, keqb a b = true <-> a = b.
Notation cmap := (@UnordArr.cmap K).
Notation cm_get := (UnordArr.cm_get keqb).
Notation cm_incr := (UnordArr.cm_incr keqb).
Notation cm_remove := (UnordArr.cm_remove keqb).
Notation cm_set := (UnordArr.cm_set keqb).
Notation collect := (UnordArr.collect keqb).

Lemma keqb_refl k : keqb k k = true. Proof. apply keqb_spec. reflexivity. Qed.
Lemma keqb_false a b : keqb a b = false <-> a <> b.
Proof. split; intros H; [intros E; apply keqb_spec in E; congruence|destruct (keqb a b) eqn:E; [apply keqb_spec in E; contradiction|reflexivity]]. Qed.
Lemma keqb_sym a b : keqb a b = keqb b a.
Proof. destruct (keqb a b) eqn:E; symmetry; [apply keqb_spec; apply keqb_spec in E; auto|apply keqb_false; apply keqb_false in E; auto]. Qed.

Definition count (k: K) (l: list K) : nat := length (filter (fun x => keqb x k) l).
Definition cmv (m: cmap) (k: K) : nat := match cm_get k m with Some c => c | None => 0 end.
Definition wf (m: cmap) : Prop := NoDup (map fst m).
Definition keys (m: cmap) := map fst m.

Lemma cm_get_none m k : cm_get k m = None <-> ~ In k (keys m).
Proof.
  induction m as [|[k' c] m IH]; cbn; [tauto|]. destruct (keqb k' k) eqn:E.
  - apply keqb_spec in E. subst. split; [discriminate|intros H; exfalso; apply H; auto].
  - apply keqb_false in E. rewrite IH. tauto.
Qed.
Lemma cm_get_in m k c : wf m -> In (k, c) m -> cm_get k m = Some c.
Proof.
  induction m as [|[k' c'] m IH]; intros W H; [contradiction|]. cbn. inversion W; subst.
  destruct H as [H|H].
  - injection H as -> ->. rewrite keqb_refl. reflexivity.
  - destruct (keqb k' k) eqn:E; [|apply IH; auto]. apply keqb_spec in E. subst. exfalso. apply H2. apply in_map_iff. exists (k, c). auto.
Qed.
Lemma cm_get_some_in m k c : cm_get k m = Some c -> In (k, c) m.
Proof.
  induction m as [|[k' c'] m IH]; cbn; [discriminate|]. destruct (keqb k' k) eqn:E.
  - apply keqb_spec in E. subst. intros [= ->]. auto.
  - intros H. right. apply IH. exact H.
Qed.

(* cm_incr *)
Lemma keys_incr k m : keys (cm_incr k m) = if existsb (fun x => keqb x k) (keys m) then keys m else keys m ++ [k].
Proof.
  unfold keys. induction m as [|[k' c] m IH]; cbn; [reflexivity|]. destruct (keqb k' k) eqn:E; cbn; [reflexivity|].
  rewrite IH. destruct (existsb (fun x => keqb x k) (map fst m)); reflexivity.
Qed.
Lemma existsb_keys k l : existsb (fun x => keqb x k) l = true <-> In k l.
Proof. rewrite existsb_exists. split; [intros [x [H E]]; apply keqb_spec in E; subst; auto|intros H; exists k; split; [auto|apply keqb_refl]]. Qed.
Lemma NoDup_snoc {A} (l: list A) x : NoDup l -> ~ In x l -> NoDup (l ++ [x]).
Proof.
  induction l as [|y l IH]; intros N H; cbn; [constructor; [intros []|constructor]|].
  inversion N; subst. constructor.
  - rewrite in_app_iff. cbn. intros [H1|[H1|[]]]; [contradiction|subst; apply H; left; reflexivity].
  - apply IH; [assumption|intros H1; apply H; right; exact H1].
Qed.
Lemma wf_incr k m : wf m -> wf (cm_incr k m).
Proof.
  unfold wf. fold (keys m). fold (keys (cm_incr k m)). rewrite keys_incr. intros W.
  destruct (existsb (fun x => keqb x k) (keys m)) eqn:E; [exact W|].
  apply NoDup_snoc; [exact W|]. intros H. apply existsb_keys in H. congruence.
Qed.
Lemma cmv_incr k m k' : cmv (cm_incr k m) k' = if keqb k k' then S (cmv m k') else cmv m k'.
Proof.
  unfold cmv. induction m as [|[k0 c] m IH]; cbn.
  - destruct (keqb k k'); reflexivity.
  - destruct (keqb k0 k) eqn:E; cbn.
    + apply keqb_spec in E. subst k0. destruct (keqb k k'); reflexivity.
    + destruct (keqb k0 k') eqn:E2; [|exact IH].
      apply keqb_spec in E2. subst k0. rewrite (keqb_sym k k'), E. reflexivity.
Qed.

Lemma collect_gen l : forall m k, cmv (fold_left (fun m k => cm_incr k m) l m) k = cmv m k + count k l.
Proof.
  induction l as [|x l IH]; intros m k; cbn [fold_left]; [unfold count; cbn; lia|].
  rewrite IH, cmv_incr. unfold count. cbn [filter]. destruct (keqb x k); cbn [length]; lia.
Qed.
Lemma collect_cmv l k : cmv (collect l) k = count k l.
Proof. unfold UnordArr.collect. rewrite collect_gen. reflexivity. Qed.
Lemma collect_wf l : wf (collect l).
Proof.
  unfold UnordArr.collect. assert (G: forall m, wf m -> wf (fold_left (fun m k => cm_incr k m) l m)).
  { induction l as [|x l IH]; intros m W; cbn; [exact W|]. apply IH. apply wf_incr. exact W. }
  apply G. constructor.
Qed.
Definition pos (m: cmap) : Prop := forall k c, In (k, c) m -> 1 <= c.
Lemma pos_incr k m : pos m -> pos (cm_incr k m).
Proof.
  induction m as [|[k0 c0] m IH]; intros P k' c' H; cbn in H.
  - destruct H as [[= <- <-]|[]]. lia.
  - destruct (keqb k0 k); cbn in H.
    + destruct H as [[= <- <-]|H]; [lia|apply (P k' c'); right; exact H].
    + destruct H as [[= <- <-]|H]; [apply (P k0 c0); left; reflexivity|].
      apply (IH (fun a b Hab => P a b (or_intror Hab)) k' c' H).
Qed.
Lemma collect_pos l : pos (collect l).
Proof.
  unfold UnordArr.collect. assert (G: forall m, pos m -> pos (fold_left (fun m k => cm_incr k m) l m)).
  { induction l as [|x l IH]; intros m W; cbn; [exact W|]. apply IH. apply pos_incr. exact W. }
  apply G. intros k c [].
Qed.

(* expand *)
Lemma count_app k a b : count k (a ++ b) = count k a + count k b.
Proof. unfold count. rewrite filter_app, app_length. reflexivity. Qed.
Lemma count_repeat k x n : count k (repeat x n) = if keqb x k then n else 0.
Proof. unfold count. induction n as [|n IH]; cbn; [destruct (keqb x k); reflexivity|]. destruct (keqb x k) eqn:E; cbn; rewrite IH; reflexivity. Qed.
Lemma count_expand m k : wf m -> count k (UnordArr.expand m) = cmv m k.
Proof.
  unfold UnordArr.expand, cmv. induction m as [|[k0 c] m IH]; intros W; [reflexivity|].
  cbn [flat_map fst snd UnordArr.cm_get]. rewrite count_app, count_repeat. inversion W; subst.
  destruct (keqb k0 k) eqn:E.
  - apply keqb_spec in E. subst k0. rewrite IH by assumption.
    assert (N: cm_get k m = None) by (apply cm_get_none; exact H1). rewrite N. lia.
  - rewrite IH by assumption. reflexivity.
Qed.

(* permutations of a well-formed map read the same *)
Lemma cmv_perm m m' k : wf m -> Permutation m m' -> cmv m' k = cmv m k.
Proof.
  intros W P. assert (W': wf m') by (unfold wf; eapply Permutation_NoDup; [apply Permutation_map; exact P|exact W]).
  unfold cmv. destruct (cm_get k m) eqn:E.
  - apply cm_get_some_in in E. rewrite (cm_get_in m' k n W'); [reflexivity|]. eapply Permutation_in; eauto.
  - destruct (cm_get k m') eqn:E'; [|reflexivity]. apply cm_get_some_in in E'.
    apply cm_get_none in E. exfalso. apply E. apply in_map_iff. exists (k, n). split; [reflexivity|]. eapply Permutation_in; [apply Permutation_sym; exact P|exact E'].
Qed.
Lemma wf_perm m m' : wf m -> Permutation m m' -> wf m'.
Proof. intros W P. unfold wf. eapply Permutation_NoDup; [apply Permutation_map; exact P|exact W]. Qed.
End P.
