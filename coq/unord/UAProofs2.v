From Coq Require Import List Arith ZArith Lia Bool Permutation.
Import ListNotations.
Require Import U.UnordArr U.UAProofs1.

Section P2.
Context {K: Type} (keqb: K -> K -> bool).
Hypothesis keqb_spec : forall a b, keqb a b = true <-> a = b.
Variable iter_order : list (K * nat) -> list (K * nat).
Hypothesis iter_perm : forall m, Permutation (iter_order m) m.
Notation cmap := (@UnordArr.cmap K).
Notation cm_get := (UnordArr.cm_get keqb).
Notation cm_remove := (UnordArr.cm_remove keqb).
Notation cm_set := (UnordArr.cm_set keqb).
Notation cm_sub := (UnordArr.cm_sub keqb).
Notation cm_addn := (UnordArr.cm_addn keqb).
Notation cmv := (UAProofs1.cmv keqb).
Notation count := (UAProofs1.count keqb).
Notation change := (@UnordArr.change K).

Lemma cmv_remove k m k' : wf m -> cmv (cm_remove k m) k' = if keqb k k' then 0 else cmv m k'.
Proof.
  unfold UAProofs1.cmv. induction m as [|[k0 c] m IH]; intros W; cbn.
  - destruct (keqb k k'); reflexivity.
  - inversion W; subst. destruct (keqb k0 k) eqn:E.
    + apply (keqb_spec) in E. subst k0. destruct (keqb k k') eqn:E2.
      * apply keqb_spec in E2. subst k'. assert (N: cm_get k m = None) by (apply (cm_get_none keqb keqb_spec); exact H1). rewrite N. reflexivity.
      * reflexivity.
    + cbn. destruct (keqb k0 k') eqn:E2.
      * apply keqb_spec in E2. subst k0. rewrite (keqb_sym keqb keqb_spec k k'), E. reflexivity.
      * apply IH. assumption.
Qed.
Lemma keys_remove_incl k m : incl (keys (cm_remove k m)) (keys m).
Proof. unfold keys. induction m as [|[k0 c] m IH]; cbn; [apply incl_refl|]. destruct (keqb k0 k); cbn; [apply incl_tl, incl_refl|]. apply incl_cons; [left; reflexivity|apply incl_tl; exact IH]. Qed.
Lemma wf_remove k m : wf m -> wf (cm_remove k m).
Proof.
  unfold wf. induction m as [|[k0 c] m IH]; intros W; cbn; [constructor|]. inversion W; subst.
  destruct (keqb k0 k); [assumption|]. cbn. constructor; [|apply IH; assumption].
  intros H. apply H1. apply (keys_remove_incl k m). exact H.
Qed.
Lemma keys_set_in k c m : In k (keys m) -> keys (cm_set k c m) = keys m.
Proof.
  unfold keys. induction m as [|[k0 c0] m IH]; intros H; [contradiction|]. cbn. destruct (keqb k0 k) eqn:E; cbn; [reflexivity|].
  f_equal. apply IH. destruct H as [H|H]; [cbn in H; subst; rewrite (keqb_refl keqb keqb_spec) in E; discriminate|exact H].
Qed.
Lemma cmv_set k c m k' : In k (keys m) -> cmv (cm_set k c m) k' = if keqb k k' then c else cmv m k'.
Proof.
  unfold UAProofs1.cmv, keys. induction m as [|[k0 c0] m IH]; intros H; [contradiction|]. cbn. destruct (keqb k0 k) eqn:E; cbn.
  - apply keqb_spec in E. subst k0. destruct (keqb k k'); reflexivity.
  - destruct (keqb k0 k') eqn:E2.
    + apply keqb_spec in E2. subst k0. rewrite (keqb_sym keqb keqb_spec k k'), E. reflexivity.
    + apply IH. destruct H as [H|H]; [cbn in H; subst; rewrite (keqb_refl keqb keqb_spec) in E; discriminate|exact H].
Qed.
Lemma get_some_key k m v : cm_get k m = Some v -> In k (keys m).
Proof. intros H. apply (cm_get_some_in keqb keqb_spec) in H. unfold keys. apply in_map_iff. exists (k, v). auto. Qed.

Lemma cm_sub_spec k c m k' : wf m -> wf (cm_sub k c m) /\ cmv (cm_sub k c m) k' = if keqb k k' then cmv m k' - c else cmv m k'.
Proof.
  intros W. unfold UnordArr.cm_sub. destruct (cm_get k m) as [v|] eqn:G.
  - pose proof (get_some_key _ _ _ G) as Hin. destruct (c <? v) eqn:E.
    + split; [unfold wf; fold (keys (cm_set k (v - c) m)); rewrite keys_set_in by exact Hin; exact W|].
      rewrite cmv_set by exact Hin. destruct (keqb k k') eqn:E2; [|reflexivity].
      apply keqb_spec in E2. subst k'. unfold UAProofs1.cmv. rewrite G. reflexivity.
    + split; [apply wf_remove; exact W|]. rewrite cmv_remove by exact W. destruct (keqb k k') eqn:E2; [|reflexivity].
      apply keqb_spec in E2. subst k'. unfold UAProofs1.cmv. rewrite G. apply Nat.ltb_ge in E. lia.
  - split; [exact W|]. destruct (keqb k k') eqn:E2; [|reflexivity]. apply keqb_spec in E2. subst k'. unfold UAProofs1.cmv. rewrite G. reflexivity.
Qed.

Lemma cmv_app_new m k c k' : cm_get k m = None -> cmv (m ++ [(k, c)]) k' = if keqb k k' then c else cmv m k'.
Proof.
  unfold UAProofs1.cmv. induction m as [|[k0 c0] m IH]; intros G; cbn.
  - destruct (keqb k k'); reflexivity.
  - cbn in G. destruct (keqb k0 k) eqn:E; [discriminate|]. destruct (keqb k0 k') eqn:E2.
    + apply keqb_spec in E2. subst k0. rewrite (keqb_sym keqb keqb_spec k k'), E. reflexivity.
    + apply IH. exact G.
Qed.
Lemma cm_addn_spec k c m k' : wf m -> wf (cm_addn k c m) /\ cmv (cm_addn k c m) k' = if keqb k k' then cmv m k' + c else cmv m k'.
Proof.
  intros W. unfold UnordArr.cm_addn. destruct (cm_get k m) as [v|] eqn:G.
  - pose proof (get_some_key _ _ _ G) as Hin.
    split; [unfold wf; fold (keys (cm_set k (v + c) m)); rewrite keys_set_in by exact Hin; exact W|].
    rewrite cmv_set by exact Hin. destruct (keqb k k') eqn:E2; [|reflexivity]. apply keqb_spec in E2. subst k'. unfold UAProofs1.cmv. rewrite G. reflexivity.
  - split.
    + unfold wf. rewrite map_app. cbn. apply NoDup_snoc; [exact W|]. apply (cm_get_none keqb keqb_spec). exact G.
    + rewrite cmv_app_new by exact G. destruct (keqb k k') eqn:E2; [|reflexivity]. apply keqb_spec in E2. subst k'. unfold UAProofs1.cmv. rewrite G. reflexivity.
Qed.

(* what a change list removes / inserts for a key *)
Definition rem_of (k: K) (c: change) : nat :=
  match c with RemoveMany k' n | RemoveFew k' n => if keqb k' k then n else 0 | RemoveSingle k' => if keqb k' k then 1 else 0 | _ => 0 end.
Definition ins_of (k: K) (c: change) : nat :=
  match c with InsertMany k' n | InsertFew k' n => if keqb k' k then n else 0 | InsertSingle k' => if keqb k' k then 1 else 0 | _ => 0 end.
Definition removed (k: K) (d: list change) : nat := fold_right (fun c a => rem_of k c + a) 0 d.
Definition inserted (k: K) (d: list change) : nat := fold_right (fun c a => ins_of k c + a) 0 d.

Lemma rem_step_spec m c k : wf m -> wf (rem_step keqb m c) /\ cmv (rem_step keqb m c) k = cmv m k - rem_of k c.
Proof.
  intros W. destruct c as [k0 n|k0 n|k0 n|k0 n|k0|k0]; cbn [UnordArr.rem_step rem_of]; try (split; [exact W|lia]);
  destruct (cm_sub_spec k0 n m k W) as [W1 E1] || destruct (cm_sub_spec k0 1 m k W) as [W1 E1];
  (split; [exact W1|]); rewrite E1; destruct (keqb k0 k); lia.
Qed.
Lemma ins_step_spec m c k : wf m -> wf (ins_step keqb m c) /\ cmv (ins_step keqb m c) k = cmv m k + ins_of k c.
Proof.
  intros W. destruct c as [k0 n|k0 n|k0 n|k0 n|k0|k0]; cbn [UnordArr.ins_step ins_of]; try (split; [exact W|lia]);
  destruct (cm_addn_spec k0 n m k W) as [W1 E1] || destruct (cm_addn_spec k0 1 m k W) as [W1 E1];
  (split; [exact W1|]); rewrite E1; destruct (keqb k0 k); lia.
Qed.
Lemma fold_rem d : forall m k, wf m -> wf (fold_left (rem_step keqb) d m) /\ cmv (fold_left (rem_step keqb) d m) k = cmv m k - removed k d.
Proof.
  induction d as [|c d IH]; intros m k W; cbn [fold_left removed fold_right]; [split; [exact W|lia]|].
  destruct (rem_step_spec m c k W) as [W1 E1]. destruct (IH (rem_step keqb m c) k W1) as [W2 E2]. split; [exact W2|]. rewrite E2, E1. fold (removed k d). lia.
Qed.
Lemma fold_ins d : forall m k, wf m -> wf (fold_left (ins_step keqb) d m) /\ cmv (fold_left (ins_step keqb) d m) k = cmv m k + inserted k d.
Proof.
  induction d as [|c d IH]; intros m k W; cbn [fold_left inserted fold_right]; [split; [exact W|lia]|].
  destruct (ins_step_spec m c k W) as [W1 E1]. destruct (IH (ins_step keqb m c) k W1) as [W2 E2]. split; [exact W2|]. rewrite E2, E1. fold (inserted k d). lia.
Qed.
Lemma removed_filter k d : removed k (filter (fun c => negb (is_insert c)) d) = removed k d.
Proof. unfold removed. induction d as [|c d IH]; [reflexivity|]. destruct c; cbn [filter UnordArr.is_insert negb fold_right rem_of]; rewrite IH; reflexivity. Qed.
Lemma inserted_filter k d : inserted k (filter (@is_insert K) d) = inserted k d.
Proof. unfold inserted. induction d as [|c d IH]; [reflexivity|]. destruct c; cbn [filter UnordArr.is_insert fold_right ins_of]; rewrite IH; reflexivity. Qed.

(* C19: closed form of apply for ANY change list and ANY base; C19 replacement clause *)
Theorem unordered_apply_closed_form : forall base d k,
  count k (apply keqb iter_order base (Modify d)) = (count k base - removed k d) + inserted k d.
Proof.
  intros base d k. cbn [UnordArr.apply].
  set (m1 := fold_left (rem_step keqb) (filter (fun c => negb (is_insert c)) d) (collect keqb base)).
  set (m2 := fold_left (ins_step keqb) (filter (@is_insert K) d) m1).
  destruct (fold_rem (filter (fun c => negb (is_insert c)) d) (collect keqb base) k (collect_wf keqb keqb_spec base)) as [W1 E1]. fold m1 in W1, E1.
  destruct (fold_ins (filter (@is_insert K) d) m1 k W1) as [W2 E2]. fold m2 in W2, E2.
  rewrite (count_expand keqb keqb_spec) by (eapply wf_perm; [exact W2|apply Permutation_sym, iter_perm]).
  rewrite (cmv_perm keqb keqb_spec m2 (iter_order m2) k W2) by (apply Permutation_sym, iter_perm).
  rewrite E2, E1, removed_filter, inserted_filter, (collect_cmv keqb keqb_spec). reflexivity.
Qed.
Theorem unordered_apply_replace : forall base xs, apply keqb iter_order base (Replace xs) = xs.
Proof. reflexivity. Qed.
End P2.
Print Assumptions unordered_apply_closed_form.
