(* completing C11 / C20: a diff is present only when the multisets differ; entries are unique per (key, direction); Replace only when it shrinks *)
From Coq Require Import List Arith ZArith Lia Bool Permutation.
Import ListNotations.
Require Import U.UnordArr U.UAProofs1 U.UAProofs2 U.UAProofs3 U.UAProofs4.

Local Opaque Nat.modulo Nat.div.

Section P5.
Context {K: Type} (keqb: K -> K -> bool).
Hypothesis keqb_spec : forall a b, keqb a b = true <-> a = b.
Variable iter_order : list (K * nat) -> list (K * nat).
Hypothesis iter_perm : forall m, Permutation (iter_order m) m.
Notation cmv := (UAProofs1.cmv keqb).
Notation count := (UAProofs1.count keqb).
Notation change := (@UnordArr.change K).
Notation removed := (UAProofs2.removed keqb).
Notation inserted := (UAProofs2.inserted keqb).
Notation hashcmp := (UnordArr.hashcmp keqb iter_order).

Definition ckey (c: change) : K := match c with InsertMany k _ | RemoveMany k _ | InsertFew k _ | RemoveFew k _ | InsertSingle k | RemoveSingle k => k end.
Definition amount (c: change) : nat := match c with InsertMany _ n | RemoveMany _ n | InsertFew _ n | RemoveFew _ n => n | _ => 1 end.

Lemma new_change_amount k c dir ch : 1 <= c -> new_change k c dir = Some ch -> ckey ch = k /\ amount ch = c /\ is_insert ch = match dir with Ins => true | Rem => false end.
Proof.
  intros Hc. unfold new_change, U8MAX. destruct dir.
  - destruct (c =? 1) eqn:E1; [apply Nat.eqb_eq in E1; subst; intros [= <-]; auto|].
    destruct (c <=? 255) eqn:E2; [apply Nat.leb_le in E2; intros [= <-]; cbn [ckey amount UnordArr.is_insert]; repeat split; apply Nat.mod_small; lia|].
    destruct (255 <? c); [intros [= <-]; auto|discriminate].
  - destruct (c =? 1) eqn:E1; [apply Nat.eqb_eq in E1; subst; intros [= <-]; auto|].
    destruct (c <=? 255) eqn:E2; [apply Nat.leb_le in E2; intros [= <-]; cbn [ckey amount UnordArr.is_insert]; repeat split; apply Nat.mod_small; lia|].
    destruct (255 <? c); [intros [= <-]; auto|discriminate].
Qed.

(* what an entry contributes to its own key *)
Lemma own_contribution (ch: change) : UAProofs2.ins_of keqb (ckey ch) ch + UAProofs2.rem_of keqb (ckey ch) ch = amount ch.
Proof. destruct ch; cbn; rewrite ?(keqb_refl keqb keqb_spec); lia. Qed.

(* entries of the main loop: positive amounts, keys form a subsequence of the current map's keys *)
Inductive subseq {A} : list A -> list A -> Prop :=
  | ss_nil l : subseq [] l
  | ss_skip x s l : subseq s l -> subseq s (x :: l)
  | ss_take x s l : subseq s l -> subseq (x :: s) (x :: l).
Lemma subseq_NoDup {A} (s l: list A) : subseq s l -> NoDup l -> NoDup s.
Proof.
  intros S. induction S as [l|x s l S IH|x s l S IH]; intros N; [constructor|inversion N; auto|].
  inversion N; subst. constructor; [|auto]. intros H. apply H1. clear - S H. induction S; [contradiction|right; auto|destruct H; [left; auto|right; auto]].
Qed.
Lemma subseq_incl {A} (s l: list A) : subseq s l -> incl s l.
Proof. intros S. induction S; intros y Hy; [contradiction|right; auto|destruct Hy; [left; auto|right; auto]]. Qed.

Lemma diff_loop_extra : forall (cur prev: list (K * nat)) acc res rest, pos cur ->
  diff_loop keqb cur prev acc = Some (res, rest) ->
  exists es, res = acc ++ es /\ Forall (fun ch => 1 <= amount ch /\ (is_insert ch = true \/ is_insert ch = false)) es /\ subseq (map ckey es) (keys cur).
Proof.
  induction cur as [|[k cc] cur IH]; intros prev acc res rest Pc H.
  - cbn in H. injection H as <- _. exists []. rewrite app_nil_r. repeat split; constructor.
  - assert (Pc': pos cur) by (intros a b Hab; apply (Pc a b); right; exact Hab).
    assert (Hcc: 1 <= cc) by (apply (Pc k cc); left; reflexivity).
    cbn [diff_loop] in H. cbn [keys map fst].
    assert (Emit: forall n dir prev', 1 <= n ->
              match new_change k n dir with Some c => diff_loop keqb cur prev' (acc ++ [c]) | None => None end = Some (res, rest) ->
              exists es, res = acc ++ es /\ Forall (fun ch => 1 <= amount ch /\ (is_insert ch = true \/ is_insert ch = false)) es /\ subseq (map ckey es) (k :: keys cur)).
    { intros n dir prev' Hn Hd. destruct (new_change k n dir) as [ch|] eqn:N; [|discriminate].
      destruct (new_change_amount k n dir ch Hn N) as (A1 & A2 & A3).
      destruct (IH prev' (acc ++ [ch]) res rest Pc' Hd) as (es' & -> & F & S).
      exists (ch :: es'). rewrite <- app_assoc. split; [reflexivity|]. split.
      - constructor; [split; [lia|destruct (is_insert ch); auto]|exact F].
      - cbn [map]. rewrite A1. apply ss_take. exact S. }
    assert (Skip: forall prev', diff_loop keqb cur prev' acc = Some (res, rest) ->
              exists es, res = acc ++ es /\ Forall (fun ch => 1 <= amount ch /\ (is_insert ch = true \/ is_insert ch = false)) es /\ subseq (map ckey es) (k :: keys cur)).
    { intros prev' Hd. destruct (IH prev' acc res rest Pc' Hd) as (es' & -> & F & S). exists es'. split; [reflexivity|]. split; [exact F|apply ss_skip; exact S]. }
    destruct (UnordArr.cm_get keqb k prev) as [pc|].
    + destruct (Nat.ltb_spec pc cc); [apply (Emit (cc - pc) Ins _ ltac:(lia) H)|].
      destruct (Nat.ltb_spec cc pc); [apply (Emit (pc - cc) Rem _ ltac:(lia) H)|apply (Skip _ H)].
    + apply (Emit cc Ins _ Hcc H).
Qed.

Lemma leftovers_extra : forall (rest: list (K * nat)) l, pos rest -> leftovers rest = Some l ->
  Forall (fun ch => 1 <= amount ch /\ is_insert ch = false) l /\ map ckey l = keys rest.
Proof.
  induction rest as [|[k c] rest IH]; intros l P H; cbn [leftovers] in H.
  - injection H as <-. split; constructor.
  - assert (P': pos rest) by (intros a b Hab; apply (P a b); right; exact Hab).
    assert (Hc: 1 <= c) by (apply (P k c); left; reflexivity).
    destruct (new_change k c Rem) as [ch|] eqn:N; [|discriminate]. destruct (leftovers rest) as [l'|] eqn:L; [|discriminate]. injection H as <-.
    destruct (new_change_amount k c Rem ch Hc N) as (A1 & A2 & A3). destruct (IH l' P' eq_refl) as [F E].
    split; [constructor; [split; [lia|exact A3]|exact F]|]. cbn [map keys fst]. rewrite A1. f_equal. exact E.
Qed.

Lemma NoDup_app_intro' {A} (a b: list A) : NoDup a -> NoDup b -> (forall x, In x a -> In x b -> False) -> NoDup (a ++ b).
Proof.
  induction a as [|x a IH]; intros Na Nb D; cbn; [exact Nb|]. inversion Na; subst. constructor.
  - rewrite in_app_iff. intros [H|H]; [contradiction|]. apply (D x); [left; reflexivity|exact H].
  - apply IH; [assumption|assumption|]. intros y Hy. apply D. right. exact Hy.
Qed.

(* a change list that is not empty and whose entries have positive amounts moves some count *)
Lemma nonempty_moves (d: list change) : d <> [] -> Forall (fun ch => 1 <= amount ch) d -> exists k, 1 <= inserted k d + removed k d.
Proof.
  destruct d as [|ch d]; [congruence|]. intros _ F. inversion F; subst. exists (ckey ch).
  cbn [UAProofs2.inserted UAProofs2.removed fold_right]. pose proof (own_contribution ch). lia.
Qed.

(* C11, the remaining direction: a diff is produced only when the multisets differ *)
Theorem diff_present_differs : forall previous current d, hashcmp previous current = Some (Some d) ->
  exists k, count k previous <> count k current.
Proof.
  intros previous current d H. destruct d as [xs|cs].
  - (* Replace: more distinct items before than after, so some item of previous is missing from current *)
    unfold UnordArr.hashcmp in H.
    set (prev := collect keqb previous) in *. set (cur := collect keqb current) in *.
    destruct (Z.ltb_spec (Z.of_nat (length cur)) (Z.of_nat (length prev) - Z.of_nat (length cur))) as [Hlt|Hge].
    + clear H. assert (Wp: wf prev) by apply (collect_wf keqb keqb_spec). assert (Pp: pos prev) by apply (collect_pos keqb). assert (Pc: pos cur) by apply (collect_pos keqb).
      assert (Wc: wf cur) by apply (collect_wf keqb keqb_spec).
      (* pigeonhole on the key lists *)
      assert (Hex: exists k, In k (keys prev) /\ ~ In k (keys cur)).
      { assert (Hl: length (keys cur) < length (keys prev)) by (unfold keys; rewrite !map_length; lia).
        clear - Wp Hl keqb_spec. unfold wf in Wp. fold (keys prev) in Wp. revert Hl. generalize (keys cur) as lc. induction Wp as [|x lp Hx Wp IH]; intros lc Hl; [cbn in Hl; lia|].
        destruct (existsb (fun y => keqb y x) lc) eqn:E.
        - apply (existsb_keys keqb keqb_spec) in E. destruct (in_split _ _ E) as (l1 & l2 & ->).
          destruct (IH (l1 ++ l2)) as (k & Hk1 & Hk2); [rewrite app_length in *; cbn in *; lia|].
          exists k. split; [right; exact Hk1|]. intros Hin. apply in_app_iff in Hin. destruct Hin as [Hin|[Hin|Hin]]; [apply Hk2, in_app_iff; auto|subst; contradiction|apply Hk2, in_app_iff; auto].
        - exists x. split; [left; reflexivity|]. intros Hin. apply (existsb_keys keqb keqb_spec) in Hin. congruence. }
      destruct Hex as (k & K1 & K2). exists k.
      rewrite <- !(collect_cmv keqb keqb_spec). fold prev cur.
      apply (cmv_pos_in keqb keqb_spec k prev Wp Pp) in K1.
      assert (cmv cur k = 0). { destruct (cmv cur k) eqn:C; [reflexivity|]. exfalso. apply K2. apply (cmv_pos_in keqb keqb_spec k cur Wc Pc). lia. }
      lia.
    + destruct (diff_loop keqb (iter_order cur) prev []) as [[acc rest]|]; [|discriminate]. destruct (leftovers (iter_order rest)); [|discriminate]. destruct (acc ++ l); discriminate.
  - (* Modify: the list is non-empty and every entry has a positive amount *)
    pose proof (modify_deltas keqb keqb_spec iter_order iter_perm previous current cs H) as MD.
    unfold UnordArr.hashcmp in H.
    set (prev := collect keqb previous) in *. set (cur := collect keqb current) in *.
    destruct (Z.of_nat (length cur) <? Z.of_nat (length prev) - Z.of_nat (length cur))%Z; [discriminate|].
    destruct (diff_loop keqb (iter_order cur) prev []) as [[acc rest]|] eqn:D; [|discriminate].
    destruct (leftovers (iter_order rest)) as [l|] eqn:L; [|discriminate].
    assert (Pci: pos (iter_order cur)) by (eapply pos_perm; [apply (collect_pos keqb)|apply Permutation_sym, iter_perm]).
    destruct (diff_loop_extra (iter_order cur) prev [] acc rest Pci D) as (es & -> & Fe & _). cbn [app] in *.
    assert (Pr: pos (iter_order rest)).
    { (* rest is a sub-map of prev *)
      destruct (diff_loop_spec keqb keqb_spec (iter_order cur) prev []) as (es' & rest' & D' & _ & Pr' & _); try assumption;
        [eapply wf_perm; [apply (collect_wf keqb keqb_spec)|apply Permutation_sym, iter_perm]|apply (collect_wf keqb keqb_spec)|apply (collect_pos keqb)|].
      rewrite D in D'. injection D' as _ <-. eapply pos_perm; [exact Pr'|apply Permutation_sym, iter_perm]. }
    destruct (leftovers_extra (iter_order rest) l Pr L) as [Fl _].
    assert (Hd: cs = es ++ l) by (destruct (es ++ l); [discriminate|injection H as <-; reflexivity]).
    assert (Hne: cs <> []) by (intros ->; destruct (es ++ l); discriminate).
    assert (Fa: Forall (fun ch => 1 <= amount ch) cs).
    { rewrite Hd. apply Forall_app. split; [eapply Forall_impl; [|exact Fe]; cbn; tauto|eapply Forall_impl; [|exact Fl]; cbn; tauto]. }
    destruct (nonempty_moves cs Hne Fa) as (k & Hk). exists k. destruct (MD k) as [I R]. lia.
Qed.

(* C20: in a change list every (item, direction) occurs at most once *)
Definition key_dir (ch: change) : K * bool := (ckey ch, is_insert ch).
Lemma NoDup_map_fst_pairs {A B} (l: list (A * B)) : NoDup (map fst l) -> NoDup l.
Proof. intros H. eapply NoDup_map_inv. exact H. Qed.

Theorem modify_entries_unique : forall previous current cs, hashcmp previous current = Some (Some (Modify cs)) -> NoDup (map key_dir cs).
Proof.
  intros previous current cs H. unfold UnordArr.hashcmp in H.
  set (prev := collect keqb previous) in *. set (cur := collect keqb current) in *.
  destruct (Z.of_nat (length cur) <? Z.of_nat (length prev) - Z.of_nat (length cur))%Z; [discriminate|].
  destruct (diff_loop keqb (iter_order cur) prev []) as [[acc rest]|] eqn:D; [|discriminate].
  destruct (leftovers (iter_order rest)) as [l|] eqn:L; [|discriminate].
  assert (Wc: wf (iter_order cur)) by (eapply wf_perm; [apply (collect_wf keqb keqb_spec)|apply Permutation_sym, iter_perm]).
  assert (Pci: pos (iter_order cur)) by (eapply pos_perm; [apply (collect_pos keqb)|apply Permutation_sym, iter_perm]).
  destruct (diff_loop_extra (iter_order cur) prev [] acc rest Pci D) as (es & -> & Fe & Se). cbn [app] in *.
  destruct (diff_loop_spec keqb keqb_spec (iter_order cur) prev []) as (es' & rest' & D' & Wr & Pr & _ & _ & Rs); try assumption;
    [apply (collect_wf keqb keqb_spec)|apply (collect_pos keqb)|].
  rewrite D in D'. injection D' as _ <-.
  assert (Wri: wf (iter_order rest)) by (eapply wf_perm; [exact Wr|apply Permutation_sym, iter_perm]).
  assert (Pri: pos (iter_order rest)) by (eapply pos_perm; [exact Pr|apply Permutation_sym, iter_perm]).
  destruct (leftovers_extra (iter_order rest) l Pri L) as [Fl El].
  assert (Hd: cs = es ++ l) by (destruct (es ++ l); [discriminate|injection H as <-; reflexivity]). subst cs.
  rewrite map_app.
  assert (Ne: NoDup (map ckey es)) by (eapply subseq_NoDup; [exact Se|exact Wc]).
  assert (Nl: NoDup (map ckey l)) by (rewrite El; exact Wri).
  apply NoDup_app_intro'.
  - unfold key_dir. clear - Ne. induction es as [|e es IH]; cbn in *; [constructor|]. inversion Ne; subst. constructor; [|auto].
    intros Hin. apply H1. apply in_map_iff in Hin. destruct Hin as [e' [E He']]. injection E as E _. apply in_map_iff. exists e'. auto.
  - unfold key_dir. clear - Nl. induction l as [|e l IH]; cbn in *; [constructor|]. inversion Nl; subst. constructor; [|auto].
    intros Hin. apply H1. apply in_map_iff in Hin. destruct Hin as [e' [E He']]. injection E as E _. apply in_map_iff. exists e'. auto.
  - (* a key of the main loop is a key of cur; a leftover key is a key of rest, which reads 0 on cur's keys *)
    intros [k b] H1 H2. apply in_map_iff in H1. destruct H1 as [e1 [E1 I1]]. apply in_map_iff in H2. destruct H2 as [e2 [E2 I2]].
    unfold key_dir in E1, E2. injection E1 as K1 _. injection E2 as K2 _.
    assert (Kc: In k (keys (iter_order cur))) by (apply (subseq_incl _ _ Se); apply in_map_iff; exists e1; auto).
    assert (Kr: In k (keys (iter_order rest))) by (rewrite <- El; apply in_map_iff; exists e2; auto).
    assert (Z: cmv rest k = 0).
    { rewrite Rs. assert (B: UAProofs3.inb keqb k (keys (iter_order cur)) = true) by (apply (existsb_keys keqb keqb_spec); exact Kc). rewrite B. reflexivity. }
    assert (Kr': In k (keys rest)) by (unfold keys in *; eapply Permutation_in; [apply Permutation_map, iter_perm|exact Kr]).
    apply (cmv_pos_in keqb keqb_spec k rest Wr Pr) in Kr'. lia.
Qed.

Definition distinct (l: list K) := length (collect keqb l).
Theorem replace_only_if_shrinks : forall previous current xs, hashcmp previous current = Some (Some (Replace xs)) ->
  (Z.of_nat (distinct current) < Z.of_nat (distinct previous) - Z.of_nat (distinct current))%Z /\ forall k, count k xs = count k current.
Proof.
  intros previous current xs H. split.
  - unfold UnordArr.hashcmp, distinct in *. destruct (Z.ltb_spec (Z.of_nat (length (collect keqb current))) (Z.of_nat (length (collect keqb previous)) - Z.of_nat (length (collect keqb current)))); [assumption|].
    destruct (diff_loop _ _ _ _) as [[? ?]|]; [destruct (leftovers _); [destruct (_ ++ _)|]|]; discriminate.
  - intros k. pose proof (unordered_array_roundtrip keqb keqb_spec iter_order iter_perm previous current) as T. rewrite H in T. exact (T k).
Qed.
End P5.
Print Assumptions diff_present_differs. Print Assumptions modify_entries_unique. Print Assumptions replace_only_if_shrinks.
