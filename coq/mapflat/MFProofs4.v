From Coq Require Import List Arith ZArith Lia Bool Permutation.
Import ListNotations.
Require Import M.MapFlat M.MFProofs1 M.MFProofs2 M.MFProofs3.

Section P4.
Context {K V: Type} (keqb: K -> K -> bool) (veqb: V -> V -> bool).
Hypothesis keqb_spec : forall a b, keqb a b = true <-> a = b.
Hypothesis veqb_spec : forall a b, veqb a b = true <-> a = b.
Variable iter_order : list (K * (V * nat)) -> list (K * (V * nat)).
Hypothesis iter_perm : forall m, Permutation (iter_order m) m.
Notation vmap := (@MapFlat.vmap K V).
Notation vm_get := (MapFlat.vm_get keqb).
Notation wf := (@MFProofs1.wf K V).
Notation ones := (@MFProofs1.ones K V).
Notation keys := (@MFProofs1.keys K V).
Notation lookup := (MFProofs1.lookup keqb).
Notation inb := (MFProofs2.inb keqb).
Notation rkeys := (@MFProofs2.rkeys K V).
Notation ipairs := (@MFProofs2.ipairs K V).

Lemma wf_perm (m m': vmap) : wf m -> Permutation m m' -> wf m'.
Proof. intros W P. unfold MFProofs1.wf, MFProofs1.keys. eapply Permutation_NoDup; [apply Permutation_map; exact P|exact W]. Qed.
Lemma ones_perm (m m': vmap) : ones m -> Permutation m m' -> ones m'.
Proof. intros O P k v c H. apply (O k v c). eapply Permutation_in; [apply Permutation_sym; exact P|exact H]. Qed.
Lemma get_perm (m m': vmap) k : wf m -> Permutation m m' -> vm_get k m' = vm_get k m.
Proof.
  intros W P. pose proof (wf_perm m m' W P) as W'. destruct (vm_get k m) as [e|] eqn:E.
  - apply (in_get keqb keqb_spec); [exact W'|]. eapply Permutation_in; [exact P|]. apply (get_in keqb keqb_spec). exact E.
  - destruct (vm_get k m') as [e'|] eqn:E'; [|reflexivity]. apply (get_in keqb keqb_spec) in E'.
    apply (get_none keqb veqb keqb_spec) in E. exfalso. apply E. apply in_map_iff. exists (k, e'). split; [reflexivity|]. eapply Permutation_in; [apply Permutation_sym; exact P|exact E'].
Qed.

(* reading the expanded list of a well-formed map whose counts are 1 *)
Lemma lookup_expand (m: vmap) k : ones m -> lookup k (expand m) = option_map fst (vm_get k m).
Proof.
  unfold expand. induction m as [|[k0 [v c]] m IH]; intros O; [reflexivity|].
  assert (c = 1) by (apply (O k0 v c); left; reflexivity). subst c. cbn [flat_map fst snd repeat app MFProofs1.lookup MapFlat.vm_get].
  destruct (keqb k0 k); [reflexivity|]. apply IH. intros a b c0 H. apply (O a b c0). right. exact H.
Qed.
Lemma keys_expand (m: vmap) : ones m -> map fst (expand m) = keys m.
Proof.
  unfold expand, MFProofs1.keys. induction m as [|[k0 [v c]] m IH]; intros O; [reflexivity|].
  assert (c = 1) by (apply (O k0 v c); left; reflexivity). subst c. cbn. f_equal. apply IH. intros a b c0 H. apply (O a b c0). right. exact H.
Qed.

Lemma rkeys_rs (r: vmap) : rkeys (map (fun p : K * (V * nat) => RemoveSingle (fst p)) r) = keys r.
Proof. unfold MFProofs2.rkeys, MFProofs1.keys. induction r as [|p r IH]; [reflexivity|]. cbn [map flat_map app]. f_equal. exact IH. Qed.
Lemma ipairs_rs (r: vmap) : ipairs (map (fun p : K * (V * nat) => RemoveSingle (fst p)) r) = [].
Proof. unfold MFProofs2.ipairs. induction r as [|p r IH]; [reflexivity|]. cbn [map flat_map app]. exact IH. Qed.

Definition map_eq (l1 l2: list (K * V)) := forall k, lookup k l1 = lookup k l2.

(* C12: for maps (unique keys), in both modes: never panics; no diff => equal; diff => patched map equals current, with unique keys *)
Theorem map_flat_roundtrip : forall key_only previous current, NoDup (map fst previous) -> NoDup (map fst current) ->
  match hashcmp keqb veqb iter_order key_only previous current with
  | None => False
  | Some None => map_eq previous current
  | Some (Some d) => map_eq (apply keqb iter_order previous d) current /\ NoDup (map fst (apply keqb iter_order previous d))
  end.
Proof.
  intros ko previous current Np Nc. unfold hashcmp.
  set (prev := if ko then collect_key keqb previous else collect_key_value keqb veqb previous).
  set (cur := if ko then collect_key keqb current else collect_key_value keqb veqb current).
  assert (Sp: wf prev /\ (forall k, vm_get k prev = option_map (fun v => (v, 1)) (lookup k previous)) /\ length prev = length previous).
  { subst prev. destruct ko; [apply (collect_key_spec keqb veqb keqb_spec)|apply (collect_kv_spec keqb veqb keqb_spec)]; exact Np. }
  assert (Sc: wf cur /\ (forall k, vm_get k cur = option_map (fun v => (v, 1)) (lookup k current)) /\ length cur = length current).
  { subst cur. destruct ko; [apply (collect_key_spec keqb veqb keqb_spec)|apply (collect_kv_spec keqb veqb keqb_spec)]; exact Nc. }
  destruct Sp as (Wp & Gp & _). destruct Sc as (Wc & Gc & _).
  assert (OnesOf: forall (m: vmap) (l: list (K * V)), wf m -> (forall k, vm_get k m = option_map (fun v => (v, 1)) (lookup k l)) -> ones m).
  { intros m l W G k v c H. apply (in_get keqb keqb_spec) in H; [|exact W]. rewrite G in H. destruct (lookup k l); cbn in H; congruence. }
  pose proof (OnesOf prev previous Wp Gp) as Op. pose proof (OnesOf cur current Wc Gc) as Oc.
  destruct (Z.of_nat (length cur) <? Z.of_nat (length prev) - Z.of_nat (length cur))%Z.
  { (* replacement *)
    cbn [apply]. assert (Oi: ones (iter_order cur)) by (eapply ones_perm; [exact Oc|apply Permutation_sym, iter_perm]).
    split.
    - intros k. rewrite (lookup_expand _ k Oi). rewrite (get_perm cur (iter_order cur) k Wc) by (apply Permutation_sym, iter_perm). rewrite Gc. destruct (lookup k current); reflexivity.
    - rewrite (keys_expand _ Oi). eapply wf_perm; [exact Wc|apply Permutation_sym, iter_perm]. }
  assert (Wci: wf (iter_order cur)) by (eapply wf_perm; [exact Wc|apply Permutation_sym, iter_perm]).
  assert (Oci: ones (iter_order cur)) by (eapply ones_perm; [exact Oc|apply Permutation_sym, iter_perm]).
  destruct (diff_loop_spec keqb veqb keqb_spec (iter_order cur) prev [] Wci Oci Wp Op) as (es & rest & D & Wr & Or & Rs & As & Rk & Ip & Nd & Sub).
  rewrite D. cbn [app].
  set (l := map (fun p : K * (V * nat) => new_change (fst p) (fst (snd p)) (snd (snd p)) ORem) (iter_order rest)).
  assert (Wri: wf (iter_order rest)) by (eapply wf_perm; [exact Wr|apply Permutation_sym, iter_perm]).
  assert (Ori: ones (iter_order rest)) by (eapply ones_perm; [exact Or|apply Permutation_sym, iter_perm]).
  assert (Ll: l = map (fun p : K * (V * nat) => RemoveSingle (fst p)) (iter_order rest)).
  { subst l. apply map_ext_in. intros [k [v c]] H. assert (c = 1) by (apply (Ori k v c H)). subst c. reflexivity. }
  assert (Rkl: rkeys l = keys (iter_order rest)).
  { rewrite Ll. apply rkeys_rs. }
  assert (Ipl: ipairs l = []).
  { rewrite Ll. apply ipairs_rs. }
  assert (Asl: MFProofs2.all_single l).
  { rewrite Ll. unfold MFProofs2.all_single. apply Forall_forall. intros c H. apply in_map_iff in H. destruct H as [p [<- _]]. exact I. }
  (* facts about membership in rest / cur, in terms of the user's maps *)
  assert (InRest: forall k, inb k (keys (iter_order rest)) = match vm_get k rest with Some _ => true | None => false end).
  { intros k. rewrite <- (get_perm rest (iter_order rest) k Wr) by (apply Permutation_sym, iter_perm).
    destruct (vm_get k (iter_order rest)) eqn:E.
    - apply (inb_In keqb keqb_spec). apply (get_in keqb keqb_spec) in E. apply in_map_iff. exists (k, p). auto.
    - apply (get_none keqb veqb keqb_spec) in E. destruct (inb k (keys (iter_order rest))) eqn:B; [|reflexivity]. apply (inb_In keqb keqb_spec) in B. contradiction. }
  assert (InCur: forall k, inb k (keys (iter_order cur)) = match lookup k current with Some _ => true | None => false end).
  { intros k. pose proof (get_perm cur (iter_order cur) k Wc (Permutation_sym (iter_perm cur))) as E. rewrite Gc in E.
    destruct (lookup k current) eqn:L; cbn in E.
    - apply (inb_In keqb keqb_spec). apply (get_in keqb keqb_spec) in E. apply in_map_iff. exists (k, (v, 1)). auto.
    - apply (get_none keqb veqb keqb_spec) in E. destruct (inb k (keys (iter_order cur))) eqn:B; [|reflexivity]. apply (inb_In keqb keqb_spec) in B. contradiction. }
  assert (GetCi: forall k, vm_get k (iter_order cur) = option_map (fun v => (v, 1)) (lookup k current)).
  { intros k. rewrite (get_perm cur (iter_order cur) k Wc) by (apply Permutation_sym, iter_perm). apply Gc. }
  destruct (es ++ l) as [|c0 d0] eqn:Ed.
  - (* no diff: every key reads the same in both maps *)
    apply app_eq_nil in Ed. destruct Ed as [-> El]. intros k.
    specialize (Rk k). specialize (Ip k). cbn in Rk, Ip. unfold MFProofs3.rk in Rk. unfold MFProofs3.ip in Ip. rewrite GetCi, Gp in Rk, Ip.
    assert (Hrest: inb k (keys (iter_order rest)) = false) by (rewrite <- Rkl, El; reflexivity).
    rewrite InRest, Rs, InCur, Gp in Hrest.
    destruct (lookup k current) as [v|] eqn:Lc; destruct (lookup k previous) as [pv|] eqn:Lp; cbn in *; try reflexivity; try discriminate.
    destruct (veqb pv v) eqn:Ev; [apply veqb_spec in Ev; congruence|discriminate].
  - rewrite <- Ed. clear Ed c0 d0. cbn [apply].
    set (d := es ++ l).
    assert (Ad: MFProofs2.all_single d) by (apply Forall_app; split; assumption).
    assert (Rd: forall k, inb k (rkeys d) = MFProofs3.rk keqb veqb (iter_order cur) prev k || inb k (keys (iter_order rest))).
    { intros k. subst d. unfold MFProofs2.rkeys. rewrite flat_map_app. fold (rkeys es). fold (rkeys l). unfold MFProofs2.inb. rewrite existsb_app. fold (inb k (rkeys es)). rewrite Rk, Rkl. reflexivity. }
    assert (Id: ipairs d = ipairs es) by (subst d; unfold MFProofs2.ipairs; rewrite flat_map_app; fold (ipairs es); fold (ipairs l); rewrite Ipl, app_nil_r; reflexivity).
    set (m0 := collect_key keqb previous).
    destruct (collect_key_spec keqb veqb keqb_spec previous Np) as (W0 & G0 & _). fold m0 in W0, G0.
    pose proof (OnesOf m0 previous W0 G0) as O0.
    destruct (fold_rem_spec keqb veqb keqb_spec d m0 Ad W0 O0) as (W1 & O1 & G1).
    set (m1 := fold_left (rem_step keqb) (filter (fun c => negb (is_insert c)) d) m0) in *.
    assert (Fresh: forall k, In k (map fst (ipairs d)) -> vm_get k m1 = None).
    { intros k Hk. rewrite Id in Hk. rewrite G1, Rd.
      assert (Hl: exists v, lookup k (ipairs es) = Some v).
      { destruct (lookup k (ipairs es)) eqn:E; [eauto|]. apply (lookup_none keqb veqb keqb_spec) in E. contradiction. }
      destruct Hl as [v Hl]. rewrite Ip in Hl. unfold MFProofs3.ip, MFProofs3.rk in *. rewrite GetCi, Gp in *. rewrite G0.
      destruct (lookup k current) as [cv|]; cbn in *; [|discriminate]. destruct (lookup k previous) as [pv|]; cbn in *; [|destruct (inb k (keys (iter_order rest))); reflexivity].
      destruct (veqb pv cv); [discriminate|]. reflexivity. }
    destruct (fold_ins_spec keqb veqb keqb_spec d m1 Ad W1 O1 ltac:(rewrite Id; exact Nd) Fresh) as (W2 & O2 & G2).
    set (m2 := fold_left (ins_step keqb) (filter (@is_insert K V) d) m1) in *.
    assert (Final: forall k, vm_get k m2 = option_map (fun v => (v, 1)) (lookup k current)).
    { intros k. rewrite G2, Id, Ip, G1, Rd, InRest, Rs, InCur. unfold MFProofs3.ip, MFProofs3.rk. rewrite GetCi, Gp, G0.
      destruct (lookup k current) as [cv|]; destruct (lookup k previous) as [pv|]; cbn; try reflexivity.
      destruct (veqb pv cv) eqn:Ev; cbn; [apply veqb_spec in Ev; subst; reflexivity|reflexivity]. }
    assert (O2i: ones (iter_order m2)) by (eapply ones_perm; [exact O2|apply Permutation_sym, iter_perm]).
    split.
    + intros k. rewrite (lookup_expand _ k O2i). rewrite (get_perm m2 (iter_order m2) k W2) by (apply Permutation_sym, iter_perm). rewrite Final. destruct (lookup k current); reflexivity.
    + rewrite (keys_expand _ O2i). eapply wf_perm; [exact W2|apply Permutation_sym, iter_perm].
Qed.
End P4.
Print Assumptions map_flat_roundtrip.
