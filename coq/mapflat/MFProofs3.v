From Coq Require Import List Arith ZArith Lia Bool Permutation.
Import ListNotations.
Require Import M.MapFlat M.MFProofs1 M.MFProofs2.

Section P3.
Context {K V: Type} (keqb: K -> K -> bool) (veqb: V -> V -> bool).
Hypothesis keqb_spec : forall a b, keqb a b = true <-> a = b.
Hypothesis veqb_spec : forall a b, veqb a b = true <-> a = b.
Notation vmap := (@MapFlat.vmap K V).
Notation vm_get := (MapFlat.vm_get keqb).
Notation vm_remove := (MapFlat.vm_remove keqb).
Notation mchange := (@MapFlat.mchange K V).
Notation wf := (@MFProofs1.wf K V).
Notation ones := (@MFProofs1.ones K V).
Notation keys := (@MFProofs1.keys K V).
Notation lookup := (MFProofs1.lookup keqb).
Notation inb := (MFProofs2.inb keqb).
Notation rkeys := (@MFProofs2.rkeys K V).
Notation ipairs := (@MFProofs2.ipairs K V).
Notation all_single := (@MFProofs2.all_single K V).

(* what the change list says about key k, read off the two maps *)
Definition rk (cur prev: vmap) (k: K) : bool :=
  match vm_get k cur, vm_get k prev with Some (v, _), Some (pv, _) => negb (veqb pv v) | _, _ => false end.
Definition ip (cur prev: vmap) (k: K) : option V :=
  match vm_get k cur with
  | Some (v, _) => match vm_get k prev with Some (pv, _) => if veqb pv v then None else Some v | None => Some v end
  | None => None
  end.

Lemma veqb_true_false (a b: V) : negb (veqb a b) = true \/ veqb a b = true.
Proof. destruct (veqb a b); auto. Qed.

Lemma diff_loop_spec : forall (cur prev: vmap) acc, wf cur -> ones cur -> wf prev -> ones prev ->
  exists es rest, diff_loop keqb veqb cur prev acc = Some (acc ++ es, rest) /\ wf rest /\ ones rest /\
    (forall k, vm_get k rest = if inb k (keys cur) then None else vm_get k prev) /\
    all_single es /\
    (forall k, inb k (rkeys es) = rk cur prev k) /\
    (forall k, lookup k (ipairs es) = ip cur prev k) /\
    NoDup (map fst (ipairs es)) /\ (forall k, In k (map fst (ipairs es)) -> In k (keys cur)).
Proof.
  induction cur as [|[k [v c]] cur IH]; intros prev acc Wc Oc Wp Op.
  - exists [], prev. cbn. rewrite app_nil_r. repeat split; auto; try constructor.
  - inversion Wc; subst.
    assert (Oc': ones cur) by (intros a b c0 Hab; apply (Oc a b c0); right; exact Hab).
    assert (Hc: c = 1) by (apply (Oc k v c); left; reflexivity). subst c.
    assert (Hk: vm_get k cur = None) by (apply (get_none keqb veqb keqb_spec); exact H1).
    assert (GetC: forall k', vm_get k' ((k, (v, 1)) :: cur) = if keqb k k' then Some (v, 1) else vm_get k' cur) by (intros; reflexivity).
    assert (Inb: forall k', inb k' (keys ((k, (v, 1)) :: cur)) = keqb k k' || inb k' (keys cur)) by (intros; reflexivity).
    cbn [diff_loop]. destruct (vm_get k prev) as [[pv pc]|] eqn:G.
    + assert (Hpc: pc = 1) by (apply (ones_get keqb keqb_spec prev k pv pc Op G)). subst pc.
      set (prev' := vm_remove k prev).
      assert (Wp': wf prev') by (apply (wf_remove keqb); assumption).
      assert (Op': ones prev') by (apply ones_remove; assumption).
      assert (Rv: forall k', vm_get k' prev' = if keqb k k' then None else vm_get k' prev) by (intros; apply (get_remove keqb veqb keqb_spec); assumption).
      destruct (veqb pv v) eqn:Ev.
      * (* unchanged value: counts are both 1, nothing emitted *)
        cbn [Nat.ltb Nat.leb]. 
        destruct (IH prev' acc H2 Oc' Wp' Op') as (es & rest & D & Wr & Or & Rs & As & Rk & Ip & Nd & Sub).
        exists es, rest. rewrite D. split; [reflexivity|]. split; [exact Wr|]. split; [exact Or|]. repeat split.
        -- intros k'. rewrite Rs, Rv, Inb. destruct (keqb k k'); cbn [orb]; [destruct (inb k' (keys cur)); reflexivity|reflexivity].
        -- exact As.
        -- intros k'. rewrite Rk. unfold rk. rewrite GetC, Rv. destruct (keqb k k') eqn:E.
           ++ apply keqb_spec in E. subst k'. rewrite Hk, G, Ev. reflexivity.
           ++ reflexivity.
        -- intros k'. rewrite Ip. unfold ip. rewrite GetC, Rv. destruct (keqb k k') eqn:E.
           ++ apply keqb_spec in E. subst k'. rewrite Hk, G, Ev. reflexivity.
           ++ reflexivity.
        -- exact Nd.
        -- intros k' Hin. right. apply Sub. exact Hin.
      * (* changed value: remove old, insert new *)
        cbn [negb new_change].
        destruct (IH prev' (acc ++ [RemoveSingle k; InsertSingle k v]) H2 Oc' Wp' Op') as (es & rest & D & Wr & Or & Rs & As & Rk & Ip & Nd & Sub).
        exists (RemoveSingle k :: InsertSingle k v :: es), rest. rewrite D. rewrite <- app_assoc. split; [reflexivity|]. split; [exact Wr|]. split; [exact Or|]. repeat split.
        -- intros k'. rewrite Rs, Rv, Inb. destruct (keqb k k'); cbn [orb]; [destruct (inb k' (keys cur)); reflexivity|reflexivity].
        -- constructor; [exact I|]. constructor; [exact I|exact As].
        -- intros k'. change (rkeys (RemoveSingle k :: InsertSingle k v :: es)) with (k :: rkeys es). unfold MFProofs2.inb. cbn [existsb]. fold (inb k' (rkeys es)).
           rewrite Rk. unfold rk. rewrite GetC, Rv. destruct (keqb k k') eqn:E; cbn [orb].
           ++ apply keqb_spec in E. subst k'. rewrite G, Ev. reflexivity.
           ++ reflexivity.
        -- intros k'. change (ipairs (RemoveSingle k :: InsertSingle k v :: es)) with ((k, v) :: ipairs es). cbn [MFProofs1.lookup].
           rewrite Ip. unfold ip. rewrite GetC, Rv. destruct (keqb k k') eqn:E.
           ++ apply keqb_spec in E. subst k'. rewrite G, Ev. reflexivity.
           ++ reflexivity.
        -- change (ipairs (RemoveSingle k :: InsertSingle k v :: es)) with ((k, v) :: ipairs es). cbn [map fst]. constructor; [|exact Nd].
           intros Hin. apply Sub in Hin. contradiction.
        -- change (ipairs (RemoveSingle k :: InsertSingle k v :: es)) with ((k, v) :: ipairs es). cbn [map fst]. intros k' [<-|Hin]; [left; reflexivity|right; apply Sub; exact Hin].
    + (* new key *)
      cbn [new_change].
      destruct (IH prev (acc ++ [InsertSingle k v]) H2 Oc' Wp Op) as (es & rest & D & Wr & Or & Rs & As & Rk & Ip & Nd & Sub).
      exists (InsertSingle k v :: es), rest. rewrite D. rewrite <- app_assoc. split; [reflexivity|]. split; [exact Wr|]. split; [exact Or|]. repeat split.
      * intros k'. rewrite Rs, Inb. destruct (keqb k k') eqn:E; cbn [orb]; [|reflexivity]. apply keqb_spec in E. subst k'. destruct (inb k (keys cur)); [reflexivity|exact G].
      * constructor; [exact I|exact As].
      * intros k'. change (rkeys (InsertSingle k v :: es)) with (rkeys es). rewrite Rk. unfold rk. rewrite GetC. destruct (keqb k k') eqn:E; [|reflexivity].
        apply keqb_spec in E. subst k'. rewrite Hk, G. reflexivity.
      * intros k'. change (ipairs (InsertSingle k v :: es)) with ((k, v) :: ipairs es). cbn [MFProofs1.lookup]. rewrite Ip. unfold ip. rewrite GetC.
        destruct (keqb k k') eqn:E; [|reflexivity]. apply keqb_spec in E. subst k'. rewrite G. reflexivity.
      * change (ipairs (InsertSingle k v :: es)) with ((k, v) :: ipairs es). cbn [map fst]. constructor; [|exact Nd]. intros Hin. apply Sub in Hin. contradiction.
      * change (ipairs (InsertSingle k v :: es)) with ((k, v) :: ipairs es). cbn [map fst]. intros k' [<-|Hin]; [left; reflexivity|right; apply Sub; exact Hin].
Qed.
End P3.
