From Coq Require Import List Arith ZArith Lia Bool Permutation.
Import ListNotations.
Require Import M.MapFlat M.MFProofs1 M.MFProofs2 M.MFProofs3 M.MFProofs4.

Inductive subseq {A} : list A -> list A -> Prop :=
  | ss_nil l : subseq [] l
  | ss_skip x s l : subseq s l -> subseq s (x :: l)
  | ss_take x s l : subseq s l -> subseq (x :: s) (x :: l).
Lemma subseq_incl {A} (s l: list A) : subseq s l -> incl s l.
Proof. intros S. induction S; intros y Hy; [contradiction|right; auto|destruct Hy; [left; auto|right; auto]]. Qed.
Lemma subseq_NoDup {A} (s l: list A) : subseq s l -> NoDup l -> NoDup s.
Proof.
  intros S. induction S as [l|x s l S IH|x s l S IH]; intros N; [constructor|inversion N; auto|].
  inversion N; subst. constructor; [|auto]. intros H. apply H1. apply (subseq_incl _ _ S). exact H.
Qed.
Lemma NoDup_app_intro' {A} (a b: list A) : NoDup a -> NoDup b -> (forall x, In x a -> In x b -> False) -> NoDup (a ++ b).
Proof.
  induction a as [|x a IH]; intros Na Nb D; cbn; [exact Nb|]. inversion Na; subst. constructor.
  - rewrite in_app_iff. intros [H|H]; [contradiction|]. apply (D x); [left; reflexivity|exact H].
  - apply IH; [assumption|assumption|]. intros y Hy. apply D. right. exact Hy.
Qed.

Section P5.
Context {K V: Type} (keqb: K -> K -> bool) (veqb: V -> V -> bool).
Hypothesis keqb_spec : forall a b, keqb a b = true <-> a = b.
Hypothesis veqb_spec : forall a b, veqb a b = true <-> a = b.
Variable iter_order : list (K * (V * nat)) -> list (K * (V * nat)).
Hypothesis iter_perm : forall m, Permutation (iter_order m) m.
Notation vmap := (@MapFlat.vmap K V).
Notation vm_get := (MapFlat.vm_get keqb).
Notation wf := (@MFProofs1.wf K V).
Notation ones := (@MFProofs1.ones K V).
Notation keys := (@MFProofs1.keys K V).
Notation lookup := (MFProofs1.lookup keqb).
Notation inb := (MFProofs2.inb keqb).
Notation rkeys := (@MFProofs2.rkeys K V).
Notation ipairs := (@MFProofs2.ipairs K V).
Notation map_eq := (MFProofs4.map_eq keqb).

Lemma rkeys_app (a b: list (@mchange K V)) : rkeys (a ++ b) = rkeys a ++ rkeys b.
Proof. unfold MFProofs2.rkeys. apply flat_map_app. Qed.
Lemma rkeys_new_ins k v c : rkeys [new_change k v c OIns] = @nil K.
Proof. destruct c as [|[|c]]; reflexivity. Qed.
Lemma rkeys_new_rem k (v: V) c : rkeys [new_change k v c ORem] = [k].
Proof. destruct c as [|[|c]]; reflexivity. Qed.

(* keys removed by the main loop form a subsequence of current's keys *)
Lemma diff_loop_rkeys : forall (cur prev: vmap) acc res rest,
  diff_loop keqb veqb cur prev acc = Some (res, rest) -> exists es, res = acc ++ es /\ subseq (rkeys es) (keys cur).
Proof.
  induction cur as [|[k [v cc]] cur IH]; intros prev acc res rest H.
  - cbn in H. injection H as <- _. exists []. rewrite app_nil_r. split; [reflexivity|constructor].
  - cbn [diff_loop] in H. cbn [MFProofs1.keys map fst].
    assert (Step: forall prev' (new: list mchange), (rkeys new = [] \/ rkeys new = [k]) -> diff_loop keqb veqb cur prev' (acc ++ new) = Some (res, rest) ->
              exists es, res = acc ++ es /\ subseq (rkeys es) (k :: MFProofs1.keys cur)).
    { intros prev' new Hn Hd. destruct (IH prev' (acc ++ new) res rest Hd) as (es' & -> & S).
      exists (new ++ es'). rewrite <- app_assoc. split; [reflexivity|]. rewrite rkeys_app.
      destruct Hn as [-> | ->]; cbn [app]; [apply ss_skip|apply ss_take]; exact S. }
    destruct (vm_get k prev) as [[pv pc]|].
    + destruct (veqb pv v).
      * destruct (pc <? cc); [apply (Step _ [_] (or_introl (rkeys_new_ins _ _ _)) H)|].
        destruct (cc <? pc); [apply (Step _ [_] (or_intror (rkeys_new_rem _ _ _)) H)|].
        rewrite <- (app_nil_r acc) in H. apply (Step _ [] (or_introl eq_refl) H).
      * cbn [negb] in H. refine (Step _ [_; _] _ H). right.
        change [new_change k pv pc ORem; new_change k v cc OIns] with ([new_change k pv pc ORem] ++ [new_change k v cc OIns]).
        rewrite rkeys_app, rkeys_new_ins, rkeys_new_rem. reflexivity.
    + apply (Step _ [_] (or_introl (rkeys_new_ins _ _ _)) H).
Qed.

(* two maps with duplicate-free keys that agree on every lookup have the same number of entries *)
Lemma lookup_some_in (l: list (K * V)) k : In k (map fst l) <-> lookup k l <> None.
Proof. pose proof (lookup_none keqb veqb keqb_spec l k) as H. destruct (lookup k l); split; intros; try congruence; try tauto.
  destruct (in_dec (keqb_dec keqb keqb_spec) k (map fst l)); [assumption|]. apply H in n. congruence. Qed.
Lemma map_eq_length (l1 l2: list (K * V)) : NoDup (map fst l1) -> NoDup (map fst l2) -> map_eq l1 l2 -> length l1 = length l2.
Proof.
  intros N1 N2 E. rewrite <- (map_length fst l1), <- (map_length fst l2). apply Nat.le_antisymm; apply NoDup_incl_length; try assumption.
  - intros k Hk. apply lookup_some_in. rewrite <- E. apply lookup_some_in. exact Hk.
  - intros k Hk. apply lookup_some_in. rewrite E. apply lookup_some_in. exact Hk.
Qed.

(* C04 / C12 "absent exactly when equal", the missing direction, and the C20 analogue for maps *)
Theorem map_diff_facts : forall key_only previous current d, NoDup (map fst previous) -> NoDup (map fst current) ->
  hashcmp keqb veqb iter_order key_only previous current = Some (Some d) ->
  ~ map_eq previous current /\
  match d with
  | Replace xs => (Z.of_nat (length current) < Z.of_nat (length previous) - Z.of_nat (length current))%Z
  | Modify cs =>
      MFProofs2.all_single cs /\ NoDup (rkeys cs) /\ NoDup (map fst (ipairs cs)) /\
      (forall k, In k (rkeys cs) <-> exists pv, lookup k previous = Some pv /\ lookup k current <> Some pv) /\
      (forall k v, lookup k (ipairs cs) = Some v <-> lookup k current = Some v /\ lookup k previous <> Some v)
  end.
Proof.
  intros ko previous current d Np Nc H. unfold hashcmp in H.
  set (prev := if ko then collect_key keqb previous else collect_key_value keqb veqb previous) in *.
  set (cur := if ko then collect_key keqb current else collect_key_value keqb veqb current) in *.
  assert (Sp: wf prev /\ (forall k, vm_get k prev = option_map (fun v => (v, 1)) (lookup k previous)) /\ length prev = length previous).
  { subst prev. destruct ko; [apply (collect_key_spec keqb veqb keqb_spec)|apply (collect_kv_spec keqb veqb keqb_spec)]; exact Np. }
  assert (Sc: wf cur /\ (forall k, vm_get k cur = option_map (fun v => (v, 1)) (lookup k current)) /\ length cur = length current).
  { subst cur. destruct ko; [apply (collect_key_spec keqb veqb keqb_spec)|apply (collect_kv_spec keqb veqb keqb_spec)]; exact Nc. }
  destruct Sp as (Wp & Gp & Lp). destruct Sc as (Wc & Gc & Lc).
  assert (OnesOf: forall (m: vmap) (l: list (K * V)), wf m -> (forall k, vm_get k m = option_map (fun v => (v, 1)) (lookup k l)) -> ones m).
  { intros m l W G k v c H0. apply (in_get keqb keqb_spec) in H0; [|exact W]. rewrite G in H0. destruct (lookup k l); cbn in H0; congruence. }
  pose proof (OnesOf prev previous Wp Gp) as Op. pose proof (OnesOf cur current Wc Gc) as Oc.
  rewrite Lp, Lc in H.
  destruct (Z.ltb_spec (Z.of_nat (length current)) (Z.of_nat (length previous) - Z.of_nat (length current))) as [Hlt|Hge].
  { injection H as <-. split; [|exact Hlt]. intros E. apply (map_eq_length _ _ Np Nc) in E. lia. }
  assert (Wci: wf (iter_order cur)) by (eapply (wf_perm); [exact Wc|apply Permutation_sym, iter_perm]).
  assert (Oci: ones (iter_order cur)) by (eapply (ones_perm); [exact Oc|apply Permutation_sym, iter_perm]).
  destruct (diff_loop_spec keqb veqb keqb_spec (iter_order cur) prev [] Wci Oci Wp Op) as (es & rest & D & Wr & Or & Rs & As & Rk & Ip & Nd & Sub).
  rewrite D in H. cbn [app] in H.
  destruct (diff_loop_rkeys _ _ _ _ _ D) as (es' & Ees & Sr). cbn [app] in Ees. subst es'.
  set (l := map (fun p : K * (V * nat) => new_change (fst p) (fst (snd p)) (snd (snd p)) ORem) (iter_order rest)) in *.
  assert (Wri: wf (iter_order rest)) by (eapply (wf_perm); [exact Wr|apply Permutation_sym, iter_perm]).
  assert (Ori: ones (iter_order rest)) by (eapply (ones_perm); [exact Or|apply Permutation_sym, iter_perm]).
  assert (Ll: l = map (fun p : K * (V * nat) => RemoveSingle (fst p)) (iter_order rest)).
  { subst l. apply map_ext_in. intros [k [v c]] H0. assert (c = 1) by (apply (Ori k v c H0)). subst c. reflexivity. }
  assert (Rkl: rkeys l = keys (iter_order rest)) by (rewrite Ll; apply rkeys_rs).
  assert (Ipl: ipairs l = []) by (rewrite Ll; apply ipairs_rs).
  assert (Asl: MFProofs2.all_single l).
  { rewrite Ll. unfold MFProofs2.all_single. apply Forall_forall. intros c H0. apply in_map_iff in H0. destruct H0 as [p [<- _]]. exact I. }
  assert (GetCi: forall k, vm_get k (iter_order cur) = option_map (fun v => (v, 1)) (lookup k current)).
  { intros k. rewrite (get_perm keqb veqb keqb_spec cur (iter_order cur) k Wc) by (apply Permutation_sym, iter_perm). apply Gc. }
  assert (InCur: forall k, In k (keys (iter_order cur)) <-> lookup k current <> None).
  { intros k. pose proof (GetCi k) as E. pose proof (get_none keqb veqb keqb_spec (iter_order cur) k) as Gn. rewrite E in Gn.
    destruct (lookup k current); cbn in Gn; split; intros; try congruence.
    - destruct (in_dec (keqb_dec keqb keqb_spec) k (keys (iter_order cur))); [assumption|]. apply Gn in n. discriminate.
    - exfalso. apply Gn; auto. }
  assert (InRest: forall k, In k (keys (iter_order rest)) <-> lookup k previous <> None /\ lookup k current = None).
  { intros k. pose proof (get_perm keqb veqb keqb_spec rest (iter_order rest) k Wr (Permutation_sym (iter_perm rest))) as E. rewrite Rs, Gp in E.
    pose proof (get_none keqb veqb keqb_spec (iter_order rest) k) as Gn. rewrite E in Gn.
    pose proof (InCur k) as Ic. pose proof (inb_In keqb keqb_spec k (keys (iter_order cur))) as Ib.
    destruct (inb k (keys (iter_order cur))) eqn:B.
    - split; [intros Hin; exfalso; apply Gn; auto|]. intros [_ Hc]. exfalso. apply Ic; [apply Ib; reflexivity|exact Hc].
    - assert (Hc: lookup k current = None). { destruct (lookup k current) eqn:Lk; [|reflexivity]. exfalso. assert (In k (keys (iter_order cur))) by (apply Ic; congruence). apply Ib in H0. congruence. }
      destruct (lookup k previous); cbn in Gn.
      + split; [intros _; split; [congruence|exact Hc]|]. intros _. destruct (in_dec (keqb_dec keqb keqb_spec) k (keys (iter_order rest))); [assumption|]. apply Gn in n. discriminate.
      + split; [intros Hin; exfalso; apply Gn; auto|]. intros [Hn _]. congruence. }
  assert (RkIff: forall k, In k (rkeys es) <-> exists pv v, lookup k previous = Some pv /\ lookup k current = Some v /\ pv <> v).
  { intros k. rewrite <- (inb_In keqb keqb_spec), Rk. unfold MFProofs3.rk. rewrite GetCi, Gp.
    destruct (lookup k current) as [v|]; destruct (lookup k previous) as [pv|]; cbn.
    - destruct (veqb pv v) eqn:Ev; cbn.
      + apply veqb_spec in Ev. split; [discriminate|]. intros (a & b & [= <-] & [= <-] & Hne). contradiction.
      + split; [|reflexivity]. intros _. exists pv, v. repeat split. intros ->. assert (veqb v v = true) by (apply veqb_spec; reflexivity). congruence.
    - split; [discriminate|]. intros (a & b & Ha & _). discriminate.
    - split; [discriminate|]. intros (a & b & _ & Hb & _). discriminate.
    - split; [discriminate|]. intros (a & b & Ha & _). discriminate. }
  assert (IpIff: forall k v, lookup k (ipairs es) = Some v <-> lookup k current = Some v /\ lookup k previous <> Some v).
  { intros k v. rewrite Ip. unfold MFProofs3.ip. rewrite GetCi, Gp.
    destruct (lookup k current) as [cv|]; destruct (lookup k previous) as [pv|]; cbn.
    - destruct (veqb pv cv) eqn:Ev.
      + apply veqb_spec in Ev. subst. split; [discriminate|]. intros [[= ->] Hn]. contradiction.
      + split; [intros [= ->]; split; [reflexivity|]; intros [= ->]; assert (veqb v v = true) by (apply veqb_spec; reflexivity); congruence|]. intros [[= ->] _]. reflexivity.
    - split; [intros [= ->]; split; [reflexivity|discriminate]|intros [[= ->] _]; reflexivity].
    - split; [discriminate|intros [Hx _]; discriminate].
    - split; [discriminate|intros [Hx _]; discriminate]. }
  assert (Ne: es ++ l <> []) by (destruct (es ++ l); [discriminate|discriminate]).
  assert (Hd: d = Modify (es ++ l)) by (destruct (es ++ l); [discriminate|injection H as <-; reflexivity]). subst d. clear H.
  assert (Facts: MFProofs2.all_single (es ++ l) /\ NoDup (rkeys (es ++ l)) /\ NoDup (map fst (ipairs (es ++ l))) /\
      (forall k, In k (rkeys (es ++ l)) <-> exists pv, lookup k previous = Some pv /\ lookup k current <> Some pv) /\
      (forall k v, lookup k (ipairs (es ++ l)) = Some v <-> lookup k current = Some v /\ lookup k previous <> Some v)).
  { assert (Id: ipairs (es ++ l) = ipairs es) by (unfold MFProofs2.ipairs; rewrite flat_map_app; fold (ipairs es); fold (ipairs l); rewrite Ipl, app_nil_r; reflexivity).
    split; [apply Forall_app; split; assumption|]. rewrite rkeys_app, Rkl, Id. split.
    - apply NoDup_app_intro'; [eapply subseq_NoDup; [exact Sr|exact Wci]|exact Wri|].
      intros k H1 H2. apply (subseq_incl _ _ Sr) in H1. apply InCur in H1. apply InRest in H2. tauto.
    - split; [exact Nd|]. split; [|exact IpIff].
      intros k. rewrite in_app_iff, RkIff, InRest. split.
      + intros [(pv & v & Hp & Hc & Hne)|[Hp Hc]]; [exists pv; split; [exact Hp|congruence]|].
        destruct (lookup k previous) as [pv|]; [|congruence]. exists pv. split; [reflexivity|congruence].
      + intros (pv & Hp & Hc). destruct (lookup k current) as [v|] eqn:Lk; [left; exists pv, v; repeat split; congruence|right; split; congruence]. }
  split; [|exact Facts].
  (* a non-empty change list names a key on which the maps differ *)
  destruct Facts as (As' & _ & _ & Fr & Fi). intros E.
  destruct (es ++ l) as [|c d'] eqn:Ed; [congruence|].
  inversion As' as [|c1 d1 Hc _]; subst. destruct c as [k v n|k n|k v|k]; try contradiction.
  - (* an inserted key: current has it with a value previous does not have *)
    assert (Hl: exists v', lookup k (ipairs (InsertSingle k v :: d')) = Some v').
    { change (ipairs (InsertSingle k v :: d')) with ((k, v) :: ipairs d'). cbn [MFProofs1.lookup]. rewrite (keqb_refl keqb keqb_spec). eauto. }
    destruct Hl as [v' Hl]. apply Fi in Hl. destruct Hl as [Hc' Hp]. rewrite (E k) in Hp. contradiction.
  - assert (Hin: In k (rkeys (RemoveSingle k :: d'))) by (left; reflexivity).
    apply Fr in Hin. destruct Hin as (pv & Hp & Hc'). rewrite <- (E k) in Hc'. contradiction.
Qed.
End P5.
Print Assumptions map_diff_facts.
