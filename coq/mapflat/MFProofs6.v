(* C19, flat map half: patching ANY base map with ANY change list is total (the model has no failure value on this path) and yields only keys of the base or of the diff *)
From Coq Require Import List Arith ZArith Lia Bool Permutation.
Import ListNotations.
Require Import M.MapFlat M.MFProofs1.

Section P6.
Context {K V: Type} (keqb: K -> K -> bool).
Hypothesis keqb_spec : forall a b, keqb a b = true <-> a = b.
Variable iter_order : list (K * (V * nat)) -> list (K * (V * nat)).
Hypothesis iter_perm : forall m, Permutation (iter_order m) m.
Notation vmap := (@MapFlat.vmap K V).
Notation keys := (@MFProofs1.keys K V).

Definition ckey (c: @mchange K V) : K := match c with InsertMany k _ _ | RemoveMany k _ | InsertSingle k _ | RemoveSingle k => k end.

Lemma keys_set_incl k e (m: vmap) : incl (keys (vm_set keqb k e m)) (k :: keys m).
Proof.
  rewrite (keys_set keqb). destruct (existsb _ _); [apply incl_tl, incl_refl|].
  intros x Hx. apply in_app_iff in Hx. destruct Hx as [Hx|[<-|[]]]; [right; exact Hx|left; reflexivity].
Qed.
Lemma rem_step_keys (m: vmap) c : incl (keys (rem_step keqb m c)) (keys m).
Proof.
  destruct c as [k v n|k n|k v|k]; cbn [rem_step]; try apply incl_refl.
  - destruct (vm_get keqb k m) as [[v c0]|] eqn:G; [|apply incl_refl]. destruct (n <? c0); [|apply (keys_remove_incl keqb)].
    intros x Hx. apply keys_set_incl in Hx. destruct Hx as [<-|Hx]; [|exact Hx].
    destruct (in_dec (keqb_dec keqb keqb_spec) k (keys m)); [assumption|]. apply (get_none keqb (fun _ _ : V => true) keqb_spec) in n0. congruence.
  - destruct (vm_get keqb k m) as [[v c0]|] eqn:G; [|apply incl_refl]. destruct (1 <? c0); [|apply (keys_remove_incl keqb)].
    intros x Hx. apply keys_set_incl in Hx. destruct Hx as [<-|Hx]; [|exact Hx].
    destruct (in_dec (keqb_dec keqb keqb_spec) k (keys m)); [assumption|]. apply (get_none keqb (fun _ _ : V => true) keqb_spec) in n. congruence.
Qed.
Lemma ins_step_keys (m: vmap) c : incl (keys (ins_step keqb m c)) (ckey c :: keys m).
Proof.
  destruct c as [k v n|k n|k v|k]; cbn [ins_step ckey]; try (apply incl_tl, incl_refl).
  - destruct (vm_get keqb k m) as [[v0 c0]|]; apply keys_set_incl.
  - destruct (vm_get keqb k m) as [[v0 c0]|]; apply keys_set_incl.
Qed.
Lemma fold_rem_keys cs : forall (m: vmap), incl (keys (fold_left (rem_step keqb) cs m)) (keys m).
Proof. induction cs as [|c cs IH]; intros m; [apply incl_refl|]. cbn [fold_left]. eapply incl_tran; [apply IH|apply rem_step_keys]. Qed.
Lemma fold_ins_keys cs : forall (m: vmap), incl (keys (fold_left (ins_step keqb) cs m)) (map ckey cs ++ keys m).
Proof.
  induction cs as [|c cs IH]; intros m; [apply incl_refl|]. cbn [fold_left map app]. eapply incl_tran; [apply IH|].
  intros x Hx. apply in_app_iff in Hx. destruct Hx as [Hx|Hx]; [right; apply in_app_iff; left; exact Hx|].
  apply ins_step_keys in Hx. destruct Hx as [<-|Hx]; [left; reflexivity|right; apply in_app_iff; right; exact Hx].
Qed.
Lemma keys_expand_incl (m: vmap) : incl (map fst (expand m)) (keys m).
Proof.
  unfold expand, MFProofs1.keys. induction m as [|[k [v c]] m IH]; [apply incl_refl|]. cbn [flat_map map fst snd]. rewrite map_app.
  intros x Hx. apply in_app_iff in Hx. destruct Hx as [Hx|Hx]; [|right; apply IH; exact Hx].
  left. apply in_map_iff in Hx. destruct Hx as [[k' v'] [<- Hin]]. apply repeat_spec in Hin. injection Hin as -> _. reflexivity.
Qed.

Theorem map_apply_total : forall (base: list (K * V)) cs k,
  In k (map fst (apply keqb iter_order base (Modify cs))) -> In k (map fst base) \/ In k (map ckey cs).
Proof.
  intros base cs k H. cbn [apply] in H. apply keys_expand_incl in H.
  unfold MFProofs1.keys in H. eapply Permutation_in in H; [|apply Permutation_map, iter_perm].
  apply fold_ins_keys in H. apply in_app_iff in H. destruct H as [H|H].
  - right. apply in_map_iff in H. destruct H as [c [<- Hc]]. apply filter_In in Hc. apply in_map. tauto.
  - apply fold_rem_keys in H. left.
    (* keys of the collected base are keys of base *)
    clear - H keqb_spec. unfold collect_key in H.
    assert (G: forall l (m: vmap), In k (keys (fold_left (fun m p => match vm_get keqb (fst p) m with Some (v, c) => vm_set keqb (fst p) (v, S c) m | None => vm_set keqb (fst p) (snd p, 1) m end) l m)) -> In k (keys m) \/ In k (map fst l)).
    { induction l as [|p l IH]; intros m Hk; [left; exact Hk|]. cbn [fold_left] in Hk. apply IH in Hk. destruct Hk as [Hk|Hk]; [|right; right; exact Hk].
      assert (In k (fst p :: keys m)). { destruct (vm_get keqb (fst p) m) as [[v c]|]; apply keys_set_incl in Hk; exact Hk. }
      destruct H0 as [<-|H0]; [right; left; reflexivity|left; exact H0]. }
    apply G in H. destruct H as [[]|H]. exact H.
Qed.
End P6.
Print Assumptions map_apply_total.
