(* The assertion sites of src/collections/unordered_map_like.rs: `debug_assert_ne!(count, 0)` in Change::new (feature debug_asserts),
   `unreachable!("Sorting failure")` in the removal loop (always compiled) and `panic!("Sorting failure")` in the insertion loop
   (feature debug_asserts, debug build). The variant of the model below panics (None) at these sites. Theorems: for ALL input lists
   (duplicate keys included) the variant computes what the plain model computes, and for EVERY diff value and base the patch loops
   never reach a "Sorting failure" arm. *)
From Coq Require Import List Arith ZArith Lia Bool Permutation.
Import ListNotations.
Require Import M.MapFlat M.MFProofs1.

Section DA.
Context {K V: Type} (keqb: K -> K -> bool) (veqb: V -> V -> bool).
Hypothesis keqb_spec : forall a b, keqb a b = true <-> a = b.
Variable iter_order : list (K * (V * nat)) -> list (K * (V * nat)).
Hypothesis iter_perm : forall m, Permutation (iter_order m) m.
Notation vmap := (@MapFlat.vmap K V).
Notation vm_get := (MapFlat.vm_get keqb).
Notation vm_set := (MapFlat.vm_set keqb).
Notation vm_remove := (MapFlat.vm_remove keqb).
Notation mchange := (@MapFlat.mchange K V).

Definition new_change_da (k: K) (v: V) (count: nat) (o: op) : option mchange :=
  if count =? 0 then None else Some (new_change k v count o).

Fixpoint diff_loop_da (cur: vmap) (prev: vmap) (acc: list mchange) : option (list mchange * vmap) :=
  match cur with
  | [] => Some (acc, prev)
  | (k, (v, cc)) :: cur' =>
      match vm_get k prev with
      | Some (pv, pc) =>
          let prev' := vm_remove k prev in
          if veqb pv v then
            if pc <? cc then match new_change_da k v (cc - pc) OIns with Some c => diff_loop_da cur' prev' (acc ++ [c]) | None => None end
            else if cc <? pc then match new_change_da k v (pc - cc) ORem with Some c => diff_loop_da cur' prev' (acc ++ [c]) | None => None end
            else diff_loop_da cur' prev' acc
          else if negb (veqb pv v) then
            match new_change_da k pv pc ORem, new_change_da k v cc OIns with
            | Some c1, Some c2 => diff_loop_da cur' prev' (acc ++ [c1; c2]) | _, _ => None end
          else None
      | None => match new_change_da k v cc OIns with Some c => diff_loop_da cur' prev (acc ++ [c]) | None => None end
      end
  end.
Fixpoint leftovers_da (rest: vmap) : option (list mchange) :=
  match rest with
  | [] => Some []
  | p :: r => match new_change_da (fst p) (fst (snd p)) (snd (snd p)) ORem, leftovers_da r with Some c, Some l => Some (c :: l) | _, _ => None end
  end.

Definition hashcmp_da (key_only: bool) (previous current: list (K * V)) : option (option mdiff) :=
  let prev := if key_only then collect_key keqb previous else collect_key_value keqb veqb previous in
  let cur := if key_only then collect_key keqb current else collect_key_value keqb veqb current in
  if (Z.of_nat (length cur) <? Z.of_nat (length prev) - Z.of_nat (length cur))%Z then Some (Some (Replace (expand (iter_order cur))))
  else match diff_loop_da (iter_order cur) prev [] with
       | None => None
       | Some (acc, rest) =>
           match leftovers_da (iter_order rest) with None => None | Some l =>
           match acc ++ l with [] => Some None | d => Some (Some (Modify d)) end end
       end.

Definition rem_step_da (m: option vmap) (c: mchange) : option vmap :=
  match m with None => None | Some m => match c with RemoveMany _ _ | RemoveSingle _ => Some (rem_step keqb m c) | _ => None end end.
Definition ins_step_da (m: option vmap) (c: mchange) : option vmap :=
  match m with None => None | Some m => match c with InsertMany _ _ _ | InsertSingle _ _ => Some (ins_step keqb m c) | _ => None end end.
Definition apply_da (base: list (K * V)) (d: mdiff) : option (list (K * V)) :=
  match d with
  | Replace xs => Some xs
  | Modify cs =>
     let ins := filter is_insert cs in let rems := filter (fun c => negb (is_insert c)) cs in
     match fold_left ins_step_da ins (fold_left rem_step_da rems (Some (collect_key keqb base))) with
     | Some m => Some (expand (iter_order m)) | None => None end
  end.

(* every stored count is at least 1 *)
Definition posm (m: vmap) : Prop := forall k v c, In (k, (v, c)) m -> 1 <= c.
Lemma posm_nil : posm []. Proof. intros k v c []. Qed.
Lemma posm_tail a (m: vmap) : posm (a :: m) -> posm m.
Proof. intros P k v c H. apply (P k v c). right. exact H. Qed.
Lemma posm_set k v c (m: vmap) : posm m -> 1 <= c -> posm (vm_set k (v, c) m).
Proof.
  intros P Hc. induction m as [|[k0 e0] m IH]; cbn [MapFlat.vm_set].
  - intros k' v' c' [[= <- <- <-]|[]]. exact Hc.
  - destruct (keqb k0 k).
    + intros k' v' c' [[= <- <- <-]|H]; [exact Hc|]. apply (P k' v' c'). right. exact H.
    + intros k' v' c' [H|H]; [apply (P k' v' c'); left; exact H|]. apply (IH (posm_tail _ _ P) k' v' c' H).
Qed.
Lemma posm_remove k (m: vmap) : posm m -> posm (vm_remove k m).
Proof.
  intros P. induction m as [|[k0 e0] m IH]; cbn [MapFlat.vm_remove]; [exact P|].
  destruct (keqb k0 k); [exact (posm_tail _ _ P)|].
  intros k' v' c' [H|H]; [apply (P k' v' c'); left; exact H|]. apply (IH (posm_tail _ _ P) k' v' c' H).
Qed.
Lemma posm_get k v c (m: vmap) : posm m -> vm_get k m = Some (v, c) -> 1 <= c.
Proof. intros P G. apply (get_in keqb keqb_spec) in G. exact (P k v c G). Qed.
Lemma posm_perm (m m': vmap) : posm m -> Permutation m m' -> posm m'.
Proof. intros P Pm k v c H. apply (P k v c). eapply Permutation_in; [apply Permutation_sym; exact Pm|exact H]. Qed.

Lemma posm_fold (step: vmap -> K * V -> vmap) : (forall m p, posm m -> posm (step m p)) -> forall l m, posm m -> posm (fold_left step l m).
Proof. intros Hs. induction l as [|p l IH]; intros m P; [exact P|]. cbn [fold_left]. apply IH. apply Hs. exact P. Qed.
Lemma collect_key_pos l : posm (collect_key keqb l).
Proof.
  unfold collect_key. apply posm_fold; [|exact posm_nil]. intros m p P.
  destruct (vm_get (fst p) m) as [[v c]|]; apply posm_set; try exact P; lia.
Qed.
Lemma collect_kv_pos l : posm (collect_key_value keqb veqb l).
Proof.
  unfold collect_key_value. apply posm_fold; [|exact posm_nil]. intros m p P.
  destruct (vm_get (fst p) m) as [[v c]|]; [destruct (veqb v (snd p))|]; apply posm_set; try exact P; lia.
Qed.

Lemma new_change_da_pos k v c o : 1 <= c -> new_change_da k v c o = Some (new_change k v c o).
Proof. intros H. unfold new_change_da. destruct (Nat.eqb_spec c 0); [lia|reflexivity]. Qed.

Lemma diff_loop_da_eq : forall (cur prev: vmap) acc, posm cur -> posm prev -> diff_loop_da cur prev acc = diff_loop keqb veqb cur prev acc.
Proof.
  induction cur as [|[k [v cc]] cur IH]; intros prev acc Pc Pp; [reflexivity|].
  assert (Hcc: 1 <= cc) by (apply (Pc k v cc); left; reflexivity). pose proof (posm_tail _ _ Pc) as Pc'.
  cbn [diff_loop_da diff_loop]. destruct (vm_get k prev) as [[pv pc]|] eqn:G.
  - pose proof (posm_get _ _ _ _ Pp G) as Hpc. pose proof (posm_remove k prev Pp) as Pp'.
    destruct (veqb pv v).
    + destruct (pc <? cc) eqn:E1; [|destruct (cc <? pc) eqn:E2].
      * apply Nat.ltb_lt in E1. rewrite new_change_da_pos by lia. apply IH; assumption.
      * apply Nat.ltb_lt in E2. rewrite new_change_da_pos by lia. apply IH; assumption.
      * apply IH; assumption.
    + cbn [negb]. rewrite !new_change_da_pos by assumption. apply IH; assumption.
  - rewrite new_change_da_pos by assumption. apply IH; assumption.
Qed.

Lemma diff_loop_rest_pos : forall (cur prev: vmap) acc res rest, posm prev -> diff_loop keqb veqb cur prev acc = Some (res, rest) -> posm rest.
Proof.
  induction cur as [|[k [v cc]] cur IH]; intros prev acc res rest Pp D; cbn [diff_loop] in D.
  - injection D as _ <-. exact Pp.
  - destruct (vm_get k prev) as [[pv pc]|].
    + pose proof (posm_remove k prev Pp) as Pp'.
      destruct (veqb pv v); [destruct (pc <? cc); [|destruct (cc <? pc)]|cbn [negb] in D]; eapply IH; eassumption.
    + eapply IH; eassumption.
Qed.

Lemma leftovers_da_eq : forall rest: vmap, posm rest ->
  leftovers_da rest = Some (map (fun p => new_change (fst p) (fst (snd p)) (snd (snd p)) ORem) rest).
Proof.
  induction rest as [|[k [v c]] rest IH]; intros P; [reflexivity|]. cbn [leftovers_da map fst snd].
  rewrite new_change_da_pos by (apply (P k v c); left; reflexivity). rewrite IH by (apply (posm_tail _ _ P)). reflexivity.
Qed.

(* diff: the zero-count assertion never fires, whatever the input lists (duplicate keys included) and the map mode *)
Theorem hashcmp_da_same : forall key_only previous current, hashcmp_da key_only previous current = hashcmp keqb veqb iter_order key_only previous current.
Proof.
  intros ko previous current. unfold hashcmp_da, hashcmp.
  set (prev := if ko then collect_key keqb previous else collect_key_value keqb veqb previous).
  set (cur := if ko then collect_key keqb current else collect_key_value keqb veqb current).
  assert (Pp: posm prev) by (unfold prev; destruct ko; [apply collect_key_pos|apply collect_kv_pos]).
  assert (Pc: posm cur) by (unfold cur; destruct ko; [apply collect_key_pos|apply collect_kv_pos]).
  destruct (Z.of_nat (length cur) <? Z.of_nat (length prev) - Z.of_nat (length cur))%Z; [reflexivity|].
  assert (Pc': posm (iter_order cur)) by (eapply posm_perm; [exact Pc|apply Permutation_sym, iter_perm]).
  rewrite diff_loop_da_eq by assumption.
  destruct (diff_loop keqb veqb (iter_order cur) prev []) as [[acc rest]|] eqn:D; [|reflexivity].
  pose proof (diff_loop_rest_pos _ _ _ _ _ Pp D) as Pr.
  rewrite leftovers_da_eq by (eapply posm_perm; [exact Pr|apply Permutation_sym, iter_perm]). reflexivity.
Qed.

Lemma fold_rem_da : forall l (m: vmap), Forall (fun c => is_insert c = false) l ->
  fold_left rem_step_da l (Some m) = Some (fold_left (rem_step keqb) l m).
Proof.
  induction l as [|c l IH]; intros m F; [reflexivity|]. inversion F as [|? ? Hc Hl]; subst. cbn [fold_left].
  destruct c; cbn in Hc; try discriminate; cbn [rem_step_da]; apply IH; exact Hl.
Qed.
Lemma fold_ins_da : forall l (m: vmap), Forall (fun c => is_insert c = true) l ->
  fold_left ins_step_da l (Some m) = Some (fold_left (ins_step keqb) l m).
Proof.
  induction l as [|c l IH]; intros m F; [reflexivity|]. inversion F as [|? ? Hc Hl]; subst. cbn [fold_left].
  destruct c; cbn in Hc; try discriminate; cbn [ins_step_da]; apply IH; exact Hl.
Qed.

(* apply: both "Sorting failure" arms are unreachable for every diff value, produced by diff or received from anywhere *)
Theorem apply_da_same : forall base d, apply_da base d = Some (apply keqb iter_order base d).
Proof.
  intros base [xs|cs]; [reflexivity|]. unfold apply_da, apply.
  rewrite fold_rem_da by (apply Forall_forall; intros c Hc; apply filter_In in Hc; destruct Hc as [_ Hc]; apply negb_true_iff in Hc; exact Hc).
  rewrite fold_ins_da by (apply Forall_forall; intros c Hc; apply filter_In in Hc; destruct Hc as [_ Hc]; exact Hc).
  reflexivity.
Qed.
End DA.
