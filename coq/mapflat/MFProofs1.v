From Coq Require Import List Arith ZArith Lia Bool Permutation.
Import ListNotations.
Require Import M.MapFlat.

Section P.
Context {K V: Type} (keqb: K -> K -> bool) (veqb: V -> V -> bool).
Hypothesis keqb_spec : forall a b, keqb a b = true <-> a = b.
Notation vmap := (@MapFlat.vmap K V).
Notation vm_get := (MapFlat.vm_get keqb).
Notation vm_set := (MapFlat.vm_set keqb).
Notation vm_remove := (MapFlat.vm_remove keqb).

Lemma keqb_refl k : keqb k k = true. Proof. apply keqb_spec. reflexivity. Qed.
Lemma keqb_neq (a b: K) : a <> b -> keqb a b = false.
Proof. intros H. destruct (keqb a b) eqn:E; [apply keqb_spec in E; contradiction|reflexivity]. Qed.
Lemma keqb_dec (a b: K) : {a = b} + {a <> b}.
Proof. destruct (keqb a b) eqn:E; [left; apply keqb_spec; exact E|right; intros ->; rewrite keqb_refl in E; discriminate]. Qed.

Definition keys (m: vmap) := map fst m.
Definition wf (m: vmap) := NoDup (keys m).

Lemma get_none (m: vmap) k : vm_get k m = None <-> ~ In k (keys m).
Proof.
  induction m as [|[k' e] m IH]; cbn; [tauto|]. destruct (keqb k' k) eqn:E.
  - apply keqb_spec in E. subst. split; [discriminate|intros H; exfalso; apply H; auto].
  - rewrite IH. split; [intros H [H1|H1]; [subst; rewrite keqb_refl in E; discriminate|contradiction]|tauto].
Qed.
Lemma get_in (m: vmap) k e : vm_get k m = Some e -> In (k, e) m.
Proof.
  induction m as [|[k' e'] m IH]; cbn; [discriminate|]. destruct (keqb k' k) eqn:E.
  - apply keqb_spec in E. subst. intros [= ->]. auto.
  - intros H. right. apply IH. exact H.
Qed.
Lemma in_get (m: vmap) k e : wf m -> In (k, e) m -> vm_get k m = Some e.
Proof.
  induction m as [|[k' e'] m IH]; intros W H; [contradiction|]. cbn. inversion W; subst. destruct H as [H|H].
  - injection H as -> ->. rewrite keqb_refl. reflexivity.
  - destruct (keqb k' k) eqn:E; [|apply IH; auto]. apply keqb_spec in E. subst. exfalso. apply H2. apply in_map_iff. exists (k, e). auto.
Qed.

Lemma keys_set k e (m: vmap) : keys (vm_set k e m) = if existsb (fun x => keqb x k) (keys m) then keys m else keys m ++ [k].
Proof.
  unfold keys. induction m as [|[k' e'] m IH]; cbn; [reflexivity|]. destruct (keqb k' k) eqn:E; cbn; [reflexivity|].
  rewrite IH. destruct (existsb (fun x => keqb x k) (map fst m)); reflexivity.
Qed.
Lemma existsb_keys k l : existsb (fun x => keqb x k) l = true <-> In k l.
Proof. rewrite existsb_exists. split; [intros [x [H E]]; apply keqb_spec in E; subst; auto|intros H; exists k; split; [auto|apply keqb_refl]]. Qed.
Lemma NoDup_snoc {A} (l: list A) x : NoDup l -> ~ In x l -> NoDup (l ++ [x]).
Proof.
  induction l as [|y l IH]; intros N H; cbn; [constructor; [intros []|constructor]|].
  inversion N; subst. constructor.
  - rewrite in_app_iff. cbn. intros [H1|[H1|[]]]; [contradiction|subst; apply H; left; reflexivity].
  - apply IH; [assumption|intros H1; apply H; right; exact H1].
Qed.
Lemma wf_set k e (m: vmap) : wf m -> wf (vm_set k e m).
Proof.
  unfold wf. rewrite keys_set. intros W. destruct (existsb (fun x => keqb x k) (keys m)) eqn:E; [exact W|].
  apply NoDup_snoc; [exact W|]. intros H. apply existsb_keys in H. congruence.
Qed.
Lemma get_set k e (m: vmap) k' : vm_get k' (vm_set k e m) = if keqb k k' then Some e else vm_get k' m.
Proof.
  induction m as [|[k0 e0] m IH]; cbn.
  - destruct (keqb k k'); reflexivity.
  - destruct (keqb k0 k) eqn:E; cbn.
    + apply keqb_spec in E. subst k0. destruct (keqb k k'); reflexivity.
    + destruct (keqb k0 k') eqn:E2; [|exact IH]. apply keqb_spec in E2. subst k0.
      destruct (keqb k k') eqn:E3; [apply keqb_spec in E3; subst; rewrite keqb_refl in E; discriminate|reflexivity].
Qed.
Lemma length_set_new k e (m: vmap) : vm_get k m = None -> length (vm_set k e m) = S (length m).
Proof. induction m as [|[k0 e0] m IH]; cbn; [reflexivity|]. destruct (keqb k0 k); [discriminate|]. intros H. cbn. f_equal. apply IH. exact H. Qed.

Lemma keys_remove_incl k (m: vmap) : incl (keys (vm_remove k m)) (keys m).
Proof. unfold keys. induction m as [|[k0 c] m IH]; cbn; [apply incl_refl|]. destruct (keqb k0 k); cbn; [apply incl_tl, incl_refl|]. apply incl_cons; [left; reflexivity|apply incl_tl; exact IH]. Qed.
Lemma wf_remove k (m: vmap) : wf m -> wf (vm_remove k m).
Proof.
  unfold wf, keys. induction m as [|[k0 c] m IH]; intros W; cbn; [constructor|]. inversion W; subst.
  destruct (keqb k0 k); [assumption|]. cbn. constructor; [|apply IH; assumption].
  intros H. apply H1. apply (keys_remove_incl k m). exact H.
Qed.
Lemma get_remove k (m: vmap) k' : wf m -> vm_get k' (vm_remove k m) = if keqb k k' then None else vm_get k' m.
Proof.
  induction m as [|[k0 c] m IH]; intros W; cbn.
  - destruct (keqb k k'); reflexivity.
  - inversion W; subst. destruct (keqb k0 k) eqn:E.
    + apply keqb_spec in E. subst k0. destruct (keqb k k') eqn:E2; [|reflexivity].
      apply keqb_spec in E2. subst k'. apply get_none. exact H1.
    + cbn. destruct (keqb k0 k') eqn:E2.
      * apply keqb_spec in E2. subst k0. destruct (keqb k k') eqn:E3; [apply keqb_spec in E3; subst; rewrite keqb_refl in E; discriminate|reflexivity].
      * apply IH. assumption.
Qed.

(* association-list lookup on the user's map *)
Fixpoint lookup (k: K) (l: list (K * V)) : option V :=
  match l with [] => None | (k', v) :: l' => if keqb k' k then Some v else lookup k l' end.
Lemma lookup_none l k : lookup k l = None <-> ~ In k (map fst l).
Proof.
  induction l as [|[k' v] l IH]; cbn; [tauto|]. destruct (keqb k' k) eqn:E.
  - apply keqb_spec in E. subst. split; [discriminate|intros H; exfalso; apply H; auto].
  - rewrite IH. split; [intros H [H1|H1]; [subst; rewrite keqb_refl in E; discriminate|contradiction]|tauto].
Qed.

Definition ones (m: vmap) := forall k v c, In (k, (v, c)) m -> c = 1.

(* on a list with unique keys both collect functions build the obvious map *)
Definition step_key (m: vmap) (p: K * V) : vmap :=
  match vm_get (fst p) m with Some (v, c) => vm_set (fst p) (v, S c) m | None => vm_set (fst p) (snd p, 1) m end.
Definition step_kv (m: vmap) (p: K * V) : vmap :=
  match vm_get (fst p) m with
  | Some (v, c) => if veqb v (snd p) then vm_set (fst p) (v, S c) m else vm_set (fst p) (snd p, 1) m
  | None => vm_set (fst p) (snd p, 1) m end.

Lemma collect_gen (step: vmap -> K * V -> vmap) :
  (forall m p, vm_get (fst p) m = None -> step m p = vm_set (fst p) (snd p, 1) m) ->
  forall l m, wf m -> NoDup (map fst l) -> (forall k, In k (map fst l) -> vm_get k m = None) ->
  let m' := fold_left step l m in
  wf m' /\ (forall k, vm_get k m' = match lookup k l with Some v => Some (v, 1) | None => vm_get k m end) /\ length m' = length m + length l.
Proof.
  intros Hstep. induction l as [|[k v] l IH]; intros m W N D; cbn [fold_left].
  - cbn. repeat split; auto.
  - inversion N; subst. assert (G: vm_get k m = None) by (apply D; left; reflexivity).
    rewrite (Hstep m (k, v) G). cbn [fst snd].
    destruct (IH (vm_set k (v, 1) m)) as (I1 & I2 & I3).
    + apply wf_set. exact W.
    + assumption.
    + intros k' Hk'. rewrite get_set. destruct (keqb k k') eqn:E; [apply keqb_spec in E; subst; contradiction|]. apply D. right. exact Hk'.
    + split; [exact I1|]. split.
      * intros k'. rewrite I2. cbn [lookup]. destruct (keqb k k') eqn:E.
        -- apply keqb_spec in E. subst k'. assert (L: lookup k l = None) by (apply lookup_none; assumption). rewrite L, get_set, keqb_refl. reflexivity.
        -- destruct (lookup k' l); [reflexivity|]. rewrite get_set, E. reflexivity.
      * rewrite I3, length_set_new by exact G. cbn. lia.
Qed.

Lemma collect_key_spec l : NoDup (map fst l) ->
  wf (collect_key keqb l) /\ (forall k, vm_get k (collect_key keqb l) = option_map (fun v => (v, 1)) (lookup k l)) /\ length (collect_key keqb l) = length l.
Proof.
  intros N. unfold collect_key. destruct (collect_gen step_key) with (l := l) (m := @nil (K * (V * nat))) as (A & B & C); try assumption.
  - intros m p G. unfold step_key. rewrite G. reflexivity.
  - constructor.
  - reflexivity.
  - split; [exact A|]. split; [|exact C]. intros k. rewrite B. destruct (lookup k l); reflexivity.
Qed.
Lemma collect_kv_spec l : NoDup (map fst l) ->
  wf (collect_key_value keqb veqb l) /\ (forall k, vm_get k (collect_key_value keqb veqb l) = option_map (fun v => (v, 1)) (lookup k l)) /\ length (collect_key_value keqb veqb l) = length l.
Proof.
  intros N. unfold collect_key_value. destruct (collect_gen step_kv) with (l := l) (m := @nil (K * (V * nat))) as (A & B & C); try assumption.
  - intros m p G. unfold step_kv. rewrite G. reflexivity.
  - constructor.
  - reflexivity.
  - split; [exact A|]. split; [|exact C]. intros k. rewrite B. destruct (lookup k l); reflexivity.
Qed.
End P.
