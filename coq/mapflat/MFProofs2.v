From Coq Require Import List Arith ZArith Lia Bool Permutation.
Import ListNotations.
Require Import M.MapFlat M.MFProofs1.

Section P2.
Context {K V: Type} (keqb: K -> K -> bool) (veqb: V -> V -> bool).
Hypothesis keqb_spec : forall a b, keqb a b = true <-> a = b.
Hypothesis veqb_spec : forall a b, veqb a b = true <-> a = b.
Notation vmap := (@MapFlat.vmap K V).
Notation vm_get := (MapFlat.vm_get keqb).
Notation vm_set := (MapFlat.vm_set keqb).
Notation vm_remove := (MapFlat.vm_remove keqb).
Notation mchange := (@MapFlat.mchange K V).
Notation wf := (@MFProofs1.wf K V).
Notation ones := (@MFProofs1.ones K V).
Notation keys := (@MFProofs1.keys K V).
Notation lookup := (MFProofs1.lookup keqb).

Definition inb (k: K) (l: list K) : bool := existsb (fun x => keqb x k) l.
Lemma inb_In k l : inb k l = true <-> In k l. Proof. apply (existsb_keys keqb keqb_spec). Qed.

Definition all_single (d: list mchange) := Forall (fun c => match c with InsertSingle _ _ | RemoveSingle _ => True | _ => False end) d.
Definition rkeys (d: list mchange) : list K := flat_map (fun c => match c with RemoveSingle k | RemoveMany k _ => [k] | _ => [] end) d.
Definition ipairs (d: list mchange) : list (K * V) := flat_map (fun c => match c with InsertSingle k v | InsertMany k v _ => [(k, v)] | _ => [] end) d.

Lemma ones_remove k (m: vmap) : ones m -> ones (vm_remove k m).
Proof.
  induction m as [|[k0 e0] m IH]; intros O k' v c H; cbn in H; [contradiction|].
  destruct (keqb k0 k); [apply (O k' v c); right; exact H|].
  destruct H as [H|H]; [apply (O k' v c); left; exact H|]. apply (IH (fun a b c0 Hab => O a b c0 (or_intror Hab)) k' v c H).
Qed.
Lemma ones_set_new k v (m: vmap) : ones m -> vm_get k m = None -> ones (vm_set k (v, 1) m).
Proof.
  induction m as [|[k0 e0] m IH]; intros O G k' v' c H; cbn in H.
  - destruct H as [[= _ _ <-]|[]]. reflexivity.
  - cbn in G. destruct (keqb k0 k); [discriminate|]. destruct H as [H|H]; [apply (O k' v' c); left; exact H|].
    apply (IH (fun a b c0 Hab => O a b c0 (or_intror Hab)) G k' v' c H).
Qed.
Lemma ones_get (m: vmap) k v c : ones m -> vm_get k m = Some (v, c) -> c = 1.
Proof. intros O G. apply (O k v c). apply (get_in keqb keqb_spec). exact G. Qed.

(* removals on a map whose counts are all 1 *)
Lemma fold_rem_spec : forall (d: list mchange) (m: vmap), all_single d -> wf m -> ones m ->
  let m' := fold_left (rem_step keqb) (filter (fun c => negb (is_insert c)) d) m in
  wf m' /\ ones m' /\ forall k, vm_get k m' = if inb k (rkeys d) then None else vm_get k m.
Proof.
  induction d as [|c d IH]; intros m A W O; cbn [filter fold_left].
  - cbn. auto.
  - inversion A; subst. destruct c as [k0 v0 n|k0 n|k0 v0|k0]; try contradiction; cbn [is_insert negb fold_left app].
    + (* InsertSingle: skipped by the filter *) change (rkeys (InsertSingle k0 v0 :: d)) with (rkeys d). apply IH; assumption.
    + (* RemoveSingle *) change (rkeys (RemoveSingle k0 :: d)) with (k0 :: rkeys d).
      assert (St: rem_step keqb m (RemoveSingle k0) = vm_remove k0 m \/ (vm_get k0 m = None /\ rem_step keqb m (RemoveSingle k0) = m)).
      { cbn [rem_step]. destruct (vm_get k0 m) as [[v c]|] eqn:G; [left|right; auto]. rewrite (ones_get m k0 v c O G). reflexivity. }
      destruct (IH (rem_step keqb m (RemoveSingle k0)) H2) as (I1 & I2 & I3).
      * destruct St as [->|[_ ->]]; [apply (wf_remove keqb)|]; assumption.
      * destruct St as [->|[_ ->]]; [apply ones_remove|]; assumption.
      * split; [exact I1|]. split; [exact I2|]. intros k. rewrite I3. unfold inb. cbn [existsb].
        destruct (keqb k0 k) eqn:E; cbn [orb].
        -- destruct (existsb (fun x => keqb x k) (rkeys d)); [reflexivity|]. apply keqb_spec in E. subst k0.
           destruct St as [->|[G ->]]; [rewrite (get_remove keqb veqb keqb_spec) by exact W; rewrite (keqb_refl keqb keqb_spec); reflexivity|exact G].
        -- destruct (existsb (fun x => keqb x k) (rkeys d)); [reflexivity|].
           destruct St as [->|[_ ->]]; [rewrite (get_remove keqb veqb keqb_spec) by exact W; rewrite E; reflexivity|reflexivity].
Qed.

(* insertions of fresh keys *)
Lemma fold_ins_spec : forall (d: list mchange) (m: vmap), all_single d -> wf m -> ones m ->
  NoDup (map fst (ipairs d)) -> (forall k, In k (map fst (ipairs d)) -> vm_get k m = None) ->
  let m' := fold_left (ins_step keqb) (filter (@is_insert K V) d) m in
  wf m' /\ ones m' /\ forall k, vm_get k m' = match lookup k (ipairs d) with Some v => Some (v, 1) | None => vm_get k m end.
Proof.
  induction d as [|c d IH]; intros m A W O N F; cbn [filter fold_left].
  - cbn. auto.
  - inversion A; subst. destruct c as [k0 v0 n|k0 n|k0 v0|k0]; try contradiction; cbn [is_insert fold_left app].
    + (* InsertSingle k0 v0 *)
      change (ipairs (InsertSingle k0 v0 :: d)) with ((k0, v0) :: ipairs d) in *. cbn [map fst] in N, F. inversion N; subst.
      assert (G: vm_get k0 m = None) by (apply F; left; reflexivity).
      assert (St: ins_step keqb m (InsertSingle k0 v0) = vm_set k0 (v0, 1) m) by (cbn [ins_step]; rewrite G; reflexivity).
      rewrite St. destruct (IH (vm_set k0 (v0, 1) m) H2) as (I1 & I2 & I3).
      * apply (wf_set keqb keqb_spec). exact W.
      * apply ones_set_new; assumption.
      * assumption.
      * intros k Hk. rewrite (get_set keqb keqb_spec). destruct (keqb k0 k) eqn:E; [apply keqb_spec in E; subst; contradiction|]. apply F. right. exact Hk.
      * split; [exact I1|]. split; [exact I2|]. intros k. rewrite I3. cbn [MFProofs1.lookup]. destruct (keqb k0 k) eqn:E.
        -- apply keqb_spec in E. subst k0. assert (L: lookup k (ipairs d) = None) by (apply (lookup_none keqb veqb keqb_spec); assumption).
           rewrite L, (get_set keqb keqb_spec), (keqb_refl keqb keqb_spec). reflexivity.
        -- destruct (lookup k (ipairs d)); [reflexivity|]. rewrite (get_set keqb keqb_spec), E. reflexivity.
    + (* RemoveSingle: skipped *) change (ipairs (RemoveSingle k0 :: d)) with (ipairs d) in *. apply IH; assumption.
Qed.
End P2.
