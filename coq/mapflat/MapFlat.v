(* Model of src/collections/unordered_map_like.rs *)
From Coq Require Import List Arith ZArith Lia Bool.
Import ListNotations.

Section MF.
Context {K V: Type} (keqb: K -> K -> bool) (veqb: V -> V -> bool).
Variable iter_order : list (K * (V * nat)) -> list (K * (V * nat)).

Definition vmap := list (K * (V * nat)).
Fixpoint vm_get (k: K) (m: vmap) : option (V * nat) :=
  match m with [] => None | (k', e) :: m' => if keqb k' k then Some e else vm_get k m' end.
Fixpoint vm_remove (k: K) (m: vmap) : vmap :=
  match m with [] => [] | (k', e) :: m' => if keqb k' k then m' else (k', e) :: vm_remove k m' end.
Fixpoint vm_set (k: K) (e: V * nat) (m: vmap) : vmap :=      (* HashMap::insert: overwrite or add *)
  match m with [] => [(k, e)] | (k', e') :: m' => if keqb k' k then (k', e) :: m' else (k', e') :: vm_set k e m' end.

(* collect_into_key_eq_map: first value wins, count occurrences *)
Definition collect_key (l: list (K * V)) : vmap :=
  fold_left (fun m p => match vm_get (fst p) m with Some (v, c) => vm_set (fst p) (v, S c) m | None => vm_set (fst p) (snd p, 1) m end) l [].
(* collect_into_key_value_eq_map: same value -> count, different value -> restart with the new value *)
Definition collect_key_value (l: list (K * V)) : vmap :=
  fold_left (fun m p => match vm_get (fst p) m with
                        | Some (v, c) => if veqb v (snd p) then vm_set (fst p) (v, S c) m else vm_set (fst p) (snd p, 1) m
                        | None => vm_set (fst p) (snd p, 1) m end) l [].

Inductive mchange := InsertMany (k: K) (v: V) (c: nat) | RemoveMany (k: K) (c: nat) | InsertSingle (k: K) (v: V) | RemoveSingle (k: K).
Inductive op := OIns | ORem.
Definition new_change (k: K) (v: V) (count: nat) (o: op) : mchange :=
  match o, count with
  | OIns, 1 => InsertSingle k v | OIns, c => InsertMany k v c
  | ORem, 1 => RemoveSingle k | ORem, c => RemoveMany k c
  end.
Inductive mdiff := Replace (xs: list (K * V)) | Modify (cs: list mchange).
Definition expand (m: vmap) : list (K * V) := flat_map (fun p => repeat (fst p, fst (snd p)) (snd (snd p))) m.

Fixpoint diff_loop (cur: vmap) (prev: vmap) (acc: list mchange) : option (list mchange * vmap) :=
  match cur with
  | [] => Some (acc, prev)
  | (k, (v, cc)) :: cur' =>
      match vm_get k prev with
      | Some (pv, pc) =>
          let prev' := vm_remove k prev in
          if veqb pv v then
            if pc <? cc then diff_loop cur' prev' (acc ++ [new_change k v (cc - pc) OIns])
            else if cc <? pc then diff_loop cur' prev' (acc ++ [new_change k v (pc - cc) ORem])
            else diff_loop cur' prev' acc
          else if negb (veqb pv v) then diff_loop cur' prev' (acc ++ [new_change k pv pc ORem; new_change k v cc OIns])
          else None                                          (* unreachable!() when != is not the negation of == *)
      | None => diff_loop cur' prev (acc ++ [new_change k v cc OIns])
      end
  end.

Definition hashcmp (key_only: bool) (previous current: list (K * V)) : option (option mdiff) :=
  let prev := if key_only then collect_key previous else collect_key_value previous in
  let cur := if key_only then collect_key current else collect_key_value current in
  if (Z.of_nat (length cur) <? Z.of_nat (length prev) - Z.of_nat (length cur))%Z then Some (Some (Replace (expand (iter_order cur))))
  else match diff_loop (iter_order cur) prev [] with
       | None => None
       | Some (acc, rest) =>
           let l := map (fun p => new_change (fst p) (fst (snd p)) (snd (snd p)) ORem) (iter_order rest) in
           match acc ++ l with [] => Some None | d => Some (Some (Modify d)) end
       end.

Definition is_insert (c: mchange) := match c with InsertMany _ _ _ | InsertSingle _ _ => true | _ => false end.
Definition rem_step (m: vmap) (c: mchange) : vmap :=
  match c with
  | RemoveMany k n => match vm_get k m with Some (v, c0) => if n <? c0 then vm_set k (v, c0 - n) m else vm_remove k m | None => m end
  | RemoveSingle k => match vm_get k m with Some (v, c0) => if 1 <? c0 then vm_set k (v, c0 - 1) m else vm_remove k m | None => m end
  | _ => m
  end.
Definition ins_step (m: vmap) (c: mchange) : vmap :=
  match c with
  | InsertMany k v n => match vm_get k m with Some (v0, c0) => vm_set k (v0, c0 + n) m | None => vm_set k (v, n) m end
  | InsertSingle k v => match vm_get k m with Some (v0, c0) => vm_set k (v0, c0 + 1) m | None => vm_set k (v, 1) m end
  | _ => m
  end.
Definition apply (base: list (K * V)) (d: mdiff) : list (K * V) :=
  match d with
  | Replace xs => xs
  | Modify cs =>
     let ins := filter is_insert cs in let rems := filter (fun c => negb (is_insert c)) cs in
     expand (iter_order (fold_left ins_step ins (fold_left rem_step rems (collect_key base))))
  end.
End MF.

