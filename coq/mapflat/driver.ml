open Mfmodel
let rec nat_of_int n = if n <= 0 then O else S (nat_of_int (n-1))
let rec int_of_nat = function O -> 0 | S n -> 1 + int_of_nat n
let parse s = let v = List.map int_of_string (List.filter (fun x -> x <> "") (String.split_on_char ' ' s)) in
  let rec pairs = function a :: b :: r -> (a,b) :: pairs r | _ -> [] in pairs v
let show l = String.concat " " (List.map (fun (a,b) -> Printf.sprintf "%d:%d" a b) (List.sort compare l))
let show_change = function
  | InsertMany (k,v,c) -> Printf.sprintf "IM %d %d %d" k v (int_of_nat c)
  | RemoveMany (k,c) -> Printf.sprintf "RM %d %d" k (int_of_nat c)
  | InsertSingle (k,v) -> Printf.sprintf "IS %d %d" k v
  | RemoveSingle k -> Printf.sprintf "RS %d" k
let () =
  let keqb (a:int) b = a = b and veqb (a:int) b = a = b and id x = x in
  try while true do
    let line = input_line stdin in
    match String.split_on_char '|' line with
    | [ko; p; c; b] ->
      let ko = String.trim ko = "1" and p = parse p and c = parse c and b = parse b in
      (match hashcmp keqb veqb id ko p c with
       | None -> print_endline "PANIC"
       | Some None -> print_endline "NONE"
       | Some (Some d) ->
          (match d with
           | Replace xs -> print_endline ("REPLACE " ^ show xs)
           | Modify cs -> print_endline ("MODIFY " ^ String.concat "; " (List.sort compare (List.map show_change cs))));
          print_endline ("AP " ^ show (apply keqb id p d));
          print_endline ("AB " ^ show (apply keqb id b d)))
    | _ -> ()
  done with End_of_file -> ()
