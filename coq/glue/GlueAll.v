(* The collection back-end specs assumed by the derive-level proofs (DProofs4-7) follow from the back-end theorems (C07 with Z.eqb; C11/C19) *)
From Coq Require Import List Arith ZArith Lia Bool Permutation.
Import ListNotations.
Require Import SD.ListOps SD.Ordered SD.OrderedLev SD.OrderedHir Props.C07.
Require Import U.UnordArr U.UAProofs1 U.UAProofs2 U.UAProofs3 U.UAProofs4 U.UAProofs5.
Require Import M.MapFlat M.MFProofs1 M.MFProofs4 M.MFProofs5.
Require Import R.AssocList R.SortedMap R.MapRec R.DModel3 R.DProofs4 R.DProofs5 R.DProofs6 R.DProofs7.
Require Import R.DSetters Inst.DeriveInst.

(* ---- ordered: hirschberg with Z.eqb ---- *)

Lemma R_Z_eq (l1 l2: list Z) : Forall2 (OrderedLev.R Z.eqb) l1 l2 -> l1 = l2.
Proof. intros F. induction F as [|x y l1 l2 H F IH]; [reflexivity|]. f_equal; [|exact IH]. destruct H as [H|H]; [exact H|apply Z.eqb_eq in H; congruence]. Qed.

Lemma HO2 t s d : odiff t s = Some d -> oapply d s = t.
Proof.
  intros H. destruct (ordered_roundtrip_hirschberg Z.eqb 0%Z t s) as (r & A & F). unfold odiff in H. rewrite H in A. cbn [Ordered.apply_opt] in A.
  unfold oapply. rewrite A. apply R_Z_eq. exact F.
Qed.
Lemma HO1 t s : odiff t s = None -> s = t.
Proof.
  intros H. destruct (ordered_roundtrip_hirschberg Z.eqb 0%Z t s) as (r & A & F). unfold odiff in H. rewrite H in A. cbn [Ordered.apply_opt] in A.
  injection A as <-. apply R_Z_eq. exact F.
Qed.

(* ---- everything below is proved for ARBITRARY hash iteration orders of the unordered-array and flat-map back ends (uio, mio), as
   long as they are permutations; this is what makes the hasher (feature rustc_hash) irrelevant (C16). The executed instance uses the identity. ---- *)
Section Orders.
Variable uio : list (Z * nat) -> list (Z * nat).
Hypothesis uio_perm : forall m, Permutation (uio m) m.
Variable mio : list (Z * (Z * nat)) -> list (Z * (Z * nat)).
Hypothesis mio_perm : forall m, Permutation (mio m) m.
Notation zid := uio.
Notation zid_perm := uio_perm.
Notation mid := mio.
Notation mid_perm := mio_perm.
Notation udiff := (DeriveInst.udiff_g uio).
Notation uapply := (DeriveInst.uapply_g uio).
Notation mapply := (DeriveInst.mapply_g mio).
(* ---- unordered array with Z keys and the identity iteration order ---- *)
Lemma zeqb_spec a b : Z.eqb a b = true <-> a = b. Proof. apply Z.eqb_eq. Qed.


Lemma count_perm (l1 l2: list Z) : (forall k, UAProofs1.count Z.eqb k l1 = UAProofs1.count Z.eqb k l2) -> Permutation l1 l2.
Proof.
  intros H. apply (Permutation_count_occ Z.eq_dec). intros k. specialize (H k). unfold UAProofs1.count in H.
  assert (C: forall l, length (filter (fun x => Z.eqb x k) l) = count_occ Z.eq_dec l k).
  { induction l as [|x l IH]; [reflexivity|]. cbn. destruct (Z.eq_dec x k) as [->|N]; [rewrite Z.eqb_refl; cbn; f_equal; exact IH|].
    destruct (Z.eqb_spec x k); [contradiction|exact IH]. }
  rewrite <- !C. exact H.
Qed.
Lemma perm_count (l1 l2: list Z) k : Permutation l1 l2 -> UAProofs1.count Z.eqb k l1 = UAProofs1.count Z.eqb k l2.
Proof. intros P. unfold UAProofs1.count. induction P; cbn; try destruct (Z.eqb x k); try destruct (Z.eqb y k); cbn; congruence. Qed.

Lemma HU1_g p c : udiff p c = None -> Permutation p c.
Proof.
  unfold udiff. intros H. pose proof (unordered_array_roundtrip Z.eqb zeqb_spec zid zid_perm p c) as T.
  destruct (UnordArr.hashcmp Z.eqb zid p c) as [[d|]|]; [discriminate| |contradiction]. apply count_perm. exact T.
Qed.
Lemma HU2_g p c d base : udiff p c = Some d -> Permutation base p -> Permutation (uapply base d) c.
Proof.
  unfold udiff, uapply. intros H P. destruct (UnordArr.hashcmp Z.eqb zid p c) as [[d0|]|] eqn:E; try discriminate. injection H as ->.
  apply count_perm. intros k. destruct d as [xs|cs].
  - pose proof (unordered_array_roundtrip Z.eqb zeqb_spec zid zid_perm p c) as T. rewrite E in T. exact (T k).
  - rewrite (unordered_apply_closed_form Z.eqb zeqb_spec zid zid_perm).
    destruct (modify_deltas Z.eqb zeqb_spec zid zid_perm p c cs E k) as [I R]. rewrite I, R, (perm_count base p k P). lia.
Qed.


(* ---- "absent exactly when equal" for the ordered and unordered back ends (C04's hypotheses) ---- *)
Lemma HO t s : odiff t s = None <-> s = t.
Proof.
  split; [apply HO1|]. intros ->. unfold odiff. apply ordered_none_iff_equal_hirschberg.
  - apply Forall_forall. intros x _. apply Z.eqb_refl.
  - unfold pairwise. induction t; constructor; [apply Z.eqb_refl|assumption].
Qed.
Lemma HU_g p c : udiff p c = None <-> Permutation p c.
Proof.
  split; [apply HU1_g|]. intros P. unfold udiff.
  pose proof (unordered_array_roundtrip Z.eqb zeqb_spec zid zid_perm p c) as T.
  destruct (UnordArr.hashcmp Z.eqb zid p c) as [[d|]|] eqn:E; [|reflexivity|contradiction].
  exfalso. destruct (diff_present_differs Z.eqb zeqb_spec zid zid_perm p c d E) as [k Hk]. apply Hk. apply perm_count. exact P.
Qed.

(* ---- flat map with Z keys and values, either mode, identity iteration order, canonical (sorted) map values ---- *)
Section FlatMap.
Variable ko : bool.
Notation mdiff := (DeriveInst.mdiff_g mio ko).

Lemma lookup_get (l: list (Z * Z)) k : MFProofs1.lookup Z.eqb k l = al_get Z.eqb k l.
Proof. induction l as [|[k0 v] l IH]; cbn; try rewrite IH; reflexivity. Qed.
Lemma sorted_nodup (l: list (Z * Z)) : sortedk l -> NoDup (map fst l).
Proof. intros S. apply (sorted_wf l S). Qed.
Lemma map_eq_sorted (p c: list (Z * Z)) : sortedk p -> sortedk c -> MFProofs4.map_eq Z.eqb p c -> p = c.
Proof. intros Sp Sc E. apply sorted_ext; assumption. Qed.   (* lookup and al_get are convertible *)

Lemma HM1_g p c : sortedk p -> sortedk c -> mdiff p c = None -> p = c.
Proof.
  intros Sp Sc H. unfold mdiff in H. pose proof (map_flat_roundtrip Z.eqb Z.eqb zeqb_spec zeqb_spec mid mid_perm ko p c (sorted_nodup p Sp) (sorted_nodup c Sc)) as T.
  destruct (MapFlat.hashcmp Z.eqb Z.eqb mid ko p c) as [[d|]|]; [discriminate| |contradiction]. apply map_eq_sorted; assumption.
Qed.
Lemma HM2_g p c d : sortedk p -> sortedk c -> mdiff p c = Some d -> mapply p d = c.
Proof.
  intros Sp Sc H. unfold mdiff in H. pose proof (map_flat_roundtrip Z.eqb Z.eqb zeqb_spec zeqb_spec mid mid_perm ko p c (sorted_nodup p Sp) (sorted_nodup c Sc)) as T.
  destruct (MapFlat.hashcmp Z.eqb Z.eqb mid ko p c) as [[d0|]|]; try discriminate. injection H as ->. destruct T as [E _].
  unfold mapply. apply sorted_ext; [apply canon_sorted|exact Sc|]. intros k. rewrite get_canon, <- !lookup_get. apply E.
Qed.
Lemma HM_g p c : sortedk p -> sortedk c -> (mdiff p c = None <-> p = c).
Proof.
  intros Sp Sc. split; [apply HM1_g; assumption|]. intros ->. unfold mdiff.
  pose proof (map_flat_roundtrip Z.eqb Z.eqb zeqb_spec zeqb_spec mid mid_perm ko c c (sorted_nodup c Sc) (sorted_nodup c Sc)) as T.
  destruct (MapFlat.hashcmp Z.eqb Z.eqb mid ko c c) as [[d|]|] eqn:E; [|reflexivity|contradiction].
  exfalso. destruct (map_diff_facts Z.eqb Z.eqb zeqb_spec zeqb_spec mid mid_perm ko c c d (sorted_nodup c Sc) (sorted_nodup c Sc) E) as [N _]. apply N. intros k. reflexivity.
Qed.

(* ---- the derive-level theorems with every back end instantiated: no hypothesis left but the hash order of recursive maps ---- *)
Variable iter_order : list (Z * value) -> list (Z * value).
Hypothesis iter_perm : forall m, Permutation (iter_order m) m.
Definition Diff_g := DModel3.diff_s _ _ _ odiff udiff mdiff iter_order.
Definition Apply_g := DModel3.apply _ _ _ oapply uapply mapply iter_order.

Theorem C01_closed_g : forall s a b, wt_s s a -> wt_s s b -> R_s true s a b (Apply_g s a (Diff_g s a b)).
Proof. apply (derive_roundtrip _ _ _ odiff oapply udiff uapply mdiff mapply iter_order iter_perm HO1 HO2 HU1_g HU2_g HM1_g HM2_g). Qed.
Theorem C02_closed_g : forall s hist prev f, wt_s s prev -> Forall (wt_s s) hist -> wt_s s f -> Eq_s s f prev ->
  Forall2 (fun f' l => Eq_s s f' l) (follow _ _ _ odiff oapply udiff uapply mdiff mapply iter_order s f prev hist) hist.
Proof. apply (replication_tracks _ _ _ odiff oapply udiff uapply mdiff mapply iter_order iter_perm HO1 HO2 HU1_g HU2_g HM1_g HM2_g). Qed.
Theorem C04_closed_g : forall fs i xs ys, wt_fs fs xs -> wt_fs fs ys ->
  entries_match _ _ _ fs i xs ys (DModel3.diff_fs _ _ _ odiff udiff mdiff iter_order fs i xs ys).
Proof. apply (change_detection_exact _ _ _ odiff udiff mdiff iter_order iter_perm HO HU_g HM_g). Qed.
Theorem C15_closed_g : forall fs ops xs copy, wt_fs fs xs -> wt_fs fs copy -> Eq_fs fs copy xs -> ops_ok fs (length xs) ops ->
  let '(final, es) := DSetters.run _ _ _ odiff udiff mdiff iter_order fs ops xs in
  Eq_fs fs (fold_left (DModel3.apply_fs _ _ _ oapply uapply mapply iter_order fs 0) es copy) final.
Proof. apply (setters_replay _ _ _ odiff oapply udiff uapply mdiff mapply iter_order iter_perm HO1 HO2 HU1_g HU2_g HM1_g HM2_g). Qed.
End FlatMap.
End Orders.

(* ---- the instance at the identity orders, under the names the property files use ---- *)
Lemma zid_perm m : Permutation (zid m) m. Proof. apply Permutation_refl. Qed.
Lemma mid_perm m : Permutation (mid m) m. Proof. apply Permutation_refl. Qed.
Definition HU1 := HU1_g zid zid_perm.
Definition HU2 := HU2_g zid zid_perm.
Definition HU := HU_g zid zid_perm.
Definition HM1 := HM1_g mid mid_perm.
Definition HM2 := HM2_g mid mid_perm.
Definition HM := HM_g mid mid_perm.
Definition Diff := Diff_g zid mid.
Definition Apply := Apply_g zid mid.
Definition C01_closed := C01_closed_g zid zid_perm mid mid_perm.
Definition C02_closed := C02_closed_g zid zid_perm mid mid_perm.
Definition C04_closed := C04_closed_g zid zid_perm mid mid_perm.
Definition C15_closed := C15_closed_g zid zid_perm mid mid_perm.
Print Assumptions C01_closed_g. Print Assumptions C02_closed_g. Print Assumptions C04_closed_g. Print Assumptions C15_closed_g.
