(* C17 x C01: the SHAPE (universe of R/DModel3.v, about which the round-trip and frame theorems of C01 - C06 are proved) that the macro's own
   front end assigns to a parsed declaration: the same reading of the attributes (P/ParseInterp.v) and the same case analysis on
   recurse / collection strategy / Option-ness (P/ParseBody.v) that select the templates. Nested types are looked up among the
   derive items of the module by name. Executable; extracted: the declarations of the derive-level workload are parsed by /repo's parser
   and by the model, and the shape computed here must be the shape the workload generator meant. *)
From Coq Require Import List Arith Bool String.
Import ListNotations.
Require Import P.ParseModel P.ParsePrintModel P.ParseDecl P.ParseInterp P.ParseHeader P.ParseBody R.DModel3.
Local Open Scope string_scope. Local Open Scope list_scope.

Definition env := list (string * data).
Fixpoint lookup (n: string) (e: env) : option data := match e with [] => None | (k, d) :: r => if String.eqb k n then Some d else lookup n r end.
Definition named_type (t: ty) : option string := match t with Ty (CNamed [n]) None None None => Some n | _ => None end.
Definition bind_o {A B} (o: option A) (k: A -> option B) : option B := match o with Some a => k a | None => None end.

(* one field, given the shapes of nested types *)
Definition field_strat (nested: ty -> option shape) (f: field) : option fstrat :=
  let t := f_ty f in
  if attrs_skip (f_attrs f) then Some FSkip else
  match attrs_recurse (f_attrs f), attrs_collection_type (f_attrs f), is_option t with
  | false, None, _ => Some FPlain
  | true, None, false => option_map FRecurse (nested t)
  | true, None, true => bind_o (first_wrapped t) (fun inner => option_map FRecurseOpt (nested inner))
  | false, Some OrderedArrayLike, false => match wrapped t with Some (_ :: _) => Some FOrdered | _ => None end      (* the element type is read off the first generic argument *)
  | false, Some UnorderedArrayLikeHash, false => match wrapped t with Some (_ :: _) => Some FUnordArr | _ => None end
  | false, Some (UnorderedMapLikeHash _), false => match wrapped t with Some _ => Some FMapFlat | None => None end
  | true, Some (UnorderedMapLikeHash m), false =>
      match wrapped t with
      | Some [_; v] => option_map (FMapRec (match m with ParseInterp.KeyOnly => true | ParseInterp.KeyAndValue => false end)) (nested v)
      | _ => None
      end
  | _, _, _ => None                                               (* the templates panic: "not yet supported" *)
  end.
Fixpoint fields_strats (nested: ty -> option shape) (l: list field) : option fields :=
  match l with [] => Some FNil | f :: r => bind_o (field_strat nested f) (fun x => option_map (FCons x) (fields_strats nested r)) end.

Fixpoint shape_of (fuel: nat) (e: env) (d: data) : option shape :=
  match fuel with 0 => None | S k =>
  match d with
  | DEnum _ => Some SEnum
  | DStruct s =>
      let nested (t: ty) : option shape := bind_o (named_type t) (fun n => bind_o (lookup n e) (shape_of k e)) in
      option_map SStruct (fields_strats nested (s_fields s))
  end end.
