(* C17 x C01: a declaration that gets a shape (G/DeclShape.v) is one the templates accept (P/ParseBody.v answers too) *)
From Coq Require Import List Arith Bool String.
Import ListNotations.
Require Import P.ParseModel P.ParsePrintModel P.ParseDecl P.ParseInterp P.ParseHeader P.ParseBody R.DModel3 G.DeclShape.
Local Open Scope string_scope. Local Open Scope list_scope.

(* a declaration that gets a shape is one the templates accept: whenever shape_of answers, no template panics (struct_defs answers too) *)
Lemma field_strat_defs nested sn f : attrs_skip (f_attrs f) = false -> field_strat nested f <> None -> field_defs sn f <> None.
Proof.
  unfold field_strat, field_defs. intros -> H.
  destruct (attrs_recurse (f_attrs f)), (attrs_collection_type (f_attrs f)) as [[| |m]|], (is_option (f_ty f));
    try (exfalso; apply H; reflexivity); try discriminate;
    try (destruct (wrapped (f_ty f)) as [[|w0 ws]|]; try discriminate; exfalso; apply H; reflexivity);
    try (destruct (first_wrapped (f_ty f)); [destruct (alias_names sn _); discriminate|exfalso; apply H; reflexivity]);
    try (destruct (alias_names sn _); discriminate).
Qed.
Lemma fields_strats_all nested : forall l fs, fields_strats nested l = Some fs -> forall f, In f l -> field_strat nested f <> None.
Proof.
  induction l as [|x l IH]; intros fs H f Hin; [contradiction|]. cbn in H. destruct (field_strat nested x) eqn:E; [|discriminate]. cbn in H.
  destruct (fields_strats nested l) eqn:E2; [|discriminate]. destruct Hin as [<-|Hin]; [rewrite E; discriminate|apply (IH _ eq_refl f Hin)].
Qed.
Lemma all_some_some {A} (l: list (option A)) : (forall x, In x l -> x <> None) -> exists r, all_some l = Some r.
Proof.
  induction l as [|x l IH]; intros H; [exists []; reflexivity|]. destruct x as [a|]; [|exfalso; apply (H None); [left; reflexivity|reflexivity]].
  destruct IH as [r Hr]; [intros y Hy; apply H; right; exact Hy|]. exists (a :: r). cbn. rewrite Hr. reflexivity.
Qed.
Theorem shaped_declarations_expand : forall fuel e s sh, shape_of fuel e (DStruct s) = Some sh -> exists td, struct_defs s = Some td.
Proof.
  intros [|k] e s sh H; [discriminate|]. cbn [shape_of] in H. unfold struct_defs.
  set (nested := fun t : ty => bind_o (named_type t) (fun n : string => bind_o (lookup n e) (shape_of k e))) in H.
  destruct (fields_strats nested (s_fields s)) as [fs|] eqn:E; [|discriminate].
  set (sn := match s_name s with Some x => x | None => "" end).
  destruct (all_some_some (map (field_defs sn) (filter (fun f => negb (attrs_skip (f_attrs f))) (s_fields s)))) as [ds Hds].
  - intros x Hx. apply in_map_iff in Hx. destruct Hx as (f & <- & Hf). apply filter_In in Hf. destruct Hf as [Hin Hs].
    apply (field_strat_defs nested); [destruct (attrs_skip (f_attrs f)); [discriminate|reflexivity]|apply (fields_strats_all nested _ fs E f Hin)].
  - rewrite Hds. eexists. reflexivity.
Qed.
