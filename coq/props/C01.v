(* C01: round trip a.apply(a.diff(&b)) ~ b for every derivable type shape, with every collection back end plugged in
   (Hirschberg with the translated constants, unordered array, flat map in either mode, recursive map in either mode). *)
From Coq Require Import List ZArith Permutation.
Require Import R.DModel3 R.DProofs4 Inst.DeriveInst G.GlueAll.
(* for EVERY hash iteration order of recursive maps *)
Theorem derive_roundtrip : forall (ko: bool) (iter_order: list (Z * value) -> list (Z * value)),
  (forall m, Permutation (iter_order m) m) ->
  forall s a b, wt_s s a -> wt_s s b -> R_s true s a b (Apply iter_order s a (Diff ko iter_order s a b)).
Proof. exact C01_closed. Qed.
(* ... in particular for the instance that is extracted and run against the implementation *)
Corollary derive_roundtrip_executed : forall ko s a b, wt_s s a -> wt_s s b -> R_s true s a b (x_apply s a (x_diff ko s a b)).
Proof. intros ko s a b Ha Hb. exact (C01_closed ko rid (fun m => Permutation_refl m) s a b Ha Hb). Qed.
Print Assumptions derive_roundtrip.
Print Assumptions derive_roundtrip_executed.

Import ListNotations.
(* non-vacuity: a shape with a skipped field, a nested struct with a skipped field, an unordered array and a key-and-value recursive map *)
Definition ex_shape := SStruct (FCons FPlain (FCons FSkip (FCons (FRecurse (SStruct (FCons FSkip (FCons FPlain FNil)))) (FCons FUnordArr
                         (FCons (FMapRec false (SStruct (FCons FPlain FNil))) FNil))))).
Definition ex_a := VStruct [VAtom 1; VAtom 2; VStruct [VAtom 3; VAtom 4]; VSeq [5;5;6]%Z; VRMap [(1, VStruct [VAtom 7]); (2, VStruct [VAtom 8])]%Z].
Definition ex_b := VStruct [VAtom 9; VAtom 0; VStruct [VAtom 0; VAtom 5]; VSeq [6;7]%Z; VRMap [(2, VStruct [VAtom 1]); (3, VStruct [VAtom 2])]%Z].
Example c01_instance : x_apply ex_shape ex_a (x_diff false ex_shape ex_a ex_b)
  = VStruct [VAtom 9; VAtom 2; VStruct [VAtom 3; VAtom 5]; VSeq [6;7]%Z; VRMap [(2, VStruct [VAtom 1]); (3, VStruct [VAtom 2])]%Z].
Proof. vm_compute. reflexivity. Qed.
