(* C15: generated setters. The setter for field i assigns the field and returns what the field's diff strategy reports from the old to the new
   value (DSetters.setter, transcribed from the setter templates; tied to the generated code by execution). For ANY sequence of setter calls,
   replaying the returned entries in order on a copy of (or any value equivalent to) the initial value gives a value equivalent to the final one. *)
From Coq Require Import List ZArith Permutation.
Require Import R.DModel3 R.DSetters R.DProofs4 R.DProofs6 R.DProofs7 Inst.DeriveInst G.GlueAll.
Section C15.
Variable ko : bool.
Variable iter_order : list (Z * value) -> list (Z * value).
Hypothesis iter_perm : forall m, Permutation (iter_order m) m.
Notation setter := (DSetters.setter _ _ _ odiff udiff (DeriveInst.mdiff ko) iter_order).
(* (i) exactly the given value is stored in field i and no other field is touched; (ii) the returned entry IS the full diff's entry for that field *)
Theorem setter_stores_and_reports : forall fs xs i v,
  fst (setter fs xs i v) = set_nth i v xs /\
  snd (setter fs xs i v) = DModel3.diff_f _ _ _ odiff udiff (DeriveInst.mdiff ko) iter_order (strat_at fs i) i (nth i xs dflt) v.
Proof. intros. split; reflexivity. Qed.
Theorem setters_replay : forall fs ops xs copy, wt_fs fs xs -> wt_fs fs copy -> Eq_fs fs copy xs -> ops_ok fs (length xs) ops ->
  let '(final, es) := DSetters.run _ _ _ odiff udiff (DeriveInst.mdiff ko) iter_order fs ops xs in
  Eq_fs fs (fold_left (DModel3.apply_fs _ _ _ oapply uapply mapply iter_order fs 0) es copy) final.
Proof. exact (C15_closed ko iter_order iter_perm). Qed.
End C15.
Print Assumptions setter_stores_and_reports.
Print Assumptions setters_replay.
