(* C04: change detection is exact: one entry per changed field in declaration order, none for unchanged ones. *)
From Coq Require Import List ZArith Permutation.
Require Import R.DModel3 R.DProofs4 R.DProofs5 Inst.DeriveInst G.GlueAll.
Section C04.
Variable ko : bool.
Variable iter_order : list (Z * value) -> list (Z * value).
Hypothesis iter_perm : forall m, Permutation (iter_order m) m.
Theorem change_detection_exact : forall fs i xs ys, wt_fs fs xs -> wt_fs fs ys ->
  entries_match _ _ _ fs i xs ys (DModel3.diff_fs _ _ _ odiff udiff (DeriveInst.mdiff ko) iter_order fs i xs ys).
Proof. exact (C04_closed ko iter_order iter_perm). Qed.
Theorem enum_diff : forall a b, Diff ko iter_order SEnum a b = if value_eqb a b then nil else cons (EEnumReplace _ _ _ b) nil.
Proof. intros a b. reflexivity. Qed.
Theorem diff_self_empty : forall s a, wt_s s a -> Diff ko iter_order s a a = nil.
Proof. exact (DProofs5.diff_self_empty _ _ _ odiff udiff (DeriveInst.mdiff ko) iter_order iter_perm HO HU (HM ko)). Qed.
End C04.
Print Assumptions change_detection_exact.
Print Assumptions enum_diff.
Print Assumptions diff_self_empty.
