(* C02: replication. A follower equivalent (not identical) to the leader applies the leader's successive diffs and never diverges. *)
From Coq Require Import List ZArith Permutation.
Require Import R.DModel3 R.DProofs4 Inst.DeriveInst G.GlueAll.
Section C02.
Variable ko : bool.
Variable iter_order : list (Z * value) -> list (Z * value).
Hypothesis iter_perm : forall m, Permutation (iter_order m) m.
Notation diff := (Diff ko iter_order).
Notation apply := (Apply iter_order).
(* one step, any equivalent base: the result is R-related to the new leader state -- with top = true this includes
   "the follower's own skipped fields are unchanged" -- and hence equivalent to it *)
Theorem apply_diff_equiv : forall s a' a b, wt_s s a -> wt_s s b -> wt_s s a' -> Eq_s s a' a ->
  R_s true s a' b (apply s a' (diff s a b)) /\ Eq_s s (apply s a' (diff s a b)) b.
Proof.
  intros s a' a b Wa Wb Wa' E.
  pose proof (proj1 (follower_all _ _ _ odiff oapply udiff uapply (DeriveInst.mdiff ko) mapply iter_order iter_perm HO1 HO2 HU1 HU2 (HM1 ko) (HM2 ko)) s true a' a b Wa Wb Wa' E) as R.
  split; [exact R|].
  exact (proj1 R_implies_Eq s true a' b _ Wb R).
Qed.
(* any history, any length *)
Theorem replication_tracks : forall s hist prev f, wt_s s prev -> Forall (wt_s s) hist -> wt_s s f -> Eq_s s f prev ->
  Forall2 (fun f' l => Eq_s s f' l) (follow _ _ _ odiff oapply udiff uapply (DeriveInst.mdiff ko) mapply iter_order s f prev hist) hist.
Proof. exact (C02_closed ko iter_order iter_perm). Qed.
End C02.
Print Assumptions apply_diff_equiv.
Print Assumptions replication_tracks.
