(* C16: feature selection never changes diff/apply semantics.
   What a feature can change in the CODE that computes and applies diffs is (a) the hasher, i.e. the iteration order of every internal hash map
   (rustc_hash), and (b) extra assertions (debug_asserts); codecs, debug output and setters only add derived impls / inherent methods (checked
   structurally on every run: the set of cfg(feature) sites is pinned). The model is parametric in all three iteration orders (unordered array,
   flat map, recursive map), each constrained only to be a permutation. Theorem: under ANY two choices of these orders the results of diff followed
   by apply both satisfy the round-trip relation and are both equivalent to b: they agree up to the order of unordered collections and the
   old-or-new latitude of deliberately ignored data. *)
From Coq Require Import List ZArith Permutation.
Require Import R.DModel3 R.DProofs4 Inst.DeriveInst G.GlueAll.
Require U.UnordArr M.MapFlat U.UADebugAsserts M.MFDebugAsserts.
Section C16.
Variables (uio1 uio2 : list (Z * nat) -> list (Z * nat)) (mio1 mio2 : list (Z * (Z * nat)) -> list (Z * (Z * nat))) (rio1 rio2 : list (Z * value) -> list (Z * value)).
Hypothesis P1 : forall m, Permutation (uio1 m) m.
Hypothesis P2 : forall m, Permutation (uio2 m) m.
Hypothesis P3 : forall m, Permutation (mio1 m) m.
Hypothesis P4 : forall m, Permutation (mio2 m) m.
Hypothesis P5 : forall m, Permutation (rio1 m) m.
Hypothesis P6 : forall m, Permutation (rio2 m) m.
Theorem feature_invariance : forall ko s a b, wt_s s a -> wt_s s b ->
  let r1 := Apply_g uio1 mio1 rio1 s a (Diff_g uio1 mio1 ko rio1 s a b) in
  let r2 := Apply_g uio2 mio2 rio2 s a (Diff_g uio2 mio2 ko rio2 s a b) in
  R_s true s a b r1 /\ R_s true s a b r2 /\ Eq_s s r1 b /\ Eq_s s r2 b.
Proof.
  intros ko s a b Wa Wb r1 r2.
  pose proof (C01_closed_g uio1 P1 mio1 P3 ko rio1 P5 s a b Wa Wb) as R1.
  pose proof (C01_closed_g uio2 P2 mio2 P4 ko rio2 P6 s a b Wa Wb) as R2.
  split; [exact R1|]. split; [exact R2|]. split; [exact (proj1 R_implies_Eq s true a b _ Wb R1)|exact (proj1 R_implies_Eq s true a b _ Wb R2)].
Qed.

(* (b) the assertion sites of `debug_asserts` (and the always-compiled unreachable!() of the flat map's removal loop) are unreachable:
   the variants of the two unordered back ends that panic (None) at these sites compute exactly what the plain models compute —
   diff for all inputs and either map mode, apply for EVERY diff value (produced by diff or not) and every base, under any hash order. *)
Theorem debug_asserts_never_fire :
  (forall p c, UADebugAsserts.hashcmp_da Z.eqb uio1 p c = UnordArr.hashcmp Z.eqb uio1 p c) /\
  (forall base d, UADebugAsserts.apply_da Z.eqb uio1 base d = Some (UnordArr.apply Z.eqb uio1 base d)) /\
  (forall key_only p c, MFDebugAsserts.hashcmp_da Z.eqb Z.eqb mio1 key_only p c = MapFlat.hashcmp Z.eqb Z.eqb mio1 key_only p c) /\
  (forall base d, MFDebugAsserts.apply_da Z.eqb mio1 base d = Some (MapFlat.apply Z.eqb mio1 base d)).
Proof.
  split; [|split; [|split]].
  - exact (UADebugAsserts.hashcmp_da_same Z.eqb Z.eqb_eq uio1 P1).
  - exact (UADebugAsserts.apply_da_same Z.eqb uio1).
  - exact (MFDebugAsserts.hashcmp_da_same Z.eqb Z.eqb Z.eqb_eq mio1 P3).
  - exact (MFDebugAsserts.apply_da_same Z.eqb mio1).
Qed.
End C16.
Print Assumptions feature_invariance.
Print Assumptions debug_asserts_never_fire.
