(* C09: the rope behaves exactly like a growable array under every operation history.
   Stated about the instantiated model Inst/RopeInst.v (the constants the translator read from /repo on this run);
   the side conditions on those constants are discharged by computation right here. *)
From Coq Require Import List Arith Lia Bool.
Import ListNotations.
Require Import S.ListOps S.Slots S.SlotsBasics S.SlotsSwap.
Require Import S.RopeAbs S.RopeAbsInv S.RopePhys S.RopeSim1 S.RopeSim4 S.RopeIter S.RopeGen.
Require Import Inst.RopeInst.

(* ---- side conditions on the translated constants ---- *)
Lemma sc_base_ge1 : 1 <= BASE_SLOT_SIZE.                          Proof. unfold BASE_SLOT_SIZE. lia. Qed.
Lemma sc_base_le_max1 : BASE_SLOT_SIZE <= MAX_SLOT_SIZE - 1.        Proof. unfold BASE_SLOT_SIZE, MAX_SLOT_SIZE. lia. Qed.
Lemma sc_high_le_max1 : RopeAbs.HIGH BASE_SLOT_SIZE <= MAX_SLOT_SIZE - 1.  Proof. vm_compute. repeat constructor. Qed.
Lemma sc_fic : 1 <= FROM_ITER_TAKE /\ FROM_ITER_TAKE <= MAX_SLOT_SIZE - 1. Proof. unfold FROM_ITER_TAKE, MAX_SLOT_SIZE. lia. Qed.
Lemma sc_fic_same : FROM_ITER_TAKE = FROM_ITER_FULL.                Proof. reflexivity. Qed.
Lemma sc_max_u8 : MAX_SLOT_SIZE <= 255.                             Proof. unfold MAX_SLOT_SIZE. lia. Qed.   (* logical indices are u8 *)
Lemma sc_new_has_no_chunk : ROPE_NEW_CHUNKS = 0.                    Proof. reflexivity. Qed.   (* fails on a tree with defect D1 *)

Section C09.
Context {T: Type}.
Notation rope := (list (@am T)).
Notation lop := (@RopeSim4.lop T).

Definition to_lop (o: @rop T) : lop :=
  match o with OInsert i v => LInsert i v | ORemove i => LRemove i | ODrain l r => LDrain l r | OSwap a b => LSwap a b | OSet i v => LSet i v end.
Definition init_list (b: @build T) : list T := match b with BNew => [] | BFrom l => l end.
(* the plain growable array: RopeSim4.list_step is insert_at / remove_at / firstn++skipn / update / swap *)
Definition vec_run (l: list T) (ops: list (@rop T)) : list T := fold_left (@RopeSim4.list_step T) (map to_lop ops) l.
Definition in_range_hist (l: list T) (ops: list (@rop T)) : Prop := RopeSim4.in_range_history l (map to_lop ops).

Lemma x_step_phys r o : x_step r o = RopeSim4.phys_step MAX_SLOT_SIZE BASE_SLOT_SIZE UNDERSIZED_SLOT r (to_lop o).
Proof. destruct o; reflexivity. Qed.
Lemma x_run_phys ops : forall r, x_run r ops = RopeSim4.phys_run MAX_SLOT_SIZE BASE_SLOT_SIZE UNDERSIZED_SLOT r (map to_lop ops).
Proof. induction ops as [|o ops IH]; intros r; [reflexivity|]. cbn [x_run map RopeSim4.phys_run]. rewrite x_step_phys.
  destruct (RopeSim4.phys_step _ _ _ r (to_lop o)); [apply IH|reflexivity]. Qed.

Lemma build_ok (b: @build T) : exists r ls, x_build b = Some r /\ RopeSim1.RopeRep MAX_SLOT_SIZE r ls /\ RopeAbsInv.Inv MAX_SLOT_SIZE ls /\ concat ls = init_list b.
Proof.
  destruct b as [|l].
  - exists [], []. cbn [x_build init_list]. unfold x_new. rewrite sc_new_has_no_chunk. cbn [rope_new_gen repeat].
    repeat split; constructor.
  - cbn [x_build init_list]. unfold x_from.
    destruct (@RopeIter.build_from_list T MAX_SLOT_SIZE FROM_ITER_TAKE (proj1 sc_fic) (proj2 sc_fic) l) as (r & ls & A & B & C & D).
    exists r, ls. auto.
Qed.

Theorem rope_is_growable_array : forall (b: @build T) (ops: list (@rop T)),
  in_range_hist (init_list b) ops ->
  exists r0 r, x_build b = Some r0 /\ x_run r0 ops = Some r                      (* no in-range operation panics *)
    /\ x_len r = length (vec_run (init_list b) ops)
    /\ (forall i, x_index r i = nth_error (vec_run (init_list b) ops) i)       (* None = panic: exactly at/past the length *)
    /\ x_iter r = Some (vec_run (init_list b) ops)                              (* borrowed iteration *)
    /\ x_to_list r = vec_run (init_list b) ops.                                 (* consuming iteration *)
Proof.
  intros b ops H. destruct (build_ok b) as (r0 & ls0 & B & R0 & I0 & C0).
  unfold in_range_hist in H. rewrite <- C0 in H.
  destruct (@RopeSim4.rope_refines_list T MAX_SLOT_SIZE BASE_SLOT_SIZE UNDERSIZED_SLOT sc_base_ge1 sc_base_le_max1 sc_high_le_max1
              (map to_lop ops) r0 ls0 R0 I0 H) as (r & ls & P & R & I & Cc & TL & IX).
  exists r0, r. unfold vec_run. rewrite <- C0. split; [exact B|]. split; [rewrite x_run_phys; exact P|].
  split; [unfold x_len; rewrite (RopeIter.rope_len_sim MAX_SLOT_SIZE r ls R), Cc; reflexivity|].
  split; [exact IX|]. split; [|exact TL].
  unfold x_iter. rewrite (RopeIter.iter_sim MAX_SLOT_SIZE r ls R (proj2 I)), Cc. reflexivity.
Qed.
End C09.
Print Assumptions rope_is_growable_array.

(* non-vacuity: a concrete history that fills a chunk to capacity, rebalances, drains across chunks *)
From Coq Require Import ZArith.
Example c09_instance :
  let ops := map (fun i => OInsert 0 (Z.of_nat i)) (seq 0 40) ++ [ODrain 3 30; OSwap 0 5; ORemove 2; OSet 1 7%Z] in
  in_range_hist (init_list (BFrom [1;2;3]%Z)) ops /\
  option_map x_to_list (match x_build (BFrom [1;2;3]%Z) with Some r0 => x_run r0 ops | None => None end) = Some (vec_run [1;2;3]%Z ops).
Proof. vm_compute. repeat split; repeat constructor. Qed.
