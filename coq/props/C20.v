(* C20: unordered diffs carry only what changed; no replacement unless it shrinks. *)
From Coq Require Import List Arith ZArith Lia Permutation.
Require Import U.UnordArr U.UAProofs1 U.UAProofs2 U.UAProofs3 U.UAProofs4 U.UAProofs5.
Require Import M.MapFlat M.MFProofs1 M.MFProofs2 M.MFProofs3 M.MFProofs4 M.MFProofs5.
Section C20.
Context {K: Type} (keqb: K -> K -> bool) (keqb_spec: forall a b, keqb a b = true <-> a = b).
Section Arr.
Variable iter_order : list (K * nat) -> list (K * nat).
Hypothesis iter_perm : forall m, Permutation (iter_order m) m.
Notation hashcmp := (UnordArr.hashcmp keqb iter_order).
Notation count := (UAProofs1.count keqb).
(* exactly the multiplicity delta per item (so 0 for an unchanged item), each (item, direction) at most once *)
Theorem unordered_diff_minimal : forall previous current d, hashcmp previous current = Some (Some (UnordArr.Modify d)) ->
  NoDup (map UAProofs5.key_dir d) /\
  forall k, UAProofs2.inserted keqb k d = count k current - count k previous /\ UAProofs2.removed keqb k d = count k previous - count k current.
Proof.
  intros p c d H. split; [exact (UAProofs5.modify_entries_unique keqb keqb_spec iter_order iter_perm p c d H)|].
  exact (UAProofs4.modify_deltas keqb keqb_spec iter_order iter_perm p c d H).
Qed.
Theorem replace_only_if_shrinks : forall previous current xs, hashcmp previous current = Some (Some (UnordArr.Replace xs)) ->
  (Z.of_nat (UAProofs5.distinct keqb current) < Z.of_nat (UAProofs5.distinct keqb previous) - Z.of_nat (UAProofs5.distinct keqb current))%Z
  /\ forall k, count k xs = count k current.
Proof. exact (UAProofs5.replace_only_if_shrinks keqb keqb_spec iter_order iter_perm). Qed.
Corollary at_least_as_many_distinct_gives_change_list : forall previous current xs,
  UAProofs5.distinct keqb previous <= UAProofs5.distinct keqb current -> hashcmp previous current <> Some (Some (UnordArr.Replace xs)).
Proof. intros p c xs L H. destruct (replace_only_if_shrinks p c xs H) as [Z _]. lia. Qed.
End Arr.
Section Map.
Context {V: Type} (veqb: V -> V -> bool) (veqb_spec: forall a b, veqb a b = true <-> a = b).
Variable iter_order : list (K * (V * nat)) -> list (K * (V * nat)).
Hypothesis iter_perm : forall m, Permutation (iter_order m) m.
Theorem map_diff_facts : forall key_only previous current d, NoDup (map fst previous) -> NoDup (map fst current) ->
  MapFlat.hashcmp keqb veqb iter_order key_only previous current = Some (Some d) ->
  ~ map_eq keqb previous current /\
  match d with
  | MapFlat.Replace xs => (Z.of_nat (length current) < Z.of_nat (length previous) - Z.of_nat (length current))%Z
  | MapFlat.Modify cs =>
      MFProofs2.all_single cs /\ NoDup (MFProofs2.rkeys cs) /\ NoDup (map fst (MFProofs2.ipairs cs)) /\
      (forall k, In k (MFProofs2.rkeys cs) <-> exists pv, lookup keqb k previous = Some pv /\ lookup keqb k current <> Some pv) /\
      (forall k v, lookup keqb k (MFProofs2.ipairs cs) = Some v <-> lookup keqb k current = Some v /\ lookup keqb k previous <> Some v)
  end.
Proof. exact (MFProofs5.map_diff_facts keqb veqb keqb_spec veqb_spec iter_order iter_perm). Qed.
End Map.
End C20.
Print Assumptions unordered_diff_minimal.
Print Assumptions replace_only_if_shrinks.
Print Assumptions at_least_as_many_distinct_gives_change_list.
Print Assumptions map_diff_facts.
