(* C18 (partial): the derive's list diff needs memory linear in the list lengths.
   Cost semantics hir_mem: peak number of live working cells (table cells, row cells, change-list slots, chain boxes) of hirschberg_impl,
   on the SAME recursion (same data-dependent split points) as the functional model Ordered.hir. Partial: the cost semantics is a model of
   allocator-visible behaviour tied to the code by measurement (counting allocator), it is not derived from the code. *)
From Coq Require Import List Arith Lia.
Require Import SD.ListOps SD.Ordered SD.OrderedAlloc Gen.ConstsOrdered.
Lemma sc_cutoff_bounded : LEVENSHTEIN_CUTOFF <= 64.   Proof. unfold LEVENSHTEIN_CUTOFF. lia. Qed.   (* "disable the cutoff" (usize::MAX) breaks this *)
Definition K_cells := LEVENSHTEIN_CUTOFF + INSERT_COST + DELETE_COST + 6.
Section C18.
Context {T: Type} (eqb: T -> T -> bool).
Definition x_hir_mem (tgt src: list T) : nat * nat :=
  hir_mem eqb LEVENSHTEIN_CUTOFF DELETE_COST REPLACE_COST INSERT_COST (S (length tgt)) tgt src 0 (length tgt) 0 (length src).
Theorem hirschberg_alloc_linear : forall tgt src, fst (x_hir_mem tgt src) <= K_cells * (length tgt + length src + 1).
Proof.
  intros tgt src.
  assert (G: forall d: T, fst (x_hir_mem tgt src) <= K_cells * (length tgt + length src + 1)).
  { intros d. exact (OrderedAlloc.hirschberg_alloc_linear eqb LEVENSHTEIN_CUTOFF DELETE_COST REPLACE_COST INSERT_COST d
           ltac:(unfold LEVENSHTEIN_CUTOFF; lia) ltac:(unfold DELETE_COST; lia) ltac:(unfold REPLACE_COST; lia) ltac:(unfold INSERT_COST; lia) tgt src). }
  destruct tgt as [|x tgt']; [destruct src as [|y src']|]; [cbn; lia|exact (G y)|exact (G x)].
Qed.
(* with the cutoff bounded the constant is at most 64 + costs + 6 cells per element: never a table of n * m cells *)
Corollary hirschberg_alloc_constant : K_cells <= 64 + INSERT_COST + DELETE_COST + 6.
Proof. unfold K_cells. pose proof sc_cutoff_bounded. lia. Qed.
End C18.
Print Assumptions hirschberg_alloc_linear.
Print Assumptions hirschberg_alloc_constant.
