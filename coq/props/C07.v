From Coq Require Import List Arith Lia Bool.
Import ListNotations.
Require Import SD.ListOps SD.Ordered SD.OrderedLev SD.OrderedHir.
(* C07: ordered list diff round trip, both public algorithms, instantiated with the constants
   the translator read from /repo/src/collections/ordered_array_like.rs on this run.
   The side conditions 1 <= cost, 1 <= cutoff are discharged by computation on those constants. *)
Require Export Gen.ConstsOrdered.

Section C07.
Context {T: Type} (eqb: T -> T -> bool) (d: T).
Notation lev := (Ordered.levenshtein eqb DELETE_COST REPLACE_COST INSERT_COST).
Notation hirsch := (Ordered.hirschberg eqb LEVENSHTEIN_CUTOFF DELETE_COST REPLACE_COST INSERT_COST).
Notation R := (OrderedLev.R eqb).

Lemma slice_full (l: list T) : slice l 0 (length l) = l.
Proof. unfold slice. cbn [skipn]. rewrite Nat.sub_0_r. apply firstn_all. Qed.

Theorem ordered_roundtrip_levenshtein : forall tgt src,
  exists r, apply_opt src (lev tgt src d) = Some r /\ Forall2 R r tgt.
Proof.
  intros tgt src.
  destruct (lev_impl_correct eqb DELETE_COST REPLACE_COST INSERT_COST d ltac:(unfold DELETE_COST; lia) ltac:(unfold REPLACE_COST; lia) ltac:(unfold INSERT_COST; lia)
              tgt src 0 (length tgt) 0 (length src) [] []) as (L & A & F); try (cbn; lia).
  rewrite !slice_full in *. cbn [app] in A. rewrite !app_nil_r in A.
  exists L. split; [|exact F]. unfold Ordered.levenshtein, opt_script, apply_opt.
  destruct (lev_impl eqb DELETE_COST REPLACE_COST INSERT_COST tgt src d 0 (length tgt) 0 (length src)) eqn:E; [cbn in A; exact A|exact A].
Qed.

Theorem ordered_roundtrip_hirschberg : forall tgt src,
  exists r, apply_opt src (hirsch tgt src d) = Some r /\ Forall2 R r tgt.
Proof.
  intros tgt src.
  destruct (hir_correct eqb LEVENSHTEIN_CUTOFF DELETE_COST REPLACE_COST INSERT_COST d
              ltac:(unfold DELETE_COST; lia) ltac:(unfold REPLACE_COST; lia) ltac:(unfold INSERT_COST; lia) ltac:(unfold LEVENSHTEIN_CUTOFF; lia)
              tgt src (S (length tgt)) 0 (length tgt) 0 (length src) [] []) as (L & A & F); try (cbn; lia).
  rewrite !slice_full in *. cbn [app] in A. rewrite !app_nil_r in A.
  exists L. split; [|exact F]. unfold Ordered.hirschberg, opt_script, apply_opt.
  destruct (rev (hir eqb LEVENSHTEIN_CUTOFF DELETE_COST REPLACE_COST INSERT_COST (S (length tgt)) tgt src d 0 (length tgt) 0 (length src))) eqn:E; [cbn in A; exact A|exact A].
Qed.
End C07.

Print Assumptions ordered_roundtrip_levenshtein.
Print Assumptions ordered_roundtrip_hirschberg.

(* non-vacuity / sanity: a concrete instance above the cutoff on both sides *)
Definition t1 := map (fun i => (i*7) mod 5) (seq 0 30).
Definition s1 := map (fun i => (i*3) mod 5) (seq 0 25).
Example ex_hirschberg : apply_opt s1 (Ordered.hirschberg Nat.eqb LEVENSHTEIN_CUTOFF DELETE_COST REPLACE_COST INSERT_COST t1 s1 0) = Some t1.
Proof. vm_compute. reflexivity. Qed.

(* ---- the diff is absent exactly when the sequences are element-wise equal ---- *)
Require Import SD.OrderedEq SD.OrderedRow SD.OrderedHirEq.
Section C07b.
Context {T: Type} (eqb: T -> T -> bool) (d: T).
Notation lev := (Ordered.levenshtein eqb DELETE_COST REPLACE_COST INSERT_COST).
Notation hirsch := (Ordered.hirschberg eqb LEVENSHTEIN_CUTOFF DELETE_COST REPLACE_COST INSERT_COST).
Notation R := (OrderedLev.R eqb).
Definition pairwise (tgt src: list T) := Forall2 (fun t s => eqb t s = true) tgt src.

Lemma R_to_pairwise (r tgt: list T) : Forall (fun t => eqb t t = true) tgt -> Forall2 R r tgt -> pairwise tgt r.
Proof.
  intros Hr F. induction F as [|x t r tgt H F IH]; [constructor|]. inversion Hr; subst. constructor; [|apply IH; assumption].
  destruct H as [->|H]; assumption.
Qed.

Theorem ordered_none_iff_equal_hirschberg (tgt src: list T) : Forall (fun t => eqb t t = true) tgt ->
  (hirsch tgt src d = None <-> pairwise tgt src).
Proof.
  intros Hr. split.
  - intros H. destruct (ordered_roundtrip_hirschberg eqb d tgt src) as (r & A & F). rewrite H in A. cbn in A. injection A as <-. apply R_to_pairwise; assumption.
  - intros P. unfold Ordered.hirschberg.
    rewrite (hir_equal eqb LEVENSHTEIN_CUTOFF DELETE_COST REPLACE_COST INSERT_COST d
               ltac:(unfold DELETE_COST; lia) ltac:(unfold REPLACE_COST; lia) ltac:(unfold INSERT_COST; lia) ltac:(unfold LEVENSHTEIN_CUTOFF; lia)
               tgt src (S (length tgt)) 0 (length tgt) 0 (length src)); [reflexivity|lia|lia|lia|].
    rewrite !slice_full. exact P.
Qed.
Theorem ordered_none_iff_equal_levenshtein (tgt src: list T) : Forall (fun t => eqb t t = true) tgt ->
  (lev tgt src d = None <-> pairwise tgt src).
Proof.
  intros Hr. split.
  - intros H. destruct (ordered_roundtrip_levenshtein eqb d tgt src) as (r & A & F). rewrite H in A. cbn in A. injection A as <-. apply R_to_pairwise; assumption.
  - intros P. unfold Ordered.levenshtein.
    rewrite (lev_impl_equal eqb DELETE_COST REPLACE_COST INSERT_COST d tgt src 0 (length tgt) 0 (length src)); [reflexivity|lia|lia|].
    rewrite !slice_full. exact P.
Qed.
End C07b.
Print Assumptions ordered_none_iff_equal_hirschberg.
Print Assumptions ordered_none_iff_equal_levenshtein.
