(* C05: diff_ref is observationally the same diff as diff.
   The diff_ref templates are transcribed as their own mutual fixpoint (R/DRef.v). In a pure model borrowed and owned payloads
   coincide, so the theorem compares two transcriptions of the generated control structure; the weight of this property is on
   the correspondence check, which runs BOTH real code paths (diff, and diff_ref followed by Into) against the model on every case. *)
From Coq Require Import List ZArith Permutation.
Require Import R.DModel3 R.DProofs4 R.DRef Inst.DeriveInst G.GlueAll.
Section C05.
Variable ko : bool.
Variable iter_order : list (Z * value) -> list (Z * value).
Hypothesis iter_perm : forall m, Permutation (iter_order m) m.
Notation diff_ref := (DRef.diff_ref_s _ _ _ odiff udiff (DeriveInst.mdiff ko) iter_order).
(* same entries: hence same number, same fields, same order *)
Theorem diff_ref_same : forall s a b, map (DRef.into _ _ _) (diff_ref s a b) = Diff ko iter_order s a b.
Proof. exact (proj1 (DRef.diff_ref_same_all _ _ _ odiff udiff (DeriveInst.mdiff ko) iter_order)). Qed.
(* same effect on a and on every base equivalent to a *)
Corollary diff_ref_same_effect : forall s a' a b, wt_s s a -> wt_s s b -> wt_s s a' -> Eq_s s a' a ->
  Apply iter_order s a' (map (DRef.into _ _ _) (diff_ref s a b)) = Apply iter_order s a' (Diff ko iter_order s a b)
  /\ R_s true s a' b (Apply iter_order s a' (map (DRef.into _ _ _) (diff_ref s a b))).
Proof.
  intros s a' a b Wa Wb Wa' E. rewrite diff_ref_same. split; [reflexivity|].
  exact (proj1 (follower_all _ _ _ odiff oapply udiff uapply (DeriveInst.mdiff ko) mapply iter_order iter_perm HO1 HO2 HU1 HU2 (HM1 ko) (HM2 ko)) s true a' a b Wa Wb Wa' E).
Qed.
End C05.
Print Assumptions diff_ref_same.
Print Assumptions diff_ref_same_effect.
