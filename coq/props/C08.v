(* C08: ordered patch scripts received over the wire execute with exact list semantics; codec round trip for both wire formats. *)
From Coq Require Import List Arith ZArith NArith Lia Bool.
Import ListNotations.
Require Import S.ListOps S.Slots S.RopePhys S.RopeSim4 S.C08Exec W.Wire Inst.RopeInst Inst.WireInst Props.C09.

(* ---- side conditions on the translated discriminant tables ---- *)
Lemma sc_tables_agree : ORD_SER_OWNED = ORD_DE /\ ORD_SER_REF = ORD_DE.                 Proof. split; reflexivity. Qed.
Lemma sc_distinct : NoDup [dn ORD_DE 0; dn ORD_DE 1; dn ORD_DE 2; dn ORD_DE 3].          Proof. vm_compute. repeat constructor; cbn; intuition discriminate. Qed.
Lemma sc_fit_u8 : Forall (fun d => (d < 256 ^ N.of_nat 1)%N) [dn ORD_DE 0; dn ORD_DE 1; dn ORD_DE 2; dn ORD_DE 3].  Proof. repeat constructor. Qed.
Lemma sc_four : length ORD_DE = 4.                                                     Proof. reflexivity. Qed.

(* ---- the element codec: i64, two's complement, little endian ---- *)
Lemma i64_ok : forall z rest, i64_valid z -> de_i64 (ser_i64 z ++ rest) = Some (z, rest).
Proof.
  intros z rest [Hlo Hhi]. unfold de_i64, ser_i64.
  assert (Hm: (0 <= z mod 2 ^ 64 < 2 ^ 64)%Z) by (apply Z.mod_pos_bound; lia).
  rewrite le_roundtrip by (change (256 ^ N.of_nat 8)%N with (Z.to_N (2 ^ 64)); apply Z2N.inj_lt; lia).
  f_equal. f_equal. destruct (Z.neg_nonneg_cases z) as [Hn|Hp].
  - assert (E: (z mod 2 ^ 64 = z + 2 ^ 64)%Z) by (symmetry; apply Z.mod_unique with (q := (-1)%Z); lia).
    rewrite E. destruct (N.ltb_spec (Z.to_N (z + 2 ^ 64)) (2 ^ 63)) as [H|H].
    + exfalso. apply N2Z.inj_lt in H. rewrite Z2N.id in H by lia. change (Z.of_N (2 ^ 63)) with (2 ^ 63)%Z in H. lia.
    + rewrite Z2N.id by lia. lia.
  - rewrite Z.mod_small by lia. destruct (N.ltb_spec (Z.to_N z) (2 ^ 63)) as [H|H].
    + apply Z2N.id. exact Hp.
    + exfalso. apply N2Z.inj_le in H. rewrite Z2N.id in H by lia. change (Z.of_N (2 ^ 63)) with (2 ^ 63)%Z in H. lia.
Qed.

Notation wchange := (@Wire.change Z).
Definition wok (c: wchange) := @Wire.change_ok Z i64_valid c.

(* ---- codec round trips (what a peer running this library sends is decoded to the same script; re-encoding reproduces the bytes) ---- *)
Theorem nanoserde_script_roundtrip : forall (s: list wchange) rest, Forall wok s -> usize_ok (N.of_nat (length s)) ->
  ns_de (ns_ser_owned s ++ rest) = Some (s, rest) /\ ns_ser_ref s = ns_ser_owned s.
Proof.
  intros s rest F L. unfold ns_de, ns_ser_owned, ns_ser_ref. rewrite (proj1 sc_tables_agree), (proj2 sc_tables_agree). split; [|reflexivity].
  exact (@script_codec_roundtrip Z ser_i64 de_i64 i64_valid i64_ok 1 false _ _ _ _ sc_distinct sc_fit_u8 s rest F L).
Qed.
Theorem bincode_script_roundtrip : forall (s: list wchange) rest, Forall wok s -> usize_ok (N.of_nat (length s)) ->
  bc_de (bc_ser s ++ rest) = Some (s, rest).
Proof.
  intros s rest F L. unfold bc_de, bc_ser.
  refine (@script_codec_roundtrip Z ser_i64 de_i64 i64_valid i64_ok 4 true 0%N 1%N 2%N 3%N _ _ s rest F L).
  - repeat constructor; cbn; intuition discriminate.
  - repeat constructor.
Qed.
Corollary nanoserde_reencode : forall (s s': list wchange), Forall wok s -> usize_ok (N.of_nat (length s)) ->
  ns_de (ns_ser_owned s) = Some (s', []) -> ns_ser_owned s' = ns_ser_owned s.
Proof. intros s s' F L H. rewrite <- (app_nil_r (ns_ser_owned s)) in H. rewrite (proj1 (nanoserde_script_roundtrip s [] F L)) in H. congruence. Qed.
Corollary bincode_reencode : forall (s s': list wchange), Forall wok s -> usize_ok (N.of_nat (length s)) ->
  bc_de (bc_ser s) = Some (s', []) -> bc_ser s' = bc_ser s.
Proof. intros s s' F L H. rewrite <- (app_nil_r (bc_ser s)) in H. rewrite (bincode_script_roundtrip s [] F L) in H. congruence. Qed.

(* ---- execution: ANY well-formed script (each index in range when used), on the rope = on a plain list ---- *)
Section Exec.
Context {T: Type}.
Notation xchange := (@C08Exec.change T).
Theorem script_exec_list_semantics : forall (l: list T) (cs: list xchange) l',
  C08Exec.apply_script l cs = Some l' -> x_exec l cs = Some l'.
Proof. exact (C08Exec.script_exec_list_semantics MAX_SLOT_SIZE BASE_SLOT_SIZE UNDERSIZED_SLOT FROM_ITER_TAKE sc_base_ge1 sc_base_le_max1 sc_high_le_max1 sc_fic). Qed.
End Exec.
Corollary received_script_executes : forall (s: list wchange) (l l': list Z), Forall wok s -> usize_ok (N.of_nat (length s)) ->
  C08Exec.apply_script l (map to_exec s) = Some l' ->
  match ns_de (ns_ser_owned s) with Some (s', _) => x_exec l (map to_exec s') = Some l' | None => False end
  /\ match bc_de (bc_ser s) with Some (s', _) => x_exec l (map to_exec s') = Some l' | None => False end.
Proof.
  intros s l l' F L H. pose proof (proj1 (nanoserde_script_roundtrip s [] F L)) as A. pose proof (bincode_script_roundtrip s [] F L) as B.
  rewrite app_nil_r in A, B. rewrite A, B. split; apply script_exec_list_semantics; exact H.
Qed.
Print Assumptions nanoserde_script_roundtrip.
Print Assumptions bincode_script_roundtrip.
Print Assumptions nanoserde_reencode.
Print Assumptions bincode_reencode.
Print Assumptions script_exec_list_semantics.
Print Assumptions received_script_executes.
