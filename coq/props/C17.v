(* C17 (partial): the derive accepts every supported declaration.
   What a model can carry is the macro's own logic; this file covers the field-type parser (derive/src/parse.rs::next_type, transcribed branch by branch
   in P/ParseModel.v on proc-macro token trees): every well-formed type of the grammar of supported field types, in every legal context, is consumed
   EXACTLY (the rest of the stream is untouched), never panics, never hits a construct outside the fragment, and yields the tree the templates expect.
   `wf` excludes keywords as path heads and a reference whose referent is again a reference (known finding D10: the real parser panics on `Option<&'a &'a u8>`).
   That rustc accepts the expansion (trait resolution, lifetimes, hygiene) cannot be modelled here; it is TESTED by compiling generated declarations. *)
From Coq Require Import List Arith String.
Require Import P.ParseModel P.ParseGrammar P.ParseProof P.ParsePrintModel P.ParsePrint.
Theorem parse_complete : forall t rest, wf t -> stop rest -> next_type (S (depth t)) (lex t ++ rest) = Ok (Some (embed t)) rest.
Proof. exact ParseProof.parse_complete. Qed.
(* what the templates consume of an `Option<X>` field: the base name and the wrapped type *)
Theorem option_is_recognised : forall x rest, wf x -> stop rest ->
  next_type (S (S (depth x))) (lex (GPath "Option" nil (x :: nil)) ++ rest)
  = Ok (Some (Ty (CNamed ("Option"%string :: nil)) (Some (embed x :: nil)) None None)) rest.
Proof.
  intros x rest W S. pose proof (ParseProof.parse_complete (GPath "Option" nil (x :: nil)) rest) as H.
  cbn [depth fold_right] in H. rewrite Nat.max_0_r in H. apply H; [cbn; auto|exact S].
Qed.
(* the printer (Type::full, as spliced into the generated source and lexed again by rustc): parse, then print = the tokens the user wrote;
   the context is left untouched. Covers every well-formed type: paths with nested generics, references, tuples (unit and 1-tuples with their
   trailing comma included), arrays with literal or named length, lifetimes, never. *)
Theorem print_parse_roundtrip : forall t rest, wf t -> stop rest ->
  exists r, next_type (S (depth t)) (lex t ++ rest) = Ok (Some r) rest /\ pr r = lex t.
Proof. exact ParsePrint.print_parse_roundtrip. Qed.
(* the finding the proof produced: `&&T` is not consumed as one type (the real parser then panics on the leftover) *)
Example nested_ref_not_one_type :
  next_type 5 (lex (GRef None (GRef None (GPath "T" nil nil)))) = Ok (Some (Ty CUnNamed None (Some None) None)) (TP PAmp :: TId "T" :: nil).
Proof. reflexivity. Qed.
Print Assumptions parse_complete.
Print Assumptions option_is_recognised.
Print Assumptions print_parse_roundtrip.
