(* C17 (partial): the derive accepts every supported declaration.
   What a model can carry is the macro's own logic; this file covers the field-type parser (derive/src/parse.rs::next_type, transcribed branch by branch
   in P/ParseModel.v on proc-macro token trees): every well-formed type of the grammar of supported field types, in every legal context (anything but `<`, `::` and `as` may follow), is consumed
   EXACTLY (the rest of the stream is untouched), never panics, never hits a construct outside the fragment, and yields the tree the templates expect.
   `wf` excludes keywords as path heads and a reference whose referent is again a reference (known finding D10: the real parser panics on `Option<&'a &'a u8>`).
   That rustc accepts the expansion (trait resolution, lifetimes, hygiene) cannot be modelled here; it is TESTED by compiling generated declarations. *)
From Coq Require Import List Arith String.
From Coq Require Import Lia.
Require Import P.ParseModel P.ParseGrammar P.ParseProof P.ParsePrintModel P.ParsePrint P.ParseDecl P.ParseDeclGrammar P.ParseDeclProof P.ParseInterp P.ParseInterpProof P.ParseUsed P.ParseUsedProof P.ParseHeader P.ParseHeaderProof P.ParseBody P.ParseBodyProof.
From Coq Require ZArith Permutation.
Require R.DModel3 R.DProofs4 Inst.DeriveInst G.GlueAll G.DeclShape G.DeclShapeProof.
Theorem parse_complete : forall t rest, wf t -> stop rest -> next_type (S (depth t)) (lex t ++ rest) = Ok (Some (embed t)) rest.
Proof. exact ParseProof.parse_complete. Qed.
(* what the templates consume of an `Option<X>` field: the base name and the wrapped type *)
Theorem option_is_recognised : forall x rest, wf x -> stop rest ->
  next_type (S (S (depth x))) (lex (GPath "Option" nil (x :: nil)) ++ rest)
  = Ok (Some (Ty (CNamed ("Option"%string :: nil)) (Some (embed x :: nil)) None None)) rest.
Proof.
  intros x rest W S. pose proof (ParseProof.parse_complete (GPath "Option" nil (x :: nil)) rest) as H.
  cbn [depth fold_right] in H. rewrite Nat.max_0_r in H. apply H; [cbn; auto|exact S].
Qed.
(* the printer (Type::full, as spliced into the generated source and lexed again by rustc): parse, then print = the tokens the user wrote;
   the context is left untouched. Covers every well-formed type: paths with nested generics, references, tuples (unit and 1-tuples with their
   trailing comma included), arrays with literal or named length, lifetimes, never. *)
Theorem print_parse_roundtrip : forall t rest, wf t -> stop rest ->
  exists r, next_type (S (depth t)) (lex t ++ rest) = Ok (Some r) rest /\ pr r = lex t.
Proof. exact ParsePrint.print_parse_roundtrip. Qed.
(* the DECLARATION parser (parse_data with next_attribute, next_fields, next_generic, get_all_bounds; model P/ParseDecl.v): every well-formed
   struct declaration of the grammar P/ParseDeclGrammar.v — any mix of #[difference(..)] attributes (flags, key = "value" pairs, trailing commas,
   several attributes per item) and foreign attributes / doc comments, optional `pub`, lifetime / type / const parameters with bounds and defaults,
   a where clause over paths, tuples and arrays (with or without trailing comma), named fields with attributes and any visibility — is parsed
   to exactly the expected structure, nothing panics and nothing is left over. The bounds pass through the HashSet (the dedup functions) exactly when a
   where clause is present. A where-clause item either bounds something new (a path, tuple or array type) or names a declared TYPE
   parameter, whose bounds it extends (`struct S<T: A> where T: B` gives T the bounds A and B). wf_decl asks for distinct parameter names,
   non-keyword identifiers, well-formed types. *)
Theorem struct_parse_complete : forall dedup_ty dedup_lt fuel d, wf_decl fuel d ->
  parse_data dedup_ty dedup_lt fuel (lexd d) = Ok (DStruct (expected dedup_ty dedup_lt d)) nil.
Proof. exact ParseDeclProof.struct_parse_complete. Qed.
(* ENUM declarations (next_enum; struct-like variants go through the anonymous-struct case of next_type): unit, tuple-like and struct-like
   variants with their attributes, generics and where clauses as for structs, with or without the comma after the last variant, are parsed
   to exactly the expected structure. The model checks for the end of the body before it asks for a variant's type - the repair of D16;
   before it, next_type answered the empty unnamed type there (ParseProof.nt_empty_ok) and `enum E { A, B }` made B tuple-like. *)
Theorem enum_parse_complete : forall dedup_ty dedup_lt fuel e, wf_enum fuel e ->
  parse_data dedup_ty dedup_lt fuel (lexe e) = Ok (DEnum (expected_enum dedup_ty dedup_lt e)) nil.
Proof. exact ParseDeclProof.enum_parse_complete. Qed.
(* the hypotheses of struct_parse_complete are satisfiable: a declaration with doc comment, struct-level and field-level attributes, lifetime,
   bounded type parameter, const parameter with default, a where clause that extends T and bounds Vec<T>, trailing commas *)
Section Example.
Import ListNotations.
Local Open Scope string_scope.
Definition T_ := GPath "T" [] [].
Definition ex_decl : gdecl :=
  {| d_attrs := [GAOther "doc" [TP PEq; TLit (LStr " a struct")]; GADiff [IFlag "setters"] false];
     d_pub := true; d_name := "S";
     d_generics := Some {| gg_params := [PLife "a" []; PType "T" [GPath "Clone" [] []] None; PConst "N" (GPath "usize" [] []) (Some (LNum 4))];
                           gg_where := Some ([ {| gw_ty := T_; gw_bounds := [GPath "Default" [] []] |};
                                               {| gw_ty := GPath "Vec" [] [T_]; gw_bounds := [GPath "Clone" [] []; GLt "a"] |} ], true) |};
     d_fields := [ {| gf_attrs := [GADiff [IFlag "skip"] true]; gf_vis := VPub; gf_name := "f"; gf_ty := GPath "Option" [] [GRef (Some "a") T_] |};
                   {| gf_attrs := [GADiff [IKv "collection_strategy" (LStr "ordered_array_like"); IFlag "setter"] false; GAOther "allow" [TG Paren [TId "unused"]]];
                      gf_vis := VPubIn [TId "crate"]; gf_name := "g"; gf_ty := GArray (GPath "u8" [] []) (Some (LName "N")) |} ];
     d_trailing := true |}.
Ltac nd := repeat (constructor; [cbn; intros H; repeat (destruct H as [H|H]; try discriminate); try contradiction|]); try constructor.
Example ex_wf : wf_decl 10 ex_decl.
Proof.
  split; [repeat constructor; cbn; auto; discriminate|].
  split; [|split; [|discriminate]].
  - (* generics *)
    split; [repeat constructor; cbn; auto; lia|]. split; [cbn; nd|].
    split; [|split; [discriminate|]].
    + (* where items are well formed *)
      repeat constructor; cbn; auto; try lia; try discriminate.
    + (* the first names the type parameter T, the second is new *)
      cbn [where_ok]. split; [right; exists "T", None, [Ty (CNamed ["Clone"]) None None None]; split; [reflexivity|right; left; reflexivity]|].
      split; [left; vm_compute; intros H; repeat (destruct H as [H|H]; try discriminate); contradiction|exact I].
  - (* fields *)
    repeat constructor; cbn; auto; try lia; try discriminate.
Qed.
Example ex_parse : parse_data (fun x => x) (fun x => x) 10 (lexd ex_decl) = Ok (DStruct (expected (fun x => x) (fun x => x) ex_decl)) [].
Proof. vm_compute. reflexivity. Qed.
Definition ex_enum : genum :=
  {| en_attrs := [GADiff [IFlag "expose"] false]; en_pub := true; en_name := "E";
     en_generics := Some {| gg_params := [PLife "a" []; PType "T" [GPath "Clone" [] []] None]; gg_where := None |};
     en_variants := [ {| gv_attrs := []; gv_name := "A"; gv_body := VUnit |};
                      {| gv_attrs := [GAOther "doc" [TP PEq; TLit (LStr "x")]]; gv_name := "B"; gv_body := VTuple [GPath "T" [] []; GRef (Some "a") (GPath "u8" [] [])] false |};
                      {| gv_attrs := []; gv_name := "C"; gv_body := VStruct [ {| gf_attrs := [GADiff [IFlag "skip"] false]; gf_vis := VNone; gf_name := "x"; gf_ty := GPath "Option" [] [GPath "T" [] []] |} ] true |};
                      {| gv_attrs := []; gv_name := "D"; gv_body := VUnit |} ];
     en_trailing := false |}.
Example ex_enum_wf : wf_enum 10 ex_enum.
Proof.
  split; [repeat constructor; cbn; auto; discriminate|].
  split; [split; [repeat constructor; cbn; auto; lia|split; [cbn; repeat (constructor; [cbn; intros H; repeat (destruct H as [H|H]; try discriminate); try contradiction|]); constructor|exact I]]|].
  split; [|discriminate].
  repeat constructor; cbn; auto; try lia; try discriminate.
  exists 9. split; [reflexivity|]. repeat constructor; cbn; auto; try lia; try discriminate.
Qed.
Example ex_enum_parse : parse_data (fun x => x) (fun x => x) 10 (lexe ex_enum) = Ok (DEnum (expected_enum (fun x => x) (fun x => x) ex_enum)) [].
Proof. vm_compute. reflexivity. Qed.
End Example.

(* the INTERPRETATION of attributes (derive/src/shared.rs; model P/ParseInterp.v): two attribute lists that carry the same difference items —
   however grouped into one or several #[difference(..)], comma-terminated or not, in any order, between any foreign attributes and doc
   comments — are read identically (skip, recurse, setters, map and collection strategy, setter options), provided no item name occurs twice.
   The per-item readings are ParseInterpProof.flag_spec, map_strategy_spec, collection_type_spec, setter_spec. *)
Theorem interpretation_stable : forall attrs1 attrs2,
  Permutation.Permutation (items_of attrs1) (items_of attrs2) -> NoDup (map item_name (items_of attrs1)) ->
  attrs_skip (exp_attrs attrs1) = attrs_skip (exp_attrs attrs2) /\
  attrs_recurse (exp_attrs attrs1) = attrs_recurse (exp_attrs attrs2) /\
  attrs_all_setters (exp_attrs attrs1) = attrs_all_setters (exp_attrs attrs2) /\
  attrs_map_strategy (exp_attrs attrs1) = attrs_map_strategy (exp_attrs attrs2) /\
  attrs_collection_type (exp_attrs attrs1) = attrs_collection_type (exp_attrs attrs2) /\
  attrs_setter (exp_attrs attrs1) = attrs_setter (exp_attrs attrs2).
Proof. exact ParseInterpProof.interpretation_stable. Qed.
Theorem attribute_readings : forall items, NoDup (map item_name items) ->
  (forall n, flag n (map exp_item items) = true <-> In (IFlag n) items) /\
  attrs_map_strategy (map exp_item items) = map_of (lookup "map_equality" items) /\
  attrs_collection_type (map exp_item items) = coll_of (lookup "collection_strategy" items) (map_of (lookup "map_equality" items)) /\
  (forall n v, lookup n items = Some v <-> In (IKv n v) items).
Proof.
  intros items ND. split; [intros n; apply flag_spec|]. split; [apply map_strategy_spec; exact ND|]. split; [apply collection_type_spec; exact ND|].
  intros n v. apply lookup_in. exact ND.
Qed.
(* end to end over the front end: what the templates read off the k-th field of a parsed declaration is decided by the items the user wrote on it *)
Theorem parsed_field_flags : forall dedup_ty dedup_lt fuel d st, wf_decl fuel d ->
  parse_data dedup_ty dedup_lt fuel (lexd d) = Ok (DStruct st) nil ->
  List.length (s_fields st) = List.length (d_fields d) /\
  forall k f pf, nth_error (d_fields d) k = Some f -> nth_error (s_fields st) k = Some pf ->
    f_name pf = Some (gf_name f) /\ f_ty pf = embed (gf_ty f) /\
    (forall n, flag n (f_attrs pf) = true <-> In (IFlag n) (items_of (gf_attrs f))).
Proof.
  intros dt dl fuel d st W P. rewrite (struct_parse_complete dt dl fuel d W) in P. injection P as <-.
  cbn [expected s_fields]. split; [apply map_length|].
  intros k f pf Hf Hpf. rewrite nth_error_map, Hf in Hpf. cbn in Hpf. injection Hpf as <-.
  cbn [exp_field f_name f_ty f_attrs]. split; [reflexivity|]. split; [reflexivity|].
  intros n. rewrite exp_attrs_items. apply flag_spec.
Qed.

(* which lifetime parameters a field type USES (derive/src/difference.rs::get_used_lifetimes; the generated enums declare exactly those):
   for every well-formed type the helper reports exactly the lifetimes written in it, in order of occurrence - as the prefix of a reference
   or as a generic argument. The second statement is finding D11: the code as it was (no case for a lifetime used as generic argument)
   reported nothing for `Cow<'a, str>`, so the expansion used an undeclared lifetime. *)
Theorem used_lifetimes_exact : forall t, wf t -> used_lifetimes (embed t) = lifetimes_of t.
Proof. exact ParseUsedProof.used_lifetimes_exact. Qed.
(* likewise the const parameters a field type uses as array lengths (get_array_lens), at any nesting depth *)
Theorem array_lens_exact : forall t, wf t -> array_lens (embed t) = lens_of t.
Proof. exact ParseUsedProof.array_lens_exact. Qed.
(* which TYPE parameters a field type uses (the names_param tests of the struct derive against the type's own path and Type::wraps()): since
   the repair of D8 / D8b, exactly the parameters that are the HEAD of some path occurring anywhere in the type - the type itself, a generic
   argument, an element of a tuple or array, behind any reference; `T` and `T::Item` both count (ParseUsedProof.param_behind_reference_seen;
   before the repair the names carried the reference prefix and `Option<&'a T>` did not count T). *)
Theorem param_used_exact : forall n t, wf t -> param_used n (embed t) = used_spec n t.
Proof. exact ParseUsedProof.param_used_exact. Qed.
Local Open Scope string_scope. Local Open Scope list_scope. Local Open Scope bool_scope.
(* the code TEMPLATES that splice names, generics and bounds (derive/src/difference.rs, with Generic::ident_only / ident_with_const /
   full_with_const / has_where_bounds of derive/src/parse.rs; model P/ParseHeader.v: the token list of every item header of the expansion,
   compared with the real expansion on every generated declaration under several feature sets).
   (a) Every generated impl header of a STRUCT - `impl<..> StructDiff for S<..> where ..` and, with generated setters, `impl<..> S<..> where ..` -
   declares the declared parameters in declaration order (bounds and defaults dropped, a const parameter with its type), applies the type
   to exactly these, and its where clause repeats EVERY requirement the declaration states: each inline bound of a lifetime or type
   parameter, each bound a where clause adds to a parameter, each where-clause item over a compound type (good_impl_header / reqs). rustc
   needs exactly this for `S<..>` to be well-formed inside the impl. The HashSet pass over the bounds may reorder and de-duplicate, nothing else. *)
Theorem struct_impl_headers_good : forall dedup_ty dedup_lt,
  (forall l x, In x (dedup_ty l) <-> In x l) -> (forall l x, In x (dedup_lt l) <-> In x l) ->
  forall fuel c gs d, wf_decl fuel d ->
  let hs := struct_headers c gs (expected dedup_ty dedup_lt d) in
  (exists h, nth_error hs 3 = Some h /\ good_impl_header h (TId "StructDiff" :: TId "for" :: nil) (d_name d) (d_generics d)) /\
  (gs && any_setter (expected dedup_ty dedup_lt d) = true -> exists h, nth_error hs 6 = Some h /\ good_impl_header h nil (d_name d) (d_generics d)) /\
  (gs && any_setter (expected dedup_ty dedup_lt d) = false -> List.length hs = 6).
Proof. exact ParseHeaderProof.struct_impl_headers_good. Qed.
(* (b) the same for the impl header of an ENUM *)
Theorem enum_impl_header_good : forall dedup_ty dedup_lt,
  (forall l x, In x (dedup_ty l) <-> In x l) -> (forall l x, In x (dedup_lt l) <-> In x l) ->
  forall fuel c e, wf_enum fuel e ->
  exists h, nth_error (enum_headers c (expected_enum dedup_ty dedup_lt e)) 3 = Some h /\
            good_impl_header h (TId "StructDiff" :: TId "for" :: nil) (en_name e) (en_generics e).
Proof. exact ParseHeaderProof.enum_impl_header_good. Qed.
(* (c) which parameters the diff enums of a struct DECLARE (used_generics: what each unskipped field contributes, then the pass in declaration
   order with its HashSet of names and Vec::contains): exactly the declared parameters whose name some unskipped field type mentions - as
   its own path, in Type::wraps(), among its lifetimes or its named array lengths - in declaration order, each once. *)
Theorem diff_enum_params_exact : forall dedup_ty dedup_lt fuel d, wf_decl fuel d ->
  diff_enum_params dedup_ty dedup_lt d =
  filter (fun x => key_used (field_types d) (gkey x)) (no_where (exp_generics dedup_ty dedup_lt (d_generics d))).
Proof. exact ParseHeaderProof.diff_enum_params_exact. Qed.
(* in the user's terms: a declared parameter that an unskipped field type mentions (a type parameter in the sense of param_used_exact,
   a lifetime anywhere in the type, a const parameter as an array length at any depth) is declared by the diff enums *)
Theorem mentioned_params_declared : forall dedup_ty dedup_lt fuel d p f, wf_decl fuel d ->
  In p (params_of (d_generics d)) -> In f (unskipped d) -> mentions p (gf_ty f) ->
  In (param_arg p) (map ident_only (diff_enum_params dedup_ty dedup_lt d)).
Proof. exact ParseHeaderProof.mentioned_params_declared. Qed.
(* (d) every use of the two diff enums of a struct - their definitions, the Into impl, `type Diff`, `type DiffRef` - applies them to exactly
   the parameters they declare, in the same order ('__diff_target first for the borrowed one - declared only when there is an unskipped field
   to borrow from, the repair of D5): no arity or order mismatch can arise *)
Theorem diff_enum_uses_consistent : forall dedup_ty dedup_lt c gs d,
  let st := expected dedup_ty dedup_lt d in
  let hs := struct_headers c gs st in
  let U := diff_enum_params dedup_ty dedup_lt d in
  let E := diff_enum_name (attrs_expose (s_attrs st)) (d_name d) in
  let TL := target_lifetime (filter (fun f => negb (attrs_skip (f_attrs f))) (s_fields st)) in
  (exists pre w, nth_error hs 0 = Some (pre ++ (TId "pub" :: TId "enum" :: TId E :: nil) ++ angle (map ident_with_const U) ++ TId "where" :: w)) /\
  (exists pre w, nth_error hs 1 = Some (pre ++ (TId "pub" :: TId "enum" :: TId (E ++ "Ref")%string :: nil) ++ angle (TL ++ map ident_with_const U) ++ TId "where" :: w)) /\
  (exists w, nth_error hs 2 = Some (TId "impl" :: angle (TL ++ map ident_with_const U) ++ (TId "Into" :: TP PLt :: TId E :: nil) ++ angle (map ident_only U) ++
                                      (TP PGt :: TId "for" :: TId (E ++ "Ref")%string :: nil) ++ angle (TL ++ map ident_only U) ++ TId "where" :: w)) /\
  nth_error hs 4 = Some ((TId "type" :: TId "Diff" :: TP PEq :: TId E :: nil) ++ angle (map ident_only U)) /\
  (exists w, nth_error hs 5 = Some ((TId "type" :: TId "DiffRef" :: TP PLt :: nil) ++ lt_target ++ (TP PGt :: TP PEq :: TId (E ++ "Ref")%string :: nil) ++ angle (TL ++ map ident_only U) ++ TId "where" :: w)).
Proof. exact ParseHeaderProof.diff_enum_uses_consistent. Qed.
(* the generated TYPE DEFINITIONS of a struct (model P/ParseBody.v: variant lists of the two diff enums and the aliases of recurse fields, compared
   with the real expansion token by token). (e) whenever the templates do not panic, the borrowed diff enum has the variants of the owned one under
   the same names in the same order - one per unskipped field, plus `<field>_full` for an Option + recurse field - so the arms of the
   generated Into impl line up *)
Theorem diff_enum_variants_aligned : forall sn fields ds, all_some (map (field_defs sn) fields) = Some ds ->
  map fst (flat_map fd_variants ds) = flat_map names_of fields /\ map fst (flat_map fd_ref_variants ds) = flat_map names_of fields.
Proof. exact ParseBodyProof.variant_names. Qed.
(* (f) these names are pairwise distinct when the field names are (also with `r#` stripped) and no field bears the name of the `_full`
   variant of an Option + recurse field: known finding D13 stated exactly (ParseBodyProof.d13_clash is the witness) *)
Theorem variant_names_distinct : forall fields : list field,
  NoDup (map fname fields) -> NoDup (map (fun f => strip_raw (fname f)) fields) ->
  (forall f g, In f fields -> In g fields -> opt_recurse g = true -> fname f <> (strip_raw (fname g) ++ "_full")%string) ->
  NoDup (flat_map names_of fields).
Proof. exact ParseBodyProof.variant_names_distinct. Qed.
(* (f') the names of the generated type aliases are injective in (struct, field): two different recurse fields - of one struct or of two structs of a
   module - never get the same alias. This statement produced finding D22 (repaired: the name now carries the length of the struct's name;
   ParseBodyProof.alias_names_old_clash is the old clash `A` + `bc` = `Ab` + `c`). A struct's name is an identifier: it does not start with a digit. *)
Theorem alias_names_injective : forall s1 i1 s2 i2, starts_nondigit (strip_raw s1) -> starts_nondigit (strip_raw s2) ->
  (fst (alias_names s1 i1) = fst (alias_names s2 i2) \/ snd (alias_names s1 i1) = snd (alias_names s2 i2)) -> strip_raw s1 = strip_raw s2 /\ i1 = i2.
Proof. exact ParseBodyProof.alias_names_injective. Qed.
(* (g) the payload of a plain field is the field type as the user wrote it (print_embed through the template), the borrowed enum holds a
   reference to it, and no alias is generated *)
Theorem plain_payload : forall sn (gf: gfield), wf (gf_ty gf) ->
  attrs_recurse (exp_attrs (gf_attrs gf)) = false -> attrs_collection_type (exp_attrs (gf_attrs gf)) = None ->
  exists fd, field_defs sn (exp_field gf) = Some fd /\ fd_aliases fd = nil /\
             fd_variants fd = (gf_name gf, lex (gf_ty gf)) :: nil /\ fd_ref_variants fd = (gf_name gf, amp_target ++ lex (gf_ty gf)) :: nil.
Proof. exact ParseBodyProof.plain_payload. Qed.
(* (h) end to end, from the tokens the user wrote: a well-formed struct declaration is parsed without panic, the StructDiff impl header of its
   expansion is well-formed in the sense of (a), and the diff enums declare every parameter an unskipped field mentions *)
Theorem struct_expansion_end_to_end : forall dedup_ty dedup_lt,
  (forall l x, In x (dedup_ty l) <-> In x l) -> (forall l x, In x (dedup_lt l) <-> In x l) ->
  forall fuel c gs d, wf_decl fuel d ->
  exists st, parse_data dedup_ty dedup_lt fuel (lexd d) = Ok (DStruct st) nil /\
    (exists h, nth_error (headers c gs (DStruct st)) 3 = Some h /\ good_impl_header h (TId "StructDiff" :: TId "for" :: nil) (d_name d) (d_generics d)) /\
    (forall p f, In p (params_of (d_generics d)) -> In f (unskipped d) -> mentions p (gf_ty f) ->
       In (param_arg p) (map ident_only (no_where (used_generics (s_generics st) (map f_ty (filter (fun f => negb (attrs_skip (f_attrs f))) (s_fields st))))))).
Proof.
  intros dt dl M1 M2 fuel c gs d W. exists (expected dt dl d). split; [apply ParseDeclProof.struct_parse_complete; exact W|]. split.
  - destruct (ParseHeaderProof.struct_impl_headers_good dt dl M1 M2 fuel c gs d W) as [H _]. exact H.
  - intros p f Hp Hf Hm. exact (ParseHeaderProof.mentioned_params_declared dt dl fuel d p f W Hp Hf Hm).
Qed.
(* (i) C17 x C01, "the result obeys C01": the macro's front end assigns every declaration a SHAPE of the universe the derive-level theorems
   quantify over (G/DeclShape.v: the attribute readings and the recurse / collection / Option case analysis that select the templates;
   nested types looked up among the module's derive items). Whatever shape a parsed declaration gets, the round-trip theorem of C01 holds
   of it. That shape_of is the shape the real macro acts on is the tie: the declarations of the derive-level workload are parsed by
   /repo's parser and by the model, shape_of must return the shape the workload was generated from, and the behaviour of the real
   expansion on that workload is compared with the derive model at that shape (checks C01 - C06, C13, C15). *)
Theorem declared_type_obeys_C01 : forall fuel (e: DeclShape.env) (d: data) (sh: DModel3.shape), DeclShape.shape_of fuel e d = Some sh ->
  forall (ko: bool) (iter_order: list (BinNums.Z * DModel3.value) -> list (BinNums.Z * DModel3.value)), (forall m, Permutation.Permutation (iter_order m) m) ->
  forall a b, DProofs4.wt_s sh a -> DProofs4.wt_s sh b -> DProofs4.R_s true sh a b (GlueAll.Apply iter_order sh a (GlueAll.Diff ko iter_order sh a b)).
Proof. intros fuel e d sh _ ko io Hp a b Ha Hb. exact (GlueAll.C01_closed ko io Hp sh a b Ha Hb). Qed.
(* (i') a declaration that gets a shape is one the templates accept: whenever shape_of answers for a struct, no template panics on it
   (the model of the generated type definitions answers too) *)
Theorem shaped_declarations_expand : forall fuel e s sh, DeclShape.shape_of fuel e (DStruct s) = Some sh -> exists td, struct_defs s = Some td.
Proof. exact DeclShapeProof.shaped_declarations_expand. Qed.
(* non-vacuity: the example declaration above states four requirements (T: Clone, T: Default, Vec<T>: Clone, Vec<T>: 'a), and its impl header is
   the one rustc sees. The two known gaps of the struct templates as the model shows them: ParseHeaderProof.d21_where_item_not_on_the_enum (finding D21:
   a where-clause item a field type needs is not repeated on the diff enums) and d19_bound_mentions_undeclared (finding D19). *)
Example ex_reqs : List.length (reqs (d_generics ex_decl)) = 4.
Proof. reflexivity. Qed.
Example ex_impl_header :
  nth_error (struct_headers (Build_hcfg false false false) true (expected (fun x => x) (fun x => x) ex_decl)) 3 =
  Some (TId "impl" :: TP PLt :: TP PQuote :: TId "a" :: TP PComma :: TId "T" :: TP PComma :: TId "const" :: TId "N" :: TP PColon :: TId "usize" :: TP PGt ::
        TId "StructDiff" :: TId "for" :: TId "S" :: TP PLt :: TP PQuote :: TId "a" :: TP PComma :: TId "T" :: TP PComma :: TId "N" :: TP PGt :: TId "where" ::
        TId "T" :: TP PColon :: TId "Clone" :: TP PPlus :: TId "Default" :: TP PPlus ::
        (pth ("core" :: "clone" :: "Clone" :: nil) ++ TP PPlus :: pth ("core" :: "cmp" :: "PartialEq" :: nil) ++ TP PComma ::
         TId "Vec" :: TP PLt :: TId "T" :: TP PGt :: TP PColon :: TId "Clone" :: TP PPlus :: TP PQuote :: TId "a" :: nil))%string.
Proof. vm_compute. reflexivity. Qed.
(* the finding the proof produced: `&&T` is not consumed as one type (the real parser then panics on the leftover) *)
Example nested_ref_not_one_type :
  next_type 5 (lex (GRef None (GRef None (GPath "T" nil nil)))) = Ok (Some (Ty CUnNamed None (Some None) None)) (TP PAmp :: TId "T" :: nil).
Proof. reflexivity. Qed.
Print Assumptions parse_complete.
Print Assumptions option_is_recognised.
Print Assumptions print_parse_roundtrip.
Print Assumptions struct_parse_complete.
Print Assumptions interpretation_stable.
Print Assumptions attribute_readings.
Print Assumptions parsed_field_flags.
Print Assumptions used_lifetimes_exact.
Print Assumptions array_lens_exact.
Print Assumptions enum_parse_complete.
Print Assumptions param_used_exact.
Print Assumptions struct_impl_headers_good.
Print Assumptions enum_impl_header_good.
Print Assumptions diff_enum_params_exact.
Print Assumptions mentioned_params_declared.
Print Assumptions diff_enum_uses_consistent.
Print Assumptions diff_enum_variants_aligned.
Print Assumptions variant_names_distinct.
Print Assumptions plain_payload.
Print Assumptions struct_expansion_end_to_end.
Print Assumptions declared_type_obeys_C01.
Print Assumptions alias_names_injective.
Print Assumptions shaped_declarations_expand.
