(* C14: diffs survive both wire formats. Byte-level model (W/WireDerive.v) of the nanoserde binary format (derive: u16 variant index; hand-written impls of the
   collection diffs with the u8 discriminants translated from /repo; lenient Option tag) and of bincode 1.3 fixint of the serde derives (u32 variant index, strict
   Option tag), for the diff entries of EVERY wire shape (every field strategy, nested to any depth) and for the values that travel inside entries.
   Theorem: decoding what the encoder wrote returns exactly the entry list and the untouched rest of the stream, for every valid entry list (integers in the
   i64 / usize / u8 ranges of their slots, variant index within the tag width, entries matching their fields). *)
From Coq Require Import List Arith ZArith NArith Lia.
Import ListNotations.
Require Import R.DModel3 W.Wire W.WireDerive W.WireDeriveProof Inst.DeriveInst Inst.WireDeriveInst.

(* ---- side conditions on the translated discriminant tables ---- *)
Ltac tbl := split; [split; [repeat constructor; cbn; intuition discriminate|repeat constructor]|reflexivity].
Lemma sc_ord : NoDup [dn (t_ord tables_now) 0; dn (t_ord tables_now) 1; dn (t_ord tables_now) 2; dn (t_ord tables_now) 3]
               /\ Forall (fun d => (d < 256 ^ N.of_nat 1)%N) [dn (t_ord tables_now) 0; dn (t_ord tables_now) 1; dn (t_ord tables_now) 2; dn (t_ord tables_now) 3].
Proof. split; [repeat constructor; cbn; intuition discriminate|repeat constructor]. Qed.
Lemma sc_uac : tbl_ok (t_ua_change tables_now) /\ length (t_ua_change tables_now) = 6.  Proof. tbl. Qed.
Lemma sc_uad : tbl_ok (t_ua_diff tables_now) /\ length (t_ua_diff tables_now) = 2.      Proof. tbl. Qed.
Lemma sc_mfc : tbl_ok (t_mf_change tables_now) /\ length (t_mf_change tables_now) = 4.  Proof. tbl. Qed.
Lemma sc_mfd : tbl_ok (t_mf_diff tables_now) /\ length (t_mf_diff tables_now) = 2.      Proof. tbl. Qed.
Lemma sc_rmc : tbl_ok (t_rm_change tables_now) /\ length (t_rm_change tables_now) = 3.  Proof. tbl. Qed.
Lemma sc_rmd : tbl_ok (t_rm_diff tables_now) /\ length (t_rm_diff tables_now) = 2.      Proof. tbl. Qed.

Theorem wire_owned_roundtrip : forall (f: fmt) (w: wshape) (es: list entry_t) rest,
  ok_es f w es -> w_de_es f w (w_ser_es f w es ++ rest) = Some (es, rest).
Proof.
  intros f w es rest H.
  exact (proj1 (entries_roundtrip_all f tables_now sc_ord sc_uac sc_uad sc_mfc sc_mfd sc_rmc sc_rmd) w es rest H).
Qed.
(* values travelling inside entries (f_full, recursive-map insertions and replacements) *)
Theorem wire_value_roundtrip : forall (f: fmt) (w: wshape) (v: value) rest, ok_v w v -> de_v f w (ser_v f w v ++ rest) = Some (v, rest).
Proof. intros f w v rest H. exact (proj1 (value_roundtrip f) w v rest H). Qed.
(* hence the decoded diff has the effect of the in-memory one, on any base *)
Corollary wire_effect : forall f w es x, ok_es f w es ->
  match w_de_es f w (w_ser_es f w es) with Some (es', _) => x_apply (erase w) x es' = x_apply (erase w) x es | None => False end.
Proof. intros f w es x H. pose proof (wire_owned_roundtrip f w es [] H) as E. rewrite app_nil_r in E. rewrite E. reflexivity. Qed.
Print Assumptions wire_owned_roundtrip.
Print Assumptions wire_value_roundtrip.
Print Assumptions wire_effect.

(* non-vacuity: a nested shape with every kind of entry *)
Definition ex_w := WStruct (WCons (WPlain POptInt) (WCons WSkipInt (WCons (WRecOpt (WStruct (WCons (WPlain PEn) (WCons WUn WNil)))) (WCons WOrd (WCons (WRMap false (WStruct (WCons (WPlain PInt) WNil))) WNil))))).
Definition ex_a := VStruct [VNone; VAtom 5; VNone; VSeq [1;2;3]%Z; VRMap [(1, VStruct [VAtom 7]); (2, VStruct [VAtom 8])]%Z].
Definition ex_b := VStruct [VSome (VAtom (-3)); VAtom 6; VSome (VStruct [VAtom 4; VSeq [9;9]%Z]); VSeq [3;2]%Z; VRMap [(2, VStruct [VAtom 1]); (3, VStruct [VAtom 2])]%Z].
Example c14_instance : forall f, w_de_es f ex_w (w_ser_es f ex_w (x_diff false (erase ex_w) ex_a ex_b)) = Some (x_diff false (erase ex_w) ex_a ex_b, []).
Proof. intros [|]; vm_compute; reflexivity. Qed.
