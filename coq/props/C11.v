(* C11: unordered array-like diff round trip as multisets, for any multiplicities, any hash iteration order,
   both internal representations. (U8MAX = 255 is u8::MAX; the `as u8` cast is modelled as mod 256.) *)
From Coq Require Import List Arith Permutation.
Require Import U.UnordArr U.UAProofs1 U.UAProofs2 U.UAProofs3 U.UAProofs4 U.UAProofs5.
Section C11.
Context {K: Type} (keqb: K -> K -> bool) (keqb_spec: forall a b, keqb a b = true <-> a = b).
Variable iter_order : list (K * nat) -> list (K * nat).
Hypothesis iter_perm : forall m, Permutation (iter_order m) m.
Notation hashcmp := (UnordArr.hashcmp keqb iter_order).
Notation apply := (UnordArr.apply keqb iter_order).
Notation count := (UAProofs1.count keqb).
(* never panics; no diff => equal as multisets; diff => the patched previous equals current as a multiset *)
Theorem unordered_array_roundtrip : forall previous current,
  match hashcmp previous current with
  | None => False
  | Some None => forall k, count k previous = count k current
  | Some (Some d) => forall k, count k (apply previous d) = count k current
  end.
Proof. exact (UAProofs4.unordered_array_roundtrip keqb keqb_spec iter_order iter_perm). Qed.
(* ... and a diff is present only if the multisets differ: together, absent exactly when equal *)
Theorem unordered_diff_absent_iff_equal : forall previous current,
  hashcmp previous current = Some None <-> (forall k, count k previous = count k current).
Proof.
  intros p c. pose proof (UAProofs4.unordered_array_roundtrip keqb keqb_spec iter_order iter_perm p c) as R. split.
  - intros H. rewrite H in R. exact R.
  - intros E. destruct (hashcmp p c) as [[d|]|] eqn:H; [|reflexivity|contradiction].
    destruct (UAProofs5.diff_present_differs keqb keqb_spec iter_order iter_perm p c d H) as (k & Hk). elim Hk. apply E.
Qed.
End C11.
Print Assumptions unordered_array_roundtrip.
Print Assumptions unordered_diff_absent_iff_equal.
From Coq Require Import ZArith. Import ListNotations. Open Scope list_scope.
Definition c11_p := repeat 1%Z 300 ++ repeat 2%Z 1.
Definition c11_c := repeat 1%Z 44 ++ repeat 2%Z 256 ++ [3%Z].
Example c11_crosses_u8 :   (* multiplicity deltas of 256 (Many), 255 (Few) and 1 (Single); the patched collection has current's counts *)
  match UnordArr.hashcmp Z.eqb (fun m => m) c11_p c11_c with
  | Some (Some (Modify d)) => length d = 3 /\ map (fun k => UAProofs1.count Z.eqb k (UnordArr.apply Z.eqb (fun m => m) c11_p (Modify d))) [1;2;3]%Z = [44; 256; 1]
  | _ => False end.
Proof. vm_compute. split; reflexivity. Qed.
