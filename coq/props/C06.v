(* C06: apply, apply_ref, apply_mut and repeated apply_single agree; apply_ref is pure.
   The four entry points are transcribed from the default methods of src/lib.rs:
     apply(mut self, d)   = for e in d { self.apply_single(e) }; self
     apply_ref(&self, d)  = self.clone().apply(d)
     apply_mut(&mut self) = for e in d { self.apply_single(e) }
   In a pure functional model clone is the identity and purity holds by construction, so the theorem is short;
   the weight of this property is on the correspondence check (all four called on clones of the real values,
   receivers compared with clones afterwards). *)
From Coq Require Import List ZArith.
Require Import R.DModel3 Inst.DeriveInst.
Definition clone (x: value) : value := x.
Definition m_apply (s: shape) (self: value) (d: list entry_t) : value := fold_left (x_apply_single s) d self.
Definition m_apply_ref (s: shape) (self: value) (d: list entry_t) : value * value := (self, m_apply s (clone self) d).   (* receiver afterwards, result *)
Definition m_apply_mut (s: shape) (self: value) (d: list entry_t) : value := fold_left (x_apply_single s) d self.
Fixpoint m_apply_single_each (s: shape) (self: value) (d: list entry_t) : value :=
  match d with nil => self | e :: d' => m_apply_single_each s (x_apply_single s self e) d' end.
Theorem apply_variants_agree : forall s x (d: list entry_t),
  m_apply s (clone x) d = x_apply s x d /\ snd (m_apply_ref s x d) = x_apply s x d /\ fst (m_apply_ref s x d) = x
  /\ m_apply_mut s (clone x) d = x_apply s x d /\ m_apply_single_each s x d = x_apply s x d.
Proof.
  intros s x d. repeat split. revert x. induction d as [|e d IH]; intros x; [reflexivity|]. cbn [m_apply_single_each]. rewrite IH. reflexivity.
Qed.
Print Assumptions apply_variants_agree.
