(* C19: unordered patching is total with saturating counts: ANY base, ANY change list. *)
From Coq Require Import List Arith Permutation.
Require Import U.UnordArr U.UAProofs1 U.UAProofs2 M.MapFlat M.MFProofs1 M.MFProofs6.
Require Import R.AssocList R.MapRec R.MRProofs1.
Section C19.
Context {K: Type} (keqb: K -> K -> bool) (keqb_spec: forall a b, keqb a b = true <-> a = b).
Section Arr.
Variable iter_order : list (K * nat) -> list (K * nat).
Hypothesis iter_perm : forall m, Permutation (iter_order m) m.
(* nat subtraction is truncated: "not below zero" *)
Theorem unordered_apply_closed_form : forall base d k,
  UAProofs1.count keqb k (UnordArr.apply keqb iter_order base (UnordArr.Modify d))
  = (UAProofs1.count keqb k base - UAProofs2.removed keqb k d) + UAProofs2.inserted keqb k d.
Proof. exact (UAProofs2.unordered_apply_closed_form keqb keqb_spec iter_order iter_perm). Qed.
Theorem unordered_apply_replace : forall base xs, UnordArr.apply keqb iter_order base (UnordArr.Replace xs) = xs.
Proof. exact (UAProofs2.unordered_apply_replace keqb iter_order). Qed.
End Arr.
Section Map.
Context {V: Type}.
Variable iter_order : list (K * (V * nat)) -> list (K * (V * nat)).
Hypothesis iter_perm : forall m, Permutation (iter_order m) m.
Theorem map_apply_total : forall (base: list (K * V)) cs k,
  In k (map fst (MapFlat.apply keqb iter_order base (MapFlat.Modify cs))) -> In k (map fst base) \/ In k (map MFProofs6.ckey cs).
Proof. exact (MFProofs6.map_apply_total keqb keqb_spec iter_order iter_perm). Qed.
Theorem map_apply_replace : forall (base xs: list (K * V)), MapFlat.apply keqb iter_order base (MapFlat.Replace xs) = xs.
Proof. reflexivity. Qed.
End Map.
End C19.
Print Assumptions unordered_apply_closed_form.
Print Assumptions unordered_apply_replace.
Print Assumptions map_apply_total.
Print Assumptions map_apply_replace.
