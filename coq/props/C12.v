(* C12: flat map-like diff round trip, both equality modes, any hash iteration order, either representation. *)
From Coq Require Import List Arith Permutation.
Require Import M.MapFlat M.MFProofs1 M.MFProofs2 M.MFProofs3 M.MFProofs4 M.MFProofs5.
Section C12.
Context {K V: Type} (keqb: K -> K -> bool) (veqb: V -> V -> bool).
Hypothesis keqb_spec : forall a b, keqb a b = true <-> a = b.
Hypothesis veqb_spec : forall a b, veqb a b = true <-> a = b.
Variable iter_order : list (K * (V * nat)) -> list (K * (V * nat)).
Hypothesis iter_perm : forall m, Permutation (iter_order m) m.
(* never panics; no diff => equal maps; diff => patched previous = current as a map, every key exactly once
   (so a key whose value changed holds the new value, not the old one and not both) *)
Theorem map_flat_roundtrip : forall key_only previous current, NoDup (map fst previous) -> NoDup (map fst current) ->
  match MapFlat.hashcmp keqb veqb iter_order key_only previous current with
  | None => False
  | Some None => map_eq keqb previous current
  | Some (Some d) => map_eq keqb (MapFlat.apply keqb iter_order previous d) current /\ NoDup (map fst (MapFlat.apply keqb iter_order previous d))
  end.
Proof. exact (MFProofs4.map_flat_roundtrip keqb veqb keqb_spec veqb_spec iter_order iter_perm). Qed.
Theorem map_diff_absent_iff_equal : forall key_only previous current, NoDup (map fst previous) -> NoDup (map fst current) ->
  (MapFlat.hashcmp keqb veqb iter_order key_only previous current = Some None <-> map_eq keqb previous current).
Proof.
  intros ko p c Np Nc. pose proof (MFProofs4.map_flat_roundtrip keqb veqb keqb_spec veqb_spec iter_order iter_perm ko p c Np Nc) as R. split.
  - intros H. rewrite H in R. exact R.
  - intros E. destruct (MapFlat.hashcmp keqb veqb iter_order ko p c) as [[d|]|] eqn:H; [|reflexivity|contradiction].
    destruct (MFProofs5.map_diff_facts keqb veqb keqb_spec veqb_spec iter_order iter_perm ko p c d Np Nc H) as [NE _]. contradiction.
Qed.
End C12.
Print Assumptions map_flat_roundtrip.
Print Assumptions map_diff_absent_iff_equal.
