(* C10: the fixed-capacity slot array used as rope chunk behaves like a bounded sequence, from every layout that
   represents a sequence (a superset of the reachable layouts), for every capacity, under every history. *)
From Coq Require Import List Arith Lia Bool.
Import ListNotations.
Require Import S.ListOps S.Slots S.SlotsBasics S.SlotsOps S.SlotsInsert S.SlotsSort S.SlotsDrain S.SlotsExtend S.SlotsSwap.
Require Import S.SlotsIter S.SlotsIterPhys S.RopeGen.
Require Import Inst.RopeInst.

Lemma sc_rev_pos_moves_down : REV_POS_DOWN = true.   Proof. reflexivity. Qed.   (* fails on a tree with defect D2 *)
Lemma sc_max_u8 : MAX_SLOT_SIZE <= 255.              Proof. unfold MAX_SLOT_SIZE. lia. Qed.

Section C10.
Context {T: Type}.
Notation am := (@am T).
Notation sop := (@sop T).

(* the same operation on a plain sequence, and when it respects capacity / range *)
Definition seq_step (l: list T) (o: sop) : list T :=
  match o with
  | SIns p v => insert_at p v l | SRem p => remove_at p l | SSwap a b => swap_list a b l
  | SDrain lo hi => firstn lo l ++ skipn (hi_of hi (length l)) l | SExt vs => l ++ vs | SSet i v => update i v l
  end.
Definition seq_ok (N: nat) (l: list T) (o: sop) : Prop :=
  match o with
  | SIns p _ => p <= length l /\ length l < N | SRem p => p < length l | SSwap a b => a < length l /\ b < length l
  | SDrain lo hi => lo <= hi_of hi (length l) <= length l | SExt vs => length vs <= N - length l | SSet i _ => i < length l
  end.
Fixpoint seq_hist_ok (N: nat) (l: list T) (ops: list sop) : Prop :=
  match ops with [] => True | o :: ops' => seq_ok N l o /\ seq_hist_ok N (seq_step l o) ops' end.

(* one operation, from ANY layout representing l: effect on the layout and the result handed back *)
Theorem chunk_step_refines N (m: am) (l: list T) (o: sop) : Rep N m l -> seq_ok N l o ->
  exists m', s_step N m o = Some m' /\ Rep N m' (seq_step l o) /\
    match o with
    | SRem p => option_map snd (s_remove m p) = nth_error l p                       (* the removed element *)
    | SDrain lo hi => snd (s_drain m lo hi) = firstn (hi_of hi (length l) - lo) (skipn lo l)   (* drained values, in logical order *)
    | _ => True
    end.
Proof.
  intros R H. destruct o as [p v|p|a b|lo hi|vs|i v]; cbn [seq_ok seq_step s_step] in *.
  - destruct H as [H1 H2]. destruct (insert_refines N m l p v R H1 H2) as (m' & A & B). exists m'. auto.
  - destruct (nth_error l p) as [x|] eqn:E; [|apply nth_error_None in E; lia].
    destruct (remove_refines N m l p x R E) as (m' & A & B). exists m'. unfold s_remove. rewrite A. cbn. auto.
  - destruct H as [H1 H2]. destruct (swap_refines N m l a b R H1 H2) as (m' & A & B). exists m'. auto.
  - destruct (drain_refines N m l lo hi R H) as [A B]. eexists. split; [reflexivity|]. split; [exact A|exact B].
  - eexists. split; [reflexivity|]. split; [apply extend_refines; assumption|exact I].
  - destruct (nth_error l i) as [x|] eqn:E; [|apply nth_error_None in E; lia].
    destruct (set_refines N m l i x v R E) as (m' & A & B). exists m'. auto.
Qed.

(* every read of a layout representing l *)
Theorem chunk_reads N (m: am) (l: list T) : Rep N m l ->
  cnt m = length l /\ (forall i, s_index m i = nth_error l i)                      (* None = panic, exactly when out of range *)
  /\ s_to_list m = l                                                               (* forward iteration *)
  /\ (forall calls, s_it_run N m calls = dq_run l calls 0 0).                      (* every interleaving of next / next_back: a deque *)
Proof.
  intros R. split; [destruct R as (_ & Hc & _); exact Hc|]. split; [intros i; apply (index_refines N m l i R)|].
  split; [apply (to_list_rep N m l R)|]. intros calls. unfold s_it_run. rewrite sc_rev_pos_moves_down, ph_run_gen_true.
  apply chunk_back_iteration. exact R.
Qed.

Corollary chunk_back_to_front N (m: am) (l: list T) : Rep N m l ->
  s_it_run N m (repeat false (length l)) = map Some (rev l).
Proof.
  intros R. destruct (chunk_reads N m l R) as (_ & _ & _ & H). rewrite H. clear H R m.
  assert (G: forall k b, b + k = length l -> dq_run l (repeat false k) 0 b = map Some (rev (firstn k l))).
  { induction k as [|k IH]; intros b Hb; [reflexivity|]. cbn [repeat dq_run].
    destruct (Nat.ltb_spec (0 + b) (length l)) as [Hlt|]; [|lia]. rewrite IH by lia.
    replace (length l - 1 - b) with k by lia.
    destruct (nth_error l k) as [x|] eqn:E; [|apply nth_error_None in E; lia].
    assert (F: firstn (S k) l = firstn k l ++ [x]).
    { clear -E. revert l E. induction k as [|k IH]; intros [|y l] E; try discriminate; cbn in *; [congruence|]. f_equal. apply IH. exact E. }
    rewrite F, rev_app_distr. reflexivity. }
  rewrite (G (length l) 0 eq_refl), firstn_all. reflexivity.
Qed.

(* every history that respects capacity, from any construction *)
Theorem chunk_refines_bounded_seq : forall N (ops: list sop) (l0: list T), length l0 <= N -> seq_hist_ok N l0 ops ->
  exists m0 m, s_from N l0 = Some m0 /\ s_run N m0 ops = Some m /\ Rep N m (fold_left seq_step ops l0).
Proof.
  intros N ops l0 H0 H. destruct (from_list_rep N l0 H0) as (m0 & F & R0). exists m0.
  assert (G: forall ops m l, Rep N m l -> seq_hist_ok N l ops -> exists m', s_run N m ops = Some m' /\ Rep N m' (fold_left seq_step ops l)).
  { clear. induction ops as [|o ops IH]; intros m l R H; [exists m; split; [reflexivity|exact R]|].
    cbn [seq_hist_ok] in H. destruct H as [H1 H2]. destruct (chunk_step_refines N m l o R H1) as (m1 & A & B & _).
    destruct (IH m1 _ B H2) as (m' & C & D). exists m'. cbn [s_run fold_left]. rewrite A. auto. }
  destruct (G ops m0 l0 R0 H) as (m & A & B). exists m. auto.
Qed.
Theorem chunk_new_is_empty N : Rep N (@s_new T N) [].
Proof. apply new_rep. Qed.
End C10.
Print Assumptions chunk_step_refines.
Print Assumptions chunk_reads.
Print Assumptions chunk_back_to_front.
Print Assumptions chunk_refines_bounded_seq.

From Coq Require Import ZArith.
(* non-vacuity: a layout with holes reused out of order, then every read *)
Example c10_instance :
  let ops := [SRem 1; SIns 0 9%Z; SDrain 1 (Some 3); SExt [5;6]%Z; SSwap 0 3; SSet 2 8%Z] in
  seq_hist_ok 4 [1;2;3;4]%Z ops /\
  option_map (fun m => (s_to_list m, s_it_run 4 m [false; true; false; false; false]))
     (match s_from 4 [1;2;3;4]%Z with Some m0 => s_run 4 m0 ops | None => None end)
  = Some (fold_left seq_step ops [1;2;3;4]%Z, dq_run (fold_left seq_step ops [1;2;3;4]%Z) [false; true; false; false; false] 0 0).
Proof. vm_compute. repeat split; repeat constructor. Qed.
