(* C03: diff entries are independent per field; skipped fields are never touched. *)
From Coq Require Import List ZArith Permutation.
Require Import R.DModel3 R.DSetters R.DProofs4 R.DProofs6 Inst.DeriveInst G.GlueAll.
Section C03.
Variable ko : bool.
Variable iter_order : list (Z * value) -> list (Z * value).
Notation apply_fs := (DModel3.apply_fs _ _ _ oapply uapply mapply iter_order).
Notation diff_fs := (DModel3.diff_fs _ _ _ odiff udiff (DeriveInst.mdiff ko) iter_order).
(* frame: a field that no applied entry names keeps its value, for ARBITRARY entry lists (in particular every skipped field) *)
Theorem untouched_field fs (d: list entry_t) xs i : i < length xs -> length xs <= flen fs ->
  (forall e, In e d -> has_field _ _ _ i e = false) -> nth i (fold_left (apply_fs fs 0) d xs) dflt = nth i xs dflt.
Proof. apply DProofs6.untouched_field. Qed.
Theorem no_entry_for_skipped fs : forall i xs ys e, In e (diff_fs fs i xs ys) ->
  exists j, field_of _ _ _ e = Some j /\ i <= j /\ strat_at fs (j - i) <> FSkip.
Proof. apply DProofs6.no_entry_for_skipped. Qed.
Theorem diff_one_per_field fs : forall i xs ys j, length (filter (has_field _ _ _ j) (diff_fs fs i xs ys)) <= 1.
Proof. apply DProofs6.diff_one_per_field. Qed.
(* any sub-multiset S of the entries of a diff d, in any order: each field is the fully patched one or the original one *)
Theorem entries_independent fs (d S: list entry_t) xs i : i < length xs -> length xs <= flen fs ->
  (forall j, length (filter (has_field _ _ _ j) d) <= 1) ->
  (forall j, exists S', Permutation (filter (has_field _ _ _ j) S) S' /\ (S' = nil \/ S' = filter (has_field _ _ _ j) d)) ->
  nth i (fold_left (apply_fs fs 0) S xs) dflt = nth i (fold_left (apply_fs fs 0) d xs) dflt
  \/ nth i (fold_left (apply_fs fs 0) S xs) dflt = nth i xs dflt.
Proof. apply DProofs6.entries_independent. Qed.
End C03.
Print Assumptions untouched_field.
Print Assumptions no_entry_for_skipped.
Print Assumptions diff_one_per_field.
Print Assumptions entries_independent.
