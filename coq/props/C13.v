(* C13: recursive map diff: keys converge exactly, values converge through nested diffs. Collection level (any key type, any nested
   diff/apply/==, any hash order, both modes, ANY base map) and the derive level (the FMapRec case of C01/C02). *)
From Coq Require Import List ZArith Permutation.
Require Import R.AssocList R.MapRec R.MRProofs1 R.MRProofs2 R.MRProofs3 R.DModel3 R.DProofs4 Inst.DeriveInst G.GlueAll.
Section C13.
Context {K V D: Type} (keqb: K -> K -> bool) (veqb: V -> V -> bool) (vdiff: V -> V -> D) (vapply: V -> D -> V).
Hypothesis keqb_spec : forall a b, keqb a b = true <-> a = b.
Variable iter_order : list (K * V) -> list (K * V).
Hypothesis iter_perm : forall m, Permutation (iter_order m) m.
Definition mr_follow_stmt := MRProofs3.mr_follow keqb veqb vdiff vapply keqb_spec iter_order iter_perm.
Definition mr_diff_modify_spec_stmt := MRProofs3.mr_diff_modify_spec keqb veqb vdiff vapply keqb_spec iter_order iter_perm.
Definition mr_apply_closed_form_stmt := MRProofs1.mr_apply_closed_form keqb vapply keqb_spec iter_order iter_perm.
End C13.
Definition mr_follow := @mr_follow_stmt.
Definition mr_diff_modify_spec := @mr_diff_modify_spec_stmt.
Definition mr_apply_closed_form := @mr_apply_closed_form_stmt.
(* derive level: a struct whose only field is a recursive map, both modes: the round trip relation R_s unfolds to the statement of C13 *)
Theorem rec_map_field_roundtrip : forall (ko fko: bool) iter_order, (forall m, Permutation (iter_order m) m) ->
  forall s a b, wt_s (SStruct (FCons (FMapRec fko s) FNil)) a -> wt_s (SStruct (FCons (FMapRec fko s) FNil)) b ->
  R_s true (SStruct (FCons (FMapRec fko s) FNil)) a b (Apply iter_order (SStruct (FCons (FMapRec fko s) FNil)) a (Diff ko iter_order (SStruct (FCons (FMapRec fko s) FNil)) a b)).
Proof. intros ko fko io P s a b. apply (C01_closed ko io P). Qed.
Print Assumptions mr_follow.
Print Assumptions mr_diff_modify_spec.
Print Assumptions mr_apply_closed_form.
Print Assumptions rec_map_field_roundtrip.
