From Coq Require Import List Arith Lia Bool.
Import ListNotations.
Require Import SD.ListOps SD.Ordered.

Section P.
Context {T: Type} (eqb : T -> T -> bool) (DC RC IC: nat) (d: T).
Notation cell := Ordered.cell.
Notation dc := Ordered.dcell.
Notation step := (Ordered.step eqb DC RC IC).
Notation fill := (Ordered.fill eqb DC RC IC).
Notation next_row := (Ordered.next_row eqb DC RC IC).
Notation rows := (Ordered.rows eqb DC RC IC).
Notation row0 := (@Ordered.row0 T DC).
Notation tb := (Ordered.table eqb DC RC IC).

Lemma fill_length te src prev left :
  length prev = S (length src) -> length (fill te src prev left) = length src.
Proof.
  revert prev left. induction src as [|se src IH]; intros prev left H; cbn [Ordered.fill]; [reflexivity|].
  destruct prev as [|diag prev']; [discriminate|]. destruct prev' as [|up prev'']; [discriminate|].
  cbn [length]. f_equal. apply IH. cbn in H |- *. lia.
Qed.

Lemma fill_nth te src : forall prev left s,
  length prev = S (length src) -> s < length src ->
  nth s (fill te src prev left) dc =
  step te (nth s src d) (nth s prev dc) (nth (S s) prev dc) (nth s (left :: fill te src prev left) dc).
Proof.
  induction src as [|se src IH]; intros prev left s Hl Hs; [cbn in Hs; lia|].
  destruct prev as [|diag prev']; [discriminate|]. destruct prev' as [|up prev'']; [cbn in Hl; lia|].
  cbn [Ordered.fill]. destruct s as [|s].
  - reflexivity.
  - cbn [nth]. rewrite IH; [|cbn in Hl |- *; lia|cbn in Hs; lia]. reflexivity.
Qed.

Lemma next_row_length i te src prev : length prev = S (length src) -> length (next_row i te src prev) = S (length src).
Proof. intros. unfold Ordered.next_row. cbn [length]. rewrite fill_length; auto. Qed.

Lemma next_row_nthS i te src prev s : length prev = S (length src) -> s < length src ->
  nth (S s) (next_row i te src prev) dc =
  step te (nth s src d) (nth s prev dc) (nth (S s) prev dc) (nth s (next_row i te src prev) dc).
Proof. intros. unfold Ordered.next_row. cbn [nth]. rewrite fill_nth; auto. Qed.

Lemma rows_spec src : forall tgt i prev t, length prev = S (length src) -> t < length tgt ->
  let r := nth t (rows i tgt src prev) [] in
  let p := match t with 0 => prev | S t' => nth t' (rows i tgt src prev) [] end in
  r = next_row (i + t) (nth t tgt d) src p /\ length p = S (length src).
Proof.
  induction tgt as [|te tgt IH]; intros i prev t Hl Ht; [cbn in Ht; lia|].
  cbn [Ordered.rows]. destruct t as [|t].
  - cbn. rewrite Nat.add_0_r. auto.
  - cbn [nth]. specialize (IH (S i) (next_row i te src prev) t).
    assert (Hl': length (next_row i te src prev) = S (length src)) by (apply next_row_length; auto).
    specialize (IH Hl' ltac:(cbn in Ht; lia)). cbn zeta in IH. destruct IH as [E L].
    replace (i + S t) with (S i + t) by lia. rewrite E.
    destruct t; (split; [reflexivity|]); [exact Hl'|exact L].
Qed.

Lemma row0_length (src: list T) : length (row0 src) = S (length src).
Proof. unfold Ordered.row0. rewrite map_length, seq_length. reflexivity. Qed.

Lemma get_row0 tgt src s : s <= length src -> get (tb tgt src) 0 s = (Del, s * DC).
Proof.
  intros H. unfold get, Ordered.table. cbn [nth]. unfold Ordered.row0.
  rewrite nth_indep with (d' := (fun j => (Del, j * DC)) 0) by (rewrite map_length, seq_length; lia).
  rewrite map_nth with (f := fun j => (Del, j * DC)). rewrite seq_nth by lia. reflexivity.
Qed.

Lemma get_col0 tgt src t : t < length tgt -> get (tb tgt src) (S t) 0 = (Ins, (S t) * IC).
Proof.
  intros H. unfold get, Ordered.table. cbn [nth].
  destruct (rows_spec src tgt 1 (row0 src) t (row0_length src) H) as [E _]. rewrite E. reflexivity.
Qed.

Lemma get_step tgt src t s : t < length tgt -> s < length src ->
  get (tb tgt src) (S t) (S s) =
  step (nth t tgt d) (nth s src d) (get (tb tgt src) t s) (get (tb tgt src) t (S s)) (get (tb tgt src) (S t) s).
Proof.
  intros Ht Hs. unfold get, Ordered.table. cbn [nth].
  destruct (rows_spec src tgt 1 (row0 src) t (row0_length src) Ht) as [E L].
  rewrite E. rewrite next_row_nthS by auto.
  destruct t; reflexivity.
Qed.
End P.
