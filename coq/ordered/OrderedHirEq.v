(* Hirschberg on element-wise equal sequences yields the empty script; with the round trip this gives "absent iff equal" *)
From Coq Require Import List Arith ZArith Lia Bool.
Import ListNotations.
Require Import SD.ListOps SD.Ordered SD.OrderedTable SD.OrderedLev SD.OrderedHir SD.OrderedEq SD.OrderedRow.

Section Pure.
Context {T: Type}.
Lemma firstn_plus' (l: list T) a b : firstn (a + b) l = firstn a l ++ firstn b (skipn a l).
Proof. revert l. induction a as [|a IH]; intros l; [reflexivity|]. destruct l as [|x l]; [destruct b; reflexivity|]. cbn. f_equal. apply IH. Qed.
Lemma skipn_plus' (l: list T) a b : skipn b (skipn a l) = skipn (a + b) l.
Proof. revert l. induction a as [|a IH]; intros l; [reflexivity|]. destruct l as [|x l]; [destruct b; reflexivity|]. cbn. apply IH. Qed.
Lemma slice_split' (l: list T) a m b : a <= m <= b -> b <= length l -> slice l a b = slice l a m ++ slice l m b.
Proof.
  intros H Hb. unfold slice. replace (b - a) with ((m - a) + (b - m)) by lia.
  rewrite firstn_plus'. f_equal. rewrite skipn_plus'. f_equal. f_equal. lia.
Qed.
Lemma slice_firstn (l: list T) a m b : a <= m <= b -> b <= length l -> firstn (m - a) (slice l a b) = slice l a m.
Proof. intros H Hb. unfold slice. rewrite firstn_firstn. f_equal. lia. Qed.
Lemma slice_skipn (l: list T) a m b : a <= m <= b -> b <= length l -> skipn (m - a) (slice l a b) = slice l m b.
Proof.
  intros H Hb. rewrite (slice_split' l a m b H Hb). rewrite skipn_app. rewrite skipn_all2 by (rewrite slice_length; lia).
  rewrite slice_length by lia. replace (m - a - (m - a)) with 0 by lia. reflexivity.
Qed.
End Pure.

Section HE.
Context {T: Type} (eqb : T -> T -> bool) (CUTOFF DC RC IC: nat) (d: T).
Hypothesis HDC : 1 <= DC.
Hypothesis HRC : 1 <= RC.
Hypothesis HIC : 1 <= IC.
Hypothesis HCUT : 1 <= CUTOFF.
Notation hir := (Ordered.hir eqb CUTOFF DC RC IC).
Notation last_row := (Ordered.last_row eqb DC RC IC).
Notation E2 := (OrderedRow.E2 eqb).
Notation dc := Ordered.dcell.

(* first minimum: if position h holds 0 and everything before is positive, argmin = h *)
Lemma argmin_first_zero l : forall i best besti h, h < length l -> nth h l 1 = 0 -> (forall j, j < h -> 0 < nth j l 0) -> 0 < best ->
  argmin_first l i best besti = i + h.
Proof.
  induction l as [|x l IH]; intros i best besti h Hh Hz Hp Hb; [cbn in Hh; lia|]. cbn [argmin_first]. destruct h as [|h].
  - cbn in Hz. subst x. assert (E: (0 <? best) = true) by (apply Nat.ltb_lt; exact Hb). rewrite E.
    (* once 0 is the best, nothing later is strictly smaller *)
    assert (G: forall l' i', argmin_first l' i' 0 i = i).
    { induction l' as [|y l' IHl]; intros i'; cbn; [reflexivity|]. destruct (y <? 0) eqn:C; [apply Nat.ltb_lt in C; lia|apply IHl]. }
    rewrite G. lia.
  - assert (Hx: 0 < x) by (apply (Hp 0); lia).
    destruct (x <? best).
    + rewrite (IH (S i) x i h); [lia|cbn in Hh; lia|exact Hz|intros j Hj; apply (Hp (S j)); lia|exact Hx].
    + rewrite (IH (S i) best besti h); [lia|cbn in Hh; lia|exact Hz|intros j Hj; apply (Hp (S j)); lia|exact Hb].
Qed.
Lemma argmin_zero l h : h < length l -> nth h l 1 = 0 -> (forall j, j < h -> 0 < nth j l 0) -> argmin l = h.
Proof.
  intros Hh Hz Hp. destruct l as [|x l]; [cbn in Hh; lia|]. cbn [argmin]. destruct h as [|h].
  - cbn in Hz. subst x. assert (G: forall l' i', argmin_first l' i' 0 0 = 0).
    { induction l' as [|y l' IHl]; intros i'; cbn; [reflexivity|]. destruct (y <? 0) eqn:C; [apply Nat.ltb_lt in C; lia|apply IHl]. }
    apply G.
  - assert (Hx: 0 < x) by (apply (Hp 0); lia).
    rewrite (argmin_first_zero l 1 x 0 h); [lia|cbn in Hh; lia|exact Hz|intros j Hj; apply (Hp (S j)); lia|exact Hx].
Qed.

Lemma E2_firstn A B n : E2 A B -> E2 (firstn n A) (firstn n B).
Proof. intros F. revert n. induction F as [|a b A B H F IH]; intros [|n]; cbn [firstn]; try constructor; [exact H|apply IH]. Qed.
Lemma E2_skipn A B n : E2 A B -> E2 (skipn n A) (skipn n B).
Proof. intros F. revert n. induction F as [|a b A B H F IH]; intros [|n]; cbn [skipn]; try constructor; try assumption. apply IH. Qed.
Lemma E2_rev A B : E2 A B -> E2 (rev A) (rev B).
Proof. intros F. induction F; cbn; [constructor|]. apply Forall2_app; [assumption|constructor; [assumption|constructor]]. Qed.

Theorem hir_equal (tgt src: list T) : forall fuel ts te ss se,
  te - ts < fuel -> ts <= te <= length tgt -> ss <= se <= length src ->
  E2 (slice tgt ts te) (slice src ss se) -> hir fuel tgt src d ts te ss se = [].
Proof.
  induction fuel as [|fuel IH]; intros ts te ss se Hf Ht Hs F; [lia|].
  assert (L: te - ts = se - ss).
  { apply Forall2_length' in F. rewrite !slice_length in F by lia. exact F. }
  cbn [Ordered.hir].
  destruct ((ts =? te) && (ss =? se)) eqn:E0; [reflexivity|].
  destruct (ts =? te) eqn:E1.
  { apply Nat.eqb_eq in E1. cbn in E0. apply Nat.eqb_neq in E0. lia. }
  destruct (ss =? se) eqn:E2'.
  { apply Nat.eqb_eq in E2'. apply Nat.eqb_neq in E1. lia. }
  apply Nat.eqb_neq in E1. apply Nat.eqb_neq in E2'.
  destruct (Nat.min (te - ts) (se - ss) <=? CUTOFF) eqn:E3.
  { rewrite (lev_impl_equal eqb DC RC IC d tgt src ts te ss se Ht Hs F). reflexivity. }
  apply Nat.leb_gt in E3.
  set (split := ts + (te - ts) / 2).
  assert (Hdiv: 1 <= (te - ts) / 2 < te - ts).
  { split; [apply Nat.div_le_lower_bound; lia|apply Nat.div_lt; lia]. }
  set (h := (te - ts) / 2) in *.
  set (Sg := slice src ss se) in *. set (Tg := slice tgt ts te) in *.
  assert (LS: length Sg = se - ss) by (apply slice_length; lia).
  assert (LT: length Tg = te - ts) by (apply slice_length; lia).
  set (left := last_row (slice tgt ts split) Sg).
  set (right := last_row (rev (slice tgt split te)) (rev Sg)).
  set (sums := map (fun p => cost (fst p) + cost (snd p)) (combine left (rev right))).
  assert (Ll: length left = S (se - ss)) by (subst left; rewrite (last_row_len eqb DC RC IC d HDC HRC HIC), LS; reflexivity).
  assert (Lr: length right = S (se - ss)) by (subst right; rewrite (last_row_len eqb DC RC IC d HDC HRC HIC), rev_length, LS; reflexivity).
  assert (Lsum: length sums = S (se - ss)) by (subst sums; rewrite map_length, combine_length, rev_length, Ll, Lr; lia).
  assert (Sj: forall j, j <= se - ss -> nth j sums 7 = cost (nth j left dc) + cost (nth (se - ss - j) right dc)).
  { intros j Hj. subst sums.
    rewrite nth_indep with (d' := (fun p : Ordered.cell * Ordered.cell => cost (fst p) + cost (snd p)) (dc, dc)) by (rewrite map_length, combine_length, rev_length, Ll, Lr; lia).
    rewrite map_nth with (f := fun p : Ordered.cell * Ordered.cell => cost (fst p) + cost (snd p)). rewrite combine_nth by (rewrite rev_length; lia). cbn [fst snd].
    rewrite rev_nth by lia. rewrite Lr. replace (S (se - ss) - S j) with (se - ss - j) by lia. reflexivity. }
  assert (Tsl: slice tgt ts split = firstn h Tg) by (subst Tg split h; symmetry; replace ((te - ts) / 2) with (ts + (te - ts) / 2 - ts) at 1 by lia; apply slice_firstn; lia).
  assert (Tsr: slice tgt split te = skipn h Tg) by (subst Tg split h; symmetry; replace ((te - ts) / 2) with (ts + (te - ts) / 2 - ts) at 1 by lia; apply slice_skipn; lia).
  assert (Am: argmin sums = h).
  { apply argmin_zero.
    - lia.
    - rewrite nth_indep with (d' := 7) by lia. rewrite Sj by lia.
      assert (Z1: cost (nth h left dc) = 0).
      { subst left. apply (last_row_zero eqb DC RC IC d HDC HRC HIC); [lia|]. split; [rewrite Tsl, firstn_length; lia|]. rewrite Tsl. apply E2_firstn. exact F. }
      assert (Z2: cost (nth (se - ss - h) right dc) = 0).
      { subst right. apply (last_row_zero eqb DC RC IC d HDC HRC HIC); [rewrite rev_length; lia|]. split; [rewrite rev_length, Tsr, skipn_length; lia|].
        rewrite Tsr. replace (firstn (se - ss - h) (rev Sg)) with (rev (skipn h Sg)).
        - apply E2_rev, E2_skipn. exact F.
        - rewrite <- (firstn_skipn h Sg) at 2. rewrite rev_app_distr. rewrite firstn_app. rewrite rev_length, skipn_length, LS.
          replace (se - ss - h - (se - ss - h)) with 0 by lia. cbn [firstn]. rewrite app_nil_r. symmetry. apply firstn_all2. rewrite rev_length, skipn_length. lia. }
      lia.
    - intros j Hj. rewrite nth_indep with (d' := 7) by lia. rewrite Sj by lia.
      assert (cost (nth j left dc) <> 0); [|lia].
      intros Z. subst left. apply (last_row_zero eqb DC RC IC d HDC HRC HIC) in Z; [|lia]. destruct Z as [Z _]. rewrite Tsl, firstn_length in Z. lia. }
  fold Sg. fold left. fold right. fold sums. rewrite Am.
  rewrite IH, IH; [reflexivity| | | | | | | |]; try (subst split h; lia).
  - (* right half *) fold Tg Sg. replace (slice tgt split te) with (skipn h Tg) by (symmetry; exact Tsr).
    replace (slice src (ss + h) se) with (skipn h Sg) by (subst Sg; replace h with (ss + h - ss) at 1 by lia; apply slice_skipn; lia).
    apply E2_skipn. exact F.
  - (* left half *) replace (slice tgt ts split) with (firstn h Tg) by (symmetry; exact Tsl).
    replace (slice src ss (ss + h)) with (firstn h Sg) by (subst Sg; replace h with (ss + h - ss) at 1 by lia; apply slice_firstn; lia).
    apply E2_firstn. exact F.
Qed.
End HE.
Print Assumptions hir_equal.
