(* C18 (partial): allocator-visible cost semantics of hirschberg_impl, same recursion as Ordered.hir.
   Returns (peak of live cells during the call, cells retained by the returned iterator). *)
From Coq Require Import List Arith Lia Bool.
Import ListNotations.
Require Import SD.ListOps SD.Ordered SD.OrderedTable SD.OrderedLev SD.OrderedHir.

Section Alloc.
Context {T: Type} (eqb : T -> T -> bool).
Variables (CUTOFF DC RC IC: nat).
Variable d : T.
Hypothesis HCUT : 1 <= CUTOFF.
Hypothesis HDC : 1 <= DC.
Hypothesis HRC : 1 <= RC.
Hypothesis HIC : 1 <= IC.
Notation last_row := (@Ordered.last_row T eqb DC RC IC).

Fixpoint hir_mem (fuel: nat) (tgt src: list T) (ts te ss se: nat) : nat * nat :=
  match fuel with 0 => (0, 0) | S fuel' =>
  if (ts =? te) && (ss =? se) then (0, 0)
  else if ts =? te then (1, 1)                                         (* iter::once *)
  else if ss =? se then (te - ts, te - ts)                             (* the collected Vec of inserts *)
  else if Nat.min (te - ts) (se - ss) <=? CUTOFF then
    let n := te - ts in let m := se - ss in
    (S n * S m + S n + (IC * n + DC * m), IC * n + DC * m)             (* table cells + row headers + change list (capacity <= IC n + DC m) *)
  else
    let split := ts + (te - ts) / 2 in
    let left := last_row (slice tgt ts split) (slice src ss se) in
    let right := last_row (rev (slice tgt split te)) (rev (slice src ss se)) in
    let sums := map (fun p => cost (fst p) + cost (snd p)) (combine left (rev right)) in
    let ssplit := ss + argmin sums in
    let rows := 4 * S (se - ss) in                                     (* finished left row, two working rows; all dropped before recursing *)
    let '(p1, r1) := hir_mem fuel' tgt src ts split ss ssplit in
    let '(p2, r2) := hir_mem fuel' tgt src split te ssplit se in
    (Nat.max rows (Nat.max p1 (r1 + p2)), r1 + r2 + 2)                 (* left result stays alive during the right call; +2: chain boxes *)
  end.

Definition K := CUTOFF + IC + DC + 6.

Lemma mul_le_K a x k : a <= k -> a * x <= k * x.
Proof. intros H. apply Nat.mul_le_mono_r. exact H. Qed.

Theorem hir_mem_linear (tgt src: list T) : forall fuel ts te ss se,
  te - ts < fuel -> ts <= te <= length tgt -> ss <= se <= length src ->
  let '(p, r) := hir_mem fuel tgt src ts te ss se in
  p <= K * (te - ts + (se - ss) + 1) /\ (1 <= te - ts -> r + 2 <= (IC + 4) * (te - ts) + DC * (se - ss)) /\ (te = ts -> r <= 1).
Proof.
  assert (HK1: IC + 4 <= K) by (unfold K; lia). assert (HK2: DC <= K) by (unfold K; lia). assert (HK3: 6 <= K) by (unfold K; lia).
  assert (HK4: S CUTOFF + 1 + IC + DC <= K) by (unfold K; lia).
  induction fuel as [|fuel IH]; intros ts te ss se Hf Ht Hs; [lia|].
  cbn [hir_mem].
  destruct ((ts =? te) && (ss =? se)) eqn:E0.
  { apply andb_true_iff in E0. destruct E0 as [E1 E2]. apply Nat.eqb_eq in E1. apply Nat.eqb_eq in E2. subst. repeat split; lia. }
  destruct (ts =? te) eqn:E1.
  { apply Nat.eqb_eq in E1. subst te. split; [|split; lia].
    pose proof (mul_le_K 6 (ts - ts + (se - ss) + 1) K HK3). lia. }
  apply Nat.eqb_neq in E1.
  destruct (ss =? se) eqn:E2.
  { apply Nat.eqb_eq in E2. subst se. split; [|split; [intros _|lia]].
    - pose proof (mul_le_K 6 (te - ts + (ss - ss) + 1) K HK3). lia.
    - rewrite Nat.mul_add_distr_r. pose proof (Nat.le_0_l (IC * (te - ts))). pose proof (Nat.le_0_l (DC * (ss - ss))). lia. }
  apply Nat.eqb_neq in E2.
  destruct (Nat.min (te - ts) (se - ss) <=? CUTOFF) eqn:E3.
  { set (n := te - ts) in *. set (m := se - ss) in *. apply Nat.leb_le in E3. split; [|split; [intros _; rewrite Nat.mul_add_distr_r; lia|lia]].
    assert (Hc: S n * S m <= S CUTOFF * (n + m + 1)).
    { destruct (Nat.le_ge_cases n m).
      - assert (n <= CUTOFF) by lia. transitivity (S CUTOFF * S m); [apply Nat.mul_le_mono_r; lia|apply Nat.mul_le_mono_l; lia].
      - assert (m <= CUTOFF) by lia. rewrite (Nat.mul_comm (S n)). transitivity (S CUTOFF * S n); [apply Nat.mul_le_mono_r; lia|apply Nat.mul_le_mono_l; lia]. }
    set (X := n + m + 1) in *.
    assert (A1: IC * n <= IC * X) by (apply Nat.mul_le_mono_l; subst X; lia).
    assert (A2: DC * m <= DC * X) by (apply Nat.mul_le_mono_l; subst X; lia).
    pose proof (mul_le_K (S CUTOFF + 1 + IC + DC) X K HK4) as A3. rewrite !Nat.mul_add_distr_r in A3.
    assert (S n <= 1 * X) by (subst X; lia). lia. }
  apply Nat.leb_gt in E3.
  set (split := ts + (te - ts) / 2).
  set (left := last_row (slice tgt ts split) (slice src ss se)).
  set (right := last_row (rev (slice tgt split te)) (rev (slice src ss se))).
  set (sums := map (fun p => cost (fst p) + cost (snd p)) (combine left (rev right))).
  set (ssplit := ss + argmin sums).
  assert (Hlen: 2 <= te - ts /\ 2 <= se - ss) by lia.
  assert (Hdiv: 1 <= (te - ts) / 2 < te - ts).
  { split; [apply Nat.div_le_lower_bound; lia|apply Nat.div_lt; lia]. }
  assert (Hsplit: ts < split < te) by (subst split; lia).
  assert (LS: length (slice src ss se) = se - ss) by (apply slice_length; lia).
  assert (Hss: ss <= ssplit <= se).
  { subst ssplit. assert (argmin sums < length sums).
    { apply (argmin_lt eqb CUTOFF DC RC IC d HDC HRC HIC HCUT). subst sums left right. intros C. apply (f_equal (@length _)) in C.
      rewrite map_length, combine_length, rev_length, !(last_row_length eqb CUTOFF DC RC IC HDC HRC HIC HCUT) in C. cbn in C. lia. }
    assert (length sums = S (se - ss)).
    { subst sums left right. rewrite map_length, combine_length, rev_length, !(last_row_length eqb CUTOFF DC RC IC HDC HRC HIC HCUT), rev_length, LS. lia. }
    lia. }
  pose proof (IH ts split ss ssplit ltac:(lia) ltac:(lia) ltac:(lia)) as I1.
  pose proof (IH split te ssplit se ltac:(lia) ltac:(lia) ltac:(lia)) as I2.
  destruct (hir_mem fuel tgt src ts split ss ssplit) as [p1 r1]. destruct (hir_mem fuel tgt src split te ssplit se) as [p2 r2].
  destruct I1 as (P1 & R1 & _). destruct I2 as (P2 & R2 & _). specialize (R1 ltac:(lia)). specialize (R2 ltac:(lia)).
  set (n1 := split - ts) in *. set (n2 := te - split) in *. set (m1 := ssplit - ss) in *. set (m2 := se - ssplit) in *.
  assert (En: te - ts = n1 + n2) by (subst n1 n2; lia). assert (Em: se - ss = m1 + m2) by (subst m1 m2; lia). rewrite En, Em.
  cbv beta iota.
  rewrite !Nat.mul_add_distr_l in *. rewrite !Nat.mul_add_distr_r in R1, R2. rewrite !Nat.mul_add_distr_r.
  pose proof (mul_le_K 6 m1 K HK3) as B1. pose proof (mul_le_K 6 m2 K HK3) as B2. pose proof (mul_le_K 6 1 K HK3) as B3.
  pose proof (mul_le_K (IC + 4) n1 K HK1) as B4. rewrite Nat.mul_add_distr_r in B4. pose proof (mul_le_K DC m1 K HK2) as B5.
  split; [|split; [intros _; lia|lia]].
  apply Nat.max_lub; [lia|]. apply Nat.max_lub; lia.
Qed.

(* entry point: hirschberg(tgt, src) uses fuel S (length tgt) *)
Corollary hirschberg_alloc_linear (tgt src: list T) :
  fst (hir_mem (S (length tgt)) tgt src 0 (length tgt) 0 (length src)) <= K * (length tgt + length src + 1).
Proof.
  pose proof (hir_mem_linear tgt src (S (length tgt)) 0 (length tgt) 0 (length src) ltac:(lia) ltac:(lia) ltac:(lia)) as H.
  destruct (hir_mem _ _ _ _ _ _ _) as [p r]. cbn [fst]. rewrite !Nat.sub_0_r in H. apply H.
Qed.
End Alloc.
Print Assumptions hirschberg_alloc_linear.
