(* Model of src/collections/ordered_array_like.rs (forward mode; constants are parameters) *)
From Coq Require Import List Arith Lia Bool.
Import ListNotations.
Require Import SD.ListOps.

Section Ordered.
Context {T: Type} (eqb : T -> T -> bool).
Variables (CUTOFF DC RC IC: nat).    (* LEVENSHTEIN_CUTOFF, DELETE_COST, REPLACE_COST, INSERT_COST *)

Inductive op := NoOp | Rep | Ins | Del.
Definition cell := (op * nat)%type.
Definition cost (c: cell) := snd c.
Definition dcell : cell := (NoOp, 0).

(* ---- create_full_change_table ---- *)
Definition row0 (s: list T) : list cell := map (fun j => (Del, j * DC)) (seq 0 (S (length s))).

Definition step (te se: T) (diag up left: cell) : cell :=
  if eqb te se then (NoOp, cost diag)
  else let m := Nat.min (Nat.min (cost up) (cost left)) (cost diag) in   (* insert.min(delete).min(replace) *)
       if m =? cost diag then (Rep, m + RC)
       else if m =? cost left then (Del, m + DC) else (Ins, m + IC).

Fixpoint fill (te: T) (src: list T) (prev: list cell) (left: cell) : list cell :=
  match src, prev with
  | se :: src', diag :: prev' =>
      match prev' with
      | up :: _ => let c := step te se diag up left in c :: fill te src' prev' c
      | [] => []
      end
  | _, _ => []
  end.
Definition next_row (i: nat) (te: T) (src: list T) (prev: list cell) : list cell :=
  let c0 := (Ins, i * IC) in c0 :: fill te src prev c0.
Fixpoint rows (i: nat) (tgt: list T) (src: list T) (prev: list cell) : list (list cell) :=
  match tgt with [] => [] | te :: tgt' => let r := next_row i te src prev in r :: rows (S i) tgt' src r end.
Definition table (tgt src: list T) : list (list cell) := row0 src :: rows 1 tgt src (row0 src).
Definition get (tb: list (list cell)) (t s: nat) : cell := nth s (nth t tb []) dcell.

(* ---- create_last_change_row: "insert" reads the LEFT cell, "delete" the UP cell (swapped w.r.t. the full table) ---- *)
Definition step_row (te se: T) (diag up left: cell) : cell :=
  if eqb te se then (NoOp, cost diag)
  else let m := Nat.min (Nat.min (cost left) (cost up)) (cost diag) in
       if m =? cost diag then (Rep, m + RC)
       else if m =? cost up then (Del, m + DC) else (Ins, m + IC).
Fixpoint fill_row (te: T) (src: list T) (prev: list cell) (left: cell) : list cell :=
  match src, prev with
  | se :: src', diag :: prev' =>
      match prev' with
      | up :: _ => let c := step_row te se diag up left in c :: fill_row te src' prev' c
      | [] => []
      end
  | _, _ => []
  end.
Fixpoint last_row_aux (tgt: list T) (src: list T) (prev: list cell) : list cell :=
  match tgt with
  | [] => prev
  | te :: tgt' => let c0 := (Ins, cost (hd dcell prev) + IC) in last_row_aux tgt' src (c0 :: fill_row te src prev c0)
  end.
Definition last_row (tgt src: list T) := last_row_aux tgt src (row0 src).

(* ---- scripts ---- *)
Inductive change := CReplace (v:T) (i:nat) | CInsert (v:T) (i:nat) | CDelete (i:nat) (r: option nat) | CSwap (a b: nat).

(* changelist_from_change_table, forward mode *)
Fixpoint backtrack (fuel: nat) (tb: list (list cell)) (total: nat) (tgt: list T) (d: T) (ts ss: nat) (tp sp: nat) (acc: list change)
  : list change * nat * nat :=
  match fuel with
  | 0 => (acc, tp, sp)
  | S fuel' =>
    match tp, sp with
    | 0, _ | _, 0 => (acc, tp, sp)
    | S tp', S sp' =>
      let '(acc', tp2, sp2) :=
        match fst (get tb tp sp) with
        | NoOp => (acc, tp', sp')
        | Rep => (acc ++ [CReplace (nth (ts + tp - 1) tgt d) (ss + sp - 1)], tp', sp')
        | Ins => (acc ++ [CInsert (nth (ts + tp - 1) tgt d) (ss + sp)], tp', sp)
        | Del => (acc ++ [CDelete (ss + sp - 1) None], tp, sp')
        end in
      if length acc' =? total then (acc', 0, 0) else backtrack fuel' tb total tgt d ts ss tp2 sp2 acc'
    end
  end.
Fixpoint tail_inserts (tgt: list T) (d: T) (ts ss: nat) (tp sp: nat) : list change :=
  match tp with 0 => [] | S tp' => CInsert (nth (ts + tp - 1) tgt d) (ss + sp) :: tail_inserts tgt d ts ss tp' sp end.

Definition lev_impl (tgt src: list T) (d: T) (ts te ss se: nat) : list change :=
  let tb := table (slice tgt ts te) (slice src ss se) in
  let total := cost (get tb (te - ts) (se - ss)) in
  let '(acc, tp, sp) := backtrack ((te - ts) + (se - ss)) tb total tgt d ts ss (te - ts) (se - ss) [] in
  acc ++ tail_inserts tgt d ts ss tp sp ++ (match sp with 0 => [] | S _ => [CDelete ss (Some (ss + sp - 1))] end).

(* min_by_key: first minimum *)
Fixpoint argmin_first (l: list nat) (i: nat) (best: nat) (besti: nat) : nat :=
  match l with [] => besti | x :: l' => if x <? best then argmin_first l' (S i) x i else argmin_first l' (S i) best besti end.
Definition argmin (l: list nat) : nat := match l with [] => 0 | x :: l' => argmin_first l' 1 x 0 end.

(* hirschberg_impl: the list it yields BEFORE the outer reverse *)
Fixpoint hir (fuel: nat) (tgt src: list T) (d: T) (ts te ss se: nat) : list change :=
  match fuel with 0 => [] | S fuel' =>
  if (ts =? te) && (ss =? se) then []
  else if ts =? te then [CDelete ss (Some (se - 1))]
  else if ss =? se then rev (map (fun i => CInsert (nth (ts + i) tgt d) (se + i)) (seq 0 (te - ts)))
  else if Nat.min (te - ts) (se - ss) <=? CUTOFF then rev (lev_impl tgt src d ts te ss se)
  else
    let split := ts + (te - ts) / 2 in
    let left := last_row (slice tgt ts split) (slice src ss se) in
    let right := last_row (rev (slice tgt split te)) (rev (slice src ss se)) in
    let sums := map (fun p => cost (fst p) + cost (snd p)) (combine left (rev right)) in
    let ssplit := ss + argmin sums in
    hir fuel' tgt src d ts split ss ssplit ++ hir fuel' tgt src d split te ssplit se
  end.

Definition opt_script (l: list change) : option (list change) := match l with [] => None | _ => Some l end.
Definition levenshtein (tgt src: list T) (d: T) := opt_script (lev_impl tgt src d 0 (length tgt) 0 (length src)).
Definition hirschberg (tgt src: list T) (d: T) := opt_script (rev (hir (S (length tgt)) tgt src d 0 (length tgt) 0 (length src))).

(* ---- "plain growable array" semantics of a script ---- *)
Definition apply_change (l: list T) (c: change) : option (list T) :=
  match c with
  | CReplace v i => if i <? length l then Some (update i v l) else None
  | CInsert v i => if i <=? length l then Some (insert_at i v l) else None
  | CDelete i None => if i <? length l then Some (remove_at i l) else None
  | CDelete a (Some b) => if (a <=? b) && (b <? length l) then Some (firstn a l ++ skipn (S b) l) else None
  | CSwap a b => match nth_error l a, nth_error l b with Some x, Some y => Some (update a y (update b x l)) | _, _ => None end
  end.
Fixpoint apply_script (l: list T) (cs: list change) : option (list T) :=
  match cs with [] => Some l | c :: cs' => match apply_change l c with Some l' => apply_script l' cs' | None => None end end.
Definition apply_opt (l: list T) (o: option (list change)) := match o with None => Some l | Some cs => apply_script l cs end.
End Ordered.
