(* the two-row cost function (create_last_change_row): a cost of 0 marks exactly "target = this source prefix" *)
From Coq Require Import List Arith Lia Bool.
Import ListNotations.
Require Import SD.ListOps SD.Ordered SD.OrderedTable SD.OrderedEq.

Section R.
Context {T: Type} (eqb : T -> T -> bool) (DC RC IC: nat) (d: T).
Hypothesis HDC : 1 <= DC.
Hypothesis HRC : 1 <= RC.
Hypothesis HIC : 1 <= IC.
Notation dc := Ordered.dcell.
Notation step_row := (Ordered.step_row eqb DC RC IC).
Notation fill_row := (Ordered.fill_row eqb DC RC IC).
Notation last_row := (Ordered.last_row eqb DC RC IC).
Notation last_row_aux := (Ordered.last_row_aux eqb DC RC IC).
Definition E2 (A B: list T) := Forall2 (fun t s => eqb t s = true) A B.

Lemma fill_row_length te src prev left : length prev = S (length src) -> length (fill_row te src prev left) = length src.
Proof.
  revert prev left. induction src as [|se src IH]; intros prev left H; cbn [Ordered.fill_row]; [reflexivity|].
  destruct prev as [|diag prev']; [discriminate|]. destruct prev' as [|up prev'']; [discriminate|].
  cbn [length]. f_equal. apply IH. cbn in H |- *. lia.
Qed.
Lemma fill_row_nth te src : forall prev left s, length prev = S (length src) -> s < length src ->
  nth s (fill_row te src prev left) dc =
  step_row te (nth s src d) (nth s prev dc) (nth (S s) prev dc) (nth s (left :: fill_row te src prev left) dc).
Proof.
  induction src as [|se src IH]; intros prev left s Hl Hs; [cbn in Hs; lia|].
  destruct prev as [|diag prev']; [discriminate|]. destruct prev' as [|up prev'']; [cbn in Hl; lia|].
  cbn [Ordered.fill_row]. destruct s as [|s]; [reflexivity|].
  cbn [nth]. rewrite IH; [|cbn in Hl |- *; lia|cbn in Hs; lia]. reflexivity.
Qed.

Definition rnext (src: list T) (prev: list Ordered.cell) (te: T) : list Ordered.cell :=
  let c0 := (Ins, cost (hd dc prev) + IC) in c0 :: fill_row te src prev c0.

Lemma E2_snoc A B a b : E2 A B -> eqb a b = true -> E2 (A ++ [a]) (B ++ [b]).
Proof. intros H1 H2. apply Forall2_app; [exact H1|constructor; [exact H2|constructor]]. Qed.
Lemma E2_snoc_inv : forall A B a b, E2 (A ++ [a]) (B ++ [b]) -> E2 A B /\ eqb a b = true.
Proof.
  induction A as [|x A IH]; intros B a b H.
  - destruct B as [|y B]; cbn in H.
    + inversion H; subst. split; [constructor|assumption].
    + inversion H as [|? ? ? ? _ H2]; subst. destruct B; inversion H2.
  - destruct B as [|y B]; cbn in H.
    + inversion H as [|? ? ? ? _ H2]; subst. destruct A; inversion H2.
    + inversion H as [|? ? ? ? H1 H2]; subst. destruct (IH B a b H2) as [I1 I2]. split; [constructor; assumption|exact I2].
Qed.

(* the invariant of a row computed for target A *)
Definition RowOk (src: list T) (A: list T) (r: list Ordered.cell) : Prop :=
  length r = S (length src) /\ forall j, j <= length src -> (cost (nth j r dc) = 0 <-> (j = length A /\ E2 A (firstn j src))).

Lemma row0_ok src : RowOk src [] (@Ordered.row0 T DC src).
Proof.
  split; [apply row0_length|]. intros j Hj. unfold Ordered.row0.
  rewrite nth_indep with (d' := (fun j => (Del, j * DC)) 0) by (rewrite map_length, seq_length; lia).
  rewrite map_nth with (f := fun j => (Del, j * DC)). rewrite seq_nth by lia. cbn [cost snd Nat.add length]. split.
  - intros H. assert (j = 0) by nia. subst. split; [reflexivity|constructor].
  - intros [-> _]. lia.
Qed.

Lemma rnext_ok src A r te : RowOk src A r -> RowOk src (A ++ [te]) (rnext src r te).
Proof.
  intros [L H]. split; [unfold rnext; cbn [length]; rewrite fill_row_length by exact L; reflexivity|].
  intros j Hj. rewrite app_length. cbn [length]. destruct j as [|j].
  - unfold rnext. cbn [nth cost snd]. split; [intros C; lia|intros [C _]; lia].
  - unfold rnext. cbn [nth]. rewrite fill_row_nth by (auto; lia). unfold Ordered.step_row.
    rewrite (firstn_S_snoc src d) by lia.
    destruct (eqb te (nth j src d)) eqn:E.
    + cbn [cost snd]. rewrite (H j ltac:(lia)). split.
      * intros [-> F]. split; [lia|]. apply E2_snoc; assumption.
      * intros [Hl F]. apply E2_snoc_inv in F. destruct F as [F _]. split; [lia|exact F].
    + split.
      * intros C. exfalso. repeat match type of C with context [if ?c then _ else _] => destruct c end; unfold cost in C; cbn [snd] in C; lia.
      * intros [_ F]. apply E2_snoc_inv in F. destruct F as [_ F]. congruence.
Qed.

Lemma last_row_aux_ok src : forall tgt A r, RowOk src A r -> RowOk src (A ++ tgt) (last_row_aux tgt src r).
Proof.
  induction tgt as [|te tgt IH]; intros A r H; cbn [Ordered.last_row_aux]; [rewrite app_nil_r; exact H|].
  replace (A ++ te :: tgt) with ((A ++ [te]) ++ tgt) by (rewrite <- app_assoc; reflexivity).
  apply IH. apply (rnext_ok src A r te H).
Qed.

Theorem last_row_zero (tgt src: list T) j : j <= length src ->
  (cost (nth j (last_row tgt src) dc) = 0 <-> (j = length tgt /\ E2 tgt (firstn j src))).
Proof. intros Hj. destruct (last_row_aux_ok src tgt [] _ (row0_ok src)) as [_ H]. apply (H j Hj). Qed.
Lemma last_row_len (tgt src: list T) : length (last_row tgt src) = S (length src).
Proof. destruct (last_row_aux_ok src tgt [] _ (row0_ok src)) as [L _]. exact L. Qed.
End R.
Print Assumptions last_row_zero.
