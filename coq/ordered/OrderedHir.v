From Coq Require Import List Arith ZArith Lia Bool Zify.
Import ListNotations.
Require Import SD.ListOps SD.Ordered SD.OrderedTable SD.OrderedLev.
Ltac Zify.zify_post_hook ::= Z.div_mod_to_equations.

Section H.
Context {T: Type} (eqb : T -> T -> bool) (CUTOFF DC RC IC: nat) (d: T).
Hypothesis HDC : 1 <= DC.
Hypothesis HRC : 1 <= RC.
Hypothesis HIC : 1 <= IC.
Hypothesis HCUT : 1 <= CUTOFF.
Notation change := (@Ordered.change T).
Notation apply_script := (@Ordered.apply_script T).
Notation R := (OrderedLev.R eqb).
Notation hir := (Ordered.hir eqb CUTOFF DC RC IC).
Notation last_row := (Ordered.last_row eqb DC RC IC).

Lemma firstn_plus (l: list T) a b : firstn (a + b) l = firstn a l ++ firstn b (skipn a l).
Proof. revert l. induction a as [|a IH]; intros l; [reflexivity|]. destruct l as [|x l]; [destruct b; reflexivity|]. cbn. f_equal. apply IH. Qed.
Lemma skipn_plus (l: list T) a b : skipn b (skipn a l) = skipn (a + b) l.
Proof. revert l. induction a as [|a IH]; intros l; [reflexivity|]. destruct l as [|x l]; [destruct b; reflexivity|]. cbn. apply IH. Qed.
Lemma slice_split (l: list T) a m b : a <= m <= b -> b <= length l -> slice l a b = slice l a m ++ slice l m b.
Proof.
  intros H Hb. unfold slice.
  replace (b - a) with ((m - a) + (b - m)) by lia.
  rewrite firstn_plus. f_equal. rewrite skipn_plus. f_equal. f_equal. lia.
Qed.
Lemma slice_empty (l: list T) a : slice l a a = [].
Proof. unfold slice. rewrite Nat.sub_diag. reflexivity. Qed.

Lemma argmin_first_lt l : forall i best besti, besti < i -> argmin_first l i best besti < i + length l.
Proof.
  induction l as [|x l IH]; intros i best besti H; cbn [argmin_first length]; [lia|].
  destruct (x <? best).
  - pose proof (IH (S i) x i (Nat.lt_succ_diag_r i)). lia.
  - assert (H2: besti < S i) by lia. pose proof (IH (S i) best besti H2). lia.
Qed.
Lemma argmin_lt l : l <> [] -> argmin l < length l.
Proof. destruct l as [|x l]; [congruence|]. intros _. cbn. pose proof (argmin_first_lt l 1 x 0 ltac:(lia)). lia. Qed.

Lemma fill_row_length te src prev left :
  length prev = S (length src) -> length (Ordered.fill_row eqb DC RC IC te src prev left) = length src.
Proof.
  revert prev left. induction src as [|se src IH]; intros prev left H; cbn [Ordered.fill_row]; [reflexivity|].
  destruct prev as [|diag prev']; [discriminate|]. destruct prev' as [|up prev'']; [discriminate|].
  cbn [length]. f_equal. apply IH. cbn in H |- *. lia.
Qed.
Lemma last_row_aux_length tgt src : forall prev, length prev = S (length src) ->
  length (Ordered.last_row_aux eqb DC RC IC tgt src prev) = S (length src).
Proof.
  induction tgt as [|te tgt IH]; intros prev H; cbn [Ordered.last_row_aux]; [exact H|].
  apply IH. cbn [length]. rewrite fill_row_length; auto.
Qed.
Lemma last_row_length tgt src : length (last_row tgt src) = S (length src).
Proof. apply last_row_aux_length. apply row0_length. Qed.

(* consecutive inserts of a target segment into an empty source segment *)
Lemma ins_run (tgt: list T) ts base : forall n off (A B: list T), length A = base + off ->
  apply_script (A ++ B) (map (fun i => CInsert (nth (ts + i) tgt d) (base + i)) (seq off n))
  = Some (A ++ map (fun i => nth (ts + i) tgt d) (seq off n) ++ B).
Proof.
  induction n as [|n IH]; intros off A B HA; [reflexivity|].
  cbn [seq map Ordered.apply_script Ordered.apply_change].
  rewrite <- HA. rewrite insert_at_app.
  assert (Le: (length A <=? length (A ++ B)) = true) by (apply Nat.leb_le; rewrite app_length; lia). rewrite Le.
  replace (A ++ nth (ts + off) tgt d :: B) with ((A ++ [nth (ts + off) tgt d]) ++ B) by (rewrite <- app_assoc; reflexivity).
  rewrite IH by (rewrite app_length; cbn; lia). rewrite <- app_assoc. reflexivity.
Qed.

Lemma slice_as_map (l: list T) a n : a + n <= length l -> map (fun i => nth (a + i) l d) (seq 0 n) = slice l a (a + n).
Proof.
  intros H. apply nth_ext with (d := d) (d' := d).
  - rewrite map_length, seq_length, slice_length by lia. lia.
  - rewrite map_length, seq_length. intros i Hi.
    rewrite (nth_indep _ d (nth (a + 0) l d)) by (rewrite map_length, seq_length; lia).
    rewrite (map_nth (fun i => nth (a + i) l d)). rewrite seq_nth by lia. cbn.
    rewrite slice_nth by lia. reflexivity.
Qed.

Theorem hir_correct (tgt src: list T) : forall fuel ts te ss se P Q,
  te - ts < fuel -> ts <= te <= length tgt -> ss <= se <= length src -> length P = ss ->
  exists L, apply_script (P ++ slice src ss se ++ Q) (rev (hir fuel tgt src d ts te ss se)) = Some (P ++ L ++ Q)
            /\ Forall2 R L (slice tgt ts te).
Proof.
  induction fuel as [|fuel IH]; intros ts te ss se P Q Hf Ht Hs HP; [lia|].
  cbn [Ordered.hir].
  destruct ((ts =? te) && (ss =? se)) eqn:E0.
  { apply andb_true_iff in E0. destruct E0 as [E1 E2]. apply Nat.eqb_eq in E1. apply Nat.eqb_eq in E2. subst te se.
    rewrite !slice_empty. exists []. split; [reflexivity|constructor]. }
  destruct (ts =? te) eqn:E1.
  { apply Nat.eqb_eq in E1. subst te. rewrite slice_empty.
    assert (ss < se). { cbn in E0. apply Nat.eqb_neq in E0. lia. }
    exists []. split; [|constructor]. cbn [rev app Ordered.apply_script Ordered.apply_change]. subst ss.
    assert (LS: length (slice src (length P) se) = se - length P) by (apply slice_length; lia).
    assert (C: (length P <=? se - 1) && (se - 1 <? length (P ++ slice src (length P) se ++ Q)) = true).
    { apply andb_true_iff. split; [apply Nat.leb_le; lia|apply Nat.ltb_lt; rewrite !app_length, LS; lia]. }
    rewrite C. f_equal.
    replace (S (se - 1)) with (length P + length (slice src (length P) se)) by lia. apply drain_middle. }
  destruct (ss =? se) eqn:E2.
  { apply Nat.eqb_eq in E2. subst se. rewrite slice_empty. rewrite rev_involutive.
    apply Nat.eqb_neq in E1.
    exists (slice tgt ts te). split; [|generalize (slice tgt ts te) as l; intros l; induction l; constructor; [left; reflexivity|assumption]].
    cbn [app]. pose proof (ins_run tgt ts ss (te - ts) 0 P Q ltac:(lia)) as I.
    rewrite I. rewrite slice_as_map by lia. replace (ts + (te - ts)) with te by lia. reflexivity. }
  apply Nat.eqb_neq in E1. apply Nat.eqb_neq in E2.
  destruct (Nat.min (te - ts) (se - ss) <=? CUTOFF) eqn:E3.
  { rewrite rev_involutive. apply (lev_impl_correct eqb DC RC IC d HDC HRC HIC); assumption. }
  apply Nat.leb_gt in E3.
  set (split := ts + (te - ts) / 2).
  set (left := last_row (slice tgt ts split) (slice src ss se)).
  set (right := last_row (rev (slice tgt split te)) (rev (slice src ss se))).
  set (sums := map (fun p => cost (fst p) + cost (snd p)) (combine left (rev right))).
  set (ssplit := ss + argmin sums).
  assert (Hlen: 2 <= te - ts /\ 2 <= se - ss) by lia.
  assert (Hdiv: 1 <= (te - ts) / 2 < te - ts).
  { split; [apply Nat.div_le_lower_bound; lia|apply Nat.div_lt; lia]. }
  assert (Hsplit: ts < split < te) by (subst split; lia).
  assert (LS: length (slice src ss se) = se - ss) by (apply slice_length; lia).
  assert (Hss: ss <= ssplit <= se).
  { subst ssplit. assert (argmin sums < length sums).
    { apply argmin_lt. subst sums left right. intros C. apply (f_equal (@length _)) in C.
      rewrite map_length, combine_length, rev_length, !last_row_length in C. cbn in C. lia. }
    assert (length sums = S (se - ss)).
    { subst sums left right. rewrite map_length, combine_length, rev_length, !last_row_length, rev_length, LS. lia. }
    lia. }
  rewrite rev_app_distr.
  (* right half first, in the context P ++ left-source-segment *)
  destruct (IH split te ssplit se (P ++ slice src ss ssplit) Q) as (LR & AR & FR); try lia.
  { rewrite app_length, slice_length by lia. lia. }
  destruct (IH ts split ss ssplit P (LR ++ Q)) as (LL & AL & FL); try lia.
  exists (LL ++ LR). split.
  - rewrite apply_script_app.
    rewrite (slice_split src ss ssplit se) by lia.
    replace (P ++ (slice src ss ssplit ++ slice src ssplit se) ++ Q) with ((P ++ slice src ss ssplit) ++ slice src ssplit se ++ Q)
      by (rewrite <- !app_assoc; reflexivity).
    rewrite AR. rewrite <- app_assoc. rewrite AL. rewrite <- !app_assoc. reflexivity.
  - rewrite (slice_split tgt ts split te) by lia. apply Forall2_app; assumption.
Qed.
End H.
Print Assumptions hir_correct.
