(* "the diff is absent when the sequences are element-wise equal": Levenshtein part *)
From Coq Require Import List Arith Lia Bool.
Import ListNotations.
Require Import SD.ListOps SD.Ordered SD.OrderedTable.

Section E.
Context {T: Type} (eqb : T -> T -> bool) (DC RC IC: nat) (d: T).
Notation tb := (Ordered.table eqb DC RC IC).

Lemma Forall2_length' {A B} (R: A -> B -> Prop) l1 l2 : Forall2 R l1 l2 -> length l1 = length l2.
Proof. intros F. induction F; cbn; auto. Qed.

(* along the diagonal of pairwise-equal sequences every cell is a NoOp of cost 0 *)
Lemma diag_zero (Tg Sg: list T) : Forall2 (fun t s => eqb t s = true) Tg Sg ->
  forall k, k <= length Tg -> cost (get (tb Tg Sg) k k) = 0 /\ (1 <= k -> fst (get (tb Tg Sg) k k) = NoOp).
Proof.
  intros F. assert (L: length Tg = length Sg) by (eapply Forall2_length'; exact F).
  induction k as [|k IH]; intros Hk.
  - rewrite get_row0 by lia. cbn. split; [lia|intros; lia].
  - destruct (IH ltac:(lia)) as [C _]. rewrite (get_step eqb DC RC IC d) by lia. unfold Ordered.step.
    assert (E: eqb (nth k Tg d) (nth k Sg d) = true).
    { clear - F Hk. revert k Hk. induction F as [|t s Tg Sg H F IH]; intros k Hk; [cbn in Hk; lia|]. destruct k; [exact H|]. cbn. apply IH. cbn in Hk. lia. }
    rewrite E. cbn [cost snd fst]. split; [exact C|reflexivity].
Qed.

Theorem lev_impl_equal (tgt src: list T) ts te ss se :
  ts <= te <= length tgt -> ss <= se <= length src ->
  Forall2 (fun t s => eqb t s = true) (slice tgt ts te) (slice src ss se) ->
  lev_impl eqb DC RC IC tgt src d ts te ss se = [].
Proof.
  intros Ht Hs F. unfold lev_impl.
  set (Tg := slice tgt ts te) in *. set (Sg := slice src ss se) in *.
  assert (LT: length Tg = te - ts) by (apply slice_length; lia).
  assert (LS: length Sg = se - ss) by (apply slice_length; lia).
  assert (L: length Tg = length Sg) by (eapply Forall2_length'; exact F).
  rewrite <- LT, <- LS, <- L.
  destruct (diag_zero Tg Sg F (length Tg) (Nat.le_refl _)) as [C N]. rewrite C.
  destruct (length Tg) as [|n] eqn:En.
  - cbn. reflexivity.
  - cbn [Nat.add Ordered.backtrack]. rewrite (N ltac:(lia)). cbn [length Nat.eqb]. cbn. reflexivity.
Qed.
End E.
Print Assumptions lev_impl_equal.
