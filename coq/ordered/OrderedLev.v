From Coq Require Import List Arith Lia Bool.
Import ListNotations.
Require Import SD.ListOps SD.Ordered SD.OrderedTable.

Section Q.
Context {T: Type} (eqb : T -> T -> bool) (CUTOFF DC RC IC: nat) (d: T).
Hypothesis HDC : 1 <= DC.
Hypothesis HRC : 1 <= RC.
Hypothesis HIC : 1 <= IC.
Notation change := (@Ordered.change T).
Notation tb := (Ordered.table eqb DC RC IC).
Notation step := (Ordered.step eqb DC RC IC).
Notation backtrack := (@Ordered.backtrack T).
Notation apply_script := (@Ordered.apply_script T).

(* r is an acceptable value for target element t: the cloned target element, or a kept source element that compared equal *)
Definition R (r t: T) : Prop := r = t \/ eqb t r = true.

Lemma apply_script_app (l: list T) (a b: list change) :
  apply_script l (a ++ b) = match apply_script l a with Some l' => apply_script l' b | None => None end.
Proof. revert l. induction a as [|c a IH]; intros l; cbn; [reflexivity|]. destruct (apply_change l c); auto. Qed.

Section Seg.
Variables (tgt: list T) (ts: nat) (Tg Sg P Q: list T).
Hypothesis Htg : forall i, i < length Tg -> nth (ts + i) tgt d = nth i Tg d.
Let table := tb Tg Sg.
Let total := cost (get table (length Tg) (length Sg)).
Let ss := length P.

Definition state (sp: nat) (L: list T) : list T := P ++ firstn sp Sg ++ L ++ Q.

Lemma cost0 : forall tp sp, tp <= length Tg -> sp <= length Sg -> cost (get table tp sp) = 0 ->
  tp = sp /\ Forall2 R (firstn sp Sg) (firstn tp Tg).
Proof.
  induction tp as [|tp IH]; intros sp Ht Hs Hc.
  - subst table. rewrite get_row0 in Hc by lia. unfold cost in Hc. cbn [snd] in Hc.
    assert (sp = 0) by nia. subst sp. split; [reflexivity|]. cbn. constructor.
  - destruct sp as [|sp].
    + subst table. rewrite (get_col0 eqb DC RC IC d) in Hc by lia. unfold cost in Hc. cbn [snd] in Hc. nia.
    + subst table. rewrite (get_step eqb DC RC IC d) in Hc by lia. unfold Ordered.step in Hc.
      destruct (eqb (nth tp Tg d) (nth sp Sg d)) eqn:E.
      * cbn [cost snd] in Hc. destruct (IH sp ltac:(lia) ltac:(lia) Hc) as [-> F]. split; [reflexivity|].
        rewrite (firstn_S_snoc Sg d) by lia. rewrite (firstn_S_snoc Tg d) by lia.
        apply Forall2_app; [exact F|]. constructor; [|constructor]. right. exact E.
      * repeat match type of Hc with context [if ?c then _ else _] => destruct c end; unfold cost in Hc; cbn [snd] in Hc; lia.
Qed.

Definition bt_post (res: list change * nat * nat) : Prop :=
  let '(acc', tp', sp') := res in
  exists L', apply_script (P ++ Sg ++ Q) acc' = Some (state sp' L') /\ Forall2 R L' (skipn tp' Tg)
             /\ tp' <= length Tg /\ sp' <= length Sg.

Lemma bt_correct : forall fuel tp sp acc L,
  tp + sp <= fuel -> tp <= length Tg -> sp <= length Sg ->
  apply_script (P ++ Sg ++ Q) acc = Some (state sp L) ->
  Forall2 R L (skipn tp Tg) ->
  length acc + cost (get table tp sp) <= total ->
  bt_post (backtrack fuel table total tgt d ts ss tp sp acc).
Proof.
  induction fuel as [|fuel IH]; intros tp sp acc L Hf Ht Hs Ha HL Hc.
  - assert (tp = 0) by lia. assert (sp = 0) by lia. subst. cbn [Ordered.backtrack bt_post]. exists L. repeat split; auto.
  - cbn [Ordered.backtrack]. destruct tp as [|tp]; [exists L; repeat split; auto|]. destruct sp as [|sp]; [exists L; repeat split; auto|].
    pose proof (get_step eqb DC RC IC d Tg Sg tp sp ltac:(lia) ltac:(lia)) as G. fold table in G.
    assert (St: state (S sp) L = (P ++ firstn sp Sg) ++ nth sp Sg d :: L ++ Q).
    { unfold state. rewrite (firstn_S_snoc Sg d) by lia. rewrite <- !app_assoc. reflexivity. }
    assert (Len: length (P ++ firstn sp Sg) = ss + sp).
    { rewrite app_length, firstn_length. subst ss. lia. }
    assert (SkT: skipn tp Tg = nth tp Tg d :: skipn (S tp) Tg) by (apply skipn_S_cons; lia).
    assert (Ix: nth (ts + S tp - 1) tgt d = nth tp Tg d).
    { replace (ts + S tp - 1) with (ts + tp) by lia. apply Htg. lia. }
    replace (ss + S sp - 1) with (ss + sp) by lia. rewrite Ix.
    assert (Fin: forall acc' tp2 sp2 L2,
       tp2 + sp2 <= fuel -> tp2 <= length Tg -> sp2 <= length Sg ->
       apply_script (P ++ Sg ++ Q) acc' = Some (state sp2 L2) ->
       Forall2 R L2 (skipn tp2 Tg) ->
       length acc' + cost (get table tp2 sp2) <= total ->
       bt_post (if length acc' =? total then (acc', 0, 0) else backtrack fuel table total tgt d ts ss tp2 sp2 acc')).
    { intros acc' tp2 sp2 L2 H1 H2 H3 H4 H5 H6. destruct (length acc' =? total) eqn:E.
      - apply Nat.eqb_eq in E. assert (Z: cost (get table tp2 sp2) = 0) by lia.
        destruct (cost0 tp2 sp2 H2 H3 Z) as [-> F].
        exists (firstn sp2 Sg ++ L2). split; [|split; [|split; lia]].
        + rewrite H4. unfold state. cbn [firstn app]. rewrite <- !app_assoc. reflexivity.
        + cbn [skipn]. rewrite <- (firstn_skipn sp2 Tg) at 1. apply Forall2_app; assumption.
      - apply IH with (L := L2); assumption. }
    unfold Ordered.step in G. destruct (eqb (nth tp Tg d) (nth sp Sg d)) eqn:E.
    + (* NoOp *) rewrite G. cbn [fst].
      apply (Fin acc tp sp (nth sp Sg d :: L)); try lia.
      * rewrite Ha, St. unfold state. rewrite <- !app_assoc. reflexivity.
      * rewrite SkT. constructor; [right; exact E|exact HL].
      * rewrite G in Hc. cbn [cost snd] in Hc |- *. exact Hc.
    + set (m := Nat.min (Nat.min (cost (get table tp (S sp))) (cost (get table (S tp) sp))) (cost (get table tp sp))) in *.
      destruct (m =? cost (get table tp sp)) eqn:E1; [|destruct (m =? cost (get table (S tp) sp)) eqn:E2].
      * (* Replace *) rewrite G. cbn [fst]. apply Nat.eqb_eq in E1.
        apply (Fin _ tp sp (nth tp Tg d :: L)); try lia.
        -- rewrite apply_script_app, Ha. cbn [Ordered.apply_script Ordered.apply_change]. rewrite St.
           rewrite <- Len at 2. rewrite update_app.
           assert (Lt: (ss + sp <? length ((P ++ firstn sp Sg) ++ nth sp Sg d :: L ++ Q)) = true).
           { apply Nat.ltb_lt. rewrite app_length, Len. cbn. lia. }
           rewrite Lt. unfold state. rewrite <- !app_assoc. reflexivity.
        -- rewrite SkT. constructor; [left; reflexivity|exact HL].
        -- rewrite app_length. cbn [length]. rewrite G in Hc. cbn [cost snd] in Hc. lia.
      * (* Delete *) rewrite G. cbn [fst]. apply Nat.eqb_eq in E2.
        apply (Fin _ (S tp) sp L); try lia.
        -- rewrite apply_script_app, Ha. cbn [Ordered.apply_script Ordered.apply_change]. rewrite St.
           rewrite <- Len at 2. rewrite remove_at_app.
           assert (Lt: (ss + sp <? length ((P ++ firstn sp Sg) ++ nth sp Sg d :: L ++ Q)) = true).
           { apply Nat.ltb_lt. rewrite app_length, Len. cbn. lia. }
           rewrite Lt. unfold state. rewrite <- !app_assoc. reflexivity.
        -- exact HL.
        -- rewrite app_length. cbn [length]. rewrite G in Hc. cbn [cost snd] in Hc. lia.
      * (* Insert *) rewrite G. cbn [fst].
        assert (Em: m = cost (get table tp (S sp))).
        { apply Nat.eqb_neq in E1. apply Nat.eqb_neq in E2. subst m. lia. }
        apply (Fin _ tp (S sp) (nth tp Tg d :: L)); try lia.
        -- rewrite apply_script_app, Ha. cbn [Ordered.apply_script Ordered.apply_change].
           assert (St2: state (S sp) L = (P ++ firstn (S sp) Sg) ++ L ++ Q).
           { unfold state. rewrite <- !app_assoc. reflexivity. }
           assert (Len2: length (P ++ firstn (S sp) Sg) = ss + S sp).
           { rewrite app_length, firstn_length. subst ss. lia. }
           rewrite St2. rewrite <- Len2 at 2. rewrite insert_at_app.
           assert (Le: (ss + S sp <=? length ((P ++ firstn (S sp) Sg) ++ L ++ Q)) = true).
           { apply Nat.leb_le. rewrite app_length, Len2. lia. }
           rewrite Le. unfold state. rewrite <- !app_assoc. reflexivity.
        -- rewrite SkT. constructor; [left; reflexivity|exact HL].
        -- rewrite app_length. cbn [length]. rewrite G in Hc. cbn [cost snd] in Hc. lia.
Qed.

(* tail inserts put the remaining target prefix in front of L *)
Lemma tail_inserts_correct : forall tp sp L, tp <= length Tg -> sp <= length Sg ->
  Forall2 R L (skipn tp Tg) ->
  exists L', apply_script (state sp L) (tail_inserts tgt d ts ss tp sp) = Some (state sp L') /\ Forall2 R L' Tg.
Proof.
  induction tp as [|tp IH]; intros sp L Ht Hs HL.
  - exists L. split; [reflexivity|exact HL].
  - cbn [Ordered.tail_inserts Ordered.apply_script Ordered.apply_change].
    assert (Ix: nth (ts + S tp - 1) tgt d = nth tp Tg d).
    { replace (ts + S tp - 1) with (ts + tp) by lia. apply Htg. lia. }
    rewrite Ix.
    assert (St: state sp L = (P ++ firstn sp Sg) ++ L ++ Q) by (unfold state; rewrite <- !app_assoc; reflexivity).
    assert (Len: length (P ++ firstn sp Sg) = ss + sp) by (rewrite app_length, firstn_length; subst ss; lia).
    rewrite St.
    assert (Iz: insert_at (ss + sp) (nth tp Tg d) ((P ++ firstn sp Sg) ++ L ++ Q) = (P ++ firstn sp Sg) ++ nth tp Tg d :: L ++ Q).
    { rewrite <- Len. apply insert_at_app. }
    rewrite Iz.
    assert (Le: (ss + sp <=? length ((P ++ firstn sp Sg) ++ L ++ Q)) = true) by (apply Nat.leb_le; rewrite app_length, Len; lia).
    rewrite Le.
    destruct (IH sp (nth tp Tg d :: L) ltac:(lia) Hs) as [L' [A B]].
    { rewrite (skipn_S_cons Tg d tp) by lia. constructor; [left; reflexivity|exact HL]. }
    exists L'. split; [|exact B]. rewrite <- A. f_equal. unfold state. rewrite <- !app_assoc. reflexivity.
Qed.
End Seg.

(* ---- levenshtein_impl on a segment, in any context P / Q ---- *)
Theorem lev_impl_correct (tgt src: list T) ts te ss se P Q :
  ts <= te <= length tgt -> ss <= se <= length src -> length P = ss ->
  exists L, apply_script (P ++ slice src ss se ++ Q) (lev_impl eqb DC RC IC tgt src d ts te ss se) = Some (P ++ L ++ Q)
            /\ Forall2 R L (slice tgt ts te).
Proof.
  intros Ht Hs HP. unfold lev_impl.
  set (Tg := slice tgt ts te). set (Sg := slice src ss se).
  assert (LT: length Tg = te - ts) by (apply slice_length; lia).
  assert (LS: length Sg = se - ss) by (apply slice_length; lia).
  assert (Htg: forall i, i < length Tg -> nth (ts + i) tgt d = nth i Tg d).
  { intros i Hi. symmetry. apply slice_nth. lia. }
  pose proof (bt_correct tgt ts Tg Sg P Q Htg ((te - ts) + (se - ss)) (te - ts) (se - ss) [] []) as B.
  rewrite <- LT, <- LS in B. rewrite <- LT, <- LS. subst ss.
  specialize (B ltac:(lia) ltac:(lia) ltac:(lia)).
  destruct (backtrack (length Tg + length Sg) (tb Tg Sg) (cost (get (tb Tg Sg) (length Tg) (length Sg))) tgt d ts (length P) (length Tg) (length Sg) []) as [[acc tp] sp] eqn:E.
  cbn [bt_post] in B.
  destruct B as (L1 & A1 & F1 & Htp & Hsp).
  { cbn [Ordered.apply_script]. unfold state. rewrite firstn_all. cbn [app]. reflexivity. }
  { rewrite skipn_all. constructor. }
  { cbn [length]. lia. }
  destruct (tail_inserts_correct tgt ts Tg Sg P Q Htg tp sp L1 Htp Hsp F1) as (L2 & A2 & F2).
  exists L2. split; [|exact F2].
  rewrite apply_script_app, A1. rewrite apply_script_app, A2.
  destruct sp as [|sp]; [cbn; unfold state; cbn [firstn app]; reflexivity|].
  cbn [Ordered.apply_script Ordered.apply_change]. unfold state.
  replace (length P + S sp - 1) with (length P + sp) by lia.
  assert (Lf: length (firstn (S sp) Sg) = S sp) by (rewrite firstn_length; lia).
  assert (C: (length P <=? length P + sp) && (length P + sp <? length (P ++ firstn (S sp) Sg ++ L2 ++ Q)) = true).
  { apply andb_true_iff. split; [apply Nat.leb_le; lia|apply Nat.ltb_lt; rewrite !app_length, Lf; lia]. }
  rewrite C. f_equal.
  replace (S (length P + sp)) with (length P + length (firstn (S sp) Sg)) by lia.
  apply drain_middle.
Qed.
End Q.
Print Assumptions lev_impl_correct.
