(* C17: model of the DECLARATION parser of derive/src/parse.rs on proc-macro token trees: attribute lists (next_attribute,
   next_attributes_list), visibility, named / tuple / unit struct bodies (next_fields, next_struct), generic parameter lists with bounds,
   defaults and where clauses (next_const_generic, next_generic, get_all_bounds) and the entry point parse_data. Transcribed branch
   by branch, including what the code does on input it was not written for (a punct consumed while looking for `#`, attribute tokens
   carried over to the next attribute, the early return that skips de-duplication). Field and bound types are parsed by next_type
   (P/ParseModel.v); printed names (Type::full) are token lists (P/ParsePrintModel.v). Enums: next_enum with unit, tuple-like and struct-like variants (the latter through the anonymous-struct case of next_type).
   Executable; extracted for the correspondence check. *)
From Coq Require Import List Arith Bool String.
Import ListNotations.
Require Import P.ParseModel P.ParseGrammar P.ParsePrintModel.
Local Open Scope string_scope. Local Open Scope list_scope.

(* ---- attributes: attr_loop, next_attribute, attrs_list, next_vis are in P/ParseModel.v (the type parser needs them for struct-like variants) ---- *)

(* ---- fields ---- *)
Record field := { f_attrs: list attr; f_name: option string; f_ty: ty }.
Definition field_of (x: list attr * option string * ty) : field := {| f_attrs := fst (fst x); f_name := snd (fst x); f_ty := snd x |}.
Definition fields_loop (fuel k: nat) (named: bool) (acc: list (list attr * option string * ty)) (s: list tt) : res (list (list attr * option string * ty)) :=
  fields_nt (next_type fuel) k named acc s.

(* ---- generics ---- *)
Inductive generic :=
  | GnConst (name: string) (t: ty) (default: option cvt)
  | GnType (name: list tt) (default: option ty) (bounds: list ty)        (* name = Type::full() of what was parsed *)
  | GnLife (name: string) (bounds: list string)
  | GnWhere (name: list tt) (bounds: list ty).
Definition gkey (g: generic) : list tt :=
  match g with GnConst n _ _ => [TId n] | GnType n _ _ => n | GnLife n _ => [TId n] | GnWhere n _ => n end.

Definition pnum (p: punct) : nat :=
  match p with PComma => 0 | PBang => 1 | PQuote => 2 | PAmp => 3 | PColon => 4 | PLt => 5 | PGt => 6 | PSemi => 7 | PEq => 8 | PPlus => 9 | PMinus => 10 | PHash => 11 | POther => 12 end.
Definition dnum (d: delim) : nat := match d with Paren => 0 | Bracket => 1 | Brace => 2 end.
Definition lit_eqb (a b: lit) : bool := match a, b with LNat x, LNat y => Nat.eqb x y | LStr x, LStr y => String.eqb x y | _, _ => false end.
Fixpoint tt_eqb (a b: tt) : bool :=
  match a, b with
  | TId x, TId y => String.eqb x y
  | TP p, TP q => Nat.eqb (pnum p) (pnum q)
  | TLit l, TLit m => lit_eqb l m
  | TG d x, TG e y => Nat.eqb (dnum d) (dnum e) &&
      (fix go (x y: list tt) : bool := match x, y with [], [] => true | a :: x', b :: y' => tt_eqb a b && go x' y' | _, _ => false end) x y
  | _, _ => false
  end.
Fixpoint tts_eqb (x y: list tt) : bool := match x, y with [], [] => true | a :: x', b :: y' => tt_eqb a b && tts_eqb x' y' | _, _ => false end.

(* `while let Some(b) = next_type { push; if no `+` { break } }` *)
Fixpoint bounds_while (fuel k: nat) (acc: list ty) (s: list tt) : res (list ty) :=
  match k with 0 => Fuel | S k' =>
    bind (next_type fuel s) (fun o s1 =>
      match o with
      | None => Ok acc s1
      | Some b => match s1 with TP PPlus :: s2 => bounds_while fuel k' (acc ++ [b]) s2 | _ => Ok (acc ++ [b]) s1 end
      end)
  end.
(* `loop { if let Some(b) = next_type { push }; if no `+` { break } }` *)
Fixpoint bounds_loop (fuel k: nat) (acc: list ty) (s: list tt) : res (list ty) :=
  match k with 0 => Fuel | S k' =>
    bind (next_type fuel s) (fun o s1 =>
      let acc1 := match o with Some b => acc ++ [b] | None => acc end in
      match s1 with TP PPlus :: s2 => bounds_loop fuel k' acc1 s2 | _ => Ok acc1 s1 end)
  end.
Fixpoint life_bounds (k: nat) (acc: list string) (s: list tt) : res (list string) :=
  match k with 0 => Fuel | S k' =>
    match s with
    | TP PQuote :: s1 =>
        match s1 with
        | TId a :: s2 => match s2 with TP PPlus :: s3 => life_bounds k' (acc ++ [a]) s3 | _ => Ok (acc ++ [a]) s2 end
        | _ => Panic
        end
    | _ => Ok acc s
    end
  end.

Fixpoint skip_default (s: list tt) : list tt :=
  match s with TP PComma :: _ | TP PGt :: _ | [] => s | _ :: r => skip_default r end.
Definition next_const_generic (fuel: nat) (s: list tt) : res generic :=
  match s with
  | TId name :: s1 =>
      match s1 with
      | TP PColon :: s2 =>
          bind (expect (next_type fuel s2)) (fun cty s3 =>
            match s3 with
            | TP PEq :: s4 =>
                match s4 with
                | [] => Panic
                | TLit (LNat n) :: s5 => Ok (GnConst name cty (Some (CValue n))) s5
                (* any other expression (`-1`, `'x'`, `{ N + 1 }`): skipped up to the `,` or `>` that ends the parameter (repair of D27) *)
                | TP PMinus :: _ | TLit (LStr _) :: _ | TG _ _ :: _ => Ok (GnConst name cty (Some (CNamedC unnamed))) (skip_default s4)
                | _ => bind (expect (next_type fuel s4)) (fun d s5 => Ok (GnConst name cty (Some (CNamedC d))) s5)
                end
            | _ => Ok (GnConst name cty None) s3
            end)
      | _ => Panic                                                       (* "Colon should follow const generic typename" *)
      end
  | [] => Panic
  | _ => Unsup                                                           (* a name that is not an identifier *)
  end.

Definition next_generic (fuel: nat) (s: list tt) : res (option generic) :=
  match s with
  | [] => Ok None []
  | TG Brace _ :: _ => Ok None s
  | TG _ _ :: _ =>
      bind (expect (next_type fuel s)) (fun t s1 =>
        match s1 with
        | TP PColon :: s2 => bind (bounds_while fuel (S (List.length s2)) [] s2) (fun bs s3 => Ok (Some (GnWhere (pr t) bs)) s3)
        | _ => Ok (Some (GnWhere (pr t) [])) s1
        end)
  | TId c :: s1 =>
      if c =? "const" then bind (next_const_generic fuel s1) (fun g s2 => Ok (Some g) s2)
      else
        bind (expect (next_type fuel s)) (fun t s2 =>
          let after_bounds := match s2 with TP PColon :: s3 => bounds_loop fuel (S (List.length s3)) [] s3 | _ => Ok [] s2 end in
          bind after_bounds (fun bs s4 =>
            match s4 with
            | TP PEq :: s5 => bind (expect (next_type fuel s5)) (fun d s6 => Ok (Some (GnType (pr t) (Some d) bs)) s6)
            | _ => Ok (Some (GnType (pr t) None bs)) s4
            end))
  | TP PGt :: _ => Ok None s
  | TP PQuote :: s1 =>
      match s1 with
      | TId a :: s2 =>
          let ab := match s2 with TP PColon :: s3 => life_bounds (S (List.length s3)) [] s3 | _ => Ok [] s2 end in
          bind ab (fun bs s4 => Ok (Some (GnLife a bs)) s4)
      | _ => Panic
      end
  | TP _ :: _ => Panic                                                   (* unimplemented!("unexpected character") *)
  | TLit _ :: _ => Panic
  end.

Definition merge (old new: generic) : option generic :=
  match old, new with
  | GnType n d b, GnType _ _ b2 => Some (GnType n d (b ++ b2))
  | GnLife n b, GnLife _ b2 => Some (GnLife n (b ++ b2))
  | GnWhere n b, GnWhere _ b2 => Some (GnWhere n (b ++ b2))
  | _, _ => None                                                         (* panic!("mismatched generic types") *)
  end.
(* `already.insert(full)`: push when the name is new, otherwise extend the bounds of the first generic with that name *)
Fixpoint upsert (ret: list generic) (g: generic) : option (list generic) :=
  match ret with
  | [] => Some [g]
  | x :: r => if tts_eqb (gkey x) (gkey g) then option_map (fun m => m :: r) (merge x g) else option_map (cons x) (upsert r g)
  end.
Definition has_key (ret: list generic) (g: generic) : bool := existsb (fun x => tts_eqb (gkey x) (gkey g)) ret.
Definition to_where (g: generic) : option generic :=
  match g with GnType n _ b => Some (GnWhere n b) | GnWhere _ _ => Some g | _ => None end.

Fixpoint generics_loop1 (fuel k: nat) (ret: list generic) (s: list tt) : res (list generic) :=
  match k with 0 => Fuel | S k' =>
    bind (next_generic fuel s) (fun o s1 =>
      match o with
      | None => Ok ret s1
      | Some g =>
          match upsert ret g with
          | None => Panic
          | Some ret1 => match s1 with TP PComma :: s2 => generics_loop1 fuel k' ret1 s2 | _ => Ok ret1 s1 end
          end
      end)
  end.
Fixpoint generics_loop2 (fuel k: nat) (ret: list generic) (s: list tt) : res (list generic) :=
  match k with 0 => Fuel | S k' =>
    bind (next_generic fuel s) (fun o s1 =>
      match o with
      | None => Ok ret s1
      | Some g =>
          match (if has_key ret g then upsert ret g else option_map (fun w => ret ++ [w]) (to_where g)) with
          | None => Panic
          | Some ret1 => match s1 with TP PComma :: s2 => generics_loop2 fuel k' ret1 s2 | _ => Ok ret1 s1 end
          end
      end)
  end.

Section Dedup.
(* bounds go through a HashSet at the end: duplicates removed, order unspecified *)
Variable dedup_ty : list ty -> list ty.
Variable dedup_lt : list string -> list string.
Definition dedup_g (g: generic) : generic :=
  match g with GnType n d b => GnType n d (dedup_ty b) | GnLife n b => GnLife n (dedup_lt b) | GnWhere n b => GnWhere n (dedup_ty b) | c => c end.

Definition get_all_bounds (fuel: nat) (s: list tt) : res (list generic) :=
  match s with
  | TP PLt :: s1 =>
      bind (generics_loop1 fuel (S (List.length s1)) [] s1) (fun ret s2 =>
        match s2 with
        | TP PGt :: s3 =>
            match s3 with
            | [] => Ok (map dedup_g ret) []
            | TId w :: s4 =>
                if w =? "where" then bind (generics_loop2 fuel (S (List.length s4)) ret s4) (fun ret2 s5 => Ok (map dedup_g ret2) s5)
                else Ok ret s3                                            (* early return: no de-duplication *)
            | _ => Ok ret s3
            end
        | _ => Panic                                                      (* "Need closing generic bracket" *)
        end)
  | _ => Ok [] s
  end.

(* ---- struct, entry point ---- *)
Record strukt := { s_name: option string; s_named: bool; s_fields: list field; s_attrs: list attr; s_generics: list generic }.

Definition next_struct (fuel: nat) (s: list tt) : res strukt :=
  let '(name, s1) := match s with TId n :: r => (Some n, r) | _ => (None, s) end in
  bind (get_all_bounds fuel s1) (fun gens s2 =>
    match s2 with
    | TG Brace body :: s3 =>
        bind (fields_loop fuel (S (List.length body)) true [] body)
             (fun fs _ => Ok {| s_name := name; s_named := true; s_fields := map field_of fs; s_attrs := []; s_generics := gens |} s3)
    | TG Paren body :: s3 =>
        bind (fields_loop fuel (S (List.length body)) false [] body)
             (fun fs _ => match s3 with
                          | TP PSemi :: s4 => Ok {| s_name := name; s_named := false; s_fields := map field_of fs; s_attrs := []; s_generics := gens |} s4
                          | _ => Panic end)
    | TG Bracket _ :: _ => Panic
    | _ =>
        let s3 := match s2 with TP _ :: r => r | _ => s2 end in
        Ok {| s_name := name; s_named := false; s_fields := []; s_attrs := []; s_generics := gens |} s3
    end).

(* ---- enums ---- *)
Record enumt := { e_name: string; e_variants: list field; e_attrs: list attr; e_generics: list generic }.

(* the loop of next_enum over the body: attributes, the variant's name, then its "type": nothing (unit variant), a tuple group or a brace group *)
Fixpoint variants_loop (fuel k: nat) (acc: list field) (s: list tt) : res (list field) :=
  match k with 0 => Fuel | S k' =>
  match s with
  | [] => Ok acc []
  | _ =>
    bind (attrs_list (S (List.length s)) [] s) (fun attrs s1 =>
      match s1 with
      | TId vname :: s2 =>
          (* the end of the body is checked before a type is asked for (repair of D16: next_type answers an empty unnamed type there) *)
          let tyres := match s2 with [] => Ok None [] | _ => next_type fuel s2 end in
          bind tyres (fun o s3 =>
            match o with
            | None =>
                let s4 := match s3 with TP PComma :: r => r | _ => s3 end in
                variants_loop fuel k' (acc ++ [{| f_attrs := attrs; f_name := Some vname; f_ty := Ty CNone None None None |}]) s4
            | Some t =>
                let s4 := match s3 with TP PSemi :: r => r | _ => s3 end in
                let s5 := match s4 with TP PComma :: r => r | _ => s4 end in
                variants_loop fuel k' (acc ++ [{| f_attrs := attrs; f_name := Some vname; f_ty := t |}]) s5
            end)
      | _ => Panic                                                        (* "Unnamed variants are not supported" *)
      end)
  end end.

Definition next_enum (fuel: nat) (s: list tt) : res enumt :=
  match s with
  | TId name :: s1 =>
      bind (get_all_bounds fuel s1) (fun gens s2 =>
        match s2 with
        | TG _ body :: s3 =>
            bind (variants_loop fuel (S (List.length body)) [] body)
                 (fun vs _ => Ok {| e_name := name; e_variants := vs; e_attrs := []; e_generics := gens |} s3)
        | _ => Ok {| e_name := name; e_variants := []; e_attrs := []; e_generics := [] |} s2      (* no body: the generics are dropped too *)
        end)
  | _ => Panic                                                            (* "Unnamed enums are not supported" *)
  end.

Inductive data := DStruct (s: strukt) | DEnum (e: enumt).

Definition parse_data (fuel: nat) (s: list tt) : res data :=
  bind (attrs_list (S (List.length s)) [] s) (fun attrs s1 =>
    match s1 with
    | TId w :: s2 =>
        let kw : res string := if w =? "pub" then match s2 with TId k :: s3 => Ok k s3 | _ => Panic end else Ok w s2 in
        bind kw (fun k s3 =>
          if k =? "struct" then
            bind (next_struct fuel s3) (fun st s4 =>
              match s4 with
              | [] => Ok (DStruct {| s_name := s_name st; s_named := s_named st; s_fields := s_fields st; s_attrs := attrs; s_generics := s_generics st |}) []
              | _ => Panic                                                (* "Unexpected data after end of the struct" *)
              end)
          else if k =? "enum" then
            bind (next_enum fuel s3) (fun en s4 =>
              match s4 with
              | [] => Ok (DEnum en) []                                    (* the item's own attributes are NOT handed to the enum *)
              | _ => Panic
              end)
          else Panic)
    | _ => Panic                                                          (* "Not an ident" *)
    end).
End Dedup.
