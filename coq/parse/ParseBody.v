(* C17: model of the TYPE DEFINITIONS the struct and enum templates of derive/src/difference.rs generate: the variant lists of the two diff
   enums (one or two variants per unskipped field, by the field's recurse / collection strategy / Option-ness) and the type aliases of
   `recurse` fields, as token lists; what makes the templates panic ("not yet supported" combinations, an Option or collection without
   generic arguments) is part of the model (None). The function bodies (diff, diff_ref, apply_single, Into, setters) are not modelled
   as text: their behaviour is the subject of the Inst / R models. Executable; extracted for the correspondence check. *)
From Coq Require Import List Arith Bool String Ascii DecimalString.
Import ListNotations.
Require Import P.ParseModel P.ParseGrammar P.ParsePrintModel P.ParseDecl P.ParseInterp P.ParseUsed P.ParseHeader.
Local Open Scope string_scope. Local Open Scope list_scope.

(* str::trim_start_matches("r#") *)
Fixpoint strip_raw_n (k: nat) (s: string) : string :=
  match k with 0 => s | S k' => match s with String "r" (String "#" rest) => strip_raw_n k' rest | _ => s end end.
Definition strip_raw (s: string) : string := strip_raw_n (String.length s) s.

(* is_option: Type::base() (reference prefix included) with leading `::` trimmed is one of the three spellings *)
Definition is_option (t: ty) : bool :=
  match t with
  | Ty (CNamed p) _ None _ =>
      let q := match p with "" :: r => r | _ => p end in
      list_eqb String.eqb q ["Option"] || list_eqb String.eqb q ["std"; "option"; "Option"] || list_eqb String.eqb q ["core"; "option"; "Option"]
  | _ => false
  end.

Definition wrapped (t: ty) : option (list ty) := match t with Ty _ w _ _ => w end.
Definition first_wrapped (t: ty) : option ty := match wrapped t with Some (x :: _) => Some x | _ => None end.
Definition amp_target : list tt := TP PAmp :: lt_target.
Definition lib (l: list string) : list tt := pth ("structdiff" :: "collections" :: l).
(* `a, &'__diff_target b, &'__diff_target c` *)
Fixpoint join_amp (ls: list (list tt)) : list tt := match ls with [] => [] | [x] => x | x :: r => x ++ TP PComma :: amp_target ++ join_amp r end.

Record fdefs := { fd_aliases: list (list tt); fd_ref_aliases: list (list tt); fd_variants: list (string * list tt); fd_ref_variants: list (string * list tt) }.
(* the struct's name with its length in front (the aliases of exposed structs share a module: `A` + `bc` must not meet `Ab` + `c`) *)
Definition alias_owner (sname: string) : string := (dec (String.length (strip_raw sname)) ++ strip_raw sname)%string.
Definition alias_names (sname ident: string) : string * string :=
  (("__" ++ alias_owner sname ++ ident ++ "StructDiffVec")%string, ("__" ++ alias_owner sname ++ ident ++ "StructDiffRefVec")%string).
Definition alias_item (name: string) (inner: list tt) : list tt :=
  [TId "type"; TId name; TP PEq; TId "Vec"; TP PLt; TP PLt] ++ inner ++ [TId "as"; TId "StructDiff"; TP PGt; TP PColon; TP PColon; TId "Diff"; TP PGt].
Definition ref_alias_item (name: string) (inner: list tt) : list tt :=
  [TId "type"; TId name; TP PLt] ++ lt_target ++ [TP PGt; TP PEq; TId "Vec"; TP PLt; TP PLt] ++ inner ++
  [TId "as"; TId "StructDiff"; TP PGt; TP PColon; TP PColon; TId "DiffRef"; TP PLt] ++ lt_target ++ [TP PGt; TP PGt].
Definition ref_alias_use (name: string) : list tt := [TId name; TP PLt] ++ lt_target ++ [TP PGt].

(* one unskipped field; None = the template panics *)
Definition field_defs (sname: string) (f: field) : option fdefs :=
  let n := match f_name f with Some x => x | None => "" end in
  let ident := strip_raw n in
  let t := f_ty f in
  match attrs_recurse (f_attrs f), attrs_collection_type (f_attrs f), is_option t with
  | false, None, _ =>
      Some {| fd_aliases := []; fd_ref_aliases := []; fd_variants := [(n, pr t)]; fd_ref_variants := [(n, amp_target ++ pr t)] |}
  | true, None, false =>
      let '(a, ra) := alias_names sname ident in
      Some {| fd_aliases := [alias_item a (pr t)]; fd_ref_aliases := [ref_alias_item ra (pr t)];
              fd_variants := [(n, [TId a])]; fd_ref_variants := [(n, ref_alias_use ra)] |}
  | true, None, true =>
      match first_wrapped t with
      | None => None
      | Some inner =>
          let '(a, ra) := alias_names sname ident in
          Some {| fd_aliases := [alias_item a (pr inner)]; fd_ref_aliases := [ref_alias_item ra (pr inner)];
                  fd_variants := [(n, [TId "Option"; TP PLt; TId a; TP PGt]); ((ident ++ "_full")%string, pr inner)];
                  fd_ref_variants := [(n, [TId "Option"; TP PLt] ++ ref_alias_use ra ++ [TP PGt]); ((ident ++ "_full")%string, amp_target ++ pr inner)] |}
      end
  | true, Some (UnorderedMapLikeHash _), false =>
      match wrapped t with
      | None => None
      | Some ws =>
          Some {| fd_aliases := []; fd_ref_aliases := [];
                  fd_variants := [(n, lib ["unordered_map_like_recursive"; "UnorderedMapLikeRecursiveDiffOwned"] ++ angle (map pr ws))];
                  fd_ref_variants := [(n, lib ["unordered_map_like_recursive"; "UnorderedMapLikeRecursiveDiffRef"] ++ TP PLt :: lt_target ++ TP PComma :: sep_comma (map pr ws) ++ [TP PGt])] |}
      end
  | true, Some _, _ => None
  | false, Some _, true => None
  | false, Some OrderedArrayLike, false =>
      match wrapped t with
      | Some (w0 :: ws) =>
          Some {| fd_aliases := []; fd_ref_aliases := [];
                  fd_variants := [(n, lib ["ordered_array_like"; "OrderedArrayLikeDiffOwned"] ++ angle [pr w0])];
                  fd_ref_variants := [(n, lib ["ordered_array_like"; "OrderedArrayLikeDiffRef"] ++ TP PLt :: lt_target ++ TP PComma :: join_amp (map pr (w0 :: ws)) ++ [TP PGt])] |}
      | _ => None
      end
  | false, Some UnorderedArrayLikeHash, false =>
      match wrapped t with
      | Some (w0 :: ws) =>
          Some {| fd_aliases := []; fd_ref_aliases := [];
                  fd_variants := [(n, lib ["unordered_array_like"; "UnorderedArrayLikeDiff"] ++ angle [pr w0])];
                  fd_ref_variants := [(n, lib ["unordered_array_like"; "UnorderedArrayLikeDiff"] ++ TP PLt :: amp_target ++ join_amp (map pr (w0 :: ws)) ++ [TP PGt])] |}
      | _ => None
      end
  | false, Some (UnorderedMapLikeHash _), false =>
      match wrapped t with
      | None => None
      | Some ws =>
          Some {| fd_aliases := []; fd_ref_aliases := [];
                  fd_variants := [(n, lib ["unordered_map_like"; "UnorderedMapLikeDiff"] ++ angle (map pr ws))];
                  fd_ref_variants := [(n, lib ["unordered_map_like"; "UnorderedMapLikeDiff"] ++ TP PLt :: amp_target ++ join_amp (map pr ws) ++ [TP PGt])] |}
      end
  end.

Fixpoint all_some {A} (l: list (option A)) : option (list A) :=
  match l with [] => Some [] | None :: _ => None | Some x :: r => match all_some r with Some r' => Some (x :: r') | None => None end end.
(* ` name(payload),` per variant *)
Definition variants_toks (vs: list (string * list tt)) : list tt := flat_map (fun v => [TId (fst v); TG Paren (snd v); TP PComma]) vs.

Record tdefs := { td_aliases: list (list tt); td_owned_body: list tt; td_ref_body: list tt }.
Definition struct_defs (s: strukt) : option tdefs :=
  let fields := filter (fun f => negb (attrs_skip (f_attrs f))) (s_fields s) in
  match all_some (map (field_defs (match s_name s with Some x => x | None => "" end)) fields) with
  | None => None
  | Some ds => Some {| td_aliases := flat_map fd_aliases ds ++ flat_map fd_ref_aliases ds;
                       td_owned_body := variants_toks (flat_map fd_variants ds);
                       td_ref_body := variants_toks (flat_map fd_ref_variants ds) |}
  end.
(* the diff of an enum carries the whole new value *)
Definition enum_defs (e: enumt) : tdefs :=
  let args := angle (map ident_only (no_where (e_generics e))) in
  {| td_aliases := []; td_owned_body := [TId "Replace"; TG Paren (TId (e_name e) :: args)]; td_ref_body := [TId "Replace"; TG Paren (amp_target ++ TId (e_name e) :: args)] |}.
Definition type_defs (d: data) : option tdefs := match d with DStruct s => struct_defs s | DEnum e => Some (enum_defs e) end.
