(* C17: model of the two helpers of derive/src/difference.rs that decide which lifetime and const parameters a field type uses
   (get_used_lifetimes, get_array_lens); the generated diff enums declare exactly the parameters reported as used. *)
From Coq Require Import List Arith Bool String.
Import ListNotations.
Require Import P.ParseModel P.ParseGrammar P.ParsePrintModel.
Local Open Scope string_scope. Local Open Scope list_scope.

(* Some(Some(lt)) of ref_type, a lifetime used as generic argument, then recursively through `wraps` *)
Fixpoint used_lifetimes (t: ty) : list string :=
  match t with Ty c w rt _ =>
    (match rt with Some (Some a) => [a] | _ => [] end) ++
    (match c with CLifetime a => [a] | _ => [] end) ++
    (match w with Some ws => flat_map used_lifetimes ws | None => [] end)
  end.
(* the code as it was before the repair (no CLifetime case) *)
Fixpoint used_lifetimes_old (t: ty) : list string :=
  match t with Ty c w rt _ =>
    (match rt with Some (Some a) => [a] | _ => [] end) ++
    (match w with Some ws => flat_map used_lifetimes_old ws | None => [] end)
  end.
(* named array lengths: Type::full of the length *)
Fixpoint array_lens (t: ty) : list (list tt) :=
  match t with Ty c w _ _ =>
    (match c with CArray _ (Some (CNamedC v)) => [pr v] | _ => [] end) ++
    (match w with Some ws => flat_map array_lens ws | None => [] end)
  end.

(* Type::wraps: the names (Category::path, WITHOUT the reference prefix since the repair of D8) of the type and, recursively, of everything it
   wraps, as tokens; a type parameter counts as USED by a field when it NAMES the field type's own path or one of these strings: the
   path is the parameter itself, or starts with it (`T::Item`, repair of D8b) *)
Definition base_tok (t: ty) : list tt := match t with Ty c _ rt _ => pr_rt rt ++ pr_cat c end.
Fixpoint wraps_list (t: ty) : list (list tt) :=
  match t with Ty c w rt ao => pr_cat c :: match w with Some ws => flat_map wraps_list ws | None => [] end end.
Definition is_name (n: string) (toks: list tt) : bool :=
  match toks with [TId x] => String.eqb x n | TId x :: TP PColon :: TP PColon :: _ => String.eqb x n | _ => false end.
Definition param_used (n: string) (t: ty) : bool :=
  is_name n (match t with Ty c _ _ _ => pr_cat c end) || existsb (is_name n) (wraps_list t).
