(* C17: model of the code templates of derive/src/difference.rs that splice names, generics and bounds (the anchor "code templates that
   splice names, generics and bounds"): which declared parameters the diff enums declare (used_generics), how a parameter is printed in a
   parameter list, an argument list and a where clause (Generic::ident_only / ident_with_const / full_with_const / has_where_bounds of
   derive/src/parse.rs), and every item HEADER of the expansion of a struct and of an enum: attributes, `pub enum Name<..> where ..`,
   `impl<..> Into<..> for ..Ref<..> where ..`, `impl<..> StructDiff for S<..> where ..`, the two associated types, the setters impl.
   Everything is at the level of the TOKENS of the generated source text (rustc lexes the spliced string again). The bodies of the items
   are not modelled here (their behaviour is the subject of the Inst / R models). Executable; extracted for the correspondence check. *)
From Coq Require Import List Arith Bool String.
Import ListNotations.
Require Import P.ParseModel P.ParseGrammar P.ParsePrintModel P.ParseDecl P.ParseInterp P.ParseUsed.
Local Open Scope string_scope. Local Open Scope list_scope.

(* the cargo features of structdiff-derive that change the templates' bound and derive lists *)
Record hcfg := { h_dbg: bool; h_ns: bool; h_sd: bool }.
Definition pth (l: list string) : list tt := pr_path l.
Definition opt_l {A} (b: bool) (l: list A) : list A := if b then l else [].
(* const BOUNDS / REF_BOUNDS *)
Definition BOUNDS (c: hcfg) : list (list tt) :=
  [pth ["core"; "clone"; "Clone"]; pth ["core"; "cmp"; "PartialEq"]] ++ opt_l (h_dbg c) [pth ["core"; "fmt"; "Debug"]] ++
  opt_l (h_ns c) [pth ["nanoserde"; "DeBin"]; pth ["nanoserde"; "SerBin"]] ++ opt_l (h_sd c) [pth ["serde"; "Serialize"]; pth ["serde"; "de"; "DeserializeOwned"]].
Definition REF_BOUNDS (c: hcfg) : list (list tt) :=
  [pth ["core"; "clone"; "Clone"]; pth ["core"; "cmp"; "PartialEq"]] ++ opt_l (h_dbg c) [pth ["core"; "fmt"; "Debug"]] ++
  opt_l (h_ns c) [pth ["nanoserde"; "SerBin"]; pth ["nanoserde"; "DeBin"]] ++ opt_l (h_sd c) [pth ["serde"; "Serialize"]].
Definition owned_derives (c: hcfg) : list (list tt) :=
  opt_l (h_dbg c) [pth ["core"; "fmt"; "Debug"]] ++ [pth ["Clone"]] ++ opt_l (h_ns c) [pth ["nanoserde"; "SerBin"]; pth ["nanoserde"; "DeBin"]] ++
  opt_l (h_sd c) [pth ["serde"; "Serialize"]; pth ["serde"; "Deserialize"]].
Definition ref_derives (c: hcfg) : list (list tt) :=
  opt_l (h_dbg c) [pth ["core"; "fmt"; "Debug"]] ++ [pth ["Clone"]] ++ opt_l (h_ns c) [pth ["nanoserde"; "SerBin"]] ++ opt_l (h_sd c) [pth ["serde"; "Serialize"]].

(* ---- Generic::* of derive/src/parse.rs ---- *)
Definition is_where (g: generic) : bool := match g with GnWhere _ _ => true | _ => false end.
Definition is_const (g: generic) : bool := match g with GnConst _ _ _ => true | _ => false end.
Definition is_life (g: generic) : bool := match g with GnLife _ _ => true | _ => false end.
Definition quote (a: string) : list tt := [TP PQuote; TId a].
Definition ident_only (g: generic) : list tt := match g with GnLife n _ => quote n | _ => gkey g end.
Definition get_bounds (g: generic) : list (list tt) :=
  match g with GnConst _ t _ => [pr t] | GnType _ _ b => map pr b | GnLife _ b => map quote b | GnWhere _ b => map pr b end.
Fixpoint plus_join (ls: list (list tt)) : list tt := match ls with [] => [] | [x] => x | x :: r => x ++ TP PPlus :: plus_join r end.
Definition full_with_const (g: generic) (extra_ty extra_lt: list (list tt)) (bounds: bool) : list tt :=
  let bs := match bounds, g with
            | true, GnLife _ _ => get_bounds g ++ extra_lt
            | true, _ => get_bounds g ++ extra_ty ++ extra_lt
            | false, GnConst _ _ _ => get_bounds g
            | false, _ => []
            end in
  (if is_const g then [TId "const"] else []) ++ ident_only g ++ TP PColon :: plus_join bs.
Definition ident_with_const (g: generic) : list tt := if is_const g then full_with_const g [] [] true else ident_only g.
Definition has_where_bounds (g: generic) (lifetimes_bound extra_ty_bounds: bool) : bool :=
  match g with
  | GnType _ _ b => negb (match b with [] => true | _ => false end) || lifetimes_bound || extra_ty_bounds
  | GnLife _ b => negb (match b with [] => true | _ => false end) || lifetimes_bound
  | GnWhere _ _ => true
  | GnConst _ _ _ => false
  end.

(* ---- structural equality of parsed generics (Vec::contains on &Generic) ---- *)
Definition opt_eqb {A} (f: A -> A -> bool) (a b: option A) : bool := match a, b with None, None => true | Some x, Some y => f x y | _, _ => false end.
Fixpoint list_eqb {A} (f: A -> A -> bool) (a b: list A) : bool := match a, b with [], [] => true | x :: a', y :: b' => f x y && list_eqb f a' b' | _, _ => false end.
Definition atok_eqb (a b: atok) : bool := match a, b with AId x, AId y => String.eqb x y | ALit x, ALit y => lit_eqb x y | _, _ => false end.
Fixpoint ty_eqb (a b: ty) {struct a} : bool :=
  match a, b with Ty c w rt ao, Ty c' w' rt' ao' =>
    cat_eqb c c' &&
    match w, w' with None, None => true | Some l, Some l' => (fix go (x y: list ty) : bool := match x, y with [], [] => true | p :: x', q :: y' => ty_eqb p q && go x' y' | _, _ => false end) l l' | _, _ => false end &&
    opt_eqb (opt_eqb String.eqb) rt rt' &&
    match ao, ao' with None, None => true | Some x, Some y => ty_eqb x y | _, _ => false end
  end
with cat_eqb (a b: cat) {struct a} : bool :=
  match a, b with
  | CNever, CNever => true
  | CArray t len, CArray t' len' => ty_eqb t t' && match len, len' with None, None => true | Some v, Some v' => cvt_eqb v v' | _, _ => false end
  | CTuple l, CTuple l' => (fix go (x y: list ty) : bool := match x, y with [], [] => true | p :: x', q :: y' => ty_eqb p q && go x' y' | _, _ => false end) l l'
  | CNamed p, CNamed p' => list_eqb String.eqb p p'
  | CLifetime s, CLifetime s' => String.eqb s s'
  | CUnNamed, CUnNamed => true
  | CAnon fs, CAnon fs' =>
      (fix go (x y: list (list attr * option string * ty)) : bool :=
         match x, y with
         | [], [] => true
         | (a1, n1, t1) :: x', (a2, n2, t2) :: y' => list_eqb (list_eqb atok_eqb) a1 a2 && opt_eqb String.eqb n1 n2 && ty_eqb t1 t2 && go x' y'
         | _, _ => false end) fs fs'
  | CNone, CNone => true
  | _, _ => false
  end
with cvt_eqb (a b: cvt) {struct a} : bool :=
  match a, b with CValue n, CValue m => Nat.eqb n m | CNamedC t, CNamedC t' => ty_eqb t t' | _, _ => false end.
Definition gen_eqb (a b: generic) : bool :=
  match a, b with
  | GnConst n t d, GnConst n' t' d' => String.eqb n n' && ty_eqb t t' && opt_eqb cvt_eqb d d'
  | GnType n d b, GnType n' d' b' => tts_eqb n n' && opt_eqb ty_eqb d d' && list_eqb ty_eqb b b'
  | GnLife n b, GnLife n' b' => String.eqb n n' && list_eqb String.eqb b b'
  | GnWhere n b, GnWhere n' b' => tts_eqb n n' && list_eqb ty_eqb b b'
  | _, _ => false
  end.

(* ---- used_generics: what one field (or variant) contributes, then the declaration-order pass with its HashSet of names ---- *)
Definition own_path (t: ty) : list tt := match t with Ty c _ _ _ => pr_cat c end.
Definition find_gen (gens: list generic) (k: list tt) : list generic := match find (fun x => tts_eqb (gkey x) k) gens with Some x => [x] | None => [] end.
(* names_param: the path is the parameter itself, or starts with it and goes on with `::` (`T::Item`) *)
Fixpoint names_tok (k w: list tt) : bool :=
  match k, w with
  | [], [] => true
  | [], TP PColon :: TP PColon :: _ => true
  | a :: k', b :: w' => tt_eqb a b && names_tok k' w'
  | _, _ => false
  end.
Definition used_of_type (gens: list generic) (t: ty) : list generic :=
  filter (fun x => names_tok (gkey x) (own_path t)) gens ++
  filter (fun x => existsb (fun w => names_tok (gkey x) w) (wraps_list t)) gens ++
  flat_map (fun a => find_gen gens [TId a]) (used_lifetimes t) ++
  flat_map (fun v => find_gen gens v) (array_lens t).
Fixpoint used_pass (raw: list generic) (seen: list (list tt)) (gens: list generic) : list generic :=
  match gens with
  | [] => []
  | x :: r =>
      if existsb (tts_eqb (gkey x)) seen then used_pass raw seen r
      else (if existsb (gen_eqb x) raw then [x] else []) ++ used_pass raw (gkey x :: seen) r
  end.
Definition used_generics (gens: list generic) (tys: list ty) : list generic := used_pass (flat_map (used_of_type gens) tys) [] gens.

(* ---- pieces shared by both templates ---- *)
Definition angle (l: list (list tt)) : list tt := TP PLt :: sep_comma l ++ [TP PGt].
Definition lt_target : list tt := quote "__diff_target".
Definition no_where (l: list generic) := filter (fun x => negb (is_where x)) l.
Definition no_where_const (l: list generic) := filter (fun x => negb (is_where x) && negb (is_const x)) l.
Definition no_const (l: list generic) := filter (fun x => negb (is_const x)) l.
Definition attr_tt (name: string) (args: list tt) : list tt := [TP PHash; TG Bracket [TId name; TG Paren args]].
Definition allow_attr : list tt := attr_tt "allow" [TId "non_camel_case_types"].
Definition self_outlives : list tt := [TId "Self"; TP PColon] ++ lt_target.
(* #[serde(bound = "T: serde::Serialize + serde::de::DeserializeOwned, ...")]; the harness lexes the string literal: a brace group here *)
Definition serde_bound (c: hcfg) (used: list generic) : list tt :=
  opt_l (h_sd c) (attr_tt "serde" [TId "bound"; TP PEq; TG Brace (sep_comma (map (fun x => ident_only x ++ TP PColon :: pth ["serde"; "Serialize"] ++ TP PPlus :: pth ["serde"; "de"; "DeserializeOwned"])
                                                        (filter (fun x => negb (is_life x) && negb (is_const x)) used)))]).
Definition atok_str (t: atok) : string := match t with AId x => x | ALit (LStr x) => x | ALit (LNat _) => "" end.
Definition diff_enum_name (exposed: option (option atok)) (name: string) : string :=
  match exposed with Some (Some n) => atok_str n | Some None => name ++ "StructDiffEnum" | None => "__" ++ name ++ "StructDiffEnum" end.

(* the words of a printed where-clause item (`split` on everything that is not alphanumeric or `_`): identifiers at any depth, numbers; a raw
   identifier `r#x` gives `r` and `x` *)
Fixpoint tt_words1 (t: tt) : list string :=
  match t with
  | TId s => [s]
  | TG _ inner => (fix go (l: list tt) : list string := match l with [] => [] | x :: r => tt_words1 x ++ go r end) inner
  | _ => []
  end.
Definition tt_words (l: list tt) : list string := flat_map tt_words1 l.
Definition gname (g: generic) : option string := match gkey g with [TId n] => Some n | _ => None end.
Definition names_of_gens (l: list generic) : list string := flat_map (fun g => match gname g with Some n => [n] | None => [] end) l.
Definition mem_str (x: string) (l: list string) : bool := existsb (String.eqb x) l.
(* where-clause items over something other than a bare parameter that mention no parameter the diff enums leave out (repair of D23) *)
Definition used_where_items (gens used: list generic) : list (list tt) :=
  let declared := names_of_gens (no_where gens) in
  let usedn := names_of_gens used in
  filter (fun item => forallb (fun w => negb (mem_str w declared) || mem_str w usedn) (tt_words item))
         (map (fun x => full_with_const x [] [] true) (filter is_where gens)).

Definition target_lifetime {A} (unskipped_fields: list A) : list (list tt) := match unskipped_fields with [] => [] | _ => [lt_target] end.
(* ---- derive_struct_diff_struct ---- *)
Definition has_setter (all: bool) (f: field) : bool :=
  match attrs_setter (f_attrs f) with (local, skip_setter, _) => negb skip_setter && (all || local) end.
Definition struct_headers (c: hcfg) (setters_feature: bool) (s: strukt) : list (list tt) :=
  let gens := s_generics s in
  let sname := match s_name s with Some n => n | None => "Anonymous" end in
  let ename := diff_enum_name (attrs_expose (s_attrs s)) sname in
  let fields := filter (fun f => negb (attrs_skip (f_attrs f))) (s_fields s) in
  let used := used_generics gens (map f_ty fields) in
  let owned_impl := angle (map ident_only (no_where used)) in
  (* the borrowed diff enum declares '__diff_target only when there is an unskipped field to borrow from (repair of D5) *)
  let tl := target_lifetime fields in
  let ref_impl := angle (tl ++ map ident_only (no_where used)) in
  let ref_def := angle (tl ++ map ident_with_const (no_where used)) in
  [ allow_attr ++ attr_tt "derive" (sep_comma (owned_derives c)) ++ serde_bound c used ++
      [TId "pub"; TId "enum"; TId ename] ++ angle (map ident_with_const (no_where used)) ++ TId "where" ::
      sep_comma (map (fun x => full_with_const x (BOUNDS c) [] true) (filter (fun x => has_where_bounds x false true) (no_where_const used)));
    allow_attr ++ attr_tt "derive" (sep_comma (ref_derives c)) ++
      [TId "pub"; TId "enum"; TId (ename ++ "Ref")] ++ ref_def ++ TId "where" ::
      sep_comma (map (fun x => full_with_const x (REF_BOUNDS c) [lt_target] true) (filter (fun x => has_where_bounds x true true) (no_where_const used)) ++ map (fun _ => self_outlives) tl);
    TId "impl" :: ref_def ++ [TId "Into"; TP PLt; TId ename] ++ owned_impl ++ [TP PGt; TId "for"; TId (ename ++ "Ref")] ++ ref_impl ++ TId "where" ::
      sep_comma (map (fun x => full_with_const x (BOUNDS c) [lt_target] true) (filter (fun x => has_where_bounds x true true) (no_where_const used)) ++ used_where_items gens used);
    TId "impl" :: angle (map ident_with_const (no_where gens)) ++ [TId "StructDiff"; TId "for"; TId sname] ++ angle (map ident_only (no_where gens)) ++ TId "where" ::
      sep_comma (map (fun x => full_with_const x (BOUNDS c) [] true) (filter (fun x => has_where_bounds x false true) (no_where_const gens)) ++
                 map (fun x => full_with_const x [] [] true) (filter is_where gens));
    [TId "type"; TId "Diff"; TP PEq; TId ename] ++ owned_impl;
    [TId "type"; TId "DiffRef"; TP PLt] ++ lt_target ++ [TP PGt; TP PEq; TId (ename ++ "Ref")] ++ ref_impl ++ TId "where" ::
      sep_comma (map (fun x => full_with_const x [] [lt_target] true) (filter (fun x => has_where_bounds x true true) (no_where_const gens))) ] ++
  (if setters_feature && existsb (has_setter (attrs_all_setters (s_attrs s))) fields then
     [ TId "impl" :: angle (map ident_with_const (no_where gens)) ++ [TId sname] ++ angle (map ident_only (no_where gens)) ++ TId "where" ::
         sep_comma (map (fun x => full_with_const x (BOUNDS c) [] true) (no_where_const gens) ++ map (fun x => full_with_const x [] [] true) (filter is_where gens)) ]
   else []).

(* ---- derive_struct_diff_enum: the diff enums wrap the whole enum, so they declare every parameter; where-clause items are kept
   (with the extra bounds added to them as well) ---- *)
Definition enum_headers (c: hcfg) (e: enumt) : list (list tt) :=
  let gens := e_generics e in
  let ename := diff_enum_name (attrs_expose (e_attrs e)) (e_name e) in
  let used := flat_map (used_of_type gens) (map f_ty (e_variants e)) in       (* no declaration-order pass here: `#[cfg(unused)]` *)
  let args := angle (map ident_only (no_where gens)) in
  let ref_args := angle (lt_target :: map ident_only (no_where gens)) in
  let ref_def := angle (lt_target :: map ident_with_const (no_where gens)) in
  [ attr_tt "derive" (sep_comma (owned_derives c)) ++ serde_bound c used ++ allow_attr ++
      [TId "pub"; TId "enum"; TId ename] ++ angle (map ident_with_const (no_where gens)) ++ TId "where" ::
      sep_comma (map (fun x => full_with_const x (BOUNDS c) [] true) (filter (fun x => has_where_bounds x false true) (no_const gens)));
    allow_attr ++ attr_tt "derive" (sep_comma (ref_derives c)) ++
      [TId "pub"; TId "enum"; TId (ename ++ "Ref")] ++ ref_def ++ TId "where" ::
      sep_comma (map (fun x => full_with_const x (REF_BOUNDS c) [lt_target] true) (filter (fun x => has_where_bounds x true true) (no_const gens)) ++ [self_outlives]);
    TId "impl" :: ref_def ++ [TId "Into"; TP PLt; TId ename] ++ args ++ [TP PGt; TId "for"; TId (ename ++ "Ref")] ++ ref_args ++ TId "where" ::
      sep_comma (map (fun x => full_with_const x (BOUNDS c) [lt_target] true) (filter (fun x => has_where_bounds x true true) (no_const gens)));
    TId "impl" :: angle (map ident_with_const (no_where gens)) ++ [TId "StructDiff"; TId "for"; TId (e_name e)] ++ args ++ TId "where" ::
      sep_comma (map (fun x => full_with_const x (BOUNDS c) [] true) (no_where_const gens) ++ map (fun x => full_with_const x [] [] true) (filter is_where gens));
    [TId "type"; TId "Diff"; TP PEq; TId ename] ++ args;
    [TId "type"; TId "DiffRef"; TP PLt] ++ lt_target ++ [TP PGt; TP PEq; TId (ename ++ "Ref")] ++ ref_args ++ TId "where" ::
      sep_comma (map (fun x => full_with_const x [] [lt_target] true) (filter (fun x => has_where_bounds x true true) (no_where_const gens))) ].

Definition headers (c: hcfg) (setters_feature: bool) (d: data) : list (list tt) :=
  match d with DStruct s => struct_headers c setters_feature s | DEnum e => enum_headers c e end.
