(* C17: the helper that collects the lifetimes a field type uses reports exactly the lifetimes written in the type (so that the generated
   enums declare them); the version of the code before the repair of D11 missed lifetimes used as generic arguments. *)
From Coq Require Import List Arith Lia Bool String.
Import ListNotations.
Require Import P.ParseModel P.ParseGrammar P.ParseProof P.ParsePrintModel P.ParsePrint P.ParseUsed.
Local Open Scope string_scope. Local Open Scope list_scope.

Fixpoint lifetimes_of (t: g) : list string :=
  match t with
  | GPath _ _ args => flat_map lifetimes_of args
  | GRef (Some a) t => a :: lifetimes_of t
  | GRef None t => lifetimes_of t
  | GTuple l _ => flat_map lifetimes_of l
  | GArray t _ => lifetimes_of t
  | GLt a => [a]
  | GNever => []
  end.

Lemma used_eq c w rt ao : used_lifetimes (Ty c w rt ao) =
  (match rt with Some (Some a) => [a] | _ => [] end) ++ (match c with CLifetime a => [a] | _ => [] end) ++ (match w with Some ws => flat_map used_lifetimes ws | None => [] end).
Proof. reflexivity. Qed.

Lemma flat_map_used (l: list g) : Forall (fun t => wf t -> used_lifetimes (embed t) = lifetimes_of t) l -> wf_all l ->
  flat_map used_lifetimes (map embed l) = flat_map lifetimes_of l.
Proof.
  intros F W. apply wf_all_Forall in W. induction l as [|x l IH]; [reflexivity|].
  inversion F as [|? ? Fx Fl]; subst. inversion W as [|? ? Wx Wl]; subst. cbn [map flat_map]. rewrite (Fx Wx), (IH Fl Wl). reflexivity.
Qed.

Theorem used_lifetimes_exact : forall t, wf t -> used_lifetimes (embed t) = lifetimes_of t.
Proof.
  induction t as [s0 segs args IH|lt t IH|l tr IH|t len IH|a|] using g_ind2; intros W.
  - cbn in W. destruct W as [_ Wa]. fold (wf_all args) in Wa. cbn [embed lifetimes_of]. rewrite used_eq. cbn [app].
    destruct args as [|a0 args]; [reflexivity|]. apply (flat_map_used _ IH Wa).
  - cbn in W. destruct W as [Hb Wt]. cbn [embed]. pose proof (embed_base_rt t Hb) as Hrt. specialize (IH Wt).
    destruct (embed t) as [c w r ao]. subst r. rewrite used_eq in *. cbn [app] in IH. destruct lt as [a|]; cbn [lifetimes_of app]; rewrite IH; reflexivity.
  - cbn in W. destruct W as [_ Wl]. fold (wf_all l) in Wl. cbn [embed lifetimes_of]. rewrite used_eq. cbn [app].
    rewrite flat_map_app, <- (flat_map_used _ IH Wl). destruct (tr || match l with [] => true | _ => false end); cbn; rewrite ?app_nil_r; reflexivity.
  - cbn in W. destruct W as [Wt _]. cbn [embed lifetimes_of]. rewrite used_eq. cbn [app flat_map]. rewrite app_nil_r. apply IH. exact Wt.
  - reflexivity.
  - reflexivity.
Qed.

(* the code before the repair: a lifetime used as a generic argument is not reported (finding D11: `Cow<'a, str>` did not compile) *)
Example used_lifetimes_old_refuted :
  let t := GPath "Cow" [] [GLt "a"; GPath "str" [] []] in wf t /\ lifetimes_of t = ["a"] /\ used_lifetimes_old (embed t) = [].
Proof. cbn. repeat split; reflexivity. Qed.
Print Assumptions used_lifetimes_exact.

(* named array lengths (const parameters used as `[T; N]`), at any depth *)
Fixpoint lens_of (t: g) : list (list tt) :=
  match t with
  | GPath _ _ args => flat_map lens_of args
  | GRef _ t => lens_of t
  | GTuple l _ => flat_map lens_of l
  | GArray t (Some (LName s)) => [TId s] :: lens_of t
  | GArray t _ => lens_of t
  | GLt _ | GNever => []
  end.
Lemma lens_eq c w rt ao : array_lens (Ty c w rt ao) =
  (match c with CArray _ (Some (CNamedC v)) => [pr v] | _ => [] end) ++ (match w with Some ws => flat_map array_lens ws | None => [] end).
Proof. reflexivity. Qed.
Lemma flat_map_lens (l: list g) : Forall (fun t => wf t -> array_lens (embed t) = lens_of t) l -> wf_all l ->
  flat_map array_lens (map embed l) = flat_map lens_of l.
Proof.
  intros F W. apply wf_all_Forall in W. induction l as [|x l IH]; [reflexivity|].
  inversion F as [|? ? Fx Fl]; subst. inversion W as [|? ? Wx Wl]; subst. cbn [map flat_map]. rewrite (Fx Wx), (IH Fl Wl). reflexivity.
Qed.
Theorem array_lens_exact : forall t, wf t -> array_lens (embed t) = lens_of t.
Proof.
  induction t as [s0 segs args IH|lt t IH|l tr IH|t len IH|a|] using g_ind2; intros W.
  - cbn in W. destruct W as [_ Wa]. fold (wf_all args) in Wa. cbn [embed lens_of]. rewrite lens_eq. cbn [app].
    destruct args as [|a0 args]; [reflexivity|]. apply (flat_map_lens _ IH Wa).
  - cbn in W. destruct W as [Hb Wt]. cbn [embed lens_of]. specialize (IH Wt). destruct (embed t) as [c w r ao]. rewrite lens_eq in *. exact IH.
  - cbn in W. destruct W as [_ Wl]. fold (wf_all l) in Wl. cbn [embed lens_of]. rewrite lens_eq. cbn [app].
    rewrite flat_map_app, <- (flat_map_lens _ IH Wl). destruct (tr || match l with [] => true | _ => false end); cbn; rewrite ?app_nil_r; reflexivity.
  - cbn in W. destruct W as [Wt Hlen]. cbn [embed lens_of]. rewrite lens_eq. cbn [flat_map]. rewrite app_nil_r, (IH Wt).
    destruct len as [[n|s]|]; [reflexivity| |reflexivity]. rewrite (pr_name s Hlen). reflexivity.
  - reflexivity.
  - reflexivity.
Qed.
Print Assumptions array_lens_exact.
