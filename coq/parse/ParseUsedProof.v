(* C17: the helper that collects the lifetimes a field type uses reports exactly the lifetimes written in the type (so that the generated
   enums declare them); the version of the code before the repair of D11 missed lifetimes used as generic arguments. *)
From Coq Require Import List Arith Lia Bool String.
Import ListNotations.
Require Import P.ParseModel P.ParseGrammar P.ParseProof P.ParsePrintModel P.ParsePrint P.ParseUsed.
Local Open Scope string_scope. Local Open Scope list_scope.

Fixpoint lifetimes_of (t: g) : list string :=
  match t with
  | GPath _ _ args => flat_map lifetimes_of args
  | GRef (Some a) t => a :: lifetimes_of t
  | GRef None t => lifetimes_of t
  | GTuple l _ => flat_map lifetimes_of l
  | GArray t _ => lifetimes_of t
  | GLt a => [a]
  | GNever => []
  end.

Lemma used_eq c w rt ao : used_lifetimes (Ty c w rt ao) =
  (match rt with Some (Some a) => [a] | _ => [] end) ++ (match c with CLifetime a => [a] | _ => [] end) ++ (match w with Some ws => flat_map used_lifetimes ws | None => [] end).
Proof. reflexivity. Qed.

Lemma flat_map_used (l: list g) : Forall (fun t => wf t -> used_lifetimes (embed t) = lifetimes_of t) l -> wf_all l ->
  flat_map used_lifetimes (map embed l) = flat_map lifetimes_of l.
Proof.
  intros F W. apply wf_all_Forall in W. induction l as [|x l IH]; [reflexivity|].
  inversion F as [|? ? Fx Fl]; subst. inversion W as [|? ? Wx Wl]; subst. cbn [map flat_map]. rewrite (Fx Wx), (IH Fl Wl). reflexivity.
Qed.

Theorem used_lifetimes_exact : forall t, wf t -> used_lifetimes (embed t) = lifetimes_of t.
Proof.
  induction t as [s0 segs args IH|lt t IH|l tr IH|t len IH|a|] using g_ind2; intros W.
  - cbn in W. destruct W as [_ Wa]. fold (wf_all args) in Wa. cbn [embed lifetimes_of]. rewrite used_eq. cbn [app].
    destruct args as [|a0 args]; [reflexivity|]. apply (flat_map_used _ IH Wa).
  - cbn in W. destruct W as [Hb Wt]. cbn [embed]. pose proof (embed_base_rt t Hb) as Hrt. specialize (IH Wt).
    destruct (embed t) as [c w r ao]. subst r. rewrite used_eq in *. cbn [app] in IH. destruct lt as [a|]; cbn [lifetimes_of app]; rewrite IH; reflexivity.
  - cbn in W. destruct W as [_ Wl]. fold (wf_all l) in Wl. cbn [embed lifetimes_of]. rewrite used_eq. cbn [app].
    rewrite flat_map_app, <- (flat_map_used _ IH Wl). destruct (tr || match l with [] => true | _ => false end); cbn; rewrite ?app_nil_r; reflexivity.
  - cbn in W. destruct W as [Wt _]. cbn [embed lifetimes_of]. rewrite used_eq. cbn [app flat_map]. rewrite app_nil_r. apply IH. exact Wt.
  - reflexivity.
  - reflexivity.
Qed.

(* the code before the repair: a lifetime used as a generic argument is not reported (finding D11: `Cow<'a, str>` did not compile) *)
Example used_lifetimes_old_refuted :
  let t := GPath "Cow" [] [GLt "a"; GPath "str" [] []] in wf t /\ lifetimes_of t = ["a"] /\ used_lifetimes_old (embed t) = [].
Proof. cbn. repeat split; reflexivity. Qed.
Print Assumptions used_lifetimes_exact.

(* named array lengths (const parameters used as `[T; N]`), at any depth *)
Fixpoint lens_of (t: g) : list (list tt) :=
  match t with
  | GPath _ _ args => flat_map lens_of args
  | GRef _ t => lens_of t
  | GTuple l _ => flat_map lens_of l
  | GArray t (Some (LName s)) => [TId s] :: lens_of t
  | GArray t _ => lens_of t
  | GLt _ | GNever => []
  end.
Lemma lens_eq c w rt ao : array_lens (Ty c w rt ao) =
  (match c with CArray _ (Some (CNamedC v)) => [pr v] | _ => [] end) ++ (match w with Some ws => flat_map array_lens ws | None => [] end).
Proof. reflexivity. Qed.
Lemma flat_map_lens (l: list g) : Forall (fun t => wf t -> array_lens (embed t) = lens_of t) l -> wf_all l ->
  flat_map array_lens (map embed l) = flat_map lens_of l.
Proof.
  intros F W. apply wf_all_Forall in W. induction l as [|x l IH]; [reflexivity|].
  inversion F as [|? ? Fx Fl]; subst. inversion W as [|? ? Wx Wl]; subst. cbn [map flat_map]. rewrite (Fx Wx), (IH Fl Wl). reflexivity.
Qed.
Theorem array_lens_exact : forall t, wf t -> array_lens (embed t) = lens_of t.
Proof.
  induction t as [s0 segs args IH|lt t IH|l tr IH|t len IH|a|] using g_ind2; intros W.
  - cbn in W. destruct W as [_ Wa]. fold (wf_all args) in Wa. cbn [embed lens_of]. rewrite lens_eq. cbn [app].
    destruct args as [|a0 args]; [reflexivity|]. apply (flat_map_lens _ IH Wa).
  - cbn in W. destruct W as [Hb Wt]. cbn [embed lens_of]. specialize (IH Wt). destruct (embed t) as [c w r ao]. rewrite lens_eq in *. exact IH.
  - cbn in W. destruct W as [_ Wl]. fold (wf_all l) in Wl. cbn [embed lens_of]. rewrite lens_eq. cbn [app].
    rewrite flat_map_app, <- (flat_map_lens _ IH Wl). destruct (tr || match l with [] => true | _ => false end); cbn; rewrite ?app_nil_r; reflexivity.
  - cbn in W. destruct W as [Wt Hlen]. cbn [embed lens_of]. rewrite lens_eq. cbn [flat_map]. rewrite app_nil_r, (IH Wt).
    destruct len as [[n|s]|]; [reflexivity| |reflexivity]. rewrite (pr_name s Hlen). reflexivity.
  - reflexivity.
  - reflexivity.
Qed.
Print Assumptions array_lens_exact.

(* ---- which TYPE parameters a field type uses (the names_param tests of derive_struct_diff_struct against the type's own path and Type::wraps()) ----
   Since the repair of D8 / D8b: a parameter is used by a field type exactly when it is the HEAD of some path that occurs anywhere in the type -
   the type itself, a generic argument, an element of a tuple or array, behind any reference; `T` and `T::Item` both count. *)
Fixpoint head (n: string) (t: g) : bool :=
  match t with GPath s0 _ _ => String.eqb s0 n | GRef _ t' => head n t' | _ => false end.
Fixpoint kids (n: string) (t: g) : bool :=
  match t with
  | GPath _ _ args => existsb (fun a => head n a || kids n a) args
  | GRef _ t' => kids n t'
  | GTuple l _ => existsb (fun a => head n a || kids n a) l
  | GArray t' _ => head n t' || kids n t'
  | GLt _ | GNever => false
  end.
Definition used_spec (n: string) (t: g) : bool := head n t || kids n t.

Lemma wraps_eq c w rt ao : wraps_list (Ty c w rt ao) = pr_cat c :: match w with Some ws => flat_map wraps_list ws | None => [] end.
Proof. reflexivity. Qed.
Lemma is_name_path n s0 segs : is_kw s0 = false -> is_name n (pr_path (s0 :: segs)) = String.eqb s0 n.
Proof.
  intros H. cbn [pr_path]. rewrite (kw_nonempty s0 H). cbn [app]. destruct segs as [|s1 r]; reflexivity.
Qed.
Lemma existsb_flat {A} (f: A -> list (list tt)) n (l: list A) : existsb (is_name n) (flat_map f l) = existsb (fun a => existsb (is_name n) (f a)) l.
Proof. induction l as [|a l IH]; [reflexivity|]. cbn [flat_map existsb]. rewrite existsb_app, IH. reflexivity. Qed.

Definition node_ok (n: string) (t: g) : Prop :=
  match embed t with Ty c w rt ao =>
    is_name n (pr_cat c) = head n t /\
    existsb (is_name n) (match w with Some ws => flat_map wraps_list ws | None => [] end) = kids n t end.

Lemma kids_list n (l: list g) : Forall (fun t => wf t -> node_ok n t) l -> wf_all l ->
  existsb (is_name n) (flat_map wraps_list (map embed l)) = existsb (fun a => head n a || kids n a) l.
Proof.
  intros F W. apply wf_all_Forall in W. rewrite existsb_flat. induction l as [|x l IH]; [reflexivity|].
  inversion F as [|? ? Fx Fl]; subst. inversion W as [|? ? Wx Wl]; subst. cbn [map existsb]. rewrite (IH Fl Wl). f_equal.
  specialize (Fx Wx). unfold node_ok in Fx. destruct (embed x) as [c w rt ao]. destruct Fx as (A & C). rewrite wraps_eq. cbn [existsb]. rewrite A, C. reflexivity.
Qed.

Lemma node_ok_all n : forall t, wf t -> node_ok n t.
Proof.
  induction t as [s0 segs args IH|lt t IH|l tr IH|t len IH|a|] using g_ind2; intros W; unfold node_ok.
  - cbn in W. destruct W as [Hkw Wa]. fold (wf_all args) in Wa. cbn [embed pr_cat head]. rewrite (is_name_path n s0 segs Hkw).
    split; [reflexivity|]. destruct args as [|a0 args]; [reflexivity|]. cbn [kids]. apply (kids_list n _ IH Wa).
  - cbn in W. destruct W as [Hb Wt]. specialize (IH Wt). unfold node_ok in IH. cbn [embed head kids].
    destruct (embed t) as [c w r ao]. exact IH.
  - cbn in W. destruct W as [_ Wl]. fold (wf_all l) in Wl. cbn [embed pr_cat head kids is_name].
    split; [reflexivity|]. rewrite flat_map_app, existsb_app. rewrite <- (kids_list n _ IH Wl).
    destruct (tr || match l with [] => true | _ => false end); cbn; rewrite ?orb_false_r; reflexivity.
  - cbn in W. destruct W as [Wt Hlen]. specialize (IH Wt). unfold node_ok in IH. cbn [embed pr_cat head kids flat_map is_name].
    split; [reflexivity|]. rewrite app_nil_r. destruct (embed t) as [c w r ao]. destruct IH as (A & C).
    rewrite wraps_eq. cbn [existsb]. rewrite A, C. reflexivity.
  - repeat split; reflexivity.
  - repeat split; reflexivity.
Qed.

Theorem param_used_exact : forall n t, wf t -> param_used n (embed t) = used_spec n t.
Proof.
  intros n t W. pose proof (node_ok_all n t W) as H. unfold node_ok in H. unfold param_used, used_spec. destruct (embed t) as [c w rt ao].
  destruct H as (A & C). rewrite wraps_eq. cbn [existsb]. rewrite A, C. destruct (head n t); reflexivity.
Qed.
(* the code as it was (known finding D8, repaired): the names carried the reference prefix, so a parameter directly behind a reference inside
   another type was not seen, nor one used only as the head of a longer path *)
Example param_behind_reference_seen :
  wf (GPath "Option" [] [GRef (Some "a") (GPath "T" [] [])]) /\
  (param_used "T" (embed (GPath "Option" [] [GRef (Some "a") (GPath "T" [] [])])) = true) /\
  (param_used "T" (embed (GPath "T" ["Item"] [])) = true) /\
  (param_used "T" (embed (GPath "Vec" [] [GTuple [GRef None (GPath "T" [] []); GPath "u8" [] []] false])) = true) /\
  (param_used "T" (embed (GPath "Tx" [] [GPath "x" ["T"] []])) = false).
Proof. cbn. repeat split; reflexivity. Qed.
Print Assumptions param_used_exact.
