(* C17: model of derive/src/shared.rs — how the parsed attributes of a field / struct are interpreted (skip, recurse, collection and map
   strategies, setter options, expose). Attribute tokens are strings in the code: an identifier and the content of a string literal are
   the same token there; a numeric literal never equals one of the alphabetic names compared with. Executable; extracted. *)
From Coq Require Import List Arith Bool String.
Import ListNotations.
Require Import P.ParseModel P.ParseDecl.
Local Open Scope string_scope. Local Open Scope list_scope.

Inductive map_strategy := KeyOnly | KeyAndValue.
Inductive coll_strategy := OrderedArrayLike | UnorderedArrayLikeHash | UnorderedMapLikeHash (m: map_strategy).

Definition tok_text (t: atok) : option string := match t with AId x => Some x | ALit (LStr x) => Some x | ALit (LNat _) => None end.
Definition tok_is (t: atok) (s: string) : bool := match tok_text t with Some x => x =? s | None => false end.
Definition tok_starts (t: atok) (s: string) : bool := match tok_text t with Some x => prefix s x | None => false end.

Fixpoint find_map {A B} (f: A -> option B) (l: list A) : option B :=
  match l with [] => None | x :: r => match f x with Some b => Some b | None => find_map f r end end.

(* `.any(|attr| attr.tokens.len() == 1 && attr.tokens[0] == name)` *)
Definition flag (name: string) (attrs: list attr) : bool :=
  existsb (fun a => match a with [t] => tok_is t name | _ => false end) attrs.
Definition attrs_skip := flag "skip".
Definition attrs_recurse := flag "recurse".
Definition attrs_all_setters := flag "setters".

Definition attrs_map_strategy (attrs: list attr) : option map_strategy :=
  find_map (fun a => match a with
    | [k; v] => if tok_is k "map_equality" then
                  if tok_is v "key_only" then Some KeyOnly else if tok_is v "key_and_value" then Some KeyAndValue else None
                else None
    | _ => None end) attrs.
Definition attrs_collection_type (attrs: list attr) : option coll_strategy :=
  find_map (fun a => match a with
    | [k; v] => if tok_is k "collection_strategy" then
                  if tok_is v "ordered_array_like" then Some OrderedArrayLike
                  else if tok_is v "unordered_array_like" then Some UnorderedArrayLikeHash
                  else if tok_is v "unordered_map_like" then
                    Some (UnorderedMapLikeHash (match attrs_map_strategy attrs with Some m => m | None => KeyAndValue end))
                  else None
                else None
    | _ => None end) attrs.
(* (local, skip, name override) *)
Definition attrs_setter (attrs: list attr) : bool * bool * option atok :=
  (flag "setter" attrs, flag "skip_setter" attrs,
   find_map (fun a => match a with [k; v] => if tok_is k "setter_name" then Some v else None | _ => None end) attrs).
Definition attrs_expose (attrs: list attr) : option (option atok) :=
  find_map (fun a => match a with
    | [] => None
    | [t] => if tok_starts t "expose" then Some None else None
    | k :: v :: _ => if tok_is k "expose" then Some (Some v) else None
    end) attrs.
