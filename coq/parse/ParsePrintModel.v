(* C17: model of the type printer of derive/src/parse.rs (Type::full / Category::path) at the level of the TOKENS of the printed string
   (the templates splice the string into generated source, which rustc lexes again). Executable; extracted for the correspondence check. *)
From Coq Require Import List Arith Bool String.
Import ListNotations.
Require Import P.ParseModel P.ParseGrammar.
Local Open Scope string_scope. Local Open Scope list_scope.

Definition pr_rt (rt: option (option string)) : list tt :=
  match rt with Some (Some a) => [TP PAmp; TP PQuote; TId a] | Some None => [TP PAmp] | None => [] end.
(* the printed path string, lexed again: an empty first segment is the leading `::` *)
Definition pr_path (path: list string) : list tt := match path with [] => [] | s0 :: segs => (if s0 =? "" then [] else [TId s0]) ++ colons segs end.

(* Type::full: reference prefix, Category::path, then `<` wraps joined by `,` `>` only for named categories *)
Fixpoint pr (t: ty) : list tt :=
  match t with Ty c w rt ao =>
    pr_rt rt ++ pr_cat c ++
    match w, c with Some ws, CNamed _ => TP PLt :: sep_comma (map pr ws) ++ [TP PGt] | _, _ => [] end
  end
with pr_cat (c: cat) : list tt :=
  match c with
  | CNever => [TP PBang]
  | CArray e len => [TG Bracket (pr e ++ match len with None => [] | Some v => TP PSemi :: pr_cvt v end)]
  | CTuple l => [TG Paren (sep_comma (map pr l))]
  | CNamed path => pr_path path
  | CLifetime a => [TP PQuote; TId a]
  | CUnNamed => []
  | CNone => []
  | CAnon fs =>          (* "{\n\tname: type\n ... }\n": no separators between the fields *)
      [TG Brace (flat_map (fun x => match x with (_, Some n, t) => TId n :: TP PColon :: pr t | (_, None, _) => [] end) fs)]
  end
with pr_cvt (v: cvt) : list tt :=
  match v with
  | CValue n => [TLit (LNat n)]
  | CNamedC t => pr t ++ match t with Ty _ _ _ (Some a) => TId "as" :: pr a | _ => [] end
  end.

