(* C17: facts about the generated type definitions (P/ParseBody.v): the borrowed diff enum has the variants of the owned one, under the same
   names and in the same order; the payload of a plain field is the field type as written; the variant names are distinct unless a
   field is named like the `_full` variant of an Option + recurse field (known finding D13, stated exactly). *)
From Coq Require Import List Arith Lia Bool String Ascii.
Import ListNotations.
Require Import P.ParseModel P.ParseGrammar P.ParseProof P.ParsePrintModel P.ParsePrint P.ParseDecl P.ParseDeclGrammar P.ParseDeclProof P.ParseInterp P.ParseInterpProof P.ParseUsed P.ParseHeader P.ParseBody.
Local Open Scope string_scope. Local Open Scope list_scope.

Definition fname (f: field) : string := match f_name f with Some x => x | None => "" end.
Definition opt_recurse (f: field) : bool :=
  attrs_recurse (f_attrs f) && match attrs_collection_type (f_attrs f) with None => true | Some _ => false end && is_option (f_ty f).
(* the names of the variants one field contributes *)
Definition names_of (f: field) : list string := if opt_recurse f then [fname f; (strip_raw (fname f) ++ "_full")%string] else [fname f].

Lemma field_defs_names sn f fd : field_defs sn f = Some fd ->
  map fst (fd_variants fd) = names_of f /\ map fst (fd_ref_variants fd) = names_of f.
Proof.
  unfold field_defs, names_of, opt_recurse, fname. destruct (attrs_recurse (f_attrs f)), (attrs_collection_type (f_attrs f)) as [[| |m]|], (is_option (f_ty f)); cbn [andb];
    try discriminate; intros H;
    repeat match type of H with
    | match ?x with _ => _ end = Some _ => destruct x eqn:?; try discriminate
    | (let '(_, _) := ?x in _) = Some _ => destruct x eqn:?
    end; injection H as <-; cbn; split; reflexivity.
Qed.
Lemma all_some_map {A B} (f: A -> option B) : forall l r, all_some (map f l) = Some r -> Forall2 (fun a b => f a = Some b) l r.
Proof.
  induction l as [|a l IH]; intros r H; cbn in H; [injection H as <-; constructor|].
  destruct (f a) as [b|] eqn:E; [|discriminate]. destruct (all_some (map f l)) as [r'|] eqn:E2; [|discriminate]. injection H as <-. constructor; [exact E|apply IH; reflexivity].
Qed.
Theorem variant_names sn fields ds : all_some (map (field_defs sn) fields) = Some ds ->
  map fst (flat_map fd_variants ds) = flat_map names_of fields /\ map fst (flat_map fd_ref_variants ds) = flat_map names_of fields.
Proof.
  intros H. apply all_some_map in H. induction H as [|f fd l r Hf Hr IH]; [split; reflexivity|]. cbn [flat_map]. rewrite !map_app.
  destruct (field_defs_names sn f fd Hf) as [A B]. destruct IH as [C D]. rewrite A, B, C, D. split; reflexivity.
Qed.

(* string facts *)
Lemma append_length a b : String.length (a ++ b)%string = String.length a + String.length b.
Proof. induction a as [|c a IH]; [reflexivity|]. cbn. rewrite IH. reflexivity. Qed.
Lemma append_cancel_r : forall a b t, (a ++ t)%string = (b ++ t)%string -> a = b.
Proof.
  induction a as [|c a IH]; intros [|c' b] t H; cbn in H.
  - reflexivity.
  - exfalso. assert (L: String.length t = String.length (String c' (b ++ t)%string)) by (rewrite <- H; reflexivity). cbn in L. rewrite append_length in L. lia.
  - exfalso. assert (L: String.length (String c (a ++ t)%string) = String.length t) by (rewrite H; reflexivity). cbn in L. rewrite append_length in L. lia.
  - injection H as -> H. f_equal. apply (IH b t H).
Qed.

(* NoDup of a flat_map: every block is duplicate-free and two different positions never share an element *)
Lemma NoDup_flat_map {A B} (g: A -> list B) : forall l, (forall a, In a l -> NoDup (g a)) ->
  (forall l1 a l2 b l3 x, l = l1 ++ a :: l2 ++ b :: l3 -> In x (g a) -> In x (g b) -> False) -> NoDup (flat_map g l).
Proof.
  induction l as [|a l IH]; intros H1 H2; [constructor|]. cbn [flat_map].
  assert (Hd: forall x, In x (g a) -> ~ In x (flat_map g l)).
  { intros x Hx Hin. apply in_flat_map in Hin. destruct Hin as (b & Hb & Hxb). apply in_split in Hb. destruct Hb as (l2 & l3 & ->).
    apply (H2 [] a l2 b l3 x); [reflexivity|exact Hx|exact Hxb]. }
  assert (Hr: NoDup (flat_map g l)).
  { apply IH; [intros b Hb; apply H1; right; exact Hb|]. intros l1 b l2 c l3 x E. apply (H2 (a :: l1) b l2 c l3 x). rewrite E. reflexivity. }
  specialize (H1 a (or_introl eq_refl)). revert Hd. induction H1 as [|y ys Hy Hys IHy]; intros Hd; [exact Hr|]. cbn [app]. constructor.
  - intros Hin. apply in_app_or in Hin. destruct Hin as [Hin|Hin]; [exact (Hy Hin)|]. apply (Hd y); [left; reflexivity|exact Hin].
  - apply IHy. intros x Hx. apply Hd. right. exact Hx.
Qed.

(* D13 exactly: the variant names are pairwise distinct when the field names are (also with `r#` stripped) and no field bears the name
   of the `_full` variant of an Option + recurse field *)
Theorem variant_names_distinct (fields: list field) :
  NoDup (map fname fields) -> NoDup (map (fun f => strip_raw (fname f)) fields) ->
  (forall f g, In f fields -> In g fields -> opt_recurse g = true -> fname f <> (strip_raw (fname g) ++ "_full")%string) ->
  NoDup (flat_map names_of fields).
Proof.
  intros N1 N2 Hfull. apply NoDup_flat_map.
  - intros f Hf. unfold names_of. destruct (opt_recurse f) eqn:E; [|constructor; [intros []|constructor]].
    constructor; [intros [H|[]]; apply (Hfull f f Hf Hf E); symmetry; exact H|constructor; [intros []|constructor]].
  - intros l1 f l2 g l3 x E Hx Hg.
    assert (Hf_in: In f fields) by (rewrite E; apply in_or_app; right; left; reflexivity).
    assert (Hg_in: In g fields) by (rewrite E; apply in_or_app; right; right; apply in_or_app; right; left; reflexivity).
    assert (Hne: fname f <> fname g).
    { rewrite E in N1. rewrite map_app in N1. cbn [map] in N1. apply NoDup_remove_2 in N1. intros Eq. apply N1. apply in_or_app. right.
      rewrite map_app. apply in_or_app. right. left. symmetry. exact Eq. }
    assert (Hns: strip_raw (fname f) <> strip_raw (fname g)).
    { rewrite E in N2. rewrite map_app in N2. cbn [map] in N2. apply NoDup_remove_2 in N2. intros Eq. apply N2. apply in_or_app. right.
      rewrite map_app. apply in_or_app. right. left. symmetry. exact Eq. }
    unfold names_of in Hx, Hg. destruct (opt_recurse f) eqn:Ef, (opt_recurse g) eqn:Eg; cbn in Hx, Hg.
    + destruct Hx as [<-|[<-|[]]], Hg as [Hg|[Hg|[]]].
      * apply Hne. symmetry. exact Hg.
      * apply (Hfull f g Hf_in Hg_in Eg). symmetry. exact Hg.
      * apply (Hfull g f Hg_in Hf_in Ef). exact Hg.
      * apply Hns. symmetry. apply (append_cancel_r _ _ _ Hg).
    + destruct Hx as [<-|[<-|[]]], Hg as [Hg|[]].
      * apply Hne. symmetry. exact Hg.
      * apply (Hfull g f Hg_in Hf_in Ef). exact Hg.
    + destruct Hx as [<-|[]], Hg as [Hg|[Hg|[]]].
      * apply Hne. symmetry. exact Hg.
      * apply (Hfull f g Hf_in Hg_in Eg). symmetry. exact Hg.
    + destruct Hx as [<-|[]], Hg as [Hg|[]]. apply Hne. symmetry. exact Hg.
Qed.
(* the witness: struct D { #[difference(recurse)] a: Option<Inner>, a_full: i64 } *)
Example d13_clash :
  let inner := Ty (CNamed ["Inner"]) None None None in
  let fa := {| f_attrs := [[AId "recurse"]]; f_name := Some "a"; f_ty := Ty (CNamed ["Option"]) (Some [inner]) None None |} in
  let fb := {| f_attrs := []; f_name := Some "a_full"; f_ty := Ty (CNamed ["i64"]) None None None |} in
  flat_map names_of [fa; fb] = ["a"; "a_full"; "a_full"].
Proof. reflexivity. Qed.

(* the payload of a plain field (no recurse, no collection strategy) is the field type as the user wrote it; the borrowed enum holds a
   reference to it *)
Theorem plain_payload sn (gf: gfield) : wf (gf_ty gf) ->
  attrs_recurse (exp_attrs (gf_attrs gf)) = false -> attrs_collection_type (exp_attrs (gf_attrs gf)) = None ->
  exists fd, field_defs sn (exp_field gf) = Some fd /\ fd_aliases fd = [] /\
             fd_variants fd = [(gf_name gf, lex (gf_ty gf))] /\ fd_ref_variants fd = [(gf_name gf, amp_target ++ lex (gf_ty gf))].
Proof.
  intros W Hr Hc. unfold field_defs. cbn [exp_field f_attrs f_name f_ty]. rewrite Hr, Hc. rewrite (print_embed _ W).
  eexists. split; [reflexivity|]. repeat split.
Qed.

(* ---------- the names of the generated aliases are injective in (struct, field): D18 / D22 cannot come back ---------- *)
From Coq Require Import DecimalString DecimalNat.
Definition is_digit (c: ascii) : bool := let n := nat_of_ascii c in (Nat.leb 48 n && Nat.leb n 57)%bool.
Fixpoint all_digits (s: string) : bool := match s with EmptyString => true | String c r => is_digit c && all_digits r end.
Definition starts_nondigit (s: string) : Prop := match s with EmptyString => False | String c _ => is_digit c = false end.
Lemma all_digits_uint d : all_digits (NilEmpty.string_of_uint d) = true.
Proof. induction d; cbn; try reflexivity; exact IHd. Qed.
Lemma digit_prefix_unique : forall d1 d2 a b, all_digits d1 = true -> all_digits d2 = true -> starts_nondigit a -> starts_nondigit b ->
  (d1 ++ a)%string = (d2 ++ b)%string -> d1 = d2 /\ a = b.
Proof.
  induction d1 as [|c d1 IH]; intros [|c' d2] a b H1 H2 Ha Hb E; cbn in *.
  - split; [reflexivity|exact E].
  - exfalso. subst a. cbn in Ha. apply andb_true_iff in H2. destruct H2 as [H2 _]. congruence.
  - exfalso. subst b. cbn in Hb. apply andb_true_iff in H1. destruct H1 as [H1 _]. congruence.
  - injection E as -> E. apply andb_true_iff in H1. apply andb_true_iff in H2. destruct (IH d2 a b (proj2 H1) (proj2 H2) Ha Hb E) as [-> ->]. split; reflexivity.
Qed.
Lemma dec_inj n m : dec n = dec m -> n = m.
Proof.
  unfold dec. intros H. assert (E: Nat.to_uint n = Nat.to_uint m).
  { pose proof (NilEmpty.usu (Nat.to_uint n)) as A. pose proof (NilEmpty.usu (Nat.to_uint m)) as B. rewrite H in A. rewrite A in B. injection B as B. exact B. }
  rewrite <- (Unsigned.of_to n), <- (Unsigned.of_to m), E. reflexivity.
Qed.
Lemma append_same_length : forall a b x y, String.length a = String.length b -> (a ++ x)%string = (b ++ y)%string -> a = b /\ x = y.
Proof.
  induction a as [|c a IH]; intros [|c' b] x y L E; cbn in *; try discriminate.
  - split; [reflexivity|exact E].
  - injection E as -> E. injection L as L. destruct (IH b x y L E) as [-> ->]. split; reflexivity.
Qed.
Lemma append_assoc (a b c: string) : ((a ++ b) ++ c)%string = (a ++ (b ++ c))%string.
Proof. induction a as [|x a IH]; cbn; [reflexivity|rewrite IH; reflexivity]. Qed.
(* a struct's name is an identifier: it does not start with a digit *)
Theorem alias_names_injective s1 i1 s2 i2 : starts_nondigit (strip_raw s1) -> starts_nondigit (strip_raw s2) ->
  (fst (alias_names s1 i1) = fst (alias_names s2 i2) \/ snd (alias_names s1 i1) = snd (alias_names s2 i2)) -> strip_raw s1 = strip_raw s2 /\ i1 = i2.
Proof.
  intros N1 N2 H. unfold alias_names, alias_owner in H. cbn [fst snd] in H.
  assert (K: forall suf, ("__" ++ (dec (String.length (strip_raw s1)) ++ strip_raw s1) ++ i1 ++ suf)%string = ("__" ++ (dec (String.length (strip_raw s2)) ++ strip_raw s2) ++ i2 ++ suf)%string ->
             strip_raw s1 = strip_raw s2 /\ i1 = i2).
  { intros suf E. cbn in E. injection E as E. rewrite !append_assoc in E.
    assert (Nd: forall s i, starts_nondigit s -> starts_nondigit (s ++ i ++ suf)%string) by (intros [|c s] i Hs; [contradiction|exact Hs]).
    destruct (digit_prefix_unique _ _ _ _ (all_digits_uint _) (all_digits_uint _) (Nd _ i1 N1) (Nd _ i2 N2) E) as [Ed Er].
    apply dec_inj in Ed. destruct (append_same_length _ _ _ _ Ed Er) as [Ea Ei]. split; [exact Ea|]. apply (append_cancel_r _ _ _ Ei). }
  destruct H as [H|H]; [apply (K "StructDiffVec")|apply (K "StructDiffRefVec")]; exact H.
Qed.
(* before the repair the struct's name and the field's name were glued together without the length: `A` + `bc` met `Ab` + `c` *)
Example alias_names_old_clash : ("__" ++ "A" ++ "bc" ++ "StructDiffVec")%string = ("__" ++ "Ab" ++ "c" ++ "StructDiffVec")%string /\
  fst (alias_names "A" "bc") = "__1AbcStructDiffVec" /\ fst (alias_names "Ab" "c") = "__2AbcStructDiffVec".
Proof. repeat split. Qed.
