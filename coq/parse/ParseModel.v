(* C17 (partial): model of derive/src/parse.rs::next_type on proc-macro token trees, for the field-type fragment the templates consume *)
From Coq Require Import List Arith Lia Bool String DecimalString.
Import ListNotations.
Local Open Scope string_scope. Local Open Scope list_scope.

Inductive delim := Paren | Bracket | Brace.
Inductive punct := PComma | PBang | PQuote | PAmp | PColon | PLt | PGt | PSemi | PEq | PPlus | PMinus | PHash | POther.
(* literals: the ones the parser looks into are integer literals (array lengths, const defaults: LNat is the VALUE, whatever the spelling -
   `16`, `0x10`, `1_6`, `16usize`; since the repair of D25 the parser reads them the way rustc does) and strings (attribute values) *)
Inductive lit := LNat (n: nat) | LStr (s: string).
Inductive tt := TId (s: string) | TP (c: punct) | TLit (l: lit) | TG (d: delim) (ts: list tt).

(* #[difference(...)] attributes: Attribute.tokens are names and literal values; Attribute.name is always "difference" *)
Inductive atok := AId (s: string) | ALit (l: lit).
Definition attr := list atok.

(* CAnon: the body of a struct-like enum variant (Category::AnonymousStruct): attributes, name and type of each field;
   CNone: Category::None, the "type" of a unit variant *)
Inductive cvt := CValue (n: nat) | CNamedC (t: ty)
with cat := CNever | CArray (t: ty) (len: option cvt) | CTuple (l: list ty) | CNamed (path: list string) | CLifetime (s: string) | CUnNamed
          | CAnon (fields: list (list attr * option string * ty)) | CNone
with ty := Ty (ident: cat) (wraps: option (list ty)) (rt: option (option string)) (as_other: option ty).

Definition unnamed : ty := Ty CUnNamed None None None.

(* outcome of a parser function: a value and the remaining stream, a Rust panic, a construct outside the modelled fragment, or fuel exhausted *)
Inductive res (A: Type) := Ok (a: A) (rest: list tt) | Panic | Unsup | Fuel.
Arguments Ok {A}. Arguments Panic {A}. Arguments Unsup {A}. Arguments Fuel {A}.
Definition bind {A B} (r: res A) (k: A -> list tt -> res B) : res B :=
  match r with Ok a rest => k a rest | Panic => Panic | Unsup => Unsup | Fuel => Fuel end.
(* `.expect(..)` on an Option-returning parser *)
Definition expect {A} (r: res (option A)) : res A :=
  match r with Ok (Some a) rest => Ok a rest | Ok None _ => Panic | Panic => Panic | Unsup => Unsup | Fuel => Fuel end.

(* identifiers that start something else than a path (and the empty string, which is not an identifier) *)
Definition is_kw (s: string) : bool :=
  (s =? "") || (s =? "as") || (s =? "impl") || (s =? "dyn") || (s =? "fn") || (s =? "Fn") || (s =? "FnMut") || (s =? "FnOnce").

(* the path string is empty: no leading identifier and no `::segment` read *)
Definition path_empty (p: list string) : bool := match p with [s] => s =? "" | [] => true | _ => false end.

(* read `::ident` repeatedly *)
Fixpoint path_loop (k: nat) (acc: list string) (src: list tt) : res (list string) :=
  match k with 0 => Fuel | S k' =>
    match src with
    | TP PColon :: TP PColon :: rest => match rest with TId s :: rest' => path_loop k' (acc ++ [s]) rest' | _ => Panic end
    | _ => Ok acc src
    end
  end.

(* `&` then an optional lifetime *)
Definition ref_prefix (src: list tt) : res (option (option string)) :=
  match src with
  | TP PAmp :: TP PQuote :: rest => match rest with TId a :: rest' => Ok (Some (Some a)) rest' | _ => Panic end
  | TP PAmp :: rest => Ok (Some None) rest
  | _ => Ok None src
  end.

(* ---- attributes (next_attribute, next_attributes_list) and visibility ---- *)
(* the `loop` of next_attribute over the argument group; attrs = finished attributes, cur = attr_tokens *)
Fixpoint attr_loop (k: nat) (args: list tt) (attrs: list attr) (cur: attr) : res (list attr) :=
  match k with 0 => Fuel | S k' =>
  match args with
  | [] => Ok attrs []                                                    (* next_eof: break; unfinished tokens are dropped *)
  | TId name :: a1 =>
      let cur1 := cur ++ [AId name] in
      match a1 with
      | [] => Ok (attrs ++ [cur1]) []
      | TP PComma :: a2 => attr_loop k' a2 (attrs ++ [cur1]) []
      | _ =>
          let a2 := match a1 with TP _ :: r => r | _ => a1 end in       (* `=` or any other punct is consumed *)
          match a2 with
          | TLit l :: a3 =>
              let cur2 := cur1 ++ [ALit l] in
              match a3 with
              | [] => Ok (attrs ++ [cur2]) []
              | TP PComma :: a4 => attr_loop k' a4 (attrs ++ [cur2]) []
              | TP _ :: a4 => attr_loop k' a4 attrs cur2                 (* another punct: consumed, tokens carried over *)
              | _ => attr_loop k' a3 attrs cur2
              end
          | _ => Panic                                                   (* "Expecting argument value" *)
          end
      end
  | _ => Panic                                                           (* "Expecting attribute name" *)
  end end.

(* None: no attribute here; Some None: a foreign attribute (skipped); Some (Some l): #[difference(...)] *)
Definition next_attribute (s: list tt) : res (option (option (list attr))) :=
  match s with
  | TP PHash :: s1 =>
      match s1 with
      | TG _ body :: rest =>
          match body with
          | TId name :: b1 =>
              if name =? "difference" then
                match b1 with
                | TG _ args :: _ => bind (attr_loop (S (List.length args)) args [] []) (fun attrs _ => Ok (Some (Some attrs)) rest)
                | _ => Panic
                end
              else Ok (Some None) rest
          | _ => Panic
          end
      | _ => Panic
      end
  | TP _ :: s1 => Ok None s1                                             (* next_punct has consumed it *)
  | _ => Ok None s
  end.

Fixpoint attrs_list (k: nat) (acc: list attr) (s: list tt) : res (list attr) :=
  match k with 0 => Fuel | S k' =>
    bind (next_attribute s) (fun o s1 =>
      match o with None => Ok acc s1 | Some None => attrs_list k' acc s1 | Some (Some l) => attrs_list k' (acc ++ l) s1 end)
  end.

Definition next_vis (s: list tt) : list tt :=
  match s with TId v :: s1 => if v =? "pub" then match s1 with TG Paren _ :: s2 => s2 | _ => s1 end else s | _ => s end.


(* usize::to_string *)
Definition dec (n: nat) : string := NilEmpty.string_of_uint (Nat.to_uint n).
(* how a literal const argument prints back: an integer literal as its value, anything else (a char) as written *)
Definition lit_text (l: lit) : string := match l with LNat n => dec n | LStr s => s end.
Section Loops.
Variable nt : list tt -> res (option ty).
(* next_generic_argument (repair of D28): a generic argument is a type, or a const argument - a literal, a negative literal, a block - kept as a
   NAME that prints back as written; a block is kept as the group's own text, which this model does not reproduce (Unsup) *)
Definition garg (s: list tt) : res (option ty) :=
  match s with
  | TLit l :: r => Ok (Some (Ty (CNamed [lit_text l]) None None None)) r
  | TP PMinus :: TLit l :: r => Ok (Some (Ty (CNamed [("-" ++ lit_text l)%string]) None None None)) r
  | TG Brace _ :: _ => Unsup
  | _ => nt s
  end.
(* next_tuple: while let Some(t) = next_type { push; if no comma break } *)
Fixpoint tuple_loop (k: nat) (acc: list ty) (s: list tt) : res (list ty) :=
  match k with 0 => Fuel | S k' =>
    bind (nt s) (fun o s1 =>
      match o with
      | Some t => match s1 with TP PComma :: s2 => tuple_loop k' (acc ++ [t]) s2 | _ => Ok (acc ++ [t]) s1 end
      | None => Ok acc s1
      end)
  end.
(* while let Some(_) = next_exact_punct(",") { push(next_type.expect) } *)
Fixpoint gen_loop (k: nat) (acc: list ty) (s: list tt) : res (list ty) :=
  match k with 0 => Fuel | S k' =>
    match s with
    | TP PComma :: s1 => bind (expect (garg s1)) (fun t s2 => gen_loop k' (acc ++ [t]) s2)
    | _ => Ok acc s
    end
  end.
(* next_fields: attributes, visibility, `name :` when named, the type, one punct *)
Fixpoint fields_nt (k: nat) (named: bool) (acc: list (list attr * option string * ty)) (s: list tt) : res (list (list attr * option string * ty)) :=
  match k with 0 => Fuel | S k' =>
  match s with
  | [] => Ok acc []
  | _ =>
    bind (attrs_list (S (List.length s)) [] s) (fun attrs s1 =>
      let s2 := next_vis s1 in
      let nm : res (option string) :=
        if named then match s2 with TId n :: TP PColon :: s3 => Ok (Some n) s3 | _ => Panic end else Ok None s2 in
      bind nm (fun name s3 =>
        bind (expect (nt s3)) (fun t s4 =>
          let s5 := match s4 with TP _ :: r => r | _ => s4 end in         (* next_punct: the comma, or whatever punct is there *)
          fields_nt k' named (acc ++ [(attrs, name, t)]) s5)))
  end end.
End Loops.

(* everything after the optional `&['lt]`; nt is next_type at the next lower fuel *)
Definition after_ref (nt: list tt -> res (option ty)) (rt: option (option string)) (src1: list tt) : res (option ty) :=
      match src1 with
      | TG Bracket inner :: rest =>                      (* next_array on the group's own stream *)
          bind (expect (nt inner)) (fun elem inner1 =>
            match inner1 with
            | TP PSemi :: inner2 =>
                match inner2 with
                | TLit (LNat n) :: _ => Ok (Some (Ty (CArray elem (Some (CValue n))) (Some [elem]) rt None)) rest
                | [] => Panic
                | _ => bind (expect (nt inner2)) (fun c _ => Ok (Some (Ty (CArray elem (Some (CNamedC c))) (Some [elem]) rt None)) rest)
                end
            | _ => Ok (Some (Ty (CArray elem None) (Some [elem]) rt None)) rest
            end)
      | TG Paren inner :: rest =>                        (* next_tuple: while let Some(t) = next_type { push; if no comma break } *)
          bind (tuple_loop nt (S (List.length inner)) [] inner)
               (fun ws _ => Ok (Some (Ty (CTuple ws) (Some ws) rt None)) rest)
      | TG Brace body :: rest =>                         (* next_struct on the group: an anonymous struct with named fields *)
          bind (fields_nt nt (S (List.length body)) true [] body)
               (fun fs _ => Ok (Some (Ty (CAnon fs) (Some (map (fun f => snd f) fs)) rt None)) rest)
      | _ =>
        if (match src1 with TId s :: _ => is_kw s | _ => false end) then Unsup      (* impl / dyn / fn-like / as: outside the fragment *)
        else
        (* `let mut ty = next_ident(..).unwrap_or_default()`: a path that starts with `::` keeps an EMPTY first segment ("::std::vec::Vec");
           `ty.is_empty()` holds exactly when nothing at all was read *)
        let '(first, src2) := match src1 with TId s :: rest => ([s], rest) | _ => ([""], src1) end in
        bind (path_loop (S (List.length src2)) first src2) (fun path src3 =>
          match src3 with
          | TP PLt :: src4 =>
              if path_empty path then Unsup                (* <T as Trait>::Assoc *)
              else
                bind (expect (garg nt src4)) (fun g0 src5 =>
                bind (gen_loop nt (S (List.length src5)) [g0] src5)
                     (fun gens src6 =>
                        match src6 with
                        | TP PGt :: src7 => Ok (Some (Ty (CNamed path) (Some gens) rt None)) src7
                        | TId s :: _ => if s =? "as" then Unsup else Panic
                        | TP PEq :: _ => Unsup
                        | _ => Panic
                        end))
          | TId s :: _ => if s =? "as" then Unsup
                          else if path_empty path then Ok (Some (Ty CUnNamed None rt None)) src3 else Ok (Some (Ty (CNamed path) None rt None)) src3
          | _ => if path_empty path then Ok (Some (Ty CUnNamed None rt None)) src3 else Ok (Some (Ty (CNamed path) None rt None)) src3
          end)
      end.

Fixpoint next_type (fuel: nat) (src: list tt) : res (option ty) :=
  match fuel with 0 => Fuel | S f =>
  match src with
  | TP PComma :: rest => Ok None rest
  | TP PBang :: rest => Ok (Some (Ty CNever None None None)) rest
  | TP PQuote :: rest => match rest with TId a :: rest' => Ok (Some (Ty (CLifetime a) None None None)) rest' | _ => Panic end
  | _ => bind (ref_prefix src) (after_ref (next_type f))
  end
  end.
