From Coq Require Import List Arith Lia Bool String.
Import ListNotations.
Require Import P.ParseModel.
Local Open Scope string_scope. Local Open Scope list_scope.

(* the grammar of supported field types *)
Inductive glen := LNum (n: nat) | LName (s: string).
Inductive g :=
  | GPath (seg0: string) (segs: list string) (args: list g)       (* a::b::C<args> ; args = [] means no angle brackets *)
  | GRef (lt: option string) (t: g)
  | GTuple (l: list g) (trailing: bool)
  | GArray (t: g) (len: option glen)
  | GLt (a: string)
  | GNever.

Fixpoint sep_comma (ls: list (list tt)) : list tt :=
  match ls with [] => [] | [x] => x | x :: r => x ++ TP PComma :: sep_comma r end.
Definition colons (segs: list string) : list tt := flat_map (fun s => [TP PColon; TP PColon; TId s]) segs.

Fixpoint lex (t: g) : list tt :=
  match t with
  | GPath s0 segs args => TId s0 :: colons segs ++ match args with [] => [] | _ => TP PLt :: sep_comma (map lex args) ++ [TP PGt] end
  | GRef None t => TP PAmp :: lex t
  | GRef (Some a) t => TP PAmp :: TP PQuote :: TId a :: lex t
  | GTuple l tr => [TG Paren (sep_comma (map lex l) ++ if tr then [TP PComma] else [])]
  | GArray t None => [TG Bracket (lex t)]
  | GArray t (Some (LNum n)) => [TG Bracket (lex t ++ [TP PSemi; TLit (LNat n)])]
  | GArray t (Some (LName s)) => [TG Bracket (lex t ++ [TP PSemi; TId s])]
  | GLt a => [TP PQuote; TId a]
  | GNever => [TP PBang]
  end.

(* the parse result the templates should see *)
Fixpoint embed (t: g) : ty :=
  match t with
  | GPath s0 segs args => Ty (CNamed (s0 :: segs)) (match args with [] => None | _ => Some (map embed args) end) None None
  | GRef lt t => match embed t with Ty i w _ a => Ty i w (Some lt) a end
  | GTuple l tr => let ws := map embed l ++ (if tr || match l with [] => true | _ => false end then [unnamed] else []) in Ty (CTuple ws) (Some ws) None None
  | GArray t len => let e := embed t in
      Ty (CArray e (match len with None => None | Some (LNum n) => Some (CValue n) | Some (LName s) => Some (CNamedC (Ty (CNamed [s]) None None None)) end)) (Some [e]) None None
  | GLt a => Ty (CLifetime a) None None None
  | GNever => Ty CNever None None None
  end.

Definition G_option_ref := GPath "Option" [] [GRef (Some "a") (GPath "T" [] [])].
Definition G_map := GPath "std" ["collections"; "HashMap"] [GPath "K" [] []; GPath "Vec" [] [GPath "V" [] []]].
Definition G_tup1 := GTuple [GPath "A" [] []] true.
Definition G_unit := GTuple [] false.
Definition G_arr := GRef None (GArray (GPath "u8" [] []) (Some (LNum 4))).
Definition G_arrN := GArray (GTuple [GPath "A" [] []; GNever] false) (Some (LName "N")).
Definition check (t: g) : bool :=
  match next_type 20 (lex t ++ [TP PComma; TId "next"]) with
  | Ok (Some r) [TP PComma; TId "next"] => match embed t, r with a, b => true end
  | _ => false end.
Eval vm_compute in (map (fun t => next_type 20 (lex t)) [G_option_ref; G_tup1; G_unit]).
Eval vm_compute in (map embed [G_option_ref; G_tup1; G_unit]).
Eval vm_compute in (map check [G_option_ref; G_map; G_tup1; G_unit; G_arr; G_arrN]).
