(* C17: printing (P/ParsePrintModel.v) the parse result of any well-formed type of the grammar gives back exactly the tokens the user wrote. *)
From Coq Require Import List Arith Lia Bool String.
Import ListNotations.
Require Import P.ParseModel P.ParseGrammar P.ParseProof P.ParsePrintModel.
Local Open Scope string_scope. Local Open Scope list_scope.

Lemma pr_eq c w rt ao : pr (Ty c w rt ao) =
  pr_rt rt ++ pr_cat c ++ match w, c with Some ws, CNamed _ => TP PLt :: sep_comma (map pr ws) ++ [TP PGt] | _, _ => [] end.
Proof. reflexivity. Qed.
Lemma pr_cat_array e len : pr_cat (CArray e len) = [TG Bracket (pr e ++ match len with None => [] | Some v => TP PSemi :: pr_cvt v end)].
Proof. reflexivity. Qed.
Lemma pr_cat_tuple l : pr_cat (CTuple l) = [TG Paren (sep_comma (map pr l))].
Proof. reflexivity. Qed.

Lemma pr_set_rt rt t : (match t with Ty _ _ r _ => r = None end) -> pr (set_rt rt t) = pr_rt rt ++ pr t.
Proof. destruct t as [c w r ao]. intros ->. cbn [set_rt]. rewrite !pr_eq. reflexivity. Qed.

Lemma embed_base_rt t : is_base t = true -> match embed t with Ty _ _ r _ => r = None end.
Proof. destruct t; cbn; try discriminate; intros _; reflexivity. Qed.

Lemma sep_comma_snoc_empty (xs: list (list tt)) : xs <> [] -> sep_comma (xs ++ [[]]) = sep_comma xs ++ [TP PComma].
Proof.
  induction xs as [|x xs IH]; intros H; [contradiction|]. destruct xs as [|y ys].
  - cbn. rewrite ?app_nil_r. reflexivity.
  - change ((x :: y :: ys) ++ [[]]) with (x :: ((y :: ys) ++ [[]])).
    change (sep_comma (x :: y :: ys)) with (x ++ TP PComma :: sep_comma (y :: ys)).
    assert (E: forall a b r, sep_comma (a :: b :: r) = a ++ TP PComma :: sep_comma (b :: r)) by reflexivity.
    cbn [app]. rewrite E. change (y :: ys ++ [[]]) with ((y :: ys) ++ [[]]). rewrite IH by discriminate.
    rewrite <- app_assoc. reflexivity.
Qed.

Lemma map_pr_embed (l: list g) : Forall (fun t => wf t -> pr (embed t) = lex t) l -> wf_all l -> map pr (map embed l) = map lex l.
Proof.
  intros F W. apply wf_all_Forall in W. induction l as [|x l IH]; [reflexivity|].
  inversion F as [|? ? Fx Fl]; subst. inversion W as [|? ? Wx Wl]; subst. cbn [map]. rewrite (Fx Wx), (IH Fl Wl). reflexivity.
Qed.

Lemma pr_name n : is_kw n = false -> pr (Ty (CNamed [n]) None None None) = [TId n].
Proof. intros H. cbn [pr pr_rt pr_cat pr_path app]. rewrite (kw_nonempty n H). reflexivity. Qed.

(* printing the expected parse tree gives back the source tokens *)
Theorem print_embed : forall t, wf t -> pr (embed t) = lex t.
Proof.
  induction t as [s0 segs args IH|lt t IH|l tr IH|t len IH|a|] using g_ind2; intros W.
  - cbn in W. destruct W as [Hkw Wa]. fold (wf_all args) in Wa. cbn [embed lex]. rewrite pr_eq. cbn [pr_rt pr_cat pr_path]. rewrite (kw_nonempty s0 Hkw). cbn [app].
    destruct args as [|a0 args]; [rewrite app_nil_r; reflexivity|].
    rewrite (map_pr_embed _ IH Wa). reflexivity.
  - cbn in W. destruct W as [Hb Wt]. cbn [embed]. fold (set_rt (Some lt) (embed t)).
    rewrite pr_set_rt by (apply embed_base_rt; exact Hb). rewrite (IH Wt). destruct lt; reflexivity.
  - cbn in W. destruct W as [Htr Wl]. fold (wf_all l) in Wl. cbn [embed lex]. rewrite pr_eq. cbn [pr_rt app]. rewrite pr_cat_tuple, app_nil_r.
    f_equal. f_equal. rewrite map_app, (map_pr_embed _ IH Wl).
    destruct l as [|x l].
    + destruct tr; [exfalso; apply Htr; reflexivity|]. reflexivity.
    + cbn [orb]. rewrite orb_false_r. destruct tr.
      * cbn [map]. change [pr unnamed] with [@nil tt]. apply sep_comma_snoc_empty. discriminate.
      * cbn [map]. rewrite !app_nil_r. reflexivity.
  - cbn in W. destruct W as [Wt Hlen]. cbn [embed lex]. rewrite pr_eq. cbn [pr_rt app]. rewrite pr_cat_array, app_nil_r, (IH Wt).
    destruct len as [[n|s]|]; [reflexivity| |rewrite app_nil_r; reflexivity].
    cbn [pr_cvt pr pr_rt pr_cat pr_path app]. rewrite (kw_nonempty s Hlen). reflexivity.
  - reflexivity.
  - reflexivity.
Qed.

(* parse, then print: the tokens the user wrote, and nothing of the context consumed *)
Theorem print_parse_roundtrip : forall t rest, wf t -> stop rest ->
  exists r, next_type (S (depth t)) (lex t ++ rest) = Ok (Some r) rest /\ pr r = lex t.
Proof. intros t rest W Hs. exists (embed t). split; [apply parse_complete; assumption|apply print_embed; exact W]. Qed.
