(* C17: the grammar of supported struct DECLARATIONS (what a user may write), its token trees, and the parse result the templates expect *)
From Coq Require Import List Arith Bool String.
Import ListNotations.
Require Import P.ParseModel P.ParseGrammar P.ParsePrintModel P.ParseDecl.
Local Open Scope string_scope. Local Open Scope list_scope.

(* #[difference(item, item = "value", ...[,])] and foreign attributes (doc comments arrive as #[doc = "..."]) *)
Inductive gitem := IFlag (name: string) | IKv (name: string) (value: lit).
Inductive gattr :=
  | GADiff (items: list gitem) (trailing: bool)
  | GAOther (name: string) (rest: list tt).
Inductive gvis := VNone | VPub | VPubIn (inner: list tt).            (* pub(crate), pub(in path) *)
Record gfield := { gf_attrs: list gattr; gf_vis: gvis; gf_name: string; gf_ty: g }.
Inductive gparam :=
  | PLife (a: string) (bounds: list string)                          (* 'a: 'b + 'c *)
  | PType (name: string) (bounds: list g) (default: option g)        (* T: B1 + B2 = D *)
  | PConst (name: string) (t: g) (default: option glen).             (* const N: usize = 4 *)
Record gwhere := { gw_ty: g; gw_bounds: list g }.                    (* Vec<T>: Clone + 'a *)
Record ggenerics := { gg_params: list gparam; gg_where: option (list gwhere * bool) }.     (* bool: trailing comma *)
Record gdecl := { d_attrs: list gattr; d_pub: bool; d_name: string; d_generics: option ggenerics; d_fields: list gfield; d_trailing: bool }.

Fixpoint sep_plus (ls: list (list tt)) : list tt :=
  match ls with [] => [] | [x] => x | x :: r => x ++ TP PPlus :: sep_plus r end.

Definition lex_item (i: gitem) : list tt := match i with IFlag n => [TId n] | IKv n v => [TId n; TP PEq; TLit v] end.
Definition lex_attr (a: gattr) : list tt :=
  match a with
  | GADiff items tr => [TP PHash; TG Bracket [TId "difference"; TG Paren (sep_comma (map lex_item items) ++ if tr then [TP PComma] else [])]]
  | GAOther n rest => [TP PHash; TG Bracket (TId n :: rest)]
  end.
Definition lex_vis (v: gvis) : list tt := match v with VNone => [] | VPub => [TId "pub"] | VPubIn ts => [TId "pub"; TG Paren ts] end.
Definition lex_field (f: gfield) : list tt :=
  flat_map lex_attr (gf_attrs f) ++ lex_vis (gf_vis f) ++ TId (gf_name f) :: TP PColon :: lex (gf_ty f).
Definition lex_bounds (bs: list g) : list tt := match bs with [] => [] | _ => TP PColon :: sep_plus (map lex bs) end.
Definition lex_param (p: gparam) : list tt :=
  match p with
  | PLife a bs => TP PQuote :: TId a :: match bs with [] => [] | _ => TP PColon :: sep_plus (map (fun b => [TP PQuote; TId b]) bs) end
  | PType n bs d => TId n :: lex_bounds bs ++ match d with None => [] | Some t => TP PEq :: lex t end
  | PConst n t d => TId "const" :: TId n :: TP PColon :: lex t ++
      match d with None => [] | Some (LNum k) => [TP PEq; TLit (LNat k)] | Some (LName s) => [TP PEq; TId s] end
  end.
Definition lex_where (w: gwhere) : list tt := lex (gw_ty w) ++ TP PColon :: sep_plus (map lex (gw_bounds w)).
Definition lex_generics (og: option ggenerics) : list tt :=
  match og with
  | None => []
  | Some gg => TP PLt :: sep_comma (map lex_param (gg_params gg)) ++ TP PGt ::
      match gg_where gg with None => [] | Some (ws, tr) => TId "where" :: sep_comma (map lex_where ws) ++ if tr then [TP PComma] else [] end
  end.
Definition lex_body (fs: list gfield) (tr: bool) : list tt := sep_comma (map lex_field fs) ++ if tr then [TP PComma] else [].
Definition lexd (d: gdecl) : list tt :=
  flat_map lex_attr (d_attrs d) ++ (if d_pub d then [TId "pub"] else []) ++
  TId "struct" :: TId (d_name d) :: lex_generics (d_generics d) ++ [TG Brace (lex_body (d_fields d) (d_trailing d))].

(* ---- the expected parse result ---- *)
Definition exp_item (i: gitem) : attr := match i with IFlag n => [AId n] | IKv n v => [AId n; ALit v] end.
Definition exp_attrs (l: list gattr) : list attr :=
  flat_map (fun a => match a with GADiff items _ => map exp_item items | GAOther _ _ => [] end) l.
Definition exp_field3 (f: gfield) : list attr * option string * ty := (exp_attrs (gf_attrs f), Some (gf_name f), embed (gf_ty f)).
Definition exp_field (f: gfield) : field := {| f_attrs := exp_attrs (gf_attrs f); f_name := Some (gf_name f); f_ty := embed (gf_ty f) |}.
Definition exp_param (p: gparam) : generic :=
  match p with
  | PLife a bs => GnLife a bs
  | PType n bs d => GnType [TId n] (option_map embed d) (map embed bs)
  | PConst n t d => GnConst n (embed t)
      match d with None => None | Some (LNum k) => Some (CValue k) | Some (LName s) => Some (CNamedC (Ty (CNamed [s]) None None None)) end
  end.
Definition exp_where (w: gwhere) : generic := GnWhere (lex (gw_ty w)) (map embed (gw_bounds w)).

Section Expected.
Variable dedup_ty : list ty -> list ty.
Variable dedup_lt : list string -> list string.
(* a where-clause item either bounds something new (appended as a where bound) or names a declared type parameter, whose bounds it extends *)
Definition has_gkey (gens: list generic) (k: list tt) : bool := existsb (fun g => tts_eqb (gkey g) k) gens.
Definition exp_merge (gens: list generic) (w: gwhere) : list generic :=
  let k := lex (gw_ty w) in
  if has_gkey gens k then
    map (fun g => match g with GnType k' d b => if tts_eqb k' k then GnType k' d (b ++ map embed (gw_bounds w)) else g | _ => g end) gens
  else gens ++ [exp_where w].
(* bounds pass through the HashSet only when a where clause follows the parameter list *)
Definition exp_generics (og: option ggenerics) : list generic :=
  match og with
  | None => []
  | Some gg => match gg_where gg with
               | None => map exp_param (gg_params gg)
               | Some (ws, _) => map (dedup_g dedup_ty dedup_lt) (fold_left exp_merge ws (map exp_param (gg_params gg)))
               end
  end.
Definition expected (d: gdecl) : strukt :=
  {| s_name := Some (d_name d); s_named := true; s_fields := map exp_field (d_fields d); s_attrs := exp_attrs (d_attrs d);
     s_generics := exp_generics (d_generics d) |}.
End Expected.

(* ---- well-formedness: what the theorem assumes of a declaration ---- *)
Definition param_key (p: gparam) : list tt := match p with PLife a _ => [TId a] | PType n _ _ => [TId n] | PConst n _ _ => [TId n] end.
Definition all_keys (og: option ggenerics) : list (list tt) :=
  match og with None => [] | Some gg => map param_key (gg_params gg) ++ match gg_where gg with None => [] | Some (ws, _) => map (fun w => lex (gw_ty w)) ws end end.

(* ---- enums ---- *)
Inductive gvbody := VUnit | VTuple (l: list g) (tr: bool) | VStruct (fs: list gfield) (tr: bool).
Record gvariant := { gv_attrs: list gattr; gv_name: string; gv_body: gvbody }.
Record genum := { en_attrs: list gattr; en_pub: bool; en_name: string; en_generics: option ggenerics; en_variants: list gvariant; en_trailing: bool }.

Definition lex_vbody (b: gvbody) : list tt :=
  match b with VUnit => [] | VTuple l tr => lex (GTuple l tr) | VStruct fs tr => [TG Brace (lex_body fs tr)] end.
Definition lex_variant (v: gvariant) : list tt := flat_map lex_attr (gv_attrs v) ++ TId (gv_name v) :: lex_vbody (gv_body v).
Definition lexe (e: genum) : list tt :=
  flat_map lex_attr (en_attrs e) ++ (if en_pub e then [TId "pub"] else []) ++
  TId "enum" :: TId (en_name e) :: lex_generics (en_generics e) ++
  [TG Brace (sep_comma (map lex_variant (en_variants e)) ++ if en_trailing e then [TP PComma] else [])].

Definition exp_vbody (b: gvbody) : ty :=
  match b with
  | VUnit => Ty CNone None None None
  | VTuple l tr => embed (GTuple l tr)
  | VStruct fs _ => let fs3 := map exp_field3 fs in Ty (CAnon fs3) (Some (map (fun f => snd f) fs3)) None None
  end.
Definition exp_variant (v: gvariant) : field := {| f_attrs := exp_attrs (gv_attrs v); f_name := Some (gv_name v); f_ty := exp_vbody (gv_body v) |}.
Section ExpectedEnum.
Variable dedup_ty : list ty -> list ty.
Variable dedup_lt : list string -> list string.
(* the attributes written on the enum item itself are parsed and then dropped (parse_data hands them to the struct derive only) *)
Definition expected_enum (e: genum) : enumt :=
  {| e_name := en_name e; e_variants := map exp_variant (en_variants e); e_attrs := []; e_generics := exp_generics dedup_ty dedup_lt (en_generics e) |}.
End ExpectedEnum.
