(* C17: the interpretation of attributes (P/ParseInterp.v) stated on the ITEMS the user wrote, and its independence of how the items are
   spelled: grouped into one #[difference(..)] or several, with or without trailing commas, in any order, between any foreign attributes. *)
From Coq Require Import List Arith Lia Bool String Permutation.
Import ListNotations.
Require Import P.ParseModel P.ParseDecl P.ParseDeclGrammar P.ParseInterp.
Local Open Scope string_scope. Local Open Scope list_scope.

Definition items_of (l: list gattr) : list gitem := flat_map (fun a => match a with GADiff items _ => items | GAOther _ _ => [] end) l.
Definition item_name (i: gitem) : string := match i with IFlag n => n | IKv n _ => n end.

Lemma exp_attrs_items l : exp_attrs l = map exp_item (items_of l).
Proof. unfold exp_attrs, items_of. induction l as [|a l IH]; [reflexivity|]. cbn [flat_map]. rewrite map_app, IH. destruct a; reflexivity. Qed.

(* ---- flags ---- *)
Lemma flag_spec n items : flag n (map exp_item items) = true <-> In (IFlag n) items.
Proof.
  unfold flag. rewrite existsb_exists. split.
  - intros (a & Hin & Ha). apply in_map_iff in Hin. destruct Hin as (i & <- & Hi). destruct i as [m|m v]; cbn in Ha; [|discriminate].
    unfold tok_is in Ha. cbn in Ha. apply String.eqb_eq in Ha. subst. exact Hi.
  - intros Hi. exists [AId n]. split; [apply in_map_iff; exists (IFlag n); split; [reflexivity|exact Hi]|]. unfold tok_is. cbn. apply String.eqb_refl.
Qed.

(* ---- key = value items ---- *)
Definition lookup (n: string) (items: list gitem) : option lit :=
  find_map (fun i => match i with IKv m v => if m =? n then Some v else None | IFlag _ => None end) items.

Lemma lookup_none n items : ~ In n (map item_name items) -> lookup n items = None.
Proof.
  unfold lookup. induction items as [|i r IH]; intros H; [reflexivity|]. cbn [find_map]. destruct i as [m|m v].
  - apply IH. intros Hin. apply H. right. exact Hin.
  - destruct (String.eqb_spec m n) as [->|Hne]; [exfalso; apply H; left; reflexivity|]. apply IH. intros Hin. apply H. right. exact Hin.
Qed.
Lemma lookup_in n v items : NoDup (map item_name items) -> (lookup n items = Some v <-> In (IKv n v) items).
Proof.
  unfold lookup. induction items as [|i r IH]; intros ND; [cbn; split; [discriminate|contradiction]|].
  cbn [map] in ND. inversion ND as [|? ? Hn Hr]; subst. cbn [find_map]. destruct i as [m|m w].
  - rewrite (IH Hr). split; [intros H; right; exact H|intros [H|H]; [discriminate|exact H]].
  - destruct (String.eqb_spec m n) as [->|Hne].
    + split; [intros [= ->]; left; reflexivity|]. intros [[= ->]|H]; [reflexivity|]. exfalso. apply Hn. apply in_map_iff. exists (IKv n v). split; [reflexivity|exact H].
    + rewrite (IH Hr). split; [intros H; right; exact H|intros [[= -> _]|H]; [contradiction|exact H]].
Qed.

Definition lit_is (v: lit) (s: string) : bool := match v with LStr x => x =? s | LNat _ => false end.
Definition map_of (o: option lit) : option map_strategy :=
  match o with Some v => if lit_is v "key_only" then Some KeyOnly else if lit_is v "key_and_value" then Some KeyAndValue else None | None => None end.
Definition coll_of (o: option lit) (ms: option map_strategy) : option coll_strategy :=
  match o with
  | Some v => if lit_is v "ordered_array_like" then Some OrderedArrayLike
              else if lit_is v "unordered_array_like" then Some UnorderedArrayLikeHash
              else if lit_is v "unordered_map_like" then Some (UnorderedMapLikeHash (match ms with Some m => m | None => KeyAndValue end))
              else None
  | None => None end.

Lemma tok_is_lit v s : tok_is (ALit v) s = lit_is v s. Proof. destruct v; reflexivity. Qed.
Lemma tok_is_id m s : tok_is (AId m) s = (m =? s). Proof. reflexivity. Qed.

(* a key/value attribute read by `find_map` with a value filter: under distinct names only the item of that name matters *)
Lemma kv_find {B} (key: string) (val: lit -> option B) items : NoDup (map item_name items) ->
  find_map (fun a : attr => match a with [k; v] => if tok_is k key then match v with ALit l => val l | AId _ => None end else None | _ => None end) (map exp_item items)
  = match lookup key items with Some l => val l | None => None end.
Proof.
  induction items as [|i r IH]; intros ND; [reflexivity|]. cbn [map] in ND. inversion ND as [|? ? Hn Hr]; subst.
  cbn [map find_map]. destruct i as [m|m w]; cbn [exp_item].
  - unfold lookup in *. cbn [find_map]. apply IH. exact Hr.
  - rewrite tok_is_id. unfold lookup at 1. cbn [find_map]. destruct (String.eqb_spec m key) as [->|Hne].
    + destruct (val w) eqn:E; [reflexivity|]. rewrite (IH Hr). rewrite (lookup_none key r Hn). reflexivity.
    + fold (lookup key r). apply IH. exact Hr.
Qed.

Lemma find_map_ext {A B} (f g: A -> option B) l : (forall x, In x l -> f x = g x) -> find_map f l = find_map g l.
Proof.
  induction l as [|x r IH]; intros H; [reflexivity|]. cbn [find_map]. rewrite (H x (or_introl eq_refl)).
  destruct (g x); [reflexivity|]. apply IH. intros y Hy. apply H. right. exact Hy.
Qed.
Ltac by_items := apply find_map_ext; intros a Ha; apply in_map_iff in Ha; destruct Ha as (i & <- & _); destruct i as [m|m w]; cbn [exp_item]; [reflexivity|]; rewrite ?tok_is_lit; reflexivity.

Theorem map_strategy_spec items : NoDup (map item_name items) -> attrs_map_strategy (map exp_item items) = map_of (lookup "map_equality" items).
Proof.
  intros ND. unfold attrs_map_strategy, map_of.
  rewrite <- (kv_find "map_equality" (fun l => if lit_is l "key_only" then Some KeyOnly else if lit_is l "key_and_value" then Some KeyAndValue else None) items ND).
  by_items.
Qed.

Theorem collection_type_spec items : NoDup (map item_name items) ->
  attrs_collection_type (map exp_item items) = coll_of (lookup "collection_strategy" items) (map_of (lookup "map_equality" items)).
Proof.
  intros ND. unfold attrs_collection_type. rewrite (map_strategy_spec items ND). set (ms := map_of (lookup "map_equality" items)).
  unfold coll_of.
  rewrite <- (kv_find "collection_strategy" (fun l => if lit_is l "ordered_array_like" then Some OrderedArrayLike else if lit_is l "unordered_array_like" then Some UnorderedArrayLikeHash
                 else if lit_is l "unordered_map_like" then Some (UnorderedMapLikeHash (match ms with Some m => m | None => KeyAndValue end)) else None) items ND).
  by_items.
Qed.

Theorem setter_spec items : NoDup (map item_name items) ->
  attrs_setter (map exp_item items) = (flag "setter" (map exp_item items), flag "skip_setter" (map exp_item items), option_map ALit (lookup "setter_name" items)).
Proof.
  intros ND. unfold attrs_setter. f_equal.
  transitivity (match lookup "setter_name" items with Some l => Some (ALit l) | None => None end); [|destruct (lookup "setter_name" items); reflexivity].
  rewrite <- (kv_find "setter_name" (fun l => Some (ALit l)) items ND).
  by_items.
Qed.

(* ---- independence of spelling and order ---- *)
Lemma lookup_perm n l1 l2 : Permutation l1 l2 -> NoDup (map item_name l1) -> lookup n l1 = lookup n l2.
Proof.
  intros P ND1. assert (ND2: NoDup (map item_name l2)) by (eapply Permutation_NoDup; [apply Permutation_map; exact P|exact ND1]).
  destruct (lookup n l1) as [v|] eqn:E1.
  - apply (lookup_in n v l1 ND1) in E1. symmetry. apply (lookup_in n v l2 ND2). eapply Permutation_in; eassumption.
  - destruct (lookup n l2) as [v|] eqn:E2; [|reflexivity]. apply (lookup_in n v l2 ND2) in E2.
    assert (In (IKv n v) l1) by (eapply Permutation_in; [apply Permutation_sym; exact P|exact E2]).
    apply (lookup_in n v l1 ND1) in H. congruence.
Qed.
Lemma flag_perm n l1 l2 : Permutation l1 l2 -> flag n (map exp_item l1) = flag n (map exp_item l2).
Proof.
  intros P. destruct (flag n (map exp_item l1)) eqn:E1; destruct (flag n (map exp_item l2)) eqn:E2; try reflexivity.
  - apply flag_spec in E1. assert (In (IFlag n) l2) by (eapply Permutation_in; eassumption). apply flag_spec in H. congruence.
  - apply flag_spec in E2. assert (In (IFlag n) l1) by (eapply Permutation_in; [apply Permutation_sym; exact P|exact E2]). apply flag_spec in H. congruence.
Qed.

(* two attribute lists that carry the same items (however grouped, ordered, comma-terminated, interleaved with foreign attributes and doc
   comments) are interpreted identically, provided no item name is used twice *)
Theorem interpretation_stable : forall attrs1 attrs2,
  Permutation (items_of attrs1) (items_of attrs2) -> NoDup (map item_name (items_of attrs1)) ->
  attrs_skip (exp_attrs attrs1) = attrs_skip (exp_attrs attrs2) /\
  attrs_recurse (exp_attrs attrs1) = attrs_recurse (exp_attrs attrs2) /\
  attrs_all_setters (exp_attrs attrs1) = attrs_all_setters (exp_attrs attrs2) /\
  attrs_map_strategy (exp_attrs attrs1) = attrs_map_strategy (exp_attrs attrs2) /\
  attrs_collection_type (exp_attrs attrs1) = attrs_collection_type (exp_attrs attrs2) /\
  attrs_setter (exp_attrs attrs1) = attrs_setter (exp_attrs attrs2).
Proof.
  intros a1 a2 P ND1. rewrite !exp_attrs_items.
  assert (ND2: NoDup (map item_name (items_of a2))) by (eapply Permutation_NoDup; [apply Permutation_map; exact P|exact ND1]).
  unfold attrs_skip, attrs_recurse, attrs_all_setters.
  repeat split; try (apply flag_perm; exact P).
  - rewrite (map_strategy_spec _ ND1), (map_strategy_spec _ ND2), (lookup_perm _ _ _ P ND1). reflexivity.
  - rewrite (collection_type_spec _ ND1), (collection_type_spec _ ND2), !(lookup_perm _ _ _ P ND1). reflexivity.
  - rewrite (setter_spec _ ND1), (setter_spec _ ND2), (lookup_perm _ _ _ P ND1), !(flag_perm _ _ _ P). reflexivity.
Qed.
Print Assumptions interpretation_stable.
